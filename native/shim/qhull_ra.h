#pragma once
#include <setjmp.h>
#include <stdio.h>
typedef struct setT { int n; void* e[1]; } setT;
typedef struct vertexT vertexT; typedef struct facetT facetT; typedef struct qhT qhT;
struct vertexT { vertexT* next; double* point; setT* neighbors; };
struct facetT { facetT* next; setT* vertices; unsigned toporient; };
struct qhT { jmp_buf errexit; int NOerrexit; int num_vertices, num_facets; vertexT* vertex_list; facetT* facet_list; double* first_point; void* impl; };
#define qh_False 0
#define qh_ALL 1
#define FORALLvertices for (vertex=qh->vertex_list; vertex && vertex->next; vertex=vertex->next)
#define FORALLfacets for (facet=qh->facet_list; facet && facet->next; facet=facet->next)
#define FOREACHsetelement_(type,set,variable) if (((variable=NULL),set)) for (variable##p=(type**)&((set)->e[0]); (variable=*variable##p++);)
void qh_zero(qhT*, FILE*); void qh_init_A(qhT*, FILE*, FILE*, FILE*, int, char**);
void qh_initflags(qhT*, char*); void qh_init_B(qhT*, double*, int, int, int);
void qh_qhull(qhT*); void qh_triangulate(qhT*); void qh_vertexneighbors(qhT*);
int qh_pointid(qhT*, double*); void qh_freeqhull(qhT*, int); void qh_memfreeshort(qhT*, int*, int*);
