#include "lodepng.h"
#include "MC.h"
extern "C" {
#include "qhull_ra.h"
#include <ccd/ccd.h>
}
#include <cstdlib>
#include <cstring>
unsigned lodepng_decode(unsigned char** out, unsigned* w, unsigned* h, lodepng::State*, const unsigned char*, size_t){*out=nullptr;*w=0;*h=0;return 9999;}
const char* lodepng_error_text(unsigned){return "PNG decoding unavailable in verification build";}
size_t lodepng_get_raw_size(unsigned w, unsigned h, const LodePNGColorMode*){return (size_t)w*h*4;}
namespace MC { void marching_cube(MC_FLOAT*, muint, muint, muint, mcMesh&){ abort(); } }
extern "C" {
static ccd_vec3_t origin_ = {{0,0,0}};
ccd_vec3_t* ccd_vec3_origin = &origin_;
void ccdFirstDirDefault(const void*, const void*, ccd_vec3_t* d){ccdVec3Set(d,1,0,0);}
int ccdMPRPenetration(const void*, const void*, const ccd_t*, ccd_real_t*, ccd_vec3_t*, ccd_vec3_t*){ abort(); }
void qh_zero(qhT* qh, FILE*){ memset(qh,0,sizeof(*qh)); }
void qh_init_A(qhT*, FILE*, FILE*, FILE*, int, char**){}
void qh_initflags(qhT*, char*){}
void qh_init_B(qhT* qh, double*, int, int, int){ longjmp(qh->errexit, 1); }
void qh_qhull(qhT*){} void qh_triangulate(qhT*){} void qh_vertexneighbors(qhT*){}
int qh_pointid(qhT*, double*){return -1;} void qh_freeqhull(qhT*, int){} void qh_memfreeshort(qhT*, int* a, int* b){*a=*b=0;}
}
