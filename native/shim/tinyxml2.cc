// Minimal tinyxml2-compatible shim: implementation.
#include "tinyxml2.h"

#include <cctype>
#include <cstdint>

namespace tinyxml2 {

// ---------------------------------------------------------------- XMLNode
XMLNode::~XMLNode() { DeleteChildren(); }

void XMLNode::Unlink(XMLNode* n) {
  if (n->prev_) n->prev_->next_ = n->next_; else first_ = n->next_;
  if (n->next_) n->next_->prev_ = n->prev_; else last_ = n->prev_;
  n->prev_ = n->next_ = nullptr;
  n->parent_ = nullptr;
}

void XMLNode::DeleteChildren() {
  while (first_) {
    XMLNode* n = first_;
    Unlink(n);
    delete n;
  }
}

void XMLNode::DeleteChild(XMLNode* n) {
  if (!n || n->parent_ != this) return;
  Unlink(n);
  delete n;
}

XMLNode* XMLNode::InsertEndChild(XMLNode* n) {
  if (!n || n->doc_ != doc_) return nullptr;
  if (n->parent_) n->parent_->Unlink(n);
  n->prev_ = last_;
  n->next_ = nullptr;
  if (last_) last_->next_ = n; else first_ = n;
  last_ = n;
  n->parent_ = this;
  return n;
}

XMLNode* XMLNode::InsertFirstChild(XMLNode* n) {
  if (!n || n->doc_ != doc_) return nullptr;
  if (n->parent_) n->parent_->Unlink(n);
  n->next_ = first_;
  n->prev_ = nullptr;
  if (first_) first_->prev_ = n; else last_ = n;
  first_ = n;
  n->parent_ = this;
  return n;
}

XMLNode* XMLNode::InsertAfterChild(XMLNode* after, XMLNode* n) {
  if (!n || n->doc_ != doc_ || !after || after->parent_ != this) return nullptr;
  if (after == n) return n;
  if (after->next_ == nullptr) return InsertEndChild(n);
  if (n->parent_) n->parent_->Unlink(n);
  n->prev_ = after;
  n->next_ = after->next_;
  after->next_->prev_ = n;
  after->next_ = n;
  n->parent_ = this;
  return n;
}

XMLElement* XMLNode::FirstChildElement(const char* name) const {
  for (XMLNode* n = first_; n; n = n->next_) {
    XMLElement* e = n->ToElement();
    if (e && (!name || !strcmp(e->Name(), name))) return e;
  }
  return nullptr;
}

XMLElement* XMLNode::NextSiblingElement(const char* name) const {
  for (XMLNode* n = next_; n; n = n->next_) {
    XMLElement* e = n->ToElement();
    if (e && (!name || !strcmp(e->Name(), name))) return e;
  }
  return nullptr;
}

XMLNode* XMLNode::DeepClone(XMLDocument* target) const {
  XMLNode* c = ShallowClone(target);
  if (!c) return nullptr;
  for (const XMLNode* n = first_; n; n = n->next_) {
    XMLNode* cc = n->DeepClone(target);
    if (cc) c->InsertEndChild(cc);
  }
  return c;
}

// ---------------------------------------------------------------- comment / text
XMLNode* XMLComment::ShallowClone(XMLDocument* target) const {
  if (!target) target = doc_;
  XMLComment* c = target->NewComment(Value());
  c->line_ = line_;
  return c;
}

XMLNode* XMLText::ShallowClone(XMLDocument* target) const {
  if (!target) target = doc_;
  XMLText* c = target->NewText(Value());
  c->line_ = line_;
  return c;
}

// ---------------------------------------------------------------- XMLElement
XMLElement::~XMLElement() {
  while (attrs_) {
    XMLAttribute* a = attrs_;
    attrs_ = a->next_;
    delete a;
  }
}

const XMLAttribute* XMLElement::FindAttribute(const char* name) const {
  for (XMLAttribute* a = attrs_; a; a = a->next_) {
    if (a->name_ == name) return a;
  }
  return nullptr;
}

const char* XMLElement::Attribute(const char* name, const char* value) const {
  const XMLAttribute* a = FindAttribute(name);
  if (!a) return nullptr;
  if (!value || a->value_ == value) return a->Value();
  return nullptr;
}

XMLAttribute* XMLElement::FindOrCreate(const char* name) {
  XMLAttribute* last = nullptr;
  for (XMLAttribute* a = attrs_; a; a = a->next_) {
    if (a->name_ == name) return a;
    last = a;
  }
  XMLAttribute* a = new XMLAttribute;
  a->name_ = name;
  if (last) last->next_ = a; else attrs_ = a;
  return a;
}

void XMLElement::SetAttribute(const char* name, const char* value) {
  FindOrCreate(name)->value_ = value ? value : "";
}
void XMLElement::SetAttribute(const char* name, int value) {
  char b[64]; snprintf(b, sizeof(b), "%d", value); SetAttribute(name, b);
}
void XMLElement::SetAttribute(const char* name, unsigned value) {
  char b[64]; snprintf(b, sizeof(b), "%u", value); SetAttribute(name, b);
}
void XMLElement::SetAttribute(const char* name, double value) {
  char b[64]; snprintf(b, sizeof(b), "%.17g", value); SetAttribute(name, b);
}
void XMLElement::SetAttribute(const char* name, float value) {
  char b[64]; snprintf(b, sizeof(b), "%.8g", static_cast<double>(value)); SetAttribute(name, b);
}
void XMLElement::SetAttribute(const char* name, bool value) {
  SetAttribute(name, value ? "true" : "false");
}

void XMLElement::DeleteAttribute(const char* name) {
  XMLAttribute* prev = nullptr;
  for (XMLAttribute* a = attrs_; a; prev = a, a = a->next_) {
    if (a->name_ == name) {
      if (prev) prev->next_ = a->next_; else attrs_ = a->next_;
      delete a;
      return;
    }
  }
}

const char* XMLElement::GetText() const {
  for (XMLNode* n = first_; n; n = n->NextSibling()) {
    if (!n->ToElement() && !n->ToComment()) return n->Value();
  }
  return nullptr;
}

XMLNode* XMLElement::ShallowClone(XMLDocument* target) const {
  if (!target) target = doc_;
  XMLElement* e = target->NewElement(Value());
  e->line_ = line_;
  for (XMLAttribute* a = attrs_; a; a = a->next_) {
    XMLAttribute* b = e->FindOrCreate(a->Name());
    b->value_ = a->value_;
    b->line_ = a->line_;
  }
  return e;
}

// ---------------------------------------------------------------- printing
void XMLPrinter::WriteEscaped(const std::string& s, bool attr) {
  for (char c : s) {
    switch (c) {
      case '&': Write("&amp;"); break;
      case '<': Write("&lt;"); break;
      case '>': Write("&gt;"); break;
      case '"': if (attr) Write("&quot;"); else Write("\""); break;
      case '\'': if (attr) Write("&apos;"); else Write("'"); break;
      default: Write(&c, 1);
    }
  }
}

void XMLComment::Print_(XMLPrinter* p, int depth) const {
  if (!p->Compact()) { if (depth > 0 || PreviousSibling()) p->Write("\n"); p->PrintSpace(depth); }
  p->Write("<!--");
  p->Write(Value());
  p->Write("-->");
}

void XMLText::Print_(XMLPrinter* p, int) const { p->WriteEscaped(value_, false); }

void XMLElement::Print_(XMLPrinter* p, int depth) const {
  if (!p->Compact()) { if (depth > 0 || PreviousSibling()) p->Write("\n"); p->PrintSpace(depth); }
  p->Write("<");
  p->Write(Value());
  for (XMLAttribute* a = attrs_; a; a = a->next_) {
    p->Write(" ");
    p->Write(a->Name());
    p->Write("=\"");
    p->WriteEscaped(a->value_, true);
    p->Write("\"");
  }
  if (!first_) {
    p->Write("/>");
    return;
  }
  p->Write(">");
  bool haselem = false;
  for (XMLNode* n = first_; n; n = n->NextSibling()) {
    if (n->ToElement() || n->ToComment()) haselem = true;
    n->Print_(p, depth + 1);
  }
  if (haselem && !p->Compact()) { p->Write("\n"); p->PrintSpace(depth); }
  p->Write("</");
  p->Write(Value());
  p->Write(">");
}

void XMLDocument::Print_(XMLPrinter* p, int) const {
  for (XMLNode* n = first_; n; n = n->NextSibling()) n->Print_(p, 0);
  if (!p->Compact()) p->Write("\n");
}

void XMLDocument::Print(XMLPrinter* streamer) const {
  if (streamer) {
    Print_(streamer, 0);
  } else {
    XMLPrinter stdoutp(stdout);
    Print_(&stdoutp, 0);
  }
}

// ---------------------------------------------------------------- document
XMLElement* XMLDocument::NewElement(const char* name) {
  XMLElement* e = new XMLElement(this);
  e->SetValue(name);
  return e;
}
XMLComment* XMLDocument::NewComment(const char* text) {
  XMLComment* c = new XMLComment(this);
  c->SetValue(text);
  return c;
}
XMLText* XMLDocument::NewText(const char* text) {
  XMLText* t = new XMLText(this);
  t->SetValue(text);
  return t;
}

void XMLDocument::SetError(XMLError e, int line, const char* msg) {
  err_ = e;
  errline_ = line;
  char b[256];
  snprintf(b, sizeof(b), "Error=%s ErrorID=%d (0x%x) Line number=%d", msg, static_cast<int>(e),
           static_cast<unsigned>(e), line);
  errstr_ = b;
}

XMLError XMLDocument::LoadFile(const char* filename) {
  Clear();
  FILE* fp = filename ? fopen(filename, "rb") : nullptr;
  if (!fp) { SetError(XML_ERROR_FILE_NOT_FOUND, 0, "XML_ERROR_FILE_NOT_FOUND"); return err_; }
  std::string data;
  char buf[65536];
  size_t n;
  while ((n = fread(buf, 1, sizeof(buf), fp)) > 0) data.append(buf, n);
  fclose(fp);
  return Parse(data.data(), data.size());
}

namespace {

struct Cursor {
  const char* p;
  const char* end;
  int line;
  bool eof() const { return p >= end; }
  char peek() const { return p < end ? *p : '\0'; }
  void adv() { if (p < end) { if (*p == '\n') ++line; ++p; } }
  bool starts(const char* s) const {
    size_t n = strlen(s);
    return static_cast<size_t>(end - p) >= n && !memcmp(p, s, n);
  }
  void skip(size_t n) { while (n-- && p < end) adv(); }
  void ws() { while (p < end && isspace(static_cast<unsigned char>(*p))) adv(); }
};

bool NameStart(unsigned char c) { return isalpha(c) || c == '_' || c == ':' || c >= 128; }
bool NameChar(unsigned char c) { return NameStart(c) || isdigit(c) || c == '.' || c == '-'; }

void AppendUtf8(std::string& out, uint32_t cp) {
  if (cp < 0x80) out.push_back(static_cast<char>(cp));
  else if (cp < 0x800) { out.push_back(static_cast<char>(0xC0 | (cp >> 6))); out.push_back(static_cast<char>(0x80 | (cp & 0x3F))); }
  else if (cp < 0x10000) { out.push_back(static_cast<char>(0xE0 | (cp >> 12))); out.push_back(static_cast<char>(0x80 | ((cp >> 6) & 0x3F))); out.push_back(static_cast<char>(0x80 | (cp & 0x3F))); }
  else if (cp < 0x110000) { out.push_back(static_cast<char>(0xF0 | (cp >> 18))); out.push_back(static_cast<char>(0x80 | ((cp >> 12) & 0x3F))); out.push_back(static_cast<char>(0x80 | ((cp >> 6) & 0x3F))); out.push_back(static_cast<char>(0x80 | (cp & 0x3F))); }
}

// decode entities and normalise newlines
std::string Decode(const char* s, size_t n) {
  std::string out;
  out.reserve(n);
  for (size_t i = 0; i < n; ++i) {
    char c = s[i];
    if (c == '\r') {
      out.push_back('\n');
      if (i + 1 < n && s[i + 1] == '\n') ++i;
    } else if (c == '&') {
      size_t j = i + 1;
      while (j < n && j - i < 12 && s[j] != ';') ++j;
      if (j < n && s[j] == ';') {
        std::string ent(s + i + 1, j - i - 1);
        bool ok = true;
        if (ent == "amp") out.push_back('&');
        else if (ent == "lt") out.push_back('<');
        else if (ent == "gt") out.push_back('>');
        else if (ent == "quot") out.push_back('"');
        else if (ent == "apos") out.push_back('\'');
        else if (ent.size() > 1 && ent[0] == '#') {
          char* endp = nullptr;
          unsigned long cp = (ent[1] == 'x' || ent[1] == 'X') ? strtoul(ent.c_str() + 2, &endp, 16)
                                                             : strtoul(ent.c_str() + 1, &endp, 10);
          if (endp && *endp == '\0' && cp > 0 && cp < 0x110000) AppendUtf8(out, static_cast<uint32_t>(cp));
          else ok = false;
        } else ok = false;
        if (ok) { i = j; continue; }
      }
      out.push_back('&');
    } else {
      out.push_back(c);
    }
  }
  return out;
}

}  // namespace

XMLError XMLDocument::Parse(const char* xml, size_t nbytes) {
  Clear();
  if (!xml || nbytes == 0 || (nbytes == static_cast<size_t>(-1) && !*xml)) {
    SetError(XML_ERROR_EMPTY_DOCUMENT, 0, "XML_ERROR_EMPTY_DOCUMENT");
    return err_;
  }
  if (nbytes == static_cast<size_t>(-1)) nbytes = strlen(xml);
  // stop at embedded NUL like tinyxml2 (which copies into a NUL-terminated buffer)
  size_t real = strnlen(xml, nbytes);
  Cursor c{xml, xml + real, 1};
  // UTF-8 BOM
  if (c.starts("\xEF\xBB\xBF")) c.skip(3);

  const int kMaxDepth = 500;
  std::vector<XMLNode*> stack;
  stack.push_back(this);
  bool anynode = false;

  while (true) {
    // text up to next '<'
    const char* t0 = c.p;
    int tline = c.line;
    while (!c.eof() && c.peek() != '<') c.adv();
    if (c.p > t0) {
      bool allws = true;
      for (const char* q = t0; q < c.p; ++q) if (!isspace(static_cast<unsigned char>(*q))) { allws = false; break; }
      if (!allws) {
        if (stack.size() == 1) {
          SetError(XML_ERROR_PARSING_TEXT, tline, "XML_ERROR_PARSING_TEXT");
          DeleteChildren();
          return err_;
        }
        XMLText* t = NewText(Decode(t0, c.p - t0).c_str());
        t->line_ = tline;
        stack.back()->InsertEndChild(t);
      }
    }
    if (c.eof()) break;

    int line = c.line;
    if (c.starts("<!--")) {
      c.skip(4);
      const char* s = c.p;
      while (!c.eof() && !c.starts("-->")) c.adv();
      if (c.eof()) { SetError(XML_ERROR_PARSING_COMMENT, line, "XML_ERROR_PARSING_COMMENT"); DeleteChildren(); return err_; }
      XMLComment* cm = NewComment(std::string(s, c.p - s).c_str());
      cm->line_ = line;
      stack.back()->InsertEndChild(cm);
      anynode = true;
      c.skip(3);
    } else if (c.starts("<?")) {
      c.skip(2);
      while (!c.eof() && !c.starts("?>")) c.adv();
      if (c.eof()) { SetError(XML_ERROR_PARSING_DECLARATION, line, "XML_ERROR_PARSING_DECLARATION"); DeleteChildren(); return err_; }
      c.skip(2);
      anynode = true;
    } else if (c.starts("<![CDATA[")) {
      c.skip(9);
      const char* s = c.p;
      while (!c.eof() && !c.starts("]]>")) c.adv();
      if (c.eof() || stack.size() == 1) { SetError(XML_ERROR_PARSING_CDATA, line, "XML_ERROR_PARSING_CDATA"); DeleteChildren(); return err_; }
      XMLText* t = NewText(std::string(s, c.p - s).c_str());
      t->line_ = line;
      stack.back()->InsertEndChild(t);
      c.skip(3);
    } else if (c.starts("<!")) {
      c.skip(2);
      while (!c.eof() && c.peek() != '>') c.adv();
      if (c.eof()) { SetError(XML_ERROR_PARSING_UNKNOWN, line, "XML_ERROR_PARSING_UNKNOWN"); DeleteChildren(); return err_; }
      c.adv();
      anynode = true;
    } else if (c.starts("</")) {
      c.skip(2);
      const char* s = c.p;
      while (!c.eof() && NameChar(static_cast<unsigned char>(c.peek()))) c.adv();
      std::string name(s, c.p - s);
      c.ws();
      if (c.peek() != '>' || stack.size() == 1 || name != stack.back()->Value()) {
        SetError(XML_ERROR_MISMATCHED_ELEMENT, line, "XML_ERROR_MISMATCHED_ELEMENT");
        DeleteChildren();
        return err_;
      }
      c.adv();
      stack.pop_back();
    } else {
      // element
      c.adv();
      if (!NameStart(static_cast<unsigned char>(c.peek()))) {
        SetError(XML_ERROR_PARSING_ELEMENT, line, "XML_ERROR_PARSING_ELEMENT");
        DeleteChildren();
        return err_;
      }
      const char* s = c.p;
      while (!c.eof() && NameChar(static_cast<unsigned char>(c.peek()))) c.adv();
      XMLElement* e = NewElement(std::string(s, c.p - s).c_str());
      e->line_ = line;
      stack.back()->InsertEndChild(e);
      anynode = true;
      bool closed = false, selfclose = false;
      while (!c.eof()) {
        c.ws();
        if (c.peek() == '>') { c.adv(); closed = true; break; }
        if (c.starts("/>")) { c.skip(2); closed = true; selfclose = true; break; }
        if (!NameStart(static_cast<unsigned char>(c.peek()))) break;
        int aline = c.line;
        const char* a0 = c.p;
        while (!c.eof() && NameChar(static_cast<unsigned char>(c.peek()))) c.adv();
        std::string aname(a0, c.p - a0);
        c.ws();
        if (c.peek() != '=') break;
        c.adv();
        c.ws();
        char q = c.peek();
        if (q != '"' && q != '\'') break;
        c.adv();
        const char* v0 = c.p;
        while (!c.eof() && c.peek() != q) c.adv();
        if (c.eof()) break;
        // append (duplicates are kept; lookups return the first)
        XMLAttribute* a = new XMLAttribute;
        a->name_ = aname;
        a->value_ = Decode(v0, c.p - v0);
        a->line_ = aline;
        XMLAttribute* lastattr = e->attrs_;
        while (lastattr && lastattr->next_) lastattr = lastattr->next_;
        if (lastattr) lastattr->next_ = a; else e->attrs_ = a;
        c.adv();
      }
      if (!closed) {
        SetError(XML_ERROR_PARSING_ATTRIBUTE, line, "XML_ERROR_PARSING_ATTRIBUTE");
        DeleteChildren();
        return err_;
      }
      if (!selfclose) {
        if (static_cast<int>(stack.size()) >= kMaxDepth) {
          SetError(XML_ELEMENT_DEPTH_EXCEEDED, line, "XML_ELEMENT_DEPTH_EXCEEDED");
          DeleteChildren();
          return err_;
        }
        stack.push_back(e);
      }
    }
  }

  if (stack.size() != 1) {
    SetError(XML_ERROR_PARSING, c.line, "XML_ERROR_PARSING");
    DeleteChildren();
    return err_;
  }
  if (!anynode) {
    SetError(XML_ERROR_EMPTY_DOCUMENT, 0, "XML_ERROR_EMPTY_DOCUMENT");
    return err_;
  }
  return XML_SUCCESS;
}

}  // namespace tinyxml2
