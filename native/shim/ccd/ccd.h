#ifndef CCD_H
#define CCD_H
#include <ccd/vec3.h>
#ifdef __cplusplus
extern "C" {
#endif
typedef void (*ccd_support_fn)(const void*, const ccd_vec3_t*, ccd_vec3_t*);
typedef void (*ccd_first_dir_fn)(const void*, const void*, ccd_vec3_t*);
typedef void (*ccd_center_fn)(const void*, ccd_vec3_t*);
typedef struct { ccd_first_dir_fn first_dir; ccd_support_fn support1, support2; ccd_center_fn center1, center2; unsigned long max_iterations; ccd_real_t epa_tolerance, mpr_tolerance, dist_tolerance; } ccd_t;
#define CCD_INIT(c) do{(c)->first_dir=ccdFirstDirDefault;(c)->support1=0;(c)->support2=0;(c)->center1=0;(c)->center2=0;(c)->max_iterations=(unsigned long)-1;(c)->epa_tolerance=1e-4;(c)->mpr_tolerance=1e-4;(c)->dist_tolerance=1e-6;}while(0)
void ccdFirstDirDefault(const void*, const void*, ccd_vec3_t*);
int ccdMPRPenetration(const void*, const void*, const ccd_t*, ccd_real_t*, ccd_vec3_t*, ccd_vec3_t*);
#ifdef __cplusplus
}
#endif
#endif
