// Minimal tinyxml2-compatible shim (subset used by MuJoCo's src/xml). Verification harness only.
#ifndef TINYXML2_SHIM_H
#define TINYXML2_SHIM_H
#include <cstdio>
#include <cstring>
#include <cstdlib>
#include <string>
#include <vector>

namespace tinyxml2 {

enum XMLError {
  XML_SUCCESS = 0,
  XML_NO_ATTRIBUTE,
  XML_WRONG_ATTRIBUTE_TYPE,
  XML_ERROR_FILE_NOT_FOUND,
  XML_ERROR_FILE_COULD_NOT_BE_OPENED,
  XML_ERROR_FILE_READ_ERROR,
  XML_ERROR_PARSING_ELEMENT,
  XML_ERROR_PARSING_ATTRIBUTE,
  XML_ERROR_PARSING_TEXT,
  XML_ERROR_PARSING_CDATA,
  XML_ERROR_PARSING_COMMENT,
  XML_ERROR_PARSING_DECLARATION,
  XML_ERROR_PARSING_UNKNOWN,
  XML_ERROR_EMPTY_DOCUMENT,
  XML_ERROR_MISMATCHED_ELEMENT,
  XML_ERROR_PARSING,
  XML_CAN_NOT_CONVERT_TEXT,
  XML_NO_TEXT_NODE,
  XML_ELEMENT_DEPTH_EXCEEDED,
  XML_ERROR_COUNT
};

class XMLDocument;
class XMLElement;
class XMLComment;
class XMLPrinter;

class XMLAttribute {
 public:
  const char* Name() const { return name_.c_str(); }
  const char* Value() const { return value_.c_str(); }
  const XMLAttribute* Next() const { return next_; }
  int GetLineNum() const { return line_; }
 private:
  friend class XMLElement;
  friend class XMLDocument;
  std::string name_, value_;
  XMLAttribute* next_ = nullptr;
  int line_ = 0;
};

class XMLNode {
 public:
  virtual ~XMLNode();
  const char* Value() const { return value_.c_str(); }
  void SetValue(const char* v) { value_ = v ? v : ""; }
  int GetLineNum() const { return line_; }
  XMLDocument* GetDocument() const { return doc_; }
  XMLNode* Parent() const { return parent_; }
  bool NoChildren() const { return first_ == nullptr; }
  XMLNode* FirstChild() const { return first_; }
  XMLNode* LastChild() const { return last_; }
  XMLNode* NextSibling() const { return next_; }
  XMLNode* PreviousSibling() const { return prev_; }
  XMLElement* FirstChildElement(const char* name = nullptr) const;
  XMLElement* NextSiblingElement(const char* name = nullptr) const;
  virtual XMLElement* ToElement() { return nullptr; }
  virtual const XMLElement* ToElement() const { return nullptr; }
  virtual XMLComment* ToComment() { return nullptr; }
  virtual XMLDocument* ToDocument() { return nullptr; }
  XMLNode* InsertEndChild(XMLNode* n);
  XMLNode* LinkEndChild(XMLNode* n) { return InsertEndChild(n); }
  XMLNode* InsertFirstChild(XMLNode* n);
  XMLNode* InsertAfterChild(XMLNode* after, XMLNode* n);
  void DeleteChild(XMLNode* n);
  void DeleteChildren();
  XMLNode* DeepClone(XMLDocument* target) const;
  virtual XMLNode* ShallowClone(XMLDocument* target) const = 0;
  virtual void Print_(XMLPrinter* p, int depth) const = 0;
 protected:
  explicit XMLNode(XMLDocument* d) : doc_(d) {}
  void Unlink(XMLNode* n);
  friend class XMLDocument;
  XMLDocument* doc_;
  XMLNode* parent_ = nullptr;
  XMLNode* first_ = nullptr;
  XMLNode* last_ = nullptr;
  XMLNode* prev_ = nullptr;
  XMLNode* next_ = nullptr;
  std::string value_;
  int line_ = 0;
};

class XMLComment : public XMLNode {
 public:
  explicit XMLComment(XMLDocument* d) : XMLNode(d) {}
  XMLComment* ToComment() override { return this; }
  XMLNode* ShallowClone(XMLDocument* target) const override;
  void Print_(XMLPrinter* p, int depth) const override;
};

// text / declaration / unknown nodes are kept so that printing round-trips, never inspected by MuJoCo
class XMLText : public XMLNode {
 public:
  explicit XMLText(XMLDocument* d) : XMLNode(d) {}
  XMLNode* ShallowClone(XMLDocument* target) const override;
  void Print_(XMLPrinter* p, int depth) const override;
};

class XMLElement : public XMLNode {
 public:
  explicit XMLElement(XMLDocument* d) : XMLNode(d) {}
  ~XMLElement() override;
  const char* Name() const { return Value(); }
  XMLElement* ToElement() override { return this; }
  const XMLElement* ToElement() const override { return this; }
  const char* Attribute(const char* name, const char* value = nullptr) const;
  const XMLAttribute* FirstAttribute() const { return attrs_; }
  const XMLAttribute* FindAttribute(const char* name) const;
  void SetAttribute(const char* name, const char* value);
  void SetAttribute(const char* name, int value);
  void SetAttribute(const char* name, unsigned value);
  void SetAttribute(const char* name, double value);
  void SetAttribute(const char* name, float value);
  void SetAttribute(const char* name, bool value);
  void DeleteAttribute(const char* name);
  const char* GetText() const;
  XMLNode* ShallowClone(XMLDocument* target) const override;
  void Print_(XMLPrinter* p, int depth) const override;
 private:
  friend class XMLDocument;
  XMLAttribute* FindOrCreate(const char* name);
  XMLAttribute* attrs_ = nullptr;
};

class XMLDocument : public XMLNode {
 public:
  XMLDocument() : XMLNode(nullptr) { doc_ = this; }
  ~XMLDocument() override { DeleteChildren(); }
  XMLDocument* ToDocument() override { return this; }
  XMLError Parse(const char* xml, size_t nbytes = static_cast<size_t>(-1));
  XMLError LoadFile(const char* filename);
  XMLElement* RootElement() const { return FirstChildElement(); }
  bool Error() const { return err_ != XML_SUCCESS; }
  XMLError ErrorID() const { return err_; }
  const char* ErrorStr() const { return errstr_.c_str(); }
  int ErrorLineNum() const { return errline_; }
  void ClearError() { err_ = XML_SUCCESS; errstr_.clear(); errline_ = 0; }
  void Clear() { DeleteChildren(); ClearError(); }
  XMLElement* NewElement(const char* name);
  XMLComment* NewComment(const char* text);
  XMLText* NewText(const char* text);
  void Print(XMLPrinter* streamer = nullptr) const;
  XMLNode* ShallowClone(XMLDocument*) const override { return nullptr; }
  void Print_(XMLPrinter* p, int depth) const override;
 private:
  void SetError(XMLError e, int line, const char* msg);
  XMLError err_ = XML_SUCCESS;
  std::string errstr_;
  int errline_ = 0;
};

class XMLPrinter {
 public:
  explicit XMLPrinter(FILE* file = nullptr, bool compact = false, int depth = 0)
      : fp_(file), compact_(compact), depth_(depth) {}
  virtual ~XMLPrinter() {}
  const char* CStr() const { return buf_.c_str(); }
  int CStrSize() const { return static_cast<int>(buf_.size()) + 1; }
  void ClearBuffer() { buf_.clear(); }
  virtual void PrintSpace(int depth) { for (int i = 0; i < depth; ++i) Write("    "); }
  void Write(const char* s) { Write(s, strlen(s)); }
  void Write(const char* s, size_t n) { if (fp_) fwrite(s, 1, n, fp_); else buf_.append(s, n); }
  bool Compact() const { return compact_; }
  void WriteEscaped(const std::string& s, bool attr);
 private:
  FILE* fp_;
  bool compact_;
  int depth_;
  std::string buf_;
};

}  // namespace tinyxml2
#endif
