#pragma once
#include <cstddef>
typedef enum LodePNGColorType { LCT_GREY=0, LCT_RGB=2, LCT_PALETTE=3, LCT_GREY_ALPHA=4, LCT_RGBA=6 } LodePNGColorType;
struct LodePNGColorMode { LodePNGColorType colortype; unsigned bitdepth; };
struct LodePNGInfo { unsigned srgb_defined; };
namespace lodepng { struct State { LodePNGColorMode info_raw; LodePNGInfo info_png; State(): info_raw{LCT_RGBA,8}, info_png{0} {} }; }
unsigned lodepng_decode(unsigned char** out, unsigned* w, unsigned* h, lodepng::State* state, const unsigned char* in, size_t insize);
const char* lodepng_error_text(unsigned code);
size_t lodepng_get_raw_size(unsigned w, unsigned h, const LodePNGColorMode* color);
