// C40: extension registries under concurrent and sequential use.
// usage: h_registry seq  <seed> <nops>
//        h_registry conc <seed> <nwriters> <nreaders> <nnames> <delay_us>
// One history per process (the tables are process-global and append-only).
// Each registered object is a deterministic function of its key, so a reader can verify that every
// field of what it got is completely written (no partially registered object is ever visible).
#include <mujoco/mujoco.h>
#include <mujoco/mjplugin.h>

#include <atomic>
#include <chrono>
#include <csetjmp>
#include <cstdint>
#include <cstdio>
#include <cstdlib>
#include <cstring>
#include <map>
#include <string>
#include <thread>
#include <vector>

extern "C" {
void vf_install_handlers(void);
jmp_buf** vf_jmp_slot(void);
const char* vf_last_error(void);
}

static std::atomic<long> g_fail{0};
static std::atomic<long> g_lookups{0}, g_unknown{0}, g_slotreads{0}, g_checked{0};
#define FAIL(...) do { if (g_fail.fetch_add(1) < 10) { printf("FAIL "); printf(__VA_ARGS__); printf("\n"); fflush(stdout);} } while (0)

static uint64_t hash_str(const std::string& s) {
  uint64_t h = 1469598103934665603ull;
  for (unsigned char c : s) { h ^= (uint64_t)tolower(c); h *= 1099511628211ull; }
  return h;
}
static std::string lower(std::string s) { for (auto& c : s) c = (char)tolower(c); return s; }

static int ns0(const mjModel*, int) { return 0; }
static int ns1(const mjModel*, int) { return 1; }
static int ns2(const mjModel*, int) { return 2; }
typedef int (*nsfn)(const mjModel*, int);
static nsfn NS[3] = {ns0, ns1, ns2};

// the attribute strings must outlive registration only (the table copies them)
struct PluginSpec {
  std::string name;
  std::vector<std::string> attrs;
  std::vector<const char*> attrp;
  mjpPlugin p;
};

static void make_plugin(PluginSpec& s, const std::string& name, int variant) {
  s.name = name;
  uint64_t h = hash_str(name) + (uint64_t)variant * 7919;
  mjp_defaultPlugin(&s.p);
  int na = (int)(h % 4);
  s.attrs.clear(); s.attrp.clear();
  for (int i = 0; i < na; i++) s.attrs.push_back(lower(name) + "_attr" + std::to_string(i + variant));
  for (auto& a : s.attrs) s.attrp.push_back(a.c_str());
  s.p.name = s.name.c_str();
  s.p.nattribute = na;
  s.p.attributes = na ? s.attrp.data() : nullptr;
  s.p.capabilityflags = 1 << (int)((h >> 8) % 4);
  s.p.needstage = (int)((h >> 16) % 3);
  s.p.nstate = NS[(h >> 24) % 3];
}

// verify that a table object for key `name` (as registered, variant 0) is fully written
static bool verify_plugin(const mjpPlugin* p, const char* how) {
  if (!p) { FAIL("%s: null object", how); return false; }
  if (!p->name) { FAIL("%s: object with null name", how); return false; }
  std::string name(p->name);
  if (name.rfind("vf.", 0) != 0) return true;  // first-party plugin registered by the library itself
  uint64_t h = hash_str(name);
  int na = (int)(h % 4);
  if (p->nattribute != na) { FAIL("%s: %s nattribute %d != %d", how, p->name, p->nattribute, na); return false; }
  if (na && !p->attributes) { FAIL("%s: %s attributes null", how, p->name); return false; }
  for (int i = 0; i < na; i++) {
    std::string want = lower(name) + "_attr" + std::to_string(i);
    if (!p->attributes[i] || want != p->attributes[i]) { FAIL("%s: %s attribute %d torn", how, p->name, i); return false; }
  }
  if (p->capabilityflags != 1 << (int)((h >> 8) % 4)) { FAIL("%s: %s capabilityflags torn", how, p->name); return false; }
  if (p->needstage != (int)((h >> 16) % 3)) { FAIL("%s: %s needstage torn", how, p->name); return false; }
  if (p->nstate != NS[(h >> 24) % 3]) { FAIL("%s: %s nstate torn", how, p->name); return false; }
  g_checked++;
  return true;
}

// trapped call helper
template <typename F>
static bool trapped(F f) {
  jmp_buf jb;
  jmp_buf** slot = vf_jmp_slot();
  jmp_buf* prev = *slot;
  if (setjmp(jb)) { *slot = prev; return false; }
  *slot = &jb;
  f();
  *slot = prev;
  return true;
}

static uint64_t rs;
static uint32_t rnd() { rs ^= rs << 13; rs ^= rs >> 7; rs ^= rs << 17; return (uint32_t)(rs >> 20); }

static std::string case_variant(const std::string& s, uint32_t r) {
  std::string o = s;
  for (size_t i = 0; i < o.size(); i++) if ((r >> (i % 20)) & 1) o[i] = (char)toupper(o[i]);
  return o;
}

// resource provider callbacks
static int rp_open(mjResource*) { return 0; }
static int rp_read(mjResource*, const void**) { return -1; }
static void rp_close(mjResource*) {}
static int rp_open2(mjResource*) { return 0; }
static int dec_can(const mjResource*) { return 1; }
static mjSpec* dec_decode(mjResource*, const mjVFS*) { return nullptr; }
static mjSpec* dec_decode2(mjResource*, const mjVFS*) { return nullptr; }
static mjtSize enc_encode(const mjSpec*, const mjModel*, const mjVFS*, mjResource*) { return 0; }
static mjtSize enc_encode2(const mjSpec*, const mjModel*, const mjVFS*, mjResource*) { return 0; }

static int run_seq(uint64_t seed, int nops) {
  rs = seed * 0x9E3779B97F4A7C15ull + 12345;
  std::map<std::string, int> model;       // lower(name) -> slot
  std::map<int, std::string> slotname;
  int n0 = mjp_pluginCount();
  for (int s = 0; s < n0; s++) {
    const mjpPlugin* p = mjp_getPluginAtSlot(s);
    if (!p || !p->name) { FAIL("builtin slot %d missing", s); continue; }
    model[lower(p->name)] = s; slotname[s] = p->name;
  }
  int next = n0;
  std::vector<std::string> names;
  long nreg = 0, nre = 0, nconf = 0, nlook = 0;
  for (int op = 0; op < nops; op++) {
    uint32_t r = rnd() % 100;
    if (r < 35 || names.empty()) {
      // register a new name (shared prefixes / case collisions with existing names are drawn too)
      std::string name = "vf.p" + std::to_string(rnd() % 60) + ((rnd() % 4 == 0) ? ".Sub" : "");
      if (rnd() % 3 == 0) name = case_variant(name, rnd());
      PluginSpec ps; make_plugin(ps, name, 0);
      int slot = -2;
      bool ok = trapped([&] { slot = mjp_registerPlugin(&ps.p); });
      auto it = model.find(lower(name));
      if (it == model.end()) {
        if (!ok) { FAIL("seq: fresh registration of %s raised: %s", name.c_str(), vf_last_error()); continue; }
        if (slot != next) FAIL("seq: %s got slot %d, expected dense slot %d", name.c_str(), slot, next);
        model[lower(name)] = slot; slotname[slot] = name; names.push_back(name); next++; nreg++;
      } else {
        // same key (maybe different case): object differs in `name` bytes if case differs -> conflict expected
        bool same_bytes = (slotname[it->second] == name);
        if (same_bytes) {
          if (!ok || slot != it->second) FAIL("seq: identical re-registration of %s returned %d (ok=%d), expected %d", name.c_str(), slot, (int)ok, it->second);
          nre++;
        } else {
          if (ok) FAIL("seq: conflicting re-registration of %s (existing %s) succeeded with slot %d", name.c_str(), slotname[it->second].c_str(), slot);
          nconf++;
        }
      }
    } else if (r < 50) {
      // identical re-registration
      std::string name = names[rnd() % names.size()];
      PluginSpec ps; make_plugin(ps, name, 0);
      int slot = -2;
      bool ok = trapped([&] { slot = mjp_registerPlugin(&ps.p); });
      if (!ok || slot != model[lower(name)]) FAIL("seq: identical re-registration of %s returned %d (ok=%d) expected %d", name.c_str(), slot, (int)ok, model[lower(name)]);
      nre++;
    } else if (r < 62) {
      // conflicting re-registration (same key, different content)
      std::string name = names[rnd() % names.size()];
      PluginSpec ps; make_plugin(ps, name, 1 + rnd() % 3);
      // variant may coincide in all fields except attribute names when na==0: force a difference
      ps.p.needstage = (ps.p.needstage + 1) % 3;
      int slot = -2;
      bool ok = trapped([&] { slot = mjp_registerPlugin(&ps.p); });
      if (ok) FAIL("seq: conflicting re-registration of %s succeeded (slot %d)", name.c_str(), slot);
      if (mjp_pluginCount() != next) FAIL("seq: count changed by failed registration");
      nconf++;
    } else if (r < 85) {
      // lookup by name (case variants), and by slot
      std::string name = names[rnd() % names.size()];
      std::string q = case_variant(name, rnd());
      int slot = -7;
      const mjpPlugin* p = mjp_getPlugin(q.c_str(), &slot);
      int want = model[lower(name)];
      if (!p || slot != want) FAIL("seq: lookup %s -> slot %d, expected %d", q.c_str(), slot, want);
      else {
        verify_plugin(p, "seq-byname");
        const mjpPlugin* p2 = mjp_getPluginAtSlot(slot);
        if (p2 != p) FAIL("seq: getPlugin and getPluginAtSlot disagree for %s", name.c_str());
        if (lower(p->name) != lower(name)) FAIL("seq: lookup %s returned object named %s", q.c_str(), p->name);
      }
      nlook++;
    } else {
      // negative lookups: unknown names, prefixes, suffixes, out-of-range slots
      std::string name = names[rnd() % names.size()];
      std::string q;
      switch (rnd() % 5) {
        case 0: q = name.substr(0, name.size() - 1); break;
        case 1: q = name + "x"; break;
        case 2: q = "vf.unknown" + std::to_string(rnd()); break;
        case 3: q = ""; break;
        default: q = name + name; break;
      }
      int slot = -7;
      const mjpPlugin* p = mjp_getPlugin(q.c_str(), &slot);
      bool exists = model.count(lower(q)) > 0 && !q.empty();
      if (!exists && (p || slot != -1)) FAIL("seq: lookup of absent '%s' returned slot %d", q.c_str(), slot);
      if (mjp_getPluginAtSlot(next) || mjp_getPluginAtSlot(-1) || mjp_getPluginAtSlot(next + 16)) FAIL("seq: out-of-range slot returned an object");
      nlook++;
    }
    if (mjp_pluginCount() != next) FAIL("seq: count %d != model %d", mjp_pluginCount(), next);
  }
  // final agreement
  for (auto& kv : slotname) {
    const mjpPlugin* p = mjp_getPluginAtSlot(kv.first);
    if (!p || kv.second != p->name) FAIL("seq: final slot %d holds %s, expected %s", kv.first, p ? p->name : "(null)", kv.second.c_str());
  }

  // the other three registries: sequential semantics
  long nother = 0;
  {
    std::map<std::string, int> rp;
    int base = mjp_resourceProviderCount();
    for (int i = 0; i < 40; i++) {
      std::string pre = "vfrp" + std::to_string(rnd() % 25);
      if (rnd() % 3 == 0) pre = case_variant(pre, rnd());
      mjpResourceProvider p; mjp_defaultResourceProvider(&p);
      p.prefix = pre.c_str(); p.open = rp_open; p.read = rp_read; p.close = rp_close;
      bool conflict = rnd() % 4 == 0;
      if (conflict) p.open = rp_open2;
      int slot = -2;
      bool ok = trapped([&] { slot = mjp_registerResourceProvider(&p); });
      auto it = rp.find(lower(pre));
      if (it == rp.end()) {
        if (!ok || slot != base + (int)rp.size() + 1) FAIL("seq: provider %s slot %d expected %d", pre.c_str(), slot, base + (int)rp.size() + 1);
        else rp[lower(pre)] = slot | (conflict ? 1 << 20 : 0) | ((pre == lower(pre)) ? 0 : 1 << 21);
      }
      nother++;
      std::string res = case_variant(pre, rnd()) + ":some/file.xml";
      const mjpResourceProvider* g = mjp_getResourceProvider(res.c_str());
      if (ok && !g) FAIL("seq: provider for %s not found", res.c_str());
      if (g) {
        if (lower(g->prefix) != lower(pre)) FAIL("seq: provider lookup %s returned %s", res.c_str(), g->prefix);
        if (!g->open || !g->read || !g->close) FAIL("seq: provider %s partially written", g->prefix);
      }
      if (mjp_getResourceProvider("vfnone:abc")) FAIL("seq: unknown provider found");
      if (mjp_resourceProviderCount() != base + (int)rp.size()) FAIL("seq: provider count %d != %d", mjp_resourceProviderCount(), base + (int)rp.size());
    }
    for (int s = 1; s <= mjp_resourceProviderCount(); s++) {
      const mjpResourceProvider* g = mjp_getResourceProviderAtSlot(s);
      if (!g || !g->prefix) FAIL("seq: provider slot %d empty", s);
    }
    if (mjp_getResourceProviderAtSlot(0) || mjp_getResourceProviderAtSlot(mjp_resourceProviderCount() + 1)) FAIL("seq: provider out-of-range slot returned object");
  }
  {
    // decoders / encoders: key = content type or extension
    for (int i = 0; i < 30; i++) {
      std::string ext = ".vfx" + std::to_string(rnd() % 20);
      std::string ct = "model/vf" + std::to_string(rnd() % 20);
      mjpDecoder dcd; mjp_defaultDecoder(&dcd);
      dcd.can_decode = dec_can; dcd.decode = dec_decode;
      int which = rnd() % 3;
      dcd.extension = which != 1 ? ext.c_str() : nullptr;
      dcd.content_type = which != 0 ? ct.c_str() : nullptr;
      bool ok = trapped([&] { mjp_registerDecoder(&dcd); });
      (void)ok;
      mjResource r; memset(&r, 0, sizeof(r));
      std::string fname = "file" + case_variant(ext, rnd());
      r.name = (char*)fname.c_str();
      if (which != 1 && ok) {
        const mjpDecoder* g = mjp_findDecoder(&r, "");
        if (!g) FAIL("seq: decoder for %s not found", fname.c_str());
        else if (!g->decode || !g->can_decode) FAIL("seq: decoder partially written");
      }
      mjpEncoder enc; mjp_defaultEncoder(&enc);
      enc.encode = enc_encode; enc.close_resource = rp_close;
      enc.extension = which != 1 ? ext.c_str() : nullptr;
      enc.content_type = which != 0 ? ct.c_str() : nullptr;
      bool ok2 = trapped([&] { mjp_registerEncoder(&enc); });
      if (which != 1 && ok2) {
        const mjpEncoder* g = mjp_findEncoder(fname.c_str(), nullptr);
        if (!g) FAIL("seq: encoder for %s not found", fname.c_str());
        else if (!g->encode || !g->close_resource) FAIL("seq: encoder partially written");
      }
      // conflicting registration under the same key must fail, identical must succeed silently
      mjpEncoder enc2 = enc; enc2.encode = enc_encode2;
      bool ok3 = trapped([&] { mjp_registerEncoder(&enc2); });
      if (ok2 && ok3) FAIL("seq: conflicting encoder registration for %s succeeded", ext.c_str());
      bool ok4 = trapped([&] { mjp_registerEncoder(&enc); });
      if (ok2 && !ok4) FAIL("seq: identical encoder re-registration for %s failed", ext.c_str());
      mjpDecoder d2 = dcd; d2.decode = dec_decode2;
      bool ok5 = trapped([&] { mjp_registerDecoder(&d2); });
      if (ok && ok5) FAIL("seq: conflicting decoder registration succeeded");
      nother += 4;
    }
  }
  printf("SUMMARY mode=seq ops=%d registered=%ld reregistered=%ld conflicts=%ld lookups=%ld other_registry_ops=%ld final_count=%d crossed_block=%d checked=%ld failures=%ld\n",
         nops, nreg, nre, nconf, nlook, nother, mjp_pluginCount(), mjp_pluginCount() > 15 ? 1 : 0, g_checked.load(), g_fail.load());
  return g_fail.load() ? 1 : 0;
}

static void spin_us(int us) {
  if (us <= 0) return;
  auto t = std::chrono::steady_clock::now() + std::chrono::microseconds(us);
  while (std::chrono::steady_clock::now() < t) {}
}

static int run_conc(uint64_t seed, int nw, int nr, int nnames, int delay_us) {
  std::vector<std::string> names;
  for (int i = 0; i < nnames; i++) names.push_back("vf.c" + std::to_string(seed % 1000) + "." + std::to_string(i));
  std::atomic<bool> stop{false};
  std::atomic<int> started{0};
  std::vector<std::vector<int>> got(nw, std::vector<int>(nnames, -1));
  std::vector<std::thread> ts;
  for (int w = 0; w < nw; w++) {
    ts.emplace_back([&, w] {
      uint64_t r = seed * 31 + w * 977 + 1;
      started++;
      while (started.load() < nw + nr) {}
      // every writer registers every name (identical objects) in its own order
      std::vector<int> order(nnames);
      for (int i = 0; i < nnames; i++) order[i] = i;
      for (int i = nnames - 1; i > 0; i--) { r = r * 6364136223846793005ull + 1442695040888963407ull; int j = (int)((r >> 33) % (i + 1)); std::swap(order[i], order[j]); }
      if (w == 0) for (int i = 0; i < nnames; i++) order[i] = i;   // one in-order writer
      for (int k = 0; k < nnames; k++) {
        int i = order[k];
        PluginSpec ps; make_plugin(ps, names[i], 0);
        int slot = mjp_registerPlugin(&ps.p);
        got[w][i] = slot;
        r = r * 6364136223846793005ull + 1442695040888963407ull;
        if (delay_us) spin_us((int)((r >> 40) % (delay_us + 1)));
      }
    });
  }
  for (int q = 0; q < nr; q++) {
    ts.emplace_back([&, q] {
      uint64_t r = seed * 131 + q * 7 + 3;
      started++;
      while (started.load() < nw + nr) {}
      int lastcount = 0;
      while (!stop.load(std::memory_order_acquire)) {
        int c = mjp_pluginCount();
        if (c < lastcount) FAIL("conc: count went backwards %d -> %d", lastcount, c);
        lastcount = c;
        r = r * 6364136223846793005ull + 1442695040888963407ull;
        int kind = (int)((r >> 33) % 4);
        if (kind == 0) {
          for (int s = 0; s < c; s++) {
            const mjpPlugin* p = mjp_getPluginAtSlot(s);
            if (!p) { FAIL("conc: slot %d < count %d is null", s, c); continue; }
            verify_plugin(p, "conc-byslot");
            g_slotreads++;
          }
        } else if (kind == 1) {
          // unknown key: scans the whole table
          int slot = -7;
          const mjpPlugin* p = mjp_getPlugin("vf.does.not.exist", &slot);
          if (p || slot != -1) FAIL("conc: unknown key found at slot %d", slot);
          g_unknown++;
        } else {
          int i = (int)((r >> 20) % nnames);
          int slot = -7;
          std::string qn = (kind == 2) ? names[i] : case_variant(names[i], (uint32_t)(r >> 12));
          const mjpPlugin* p = mjp_getPlugin(qn.c_str(), &slot);
          if (p) {
            verify_plugin(p, "conc-byname");
            if (lower(p->name) != lower(names[i])) FAIL("conc: lookup %s returned %s", qn.c_str(), p->name);
            const mjpPlugin* p2 = mjp_getPluginAtSlot(slot);
            if (p2 != p) FAIL("conc: name/slot lookups disagree for %s (slot %d)", qn.c_str(), slot);
          }
          g_lookups++;
        }
      }
    });
  }
  for (int w = 0; w < nw; w++) ts[w].join();
  stop.store(true, std::memory_order_release);
  for (int q = 0; q < nr; q++) ts[nw + q].join();
  // quiescent checks: every writer got the same slot for a name; one slot per key; dense
  std::map<int, int> slot2name;
  for (int i = 0; i < nnames; i++) {
    for (int w = 1; w < nw; w++) if (got[w][i] != got[0][i]) FAIL("conc: %s registered at slots %d and %d", names[i].c_str(), got[0][i], got[w][i]);
    if (slot2name.count(got[0][i])) FAIL("conc: slot %d assigned to two names", got[0][i]);
    slot2name[got[0][i]] = i;
    int slot = -1;
    const mjpPlugin* p = mjp_getPlugin(names[i].c_str(), &slot);
    if (!p || slot != got[0][i]) FAIL("conc: final lookup of %s -> %d expected %d", names[i].c_str(), slot, got[0][i]);
  }
  int c = mjp_pluginCount();
  int nvf = 0;
  for (int s = 0; s < c; s++) { const mjpPlugin* p = mjp_getPluginAtSlot(s); if (!p) FAIL("conc: final slot %d null", s); else { verify_plugin(p, "final"); if (!strncmp(p->name, "vf.", 3)) nvf++; } }
  if (nvf != nnames) FAIL("conc: %d vf plugins in table, expected %d", nvf, nnames);
  printf("SUMMARY mode=conc writers=%d readers=%d names=%d final_count=%d crossed_block=%d lookups=%ld unknown_scans=%ld slot_reads=%ld checked=%ld failures=%ld\n",
         nw, nr, nnames, c, c > 15 ? 1 : 0, g_lookups.load(), g_unknown.load(), g_slotreads.load(), g_checked.load(), g_fail.load());
  return g_fail.load() ? 1 : 0;
}

int main(int argc, char** argv) {
  vf_install_handlers();
  if (argc < 3) return 2;
  uint64_t seed = strtoull(argv[2], 0, 10);
  if (!strcmp(argv[1], "seq")) return run_seq(seed, atoi(argv[3]));
  if (!strcmp(argv[1], "conc")) return run_conc(seed, atoi(argv[3]), atoi(argv[4]), atoi(argv[5]), atoi(argv[6]));
  return 2;
}
