// Controlled scheduler behind native/sched/shim.h.
// Managed threads are real OS threads, but only the holder of the token runs; every operation on a
// shimmed atomic, every thread start and join is a scheduling point where the next thread is chosen by a
// strategy (random walk, PCT, or depth-first enumeration with a preemption bound).  Blocking operations
// (atomic::wait, join, and detected busy-wait loops) take the thread out of the runnable set; if no thread
// is runnable while some are unfinished the schedule is a DEADLOCK.
#include <condition_variable>
#include <cstdint>
#include <cstdio>
#include <cstdlib>
#include <cstring>
#include <functional>
#include <map>
#include <mutex>
#include <thread>
#include <vector>

#include "sched/sched.h"

namespace vfs {

enum St { RUNNABLE, WAITING, JOINING, PARKED, FINISHED };

struct Thr {
  int id;
  St st = RUNNABLE;
  const void* obj = nullptr;      // object waited/parked on
  int join_target = -1;
  std::condition_variable cv;
  std::thread os;
  // spin detection
  const void* last_load = nullptr;
  unsigned long last_ver = 0;
  int prio = 0;                   // PCT
};

static std::mutex mu;
static std::vector<Thr*> thr;
static int cur = 0;
static std::map<const void*, unsigned long> version;
static Config cfg;
static Stats stats;
static uint64_t rng_state = 1;

// DFS state
static std::vector<int> prefix;       // decisions to replay
static std::vector<int> taken;        // decisions taken in this run
static std::vector<int> nopts;        // number of options at each decision
static std::vector<char> cur_runnable;  // was the current thread runnable at that decision (preemption if c>0)
static long steps = 0;
static std::vector<long> pct_change;
static uint64_t sched_hash = 1469598103934665603ull;
static bool deadlock_flag = false;

static uint64_t rnd() { rng_state ^= rng_state << 13; rng_state ^= rng_state >> 7; rng_state ^= rng_state << 17; return rng_state; }

static int me_locked();

static thread_local int my_id = 0;
static int me_locked() { return my_id; }

static void fatal_deadlock() {
  deadlock_flag = true;
  printf("DEADLOCK schedule_hash=%016llx steps=%ld threads:", (unsigned long long)sched_hash, steps);
  for (auto* t : thr) printf(" T%d=%s", t->id, t->st == RUNNABLE ? "run" : t->st == WAITING ? "wait" : t->st == JOINING ? "join" : t->st == PARKED ? "spin" : "done");
  printf(" decisions=");
  for (size_t i = 0; i < taken.size() && i < 400; i++) printf("%d", taken[i]);
  printf("\n");
  fflush(stdout);
  if (cfg.on_deadlock) cfg.on_deadlock();
  _exit(3);
}

// choose next thread to run among runnable ones; `me` may or may not be runnable
static int choose(int me) {
  std::vector<int> opts;
  bool me_runnable = thr[me]->st == RUNNABLE;
  if (me_runnable) opts.push_back(me);
  for (auto* t : thr) if (t->st == RUNNABLE && t->id != me) opts.push_back(t->id);
  if (opts.empty()) fatal_deadlock();
  steps++;
  if (steps > cfg.max_steps) {
    printf("STEP-LIMIT schedule exceeded %ld scheduling points (livelock?)\n", cfg.max_steps);
    fflush(stdout);
    _exit(4);
  }
  int c = 0;
  if (opts.size() > 1) {
    if (cfg.strategy == DFS) {
      size_t depth = taken.size();
      c = depth < prefix.size() ? prefix[depth] : 0;
      if (c >= (int)opts.size()) c = 0;
      taken.push_back(c);
      nopts.push_back((int)opts.size());
      cur_runnable.push_back(me_runnable ? 1 : 0);
    } else if (cfg.strategy == RANDOM) {
      if (!me_runnable || (rnd() % 1000) < (uint64_t)cfg.switch_permille) c = (int)(rnd() % opts.size());
      taken.push_back(c);
    } else {  // PCT
      for (long cp : pct_change) if (cp == steps && me_runnable) thr[me]->prio = -(int)steps;  // demote
      int best = 0;
      for (size_t i = 1; i < opts.size(); i++) if (thr[opts[i]]->prio > thr[opts[best]]->prio) best = (int)i;
      c = best;
      taken.push_back(c);
    }
  }
  int nxt = opts[c];
  sched_hash = (sched_hash ^ (uint64_t)(nxt + 1)) * 1099511628211ull;
  stats.points++;
  if (nxt != me && me_runnable) stats.preemptions++;
  return nxt;
}

// hand the token to nxt and wait until it comes back (unless finished)
static void switch_to(std::unique_lock<std::mutex>& lk, int me, int nxt, bool wait_back) {
  if (nxt == me) return;
  cur = nxt;
  thr[nxt]->cv.notify_one();
  if (wait_back) thr[me]->cv.wait(lk, [&] { return cur == me; });
}

void point(const void* obj, int kind) {
  std::unique_lock<std::mutex> lk(mu);
  int me = me_locked();
  if (kind != 0) thr[me]->last_load = nullptr;   // any non-load operation ends a spin pattern
  int nxt = choose(me);
  switch_to(lk, me, nxt, true);
}

void yield() { point(nullptr, 6); }

bool load_should_park(const void* obj) {
  std::unique_lock<std::mutex> lk(mu);
  Thr* t = thr[me_locked()];
  unsigned long v = version[obj];
  if (t->last_load == obj && t->last_ver == v) return true;   // same atomic re-loaded with no write in between
  t->last_load = obj;
  t->last_ver = v;
  return false;
}

void park_until_write(const void* obj) {
  std::unique_lock<std::mutex> lk(mu);
  int me = me_locked();
  Thr* t = thr[me];
  stats.spin_parks++;
  t->st = PARKED;
  t->obj = obj;
  t->last_load = nullptr;
  int nxt = choose(me);
  switch_to(lk, me, nxt, true);
}

void note_write(const void* obj) {
  std::unique_lock<std::mutex> lk(mu);
  version[obj]++;
  for (auto* t : thr) if (t->st == PARKED && t->obj == obj) { t->st = RUNNABLE; t->obj = nullptr; }
}

void wait_block(const void* obj) {
  std::unique_lock<std::mutex> lk(mu);
  int me = me_locked();
  Thr* t = thr[me];
  t->st = WAITING;
  t->obj = obj;
  stats.wait_blocks++;
  int nxt = choose(me);
  switch_to(lk, me, nxt, true);
}

void notify(const void* obj, bool all) {
  std::unique_lock<std::mutex> lk(mu);
  for (auto* t : thr) if (t->st == WAITING && t->obj == obj) { t->st = RUNNABLE; t->obj = nullptr; stats.wakeups++; if (!all) break; }
}

static void thread_main(Thr* t, std::function<void()> body) {
  my_id = t->id;
  {
    std::unique_lock<std::mutex> lk(mu);
    t->cv.wait(lk, [&] { return cur == t->id; });
  }
  body();
  std::unique_lock<std::mutex> lk(mu);
  t->st = FINISHED;
  for (auto* o : thr) if (o->st == JOINING && o->join_target == t->id) { o->st = RUNNABLE; o->join_target = -1; }
  int nxt = choose(t->id);
  switch_to(lk, t->id, nxt, false);
}

int spawn(std::function<void()> body) {
  point(nullptr, 4);
  std::unique_lock<std::mutex> lk(mu);
  Thr* t = new Thr;
  t->id = (int)thr.size();
  t->prio = (int)(rnd() % 1000) + 1;
  thr.push_back(t);
  stats.spawned++;
  t->os = std::thread(thread_main, t, body);
  return t->id;
}

void join(int tid) {
  point(nullptr, 5);
  std::unique_lock<std::mutex> lk(mu);
  int me = me_locked();
  if (thr[tid]->st != FINISHED) {
    thr[me]->st = JOINING;
    thr[me]->join_target = tid;
    int nxt = choose(me);
    switch_to(lk, me, nxt, true);
  }
  lk.unlock();
  if (thr[tid]->os.joinable()) thr[tid]->os.join();
}

bool finished(int tid) {
  std::unique_lock<std::mutex> lk(mu);
  return thr[tid]->st == FINISHED;
}

int alive_workers() {
  std::unique_lock<std::mutex> lk(mu);
  int n = 0;
  for (auto* t : thr) if (t->id != 0 && t->st != FINISHED) n++;
  return n;
}

int nthreads_ever() { std::unique_lock<std::mutex> lk(mu); return (int)thr.size(); }

void begin_schedule(const Config& c, uint64_t seed) {
  std::unique_lock<std::mutex> lk(mu);
  cfg = c;
  for (size_t i = 1; i < thr.size(); i++) { if (thr[i]->os.joinable()) thr[i]->os.join(); delete thr[i]; }
  if (thr.empty()) { Thr* t = new Thr; t->id = 0; thr.push_back(t); }
  thr.resize(1);
  thr[0]->st = RUNNABLE; thr[0]->last_load = nullptr; thr[0]->prio = 500;
  cur = 0;
  my_id = 0;
  version.clear();
  taken.clear(); nopts.clear(); cur_runnable.clear();
  steps = 0;
  sched_hash = 1469598103934665603ull;
  rng_state = seed * 0x9E3779B97F4A7C15ull + 0x1234567ull;
  if (!rng_state) rng_state = 1;
  pct_change.clear();
  if (cfg.strategy == PCT) for (int i = 0; i < cfg.pct_depth - 1; i++) pct_change.push_back(1 + (long)(rnd() % (uint64_t)(cfg.pct_steps > 0 ? cfg.pct_steps : 200)));
}

uint64_t end_schedule() {
  stats.schedules++;
  if ((long)taken.size() > stats.max_decisions) stats.max_decisions = (long)taken.size();
  return sched_hash;
}

// DFS: compute the next prefix (returns false when the space is exhausted under the preemption bound)
bool dfs_next() {
  int n = (int)taken.size();
  // preemptions used up to each depth
  std::vector<int> pre(n + 1, 0);
  for (int i = 0; i < n; i++) pre[i + 1] = pre[i] + ((cur_runnable[i] && taken[i] > 0) ? 1 : 0);
  for (int i = n - 1; i >= 0; i--) {
    for (int c = taken[i] + 1; c < nopts[i]; c++) {
      int cost = pre[i] + ((cur_runnable[i] && c > 0) ? 1 : 0);
      if (cost <= cfg.preemption_bound) {
        prefix.assign(taken.begin(), taken.begin() + i);
        prefix.push_back(c);
        return true;
      }
    }
  }
  return false;
}

void dfs_reset() { prefix.clear(); }

const Stats& get_stats() { return stats; }

std::string decisions() {
  std::string s;
  for (int c : taken) s += (char)('0' + (c < 10 ? c : 9));
  return s;
}

}  // namespace vfs
