// Harness-side API of the controlled scheduler (see sched.cc).
#pragma once
#include <cstdint>
#include <string>

namespace vfs {
enum Strategy { RANDOM = 0, PCT = 1, DFS = 2 };
struct Config {
  Strategy strategy = RANDOM;
  int switch_permille = 300;     // RANDOM: probability (per mille) of re-drawing the running thread
  int pct_depth = 2;             // PCT: bug depth d (d-1 priority change points)
  long pct_steps = 200;          // PCT: estimated schedule length for placing change points
  int preemption_bound = 2;      // DFS
  long max_steps = 200000;       // livelock guard (logical steps, not wall-clock)
  void (*on_deadlock)() = nullptr;
};
struct Stats {
  long schedules = 0, points = 0, preemptions = 0, spin_parks = 0, wait_blocks = 0, wakeups = 0, spawned = 0;
  long max_decisions = 0;
};
void begin_schedule(const Config& c, uint64_t seed);
uint64_t end_schedule();         // returns the hash of the schedule (sequence of chosen threads)
bool dfs_next();
void dfs_reset();
int alive_workers();
int nthreads_ever();
const Stats& get_stats();
std::string decisions();
void yield();
}  // namespace vfs
