// Force-included (-include) in front of UNMODIFIED repository sources that use std::atomic / std::thread.
// The real headers are included first; afterwards the names `atomic` and `thread` are redirected to
// instrumented stand-ins whose every operation is a scheduling point of the controlled scheduler
// (native/sched/sched.cc).  Only one managed thread runs at a time (token passing), so executions are
// sequentially consistent interleavings at the granularity of atomic operations.
#pragma once
#ifdef __cplusplus
#include <atomic>
#include <condition_variable>
#include <cstdint>
#include <functional>
#include <mutex>
#include <thread>
#include <tuple>
#include <utility>
#include <vector>
#include <memory>
#include <string>

namespace vfs {
void point(const void* obj, int kind);                 // kind: 0 load 1 store/rmw 2 wait 3 notify 4 spawn 5 join 6 yield
bool load_should_park(const void* obj);                // spin detection (same atomic re-loaded, unchanged)
void park_until_write(const void* obj);
void note_write(const void* obj);
void wait_block(const void* obj);                      // block until a notify on obj
void notify(const void* obj, bool all);
int  spawn(std::function<void()> body);                // returns managed thread id
void join(int tid);
bool finished(int tid);
void yield();                                          // plain scheduling point for harness code
}  // namespace vfs

namespace std {

template <class T>
class vf_atomic {
 public:
  vf_atomic() noexcept : v_() {}
  constexpr vf_atomic(T v) noexcept : v_(v) {}
  vf_atomic(const vf_atomic&) = delete;
  vf_atomic& operator=(const vf_atomic&) = delete;

  T load(memory_order = memory_order_seq_cst) const noexcept {
    vfs::point(this, 0);
    while (vfs::load_should_park(this)) vfs::park_until_write(this);
    return v_;
  }
  void store(T v, memory_order = memory_order_seq_cst) noexcept {
    vfs::point(this, 1);
    v_ = v;
    vfs::note_write(this);
  }
  T exchange(T v, memory_order = memory_order_seq_cst) noexcept {
    vfs::point(this, 1);
    T o = v_; v_ = v; vfs::note_write(this); return o;
  }
  T fetch_add(T d, memory_order = memory_order_seq_cst) noexcept {
    vfs::point(this, 1);
    T o = v_; v_ = (T)(v_ + d); vfs::note_write(this); return o;
  }
  T fetch_sub(T d, memory_order = memory_order_seq_cst) noexcept {
    vfs::point(this, 1);
    T o = v_; v_ = (T)(v_ - d); vfs::note_write(this); return o;
  }
  bool compare_exchange_strong(T& e, T d, memory_order = memory_order_seq_cst, memory_order = memory_order_seq_cst) noexcept {
    vfs::point(this, 1);
    if (v_ == e) { v_ = d; vfs::note_write(this); return true; }
    e = v_; return false;
  }
  bool compare_exchange_weak(T& e, T d, memory_order a = memory_order_seq_cst, memory_order b = memory_order_seq_cst) noexcept {
    return compare_exchange_strong(e, d, a, b);
  }
  void wait(T old, memory_order = memory_order_seq_cst) const noexcept {
    vfs::point(this, 2);
    while (v_ == old) vfs::wait_block(this);
  }
  void notify_all() noexcept { vfs::point(this, 3); vfs::notify(this, true); }
  void notify_one() noexcept { vfs::point(this, 3); vfs::notify(this, false); }
  operator T() const noexcept { return load(); }
  T operator=(T v) noexcept { store(v); return v; }
  T operator++() noexcept { return fetch_add(1) + 1; }
  T operator++(int) noexcept { return fetch_add(1); }
  T operator--() noexcept { return fetch_sub(1) - 1; }
  T operator--(int) noexcept { return fetch_sub(1); }

 private:
  T v_;
};

class vf_thread {
 public:
  vf_thread() noexcept : id_(-1) {}
  template <class F, class... A>
  explicit vf_thread(F&& f, A&&... a) {
    auto bound = std::bind(std::forward<F>(f), std::forward<A>(a)...);
    id_ = vfs::spawn([bound]() mutable { bound(); });
  }
  vf_thread(vf_thread&& o) noexcept : id_(o.id_) { o.id_ = -1; }
  vf_thread& operator=(vf_thread&& o) noexcept {
    if (id_ >= 0) std::terminate();
    id_ = o.id_; o.id_ = -1; return *this;
  }
  vf_thread(const vf_thread&) = delete;
  ~vf_thread() { if (id_ >= 0) std::terminate(); }
  bool joinable() const noexcept { return id_ >= 0; }
  void join() { vfs::join(id_); id_ = -1; }
  void detach() { id_ = -1; }
  static unsigned hardware_concurrency() noexcept { return 4; }

 private:
  int id_;
};

}  // namespace std

#define atomic vf_atomic
#define thread vf_thread
#endif  // __cplusplus
