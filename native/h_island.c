// C17 core level: exported union-find helpers (mj_dsuMerge / mj_dsuRoot / mj_dsuAssign) and mj_floodFill
// against trivial label-propagation references. All buffers are exact-size heap blocks (ASan sees overruns).
// usage:
//   h_island dsu_exhaustive <ntree> <maxmerges>     every sequence of ordered merges (a,b), a,b in {-1,0..ntree-1},
//                                                   (a,b) != (-1,-1), of length 0..maxmerges; every prefix is checked
//   h_island dsu_random <seed> <count>              random forests up to 48 trees, up to 4*ntree merges
//   h_island dsu_replay <ntree> a0 b0 a1 b1 ...
//   h_island flood_exhaustive <maxnr>               every undirected graph (with optional self loops) on <= maxnr vertices,
//                                                   three CSR encodings (sorted, reversed, duplicated entries)
//   h_island flood_random <seed> <count>
//   h_island flood_replay <nr> <rows as printed by FAIL>
#include <mujoco/mujoco.h>
#include <stdio.h>
#include <stdlib.h>
#include <string.h>
#include <stdint.h>

#include "engine/engine_island.h"

static long n_seq = 0, n_chk = 0, n_fail = 0;
static int max_trees = 0, max_merges = 0;

static uint64_t rs = 88172645463325252ull;
static uint32_t rnd(void) { rs ^= rs << 13; rs ^= rs >> 7; rs ^= rs << 17; return (uint32_t)(rs >> 11); }

#define MAXT 64
#define MAXM 512

static int seq_a[MAXM], seq_b[MAXM];

static void fail(const char* kind, int n, int k) {
  n_fail++;
  if (n_fail > 5) return;
  printf("FAIL kind=%s ntree=%d merges=", kind, n);
  for (int i = 0; i < k; i++) printf("%d,%d%s", seq_a[i], seq_b[i], i + 1 < k ? ";" : "");
  printf("\n");
}

// reference: lab[t] = -1 inactive, otherwise a component label; merge = relabel
static void ref_merge(int* lab, int n, int a, int b) {
  if (a == -1) a = b;
  if (b == -1) b = a;
  if (lab[a] == -1) lab[a] = a;
  if (lab[b] == -1) lab[b] = b;
  int la = lab[a], lb = lab[b];
  if (la != lb) for (int t = 0; t < n; t++) if (lab[t] == lb) lab[t] = la;
}

// check the engine structure `parent` (n trees) after k merges against reference labels
static void check_state(const int* parent, const int* lab, int n, int k) {
  n_chk++;
  // exact-size blocks, reallocated only when the forest size changes
  static int bufn = -1;
  static int *c1 = NULL, *c2 = NULL, *island = NULL, *dofnum = NULL;
  if (bufn != n) {
    free(c1); free(c2); free(island); free(dofnum);
    c1 = (int*)malloc(sizeof(int) * n);
    c2 = (int*)malloc(sizeof(int) * n);
    island = (int*)malloc(sizeof(int) * n);
    dofnum = (int*)malloc(sizeof(int) * n);
    bufn = n;
  }
  memcpy(c1, parent, sizeof(int) * n);
  memcpy(c2, parent, sizeof(int) * n);
  // expected: minimum member per label, island ids ascending with the minimum member
  int minof[MAXT], idof[MAXT], nisl_ref = 0, nidof_ref = 0;
  for (int t = 0; t < n; t++) { minof[t] = -1; idof[t] = -1; dofnum[t] = 1 + (t * 7) % 5; }
  for (int t = 0; t < n; t++) if (lab[t] >= 0 && minof[lab[t]] < 0) { minof[lab[t]] = t; idof[lab[t]] = nisl_ref++; }
  for (int t = 0; t < n; t++) if (lab[t] >= 0) nidof_ref += dofnum[t];

  int bad_active = 0, bad_root = 0, bad_range = 0;
  for (int t = 0; t < n; t++) {
    if ((parent[t] == -1) != (lab[t] == -1)) bad_active = 1;
    if (parent[t] < -1 || parent[t] >= n) bad_range = 1;
  }
  if (bad_range) { fail("dsu-parent-out-of-range", n, k); goto done; }
  if (bad_active) { fail("dsu-activation", n, k); goto done; }
  for (int t = 0; t < n; t++) {
    if (lab[t] < 0) continue;
    int r = mj_dsuRoot(c1, t);
    if (r != minof[lab[t]]) bad_root = 1;
  }
  if (bad_root) { fail("dsu-root-not-minimum-of-component", n, k); goto done; }
  // roots again after compression (compression must not change the partition)
  for (int t = 0; t < n; t++) {
    if (lab[t] < 0) continue;
    if (mj_dsuRoot(c1, t) != minof[lab[t]]) { fail("dsu-root-changed-by-path-compression", n, k); goto done; }
  }
  {
    int nidof = -12345;
    int nisl = mj_dsuAssign(island, c2, dofnum, n, &nidof);
    if (nisl != nisl_ref) { fail("assign-island-count", n, k); goto done; }
    if (nidof != nidof_ref) { fail("assign-nidof", n, k); goto done; }
    int prev_first = -1;
    for (int t = 0; t < n; t++) {
      int e = lab[t] < 0 ? -1 : idof[lab[t]];
      if (island[t] != e) {
        // distinguish a wrong partition from a wrong numbering
        int part_ok = 1;
        for (int u = 0; u < n && part_ok; u++) for (int v = 0; v < n; v++) {
          if ((island[u] < 0) != (lab[u] < 0)) { part_ok = 0; break; }
          if (lab[u] >= 0 && lab[v] >= 0 && ((island[u] == island[v]) != (lab[u] == lab[v]))) { part_ok = 0; break; }
        }
        fail(part_ok ? "assign-ids-not-ascending-in-smallest-tree" : "assign-partition", n, k);
        goto done;
      }
    }
    (void)prev_first;
  }
done:
  return;
}

static void dfs(int* parent, int* lab, int n, int depth, int maxdepth) {
  n_seq++;
  check_state(parent, lab, n, depth);
  if (depth == maxdepth) return;
  static int* pbuf[MAXM + 1];
  static int pbufn[MAXM + 1];
  if (!pbuf[depth] || pbufn[depth] != n) { free(pbuf[depth]); pbuf[depth] = (int*)malloc(sizeof(int) * n); pbufn[depth] = n; }
  int* p2 = pbuf[depth];
  int l2[MAXT];
  for (int a = -1; a < n; a++) for (int b = -1; b < n; b++) {
    if (a == -1 && b == -1) continue;
    memcpy(p2, parent, sizeof(int) * n);
    memcpy(l2, lab, sizeof(int) * n);
    seq_a[depth] = a; seq_b[depth] = b;
    mj_dsuMerge(p2, a, b);
    ref_merge(l2, n, a, b);
    dfs(p2, l2, n, depth + 1, maxdepth);
  }
}

static void run_seq(int n, int k) {
  int* parent = (int*)malloc(sizeof(int) * n);
  int lab[MAXT];
  for (int t = 0; t < n; t++) { parent[t] = -1; lab[t] = -1; }
  for (int i = 0; i < k; i++) {
    mj_dsuMerge(parent, seq_a[i], seq_b[i]);
    ref_merge(lab, n, seq_a[i], seq_b[i]);
    if (i + 1 == k || (rnd() & 3) == 0) check_state(parent, lab, n, i + 1);
  }
  n_seq++;
  free(parent);
}

// ---- flood fill --------------------------------------------------------------------------------------------------

static void fail_graph(const char* kind, int nr, const int* rownnz, const int* rowadr, const int* colind) {
  n_fail++;
  if (n_fail > 5) return;
  printf("FAIL kind=%s nr=%d adj=", kind, nr);
  for (int i = 0; i < nr; i++) {
    for (int j = 0; j < rownnz[i]; j++) printf("%d%s", colind[rowadr[i] + j], j + 1 < rownnz[i] ? "," : "");
    printf("%s", i + 1 < nr ? ";" : "");
  }
  printf("\n");
}

// adj: nr x nr 0/1 symmetric matrix; encoding 0 sorted, 1 reversed, 2 every entry duplicated
static void check_flood(const unsigned char* adj, int nr, int enc) {
  n_seq++; n_chk++;
  int nnz = 0;
  for (int i = 0; i < nr * nr; i++) nnz += adj[i];
  int mult = enc == 2 ? 2 : 1;
  int* rownnz = (int*)malloc(sizeof(int) * (nr ? nr : 1));
  int* rowadr = (int*)malloc(sizeof(int) * (nr ? nr : 1));
  int* colind = (int*)malloc(sizeof(int) * (nnz * mult ? nnz * mult : 1));
  int* stack = (int*)malloc(sizeof(int) * (nnz * mult ? nnz * mult : 1));
  int* island = (int*)malloc(sizeof(int) * (nr ? nr : 1));
  int p = 0;
  for (int i = 0; i < nr; i++) {
    rowadr[i] = p;
    if (enc == 1) { for (int j = nr - 1; j >= 0; j--) if (adj[i * nr + j]) colind[p++] = j; }
    else for (int j = 0; j < nr; j++) if (adj[i * nr + j]) { colind[p++] = j; if (enc == 2) colind[p++] = j; }
    rownnz[i] = p - rowadr[i];
  }
  int nisl = mj_floodFill(island, nr, rownnz, rowadr, colind, stack);
  // reference
  int lab[MAXT], exp[MAXT], idof[MAXT], nref = 0;
  for (int i = 0; i < nr; i++) { lab[i] = rownnz[i] ? i : -1; idof[i] = -1; }
  for (int changed = 1; changed;) {
    changed = 0;
    for (int i = 0; i < nr; i++) for (int j = 0; j < nr; j++) if (adj[i * nr + j] && lab[i] != lab[j]) {
      int lo = lab[i] < lab[j] ? lab[i] : lab[j];
      lab[i] = lab[j] = lo; changed = 1;
    }
  }
  for (int i = 0; i < nr; i++) {
    if (lab[i] < 0) { exp[i] = -1; continue; }
    if (idof[lab[i]] < 0) idof[lab[i]] = nref++;
    exp[i] = idof[lab[i]];
  }
  if (nisl != nref) fail_graph("flood-island-count", nr, rownnz, rowadr, colind);
  else for (int i = 0; i < nr; i++) if (island[i] != exp[i]) { fail_graph("flood-labels", nr, rownnz, rowadr, colind); break; }
  if (nr > max_trees) max_trees = nr;
  free(rownnz); free(rowadr); free(colind); free(stack); free(island);
}

int main(int argc, char** argv) {
  if (argc < 2) return 2;
  const char* mode = argv[1];
  if (!strcmp(mode, "dsu_exhaustive") && argc >= 4) {
    int n = atoi(argv[2]), k = atoi(argv[3]);
    if (n < 1 || n > MAXT || k > MAXM) return 2;
    int* parent = (int*)malloc(sizeof(int) * n);
    int lab[MAXT];
    for (int t = 0; t < n; t++) { parent[t] = -1; lab[t] = -1; }
    dfs(parent, lab, n, 0, k);
    free(parent);
    max_trees = n; max_merges = k;
    printf("EXHAUSTIVE dsu ntree=%d maxmerges=%d pairs_per_merge=%d\n", n, k, (n + 1) * (n + 1) - 1);
  } else if (!strcmp(mode, "dsu_random") && argc >= 4) {
    rs ^= (uint64_t)atoll(argv[2]) * 0x9E3779B97F4A7C15ull; for (int i = 0; i < 8; i++) rnd();
    long count = atol(argv[3]);
    for (long c = 0; c < count; c++) {
      int n = 1 + rnd() % 48;
      int k = rnd() % (4 * n + 1); if (k > MAXM) k = MAXM;
      int style = rnd() % 4;
      for (int i = 0; i < k; i++) {
        int a, b;
        if (style == 0) { a = (int)(rnd() % (n + 1)) - 1; b = (int)(rnd() % (n + 1)) - 1; }
        else if (style == 1) { a = rnd() % n; b = a > 0 ? a - 1 : -1; if (rnd() & 1) { int t = a; a = b; b = t; } }   // chains
        else if (style == 2) { a = n - 1 - (i % n); b = (a + 1 + rnd() % 3); if (b >= n) b = -1; }                  // descending
        else { a = rnd() % n; b = rnd() % n; }
        if (a == -1 && b == -1) b = 0;
        seq_a[i] = a; seq_b[i] = b;
      }
      run_seq(n, k);
      if (n > max_trees) max_trees = n;
      if (k > max_merges) max_merges = k;
    }
  } else if (!strcmp(mode, "dsu_replay") && argc >= 3) {
    int n = atoi(argv[2]), k = (argc - 3) / 2;
    for (int i = 0; i < k; i++) { seq_a[i] = atoi(argv[3 + 2 * i]); seq_b[i] = atoi(argv[4 + 2 * i]); }
    int* parent = (int*)malloc(sizeof(int) * n);
    int lab[MAXT];
    for (int t = 0; t < n; t++) { parent[t] = -1; lab[t] = -1; }
    for (int i = 0; i < k; i++) {
      mj_dsuMerge(parent, seq_a[i], seq_b[i]);
      ref_merge(lab, n, seq_a[i], seq_b[i]);
      check_state(parent, lab, n, i + 1);
    }
    n_seq = 1; max_trees = n; max_merges = k;
    free(parent);
  } else if (!strcmp(mode, "flood_exhaustive") && argc >= 3) {
    int maxnr = atoi(argv[2]);
    for (int nr = 0; nr <= maxnr; nr++) {
      int ne = nr * (nr - 1) / 2;
      for (long g = 0; g < (1L << ne); g++) for (long s = 0; s < (1L << nr); s++) {
        unsigned char adj[MAXT * MAXT];
        memset(adj, 0, sizeof(adj));
        int e = 0;
        for (int i = 0; i < nr; i++) for (int j = i + 1; j < nr; j++, e++) if ((g >> e) & 1) adj[i * nr + j] = adj[j * nr + i] = 1;
        for (int i = 0; i < nr; i++) if ((s >> i) & 1) adj[i * nr + i] = 1;
        for (int enc = 0; enc < 3; enc++) check_flood(adj, nr, enc);
      }
    }
    printf("EXHAUSTIVE flood maxnr=%d\n", maxnr);
  } else if (!strcmp(mode, "flood_replay") && argc >= 4) {
    // flood_replay <nr> "c,c,..;c,..;.."  : CSR rows exactly as printed by a FAIL line
    int nr = atoi(argv[2]);
    const char* p = argv[3];
    int nnz = 0;
    for (const char* q = p; *q; q++) if (*q >= '0' && *q <= '9' && (q == p || q[-1] == ',' || q[-1] == ';')) nnz++;
    int* rownnz = (int*)calloc(nr ? nr : 1, sizeof(int));
    int* rowadr = (int*)calloc(nr ? nr : 1, sizeof(int));
    int* colind = (int*)malloc(sizeof(int) * (nnz ? nnz : 1));
    int* stack = (int*)malloc(sizeof(int) * (nnz ? nnz : 1));
    int* island = (int*)malloc(sizeof(int) * (nr ? nr : 1));
    unsigned char adj[MAXT * MAXT];
    memset(adj, 0, sizeof(adj));
    int row = 0, k = 0;
    while (row < nr) {
      rowadr[row] = k;
      while (*p && *p != ';') {
        if (*p == ',') { p++; continue; }
        int c = (int)strtol(p, (char**)&p, 10);
        colind[k++] = c; adj[row * nr + c] = 1;
      }
      rownnz[row] = k - rowadr[row];
      row++;
      if (*p == ';') p++;
    }
    int nisl = mj_floodFill(island, nr, rownnz, rowadr, colind, stack);
    int lab[MAXT], idof[MAXT], nref = 0, bad = 0;
    for (int i = 0; i < nr; i++) { lab[i] = rownnz[i] ? i : -1; idof[i] = -1; }
    for (int changed = 1; changed;) {
      changed = 0;
      for (int i = 0; i < nr; i++) for (int j = 0; j < nr; j++) if ((adj[i * nr + j] || adj[j * nr + i]) && lab[i] != lab[j]) {
        int lo = lab[i] < lab[j] ? lab[i] : lab[j];
        lab[i] = lab[j] = lo; changed = 1;
      }
    }
    for (int i = 0; i < nr; i++) {
      int e = -1;
      if (lab[i] >= 0) { if (idof[lab[i]] < 0) idof[lab[i]] = nref++; e = idof[lab[i]]; }
      if (island[i] != e) bad = 1;
    }
    n_seq = n_chk = 1; max_trees = nr;
    if (nisl != nref) fail_graph("flood-island-count", nr, rownnz, rowadr, colind);
    else if (bad) fail_graph("flood-labels", nr, rownnz, rowadr, colind);
    free(rownnz); free(rowadr); free(colind); free(stack); free(island);
  } else if (!strcmp(mode, "flood_random") && argc >= 4) {
    rs ^= (uint64_t)atoll(argv[2]) * 0x9E3779B97F4A7C15ull; for (int i = 0; i < 8; i++) rnd();
    long count = atol(argv[3]);
    for (long c = 0; c < count; c++) {
      int nr = 1 + rnd() % 48;
      unsigned char adj[MAXT * MAXT];
      memset(adj, 0, sizeof(adj));
      int ne = rnd() % (2 * nr + 1);
      for (int i = 0; i < ne; i++) {
        int a = rnd() % nr, b = (rnd() & 3) ? (int)(rnd() % nr) : (a + 1) % nr;
        adj[a * nr + b] = adj[b * nr + a] = 1;
      }
      check_flood(adj, nr, rnd() % 3);
    }
  } else {
    return 2;
  }
  printf("SUMMARY sequences=%ld checks=%ld failures=%ld maxtrees=%d maxmerges=%d\n", n_seq, n_chk, n_fail, max_trees, max_merges);
  return n_fail ? 1 : 0;
}
