// C32: build a model purely through the mjSpec C API from an op-list, compile it, save the compiled model as MJB
// (exact image of m1) and the spec as MJCF text (mj_saveXMLString at the requested precision).
// usage: h_spec ops.txt out.mjb out.xml digits copyback(0|1)     exit 3: the spec does not compile (not a verdict)
#include <mujoco/mujoco.h>
#include <stdio.h>
#include <stdlib.h>
#include <string.h>

void vf_set_xml_precision(int p);

static mjSpec* S;
static mjsFrame* lastframe;

static mjsBody* body(const char* name) {
  if (!strcmp(name, "world")) return mjs_findBody(S, "world");
  mjsBody* b = mjs_findBody(S, name);
  if (!b) { fprintf(stderr, "no body %s\n", name); exit(2); }
  return b;
}
static const mjsDefault* cls(const char* name) { return strcmp(name, "-") ? mjs_findDefault(S, name) : NULL; }
static char* next(char** p) {
  while (**p == ' ') (*p)++;
  char* s = *p;
  while (**p && **p != ' ' && **p != '\n') (*p)++;
  if (**p) { **p = 0; (*p)++; }
  return s;
}
static double num(char** p) { return strtod(next(p), NULL); }
static void vec(char** p, double* v, int n) { for (int i = 0; i < n; i++) v[i] = num(p); }
static void attach_frame(mjsElement* e, const char* fr) {
  if (!strcmp(fr, "-")) return;
  mjsFrame* f = !strcmp(fr, "_last") ? lastframe : mjs_findFrame(S, fr);
  if (!f || mjs_setFrame(e, f)) { fprintf(stderr, "setFrame failed %s\n", fr); exit(2); }
}

int main(int argc, char** argv) {
  if (argc < 6) return 2;
  FILE* fp = fopen(argv[1], "r");
  if (!fp) return 2;
  S = mj_makeSpec();
  mjs_setString(S->modelname, "specbuilt");
  char line[4096];
  while (fgets(line, sizeof line, fp)) {
    char* p = line;
    char* op = next(&p);
    if (!*op) continue;
    if (!strcmp(op, "option")) {
      S->option.timestep = num(&p);
      vec(&p, S->option.gravity, 3);
      S->option.integrator = (int)num(&p);
      S->option.cone = (int)num(&p);
    } else if (!strcmp(op, "default")) {
      char* nm = next(&p); char* par = next(&p);
      mjsDefault* d = mjs_addDefault(S, nm, strcmp(par, "-") ? mjs_findDefault(S, par) : NULL);
      if (!d) { fprintf(stderr, "addDefault failed\n"); return 2; }
      double c[4]; vec(&p, c, 4);
      d->geom->rgba[0] = (float)c[0]; d->geom->rgba[1] = (float)c[1]; d->geom->rgba[2] = (float)c[2];
      d->geom->friction[0] = c[3];
      d->joint->damping[0] = c[0] * 0.3;
      d->site->rgba[1] = (float)c[1];
    } else if (!strcmp(op, "texture")) {
      mjsTexture* t = mjs_addTexture(S);
      mjs_setName(t->element, next(&p));
      t->type = (int)num(&p); t->builtin = (int)num(&p);
      t->width = t->height = (int)num(&p);
      vec(&p, t->rgb1, 3);
      t->rgb2[0] = 1 - t->rgb1[0];
    } else if (!strcmp(op, "material")) {
      mjsMaterial* m = mjs_addMaterial(S, NULL);
      mjs_setName(m->element, next(&p));
      mjs_setInStringVec(m->textures, mjTEXROLE_RGB, next(&p));
      double c[4]; vec(&p, c, 4);
      for (int i = 0; i < 4; i++) m->rgba[i] = (float)c[i];
      m->specular = (float)c[0]; m->shininess = (float)c[1];
    } else if (!strcmp(op, "frame")) {
      mjsBody* b = body(next(&p));
      char* nm = next(&p);
      mjsFrame* f = mjs_addFrame(b, NULL);
      if (strcmp(nm, "_")) mjs_setName(f->element, nm);
      vec(&p, f->pos, 3); vec(&p, f->quat, 4);
      lastframe = f;
    } else if (!strcmp(op, "body")) {
      mjsBody* par = body(next(&p));
      char* nm = next(&p); char* fr = next(&p);
      mjsBody* b = mjs_addBody(par, NULL);
      mjs_setName(b->element, nm);
      vec(&p, b->pos, 3); vec(&p, b->quat, 4);
      b->gravcomp = num(&p);
      attach_frame(b->element, fr);
    } else if (!strcmp(op, "joint")) {
      mjsBody* b = body(next(&p));
      mjsJoint* j = mjs_addJoint(b, NULL);
      mjs_setName(j->element, next(&p));
      j->type = (int)num(&p);
      vec(&p, j->pos, 3); vec(&p, j->axis, 3);
      j->damping[0] = num(&p); j->armature = num(&p);
      int lim = (int)num(&p);
      double r[2]; vec(&p, r, 2);
      if (lim) { j->limited = mjLIMITED_TRUE; j->range[0] = r[0]; j->range[1] = r[1]; }
      if (j->type == mjJNT_FREE) { j->pos[0] = j->pos[1] = j->pos[2] = 0; j->damping[0] = 0; j->armature = 0; }
    } else if (!strcmp(op, "geom")) {
      mjsBody* b = body(next(&p));
      char* nm = next(&p);
      mjsGeom* g = mjs_addGeom(b, cls(next(&p)));
      mjs_setName(g->element, nm);
      g->type = (int)num(&p);
      vec(&p, g->size, 3); vec(&p, g->pos, 3); vec(&p, g->quat, 4);
      g->margin = num(&p); g->density = num(&p);
      char* mat = next(&p);
      if (strcmp(mat, "-")) mjs_setString(g->material, mat);
    } else if (!strcmp(op, "site")) {
      mjsBody* b = body(next(&p));
      mjsSite* s = mjs_addSite(b, NULL);
      mjs_setName(s->element, next(&p));
      vec(&p, s->pos, 3); vec(&p, s->quat, 4);
      s->size[0] = num(&p);
    } else if (!strcmp(op, "camera")) {
      mjsBody* b = body(next(&p));
      mjsCamera* c = mjs_addCamera(b, NULL);
      mjs_setName(c->element, next(&p));
      vec(&p, c->pos, 3); vec(&p, c->quat, 4);
      c->fovy = num(&p);
    } else if (!strcmp(op, "light")) {
      mjsBody* b = body(next(&p));
      mjsLight* l = mjs_addLight(b, NULL);
      mjs_setName(l->element, next(&p));
      vec(&p, l->pos, 3); vec(&p, l->dir, 3);
    } else if (!strcmp(op, "motor") || !strcmp(op, "position")) {
      mjsActuator* a = mjs_addActuator(S, NULL);
      mjs_setName(a->element, next(&p));
      mjs_setString(a->target, next(&p));
      a->trntype = mjTRN_JOINT;
      if (!strcmp(op, "motor")) { mjs_setToMotor(a); a->gear[0] = num(&p); }
      else {
        double kp = num(&p), kv = num(&p);
        const char* e = mjs_setToPosition(a, kp, &kv, NULL, NULL, 0);
        if (e && *e) { fprintf(stderr, "setToPosition: %s\n", e); return 2; }
      }
    } else if (!strcmp(op, "tendon")) {
      mjsTendon* t = mjs_addTendon(S, NULL);
      mjs_setName(t->element, next(&p));
      mjs_wrapSite(t, next(&p)); mjs_wrapSite(t, next(&p));
      t->stiffness[0] = num(&p); t->damping[0] = num(&p);
    } else if (!strcmp(op, "fixedtendon")) {
      mjsTendon* t = mjs_addTendon(S, NULL);
      mjs_setName(t->element, next(&p));
      char* j1 = next(&p); double c1 = num(&p); char* j2 = next(&p); double c2 = num(&p);
      mjs_wrapJoint(t, j1, c1); mjs_wrapJoint(t, j2, c2);
    } else if (!strcmp(op, "weld")) {
      mjsEquality* e = mjs_addEquality(S, NULL);
      mjs_setName(e->element, next(&p));
      e->type = mjEQ_WELD; e->objtype = mjOBJ_BODY;
      mjs_setString(e->name1, next(&p)); mjs_setString(e->name2, next(&p));
      e->data[10] = num(&p);
    } else if (!strcmp(op, "exclude")) {
      mjsExclude* e = mjs_addExclude(S);
      mjs_setName(e->element, next(&p));
      mjs_setString(e->bodyname1, next(&p)); mjs_setString(e->bodyname2, next(&p));
    } else if (!strcmp(op, "pair")) {
      mjsPair* e = mjs_addPair(S, NULL);
      mjs_setName(e->element, next(&p));
      mjs_setString(e->geomname1, next(&p)); mjs_setString(e->geomname2, next(&p));
      e->condim = (int)num(&p); e->margin = num(&p);
    } else if (!strcmp(op, "sensor")) {
      mjsSensor* s = mjs_addSensor(S);
      mjs_setName(s->element, next(&p));
      s->type = (int)num(&p); s->objtype = (int)num(&p);
      mjs_setString(s->objname, next(&p));
      s->cutoff = num(&p);
    } else if (!strcmp(op, "numeric")) {
      mjsNumeric* n = mjs_addNumeric(S);
      mjs_setName(n->element, next(&p));
      int k = (int)num(&p); double d[16];
      vec(&p, d, k);
      mjs_setDouble(n->data, d, k);
      n->size = k;
    } else if (!strcmp(op, "text")) {
      mjsText* t = mjs_addText(S);
      mjs_setName(t->element, next(&p));
      mjs_setString(t->data, next(&p));
    } else if (!strcmp(op, "tuple")) {
      mjsTuple* t = mjs_addTuple(S);
      mjs_setName(t->element, next(&p));
      int ot = mjOBJ_GEOM;
      mjs_setInt(t->objtype, &ot, 1);
      mjs_setStringVec(t->objname, next(&p));
      double prm = num(&p);
      mjs_setDouble(t->objprm, &prm, 1);
    } else if (!strcmp(op, "key")) {
      mjsKey* k = mjs_addKey(S);
      mjs_setName(k->element, next(&p));
      k->time = num(&p);
    } else { fprintf(stderr, "unknown op %s\n", op); return 2; }
  }
  fclose(fp);
  mjModel* m = mj_compile(S, NULL);
  if (!m) { fprintf(stderr, "compile: %s\n", mjs_getError(S)); return 3; }
  mj_saveModel(m, argv[2], NULL, 0);
  if (atoi(argv[5])) mj_copyBack(S, m);
  vf_set_xml_precision(atoi(argv[4]));
  int cap = 1 << 22;
  char* buf = malloc(cap);
  char err[1000] = "";
  int r = mj_saveXMLString(S, buf, cap, err, sizeof err);
  if (r != 0) { fprintf(stderr, "save: %d %s\n", r, err); return 4; }
  FILE* fo = fopen(argv[3], "w");
  fputs(buf, fo);
  fclose(fo);
  mj_deleteModel(m);
  mj_deleteSpec(S);
  return 0;
}
