// Test plugin with a non-empty plugin state (no first-party plugin in this tree declares nstate > 0), built as a
// small shared object and registered from Python:  vf_register_state_plugin().
//   <extension><plugin plugin="vf.stateful"><instance name="p0"><config key="n" value="3"/></instance></plugin></extension>
//   <body> <plugin instance="p0"/> ... </body>
// reset writes a recognisable pattern into the instance's slice of plugin_state, advance changes it every step.
#include <stdlib.h>
#include <mujoco/mujoco.h>

static int sp_n(const mjModel* m, int instance) {
  const char* v = mj_getPluginConfig(m, instance, "n");
  int n = v ? atoi(v) : 0;
  return n < 0 ? 0 : n;
}

static int sp_init(const mjModel* m, mjData* d, int instance) { return 0; }

static void sp_reset(const mjModel* m, mjtNum* plugin_state, void* plugin_data, int instance) {
  int n = sp_n(m, instance);
  for (int i = 0; i < n; i++) plugin_state[i] = 0.25 + i + 100.0 * instance;
}

static void sp_compute(const mjModel* m, mjData* d, int instance, int capability_bit) {}

static void sp_advance(const mjModel* m, mjData* d, int instance) {
  int n = sp_n(m, instance);
  mjtNum* s = d->plugin_state + m->plugin_stateadr[instance];
  for (int i = 0; i < n; i++) s[i] += 1.0 + d->time;
}

int vf_register_state_plugin(void) {
  static const char* attrs[] = {"n"};
  mjpPlugin p;
  mjp_defaultPlugin(&p);
  p.name = "vf.stateful";
  p.nattribute = 1;
  p.attributes = attrs;
  p.capabilityflags |= mjPLUGIN_PASSIVE;
  p.nstate = sp_n;
  p.init = sp_init;
  p.reset = sp_reset;
  p.compute = sp_compute;
  p.advance = sp_advance;
  return mjp_registerPlugin(&p);
}
