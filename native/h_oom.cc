// C21: the k-th allocation through MuJoCo's allocator fails.
// usage: h_oom <scenario> <xmlfile> count            -> prints N (allocations the scenario makes)
//        h_oom <scenario> <xmlfile> single <k0> <k1> -> for k in [k0,k1): fail exactly the k-th allocation
//        h_oom <scenario> <xmlfile> multi <seed> <n> <p_permille> -> n runs with each allocation failing with prob p
// After every run the scenario's objects are deleted and the shadow table of mju_user_malloc must hold no block
// allocated during the run (leak), must have seen no foreign/double free; crashes/ASan reports are seen by the caller.
#include <mujoco/mujoco.h>

#include <csetjmp>
#include <cstdint>
#include <cstdio>
#include <cstdlib>
#include <cstring>
#include <dlfcn.h>
#include <execinfo.h>
#include <string>
#include <vector>

extern "C" {
void vf_install_handlers(void);
jmp_buf** vf_jmp_slot(void);
const char* vf_last_error(void);
void vf_alloc_install(int fill);
void vf_alloc_plan(long fail_at, double fail_p, unsigned long long seed);
void vf_alloc_stats(long long* out);
int vf_alloc_live(long since, long long* serials, long long* sizes, int cap);
int vf_alloc_live_callers(long since, void** callers, int cap);
void vf_alloc_track_callers(int on);
}

static long g_fail = 0;
#define FAIL(...) do { if (g_fail++ < 20) { printf("FAIL "); printf(__VA_ARGS__); printf("\n"); fflush(stdout);} } while (0)

struct Ctx {
  std::string xml;       // document text
  std::string path;      // file path
  mjSpec* spec = nullptr;
  mjModel* model = nullptr;
  mjData* data = nullptr;
};

static long long serial_now() { long long st[6]; vf_alloc_stats(st); return st[0]; }
static long long nfailed_now() { long long st[6]; vf_alloc_stats(st); return st[3]; }
static long long badfree_now() { long long st[6]; vf_alloc_stats(st); return st[4]; }

// objects produced inside the fault window (deleted afterwards, outside the window)
struct Out { mjSpec* spec = nullptr; mjModel* model = nullptr; mjData* data = nullptr; mjvScene scn; bool scn_made = false; void* buf = nullptr; int status = 0; char err[1000] = ""; };

typedef void (*ScenFn)(Ctx&, Out&);

static void s_parse(Ctx& c, Out& o) { o.spec = mj_parseXMLString(c.xml.c_str(), nullptr, o.err, sizeof(o.err)); o.status = o.spec ? 0 : 1; }
static void s_loadxml(Ctx& c, Out& o) { o.model = mj_loadXML(c.path.c_str(), nullptr, o.err, sizeof(o.err)); o.status = o.model ? 0 : 1; }
static void s_compile(Ctx& c, Out& o) { o.model = mj_compile(c.spec, nullptr); o.status = o.model ? 0 : 1; if (!o.model) snprintf(o.err, sizeof(o.err), "%s", mjs_getError(c.spec)); }
static void s_makedata(Ctx& c, Out& o) { o.data = mj_makeData(c.model); o.status = o.data ? 0 : 1; if (!o.data) snprintf(o.err, sizeof(o.err), "NULL return"); }
static void s_copydata(Ctx& c, Out& o) { o.data = mj_copyData(nullptr, c.model, c.data); o.status = o.data ? 0 : 1; if (!o.data) snprintf(o.err, sizeof(o.err), "NULL return"); }
static void s_copymodel(Ctx& c, Out& o) { o.model = mj_copyModel(nullptr, c.model); o.status = o.model ? 0 : 1; if (!o.model) snprintf(o.err, sizeof(o.err), "NULL return"); }
static void s_saveload(Ctx& c, Out& o) {
  mjtSize sz = mj_sizeModel(c.model);
  o.buf = malloc((size_t)sz);
  mj_saveModel(c.model, nullptr, o.buf, (int)sz);
  o.model = mj_loadModelBuffer(o.buf, (int)sz);
  o.status = o.model ? 0 : 1;
  if (!o.model) snprintf(o.err, sizeof(o.err), "NULL return");
}
static void s_copyspec(Ctx& c, Out& o) { o.spec = mj_copySpec(c.spec); o.status = o.spec ? 0 : 1; if (!o.spec) snprintf(o.err, sizeof(o.err), "NULL return"); }
static mjModel* g_rc_model = nullptr;   // the objects handed to mj_recompile (inspected after a failure, see check_recompile_leftovers)
static mjData* g_rc_data = nullptr;
static void s_recompile(Ctx& c, Out& o) {
  mjModel* m = c.model; mjData* d = c.data;
  g_rc_model = m; g_rc_data = d;
  c.model = nullptr; c.data = nullptr;     // documented: on failure mj_recompile deletes the given model and data
  o.status = mj_recompile(c.spec, nullptr, m, d);
  if (o.status) snprintf(o.err, sizeof(o.err), "%s", mjs_getError(c.spec));
  else { c.model = m; c.data = d; g_rc_model = nullptr; g_rc_data = nullptr; }
}
// after a failed in-place rebuild the given mjData/mjModel structs may still be live (the failure left the function through the error
// channel before the documented deletion): whatever is left must not hold pointers to blocks that were already released, because the
// only thing a caller can still do with such an object is to delete it (a dangling buffer/arena pointer then means a double free)
extern "C" int vf_alloc_is_live(void* p);
static void check_recompile_leftovers(const char* tag, long k) {
  if (g_rc_data && vf_alloc_is_live(g_rc_data)) {
    if (g_rc_data->buffer && !vf_alloc_is_live(g_rc_data->buffer)) FAIL("%s k=%ld: live mjData left with a dangling buffer pointer after the failed rebuild", tag, k);
    if (g_rc_data->arena && !vf_alloc_is_live(g_rc_data->arena)) FAIL("%s k=%ld: live mjData left with a dangling arena pointer after the failed rebuild", tag, k);
    printf("LEFTOVER %s k=%ld live-mjData-after-failed-rebuild\n", tag, k);
  }
  if (g_rc_model && vf_alloc_is_live(g_rc_model)) {
    if (g_rc_model->buffer && !vf_alloc_is_live(g_rc_model->buffer)) FAIL("%s k=%ld: live mjModel left with a dangling buffer pointer after the failed rebuild", tag, k);
    printf("LEFTOVER %s k=%ld live-mjModel-after-failed-rebuild\n", tag, k);
  }
  g_rc_model = nullptr; g_rc_data = nullptr;
}
static void s_step(Ctx& c, Out& o) { for (int i = 0; i < 3; i++) mj_step(c.model, c.data); mj_forward(c.model, c.data); mj_inverse(c.model, c.data); }
static void s_scene(Ctx& c, Out& o) { mjv_defaultScene(&o.scn); o.scn_made = true; mjv_makeScene(c.model, &o.scn, 500); }
static void s_print(Ctx& c, Out& o) { mj_printModel(c.model, "/dev/null"); mj_printData(c.model, c.data, "/dev/null"); }
static void s_resetkey(Ctx& c, Out& o) { mj_resetData(c.model, c.data); if (c.model->nkey) mj_resetDataKeyframe(c.model, c.data, 0); mj_forward(c.model, c.data); }

struct Scen { const char* name; ScenFn fn; bool need_spec, need_model, need_data; };
static Scen SCEN[] = {
  {"parse", s_parse, false, false, false}, {"loadxml", s_loadxml, false, false, false}, {"compile", s_compile, true, false, false},
  {"makedata", s_makedata, true, true, false}, {"copydata", s_copydata, true, true, true}, {"copymodel", s_copymodel, true, true, false},
  {"saveload", s_saveload, true, true, false}, {"copyspec", s_copyspec, true, false, false}, {"recompile", s_recompile, true, true, true},
  {"step", s_step, true, true, true}, {"scene", s_scene, true, true, false}, {"print", s_print, true, true, true}, {"resetkey", s_resetkey, true, true, true},
};

static bool setup(Ctx& c, const Scen& s) {
  char err[1000] = "";
  if (s.need_spec) { c.spec = mj_parseXMLString(c.xml.c_str(), nullptr, err, sizeof(err)); if (!c.spec) { printf("SETUPFAIL parse: %s\n", err); return false; } }
  if (s.need_model) { c.model = mj_compile(c.spec, nullptr); if (!c.model) { printf("SETUPFAIL compile: %s\n", mjs_getError(c.spec)); return false; } }
  if (s.need_data) { c.data = mj_makeData(c.model); if (!c.data) { printf("SETUPFAIL makedata\n"); return false; } mj_forward(c.model, c.data); }
  return true;
}

static void teardown(Ctx& c) {
  if (c.data) mj_deleteData(c.data);
  if (c.model) mj_deleteModel(c.model);
  if (c.spec) mj_deleteSpec(c.spec);
  c.data = nullptr; c.model = nullptr; c.spec = nullptr;
}

static const char* symname(void* addr, char* buf, size_t n) {
  Dl_info info;
  if (addr && dladdr(addr, &info) && info.dli_sname) snprintf(buf, n, "%s", info.dli_sname);
  else if (addr && dladdr(addr, &info) && info.dli_fname) snprintf(buf, n, "@%s+0x%lx", info.dli_fname, (unsigned long)((char*)addr - (char*)info.dli_fbase));
  else snprintf(buf, n, "?");
  return buf;
}

// one faulted run; returns number of allocations the (unfaulted part of the) scenario requested
static long run_once(const Scen& s, const std::string& xml, const std::string& path, long fail_k, double p, unsigned long long seed, const char* tag) {
  Ctx c; c.xml = xml; c.path = path;
  if (!setup(c, s)) { teardown(c); return -1; }
  Out o;
  long long s0 = serial_now(), f0 = nfailed_now(), b0 = badfree_now();
  bool trapped = false;
  {
    jmp_buf jb; jmp_buf** slot = vf_jmp_slot(); jmp_buf* prev = *slot;
    if (setjmp(jb)) { *slot = prev; trapped = true; }
    else {
      *slot = &jb;
      vf_alloc_plan(fail_k > 0 ? s0 + fail_k : -1, p, seed);
      s.fn(c, o);
      *slot = prev;
    }
  }
  vf_alloc_plan(-1, 0, 0);
  long long s1 = serial_now(), nf = nfailed_now() - f0;
  long nalloc = (long)(s1 - s0);
  // the failure must surface: trapped mju_error, or error/NULL return with a message
  if (nf > 0) {
    if (trapped) {
      if (!vf_last_error()[0]) FAIL("%s: error raised with empty message", tag);
      printf("OUTCOME %s k=%ld trapped-error\n", tag, fail_k);
    } else if (o.status != 0) {
      if (!o.err[0]) FAIL("%s: failure returned without a message", tag);
      printf("OUTCOME %s k=%ld error-return\n", tag, fail_k);
    } else {
      printf("OUTCOME %s k=%ld absorbed\n", tag, fail_k);
    }
  }
  if (nf > 0) check_recompile_leftovers(tag, fail_k);
  else { g_rc_model = nullptr; g_rc_data = nullptr; }
  // delete everything the scenario produced (when an error was trapped the engine's own objects that were
  // under construction are lost by contract - that is exactly what the leak accounting below measures)
  if (o.data) mj_deleteData(o.data);
  if (o.model) mj_deleteModel(o.model);
  if (o.spec) mj_deleteSpec(o.spec);
  // the mjvScene struct is owned by the caller: mjv_makeScene stores every block in it before the next request
  // (scn->geoms = mju_malloc(..); scn->geomorder = mju_malloc(..); ...) and starts from an all-zero struct
  // (mjv_freeScene -> mjv_defaultScene), so after a trapped error the documented destructor can always be called
  // and must release the partially built scene; what is left afterwards is a genuine leak.
  if (o.scn_made) mjv_freeScene(&o.scn);
  if (o.buf) free(o.buf);
  if (trapped && c.data) mj_resetData(c.model, c.data);
  teardown(c);
  // leak accounting on the shadow table
  void* callers[64];
  int nl = vf_alloc_live_callers((long)s0, callers, 64);
  if (nl > 0) {
    char buf[400];
    std::string who;
    for (int i = 0; i < nl && i < 64; i++) { symname(callers[i], buf, sizeof(buf)); if (who.find(buf) == std::string::npos) { if (!who.empty()) who += ","; who += buf; } }
    printf("LEAK %s k=%ld blocks=%d outcome=%s allocated_in=%s\n", tag, fail_k, nl, trapped ? "trapped-error" : (o.status ? "error-return" : "ok"), who.c_str());
  }
  if (badfree_now() != b0) FAIL("%s k=%ld: free of a pointer that is not a live block (double free or foreign pointer)", tag, fail_k);
  return nalloc;
}

int main(int argc, char** argv) {
  if (argc < 4) return 2;
  setvbuf(stdout, nullptr, _IOLBF, 0);
  vf_install_handlers();
  vf_alloc_install(0xA5);
  vf_alloc_track_callers(1);
  const Scen* s = nullptr;
  for (auto& x : SCEN) if (!strcmp(x.name, argv[1])) s = &x;
  if (!s) { printf("unknown scenario\n"); return 2; }
  std::string path = argv[2], xml;
  {
    FILE* f = fopen(argv[2], "rb");
    if (!f) { printf("cannot open %s\n", argv[2]); return 2; }
    char buf[65536]; size_t n;
    while ((n = fread(buf, 1, sizeof(buf), f)) > 0) xml.append(buf, n);
    fclose(f);
  }
  if (!strcmp(argv[3], "count")) {
    long n = run_once(*s, xml, path, -1, 0, 0, s->name);
    printf("COUNT %ld\n", n);
  } else if (!strcmp(argv[3], "single")) {
    long k0 = atol(argv[4]), k1 = atol(argv[5]);
    for (long k = k0; k < k1; k++) {
      printf("K %ld\n", k);
      run_once(*s, xml, path, k, 0, 0, s->name);
    }
  } else if (!strcmp(argv[3], "list")) {
    char* tok = strtok(argv[4], ",");
    while (tok) {
      long k = atol(tok);
      printf("K %ld\n", k);
      run_once(*s, xml, path, k, 0, 0, s->name);
      tok = strtok(nullptr, ",");
    }
  } else if (!strcmp(argv[3], "multi")) {
    unsigned long long seed = strtoull(argv[4], 0, 10);
    long n = atol(argv[5]);
    double p = atof(argv[6]) / 1000.0;
    for (long i = 0; i < n; i++) {
      printf("K %ld\n", -(i + 1));
      run_once(*s, xml, path, -1, p, seed * 7919 + i + 1, s->name);
    }
  }
  long long st[6]; vf_alloc_stats(st);
  printf("SUMMARY scenario=%s allocations_seen=%lld injected_failures=%lld bad_frees=%lld live_at_exit=%lld failures=%ld\n", s->name, st[0], st[3], st[4], st[1], g_fail);
  return g_fail ? 1 : 0;
}
