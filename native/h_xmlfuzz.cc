// C37 robustness harness: seeded mutation fuzzer over XML/URDF seed documents.
//
//   h_xmlfuzz fuzz <seedlist> <dict> <seed> <start> <count> [timeout_s]   run inputs start..start+count-1
//   h_xmlfuzz dump <seedlist> <dict> <seed> <index> <outfile>             write input #index (no execution)
//   h_xmlfuzz file <path> <api> <errsz>                                   run the bytes of one file (replay)
//   h_xmlfuzz hang <path> <api> <errsz> <timeout_s>                       same, but when the CPU-time cap fires take 80 stack
//                                                                         samples 50 CPU-ms apart ("S <k> <thread> <frame> ..."
//                                                                         lines) before giving up: the deepest frame common to
//                                                                         all samples of the busiest thread owns the loop that
//                                                                         does not terminate
//
// Input #i depends only on (seedlist contents, dict contents, seed, i).  For each input:
//   api 0: mj_parseXMLString + mj_compile (+ mj_makeData + one mj_step when small) + deletes
//   api 1: mj_addBufferVFS + mj_loadXML (+ the same run phase) + mj_freeLastXML
// Contract checked per input (the documented contract is that load errors are RETURNED):
//   * NULL result with empty error text, non-NULL spec with error text set, NULL model with empty mjs_getError
//   * mju_error reaching the global handler during parse/compile ("ESCAPED-ERROR"; vf_install_handlers is NOT used)
//   * uncaught C++ exception / exit() from inside the library / fatal signal / sanitizer report (process dies; the
//     Python side attributes it to the last "B <index>" line and resumes after it)
// mju_error inside mj_makeData/mj_step is the engine's documented error channel and is tolerated (counted).
#include <mujoco/mujoco.h>

#include <csetjmp>
#include <csignal>
#include <cstdint>
#include <cstdio>
#include <cstdlib>
#include <cstring>
#include <cxxabi.h>
#include <dlfcn.h>
#include <execinfo.h>
#include <pthread.h>
#include <exception>
#include <map>
#include <string>
#include <typeinfo>
#include <sys/resource.h>
#include <sys/time.h>
#include <unistd.h>
#include <vector>

extern "C" {
void __lsan_disable(void) __attribute__((weak));
void __lsan_enable(void) __attribute__((weak));
}

// ------------------------------------------------------------------------------------------ rng
struct Rng {
  uint64_t s;
  explicit Rng(uint64_t seed, uint64_t idx) { s = seed * 0x9E3779B97F4A7C15ull ^ (idx + 1) * 0xBF58476D1CE4E5B9ull; next(); next(); }
  uint64_t next() { uint64_t z = (s += 0x9E3779B97F4A7C15ull); z = (z ^ (z >> 30)) * 0xBF58476D1CE4E5B9ull;
                    z = (z ^ (z >> 27)) * 0x94D049BB133111EBull; return z ^ (z >> 31); }
  size_t below(size_t n) { return n ? (size_t)(next() % n) : 0; }
  bool chance(int pct) { return (int)below(100) < pct; }
};

// ------------------------------------------------------------------------------------------ corpus
static std::vector<std::string> g_seeds;      // documents (weighted by repetition)
static std::vector<std::string> g_dict;       // tokens
static const char* kNumbers[] = {"nan", "-nan", "inf", "-inf", "1e308", "-1e308", "1e309", "1e-320", "-0", "0", "-1", "",
                                 "2147483647", "2147483648", "-2147483649", "4294967296", "99999999999999999999", "65536",
                                 "1000000", "0.0", "1e", ".", "-", "+5", "00012", "1e-400", "3.", "0x10", "1 2 3 4 5 6 7 8 9"};
static const char* kBytes = "<>/\"'=& \t\n-.0123456789;:[]{}!?#%";

static bool read_file(const char* path, std::string* out) {
  FILE* f = fopen(path, "rb");
  if (!f) return false;
  char buf[65536]; size_t n;
  out->clear();
  while ((n = fread(buf, 1, sizeof buf, f)) > 0) out->append(buf, n);
  fclose(f);
  return true;
}

static bool load_lists(const char* seedlist, const char* dict) {
  std::string text;
  if (!read_file(seedlist, &text)) return false;
  size_t pos = 0;
  while (pos < text.size()) {
    size_t e = text.find('\n', pos); if (e == std::string::npos) e = text.size();
    std::string line = text.substr(pos, e - pos); pos = e + 1;
    if (line.empty()) continue;
    size_t sp = line.find(' ');
    int w = atoi(line.substr(0, sp).c_str());
    std::string doc;
    if (!read_file(line.substr(sp + 1).c_str(), &doc)) { fprintf(stderr, "cannot read seed %s\n", line.c_str()); return false; }
    for (int i = 0; i < w; i++) g_seeds.push_back(doc);
  }
  if (!read_file(dict, &text)) return false;
  pos = 0;
  while (pos < text.size()) {
    size_t e = text.find('\n', pos); if (e == std::string::npos) e = text.size();
    if (e > pos) g_dict.push_back(text.substr(pos, e - pos));
    pos = e + 1;
  }
  return !g_seeds.empty() && !g_dict.empty();
}

// ------------------------------------------------------------------------------------------ light-weight element scanner
struct Elem { size_t os, oe, cs, ce; size_t ns, ne; int parent; bool selfclosed; };   // [os,oe) open tag, [cs,ce) close tag

static std::vector<Elem> scan(const std::string& s) {
  std::vector<Elem> out; std::vector<int> stack;
  size_t i = 0, n = s.size();
  while (i < n) {
    if (s[i] != '<') { i++; continue; }
    if (i + 1 < n && (s[i + 1] == '!' || s[i + 1] == '?')) {
      size_t e = s.compare(i, 4, "<!--") == 0 ? s.find("-->", i + 4) : s.find('>', i + 1);
      if (e == std::string::npos) break;
      i = e + 1; continue;
    }
    if (i + 1 < n && s[i + 1] == '/') {
      size_t e = s.find('>', i + 1); if (e == std::string::npos) break;
      if (!stack.empty()) { Elem& el = out[stack.back()]; el.cs = i; el.ce = e + 1; stack.pop_back(); }
      i = e + 1; continue;
    }
    size_t j = i + 1;
    while (j < n && (isalnum((unsigned char)s[j]) || s[j] == '_' || s[j] == ':' || s[j] == '-')) j++;
    if (j == i + 1) { i++; continue; }
    Elem el; el.os = i; el.ns = i + 1; el.ne = j; el.parent = stack.empty() ? -1 : stack.back();
    char q = 0; size_t k = j;
    while (k < n) { char c = s[k]; if (q) { if (c == q) q = 0; } else if (c == '"' || c == '\'') q = c; else if (c == '>') break; k++; }
    if (k >= n) break;
    el.oe = k + 1; el.selfclosed = s[k - 1] == '/'; el.cs = el.ce = el.oe;
    out.push_back(el);
    if (!el.selfclosed) stack.push_back((int)out.size() - 1);
    i = k + 1;
  }
  for (int id : stack) { out[id].cs = out[id].ce = s.size(); }     // unclosed: extends to the end
  return out;
}

// attribute-value spans: [vs,ve) between quotes inside open tags
static std::vector<std::pair<size_t, size_t>> values(const std::string& s, const std::vector<Elem>& els) {
  std::vector<std::pair<size_t, size_t>> v;
  for (const Elem& e : els) {
    size_t k = e.ne;
    while (k < e.oe) {
      if (s[k] == '"' || s[k] == '\'') { char q = s[k]; size_t b = k + 1; size_t c = s.find(q, b);
        if (c == std::string::npos || c >= e.oe) break; v.push_back({b, c}); k = c + 1; }
      else k++;
    }
  }
  return v;
}

// ------------------------------------------------------------------------------------------ mutations
enum { M_BYTE = 0, M_TOKEN = 1, M_TREE = 2, M_NUM = 3, M_NKIND = 4 };
static const char* kKindName[] = {"byte", "token", "tree", "num"};

static void mut_byte(std::string& s, Rng& r) {
  if (s.empty()) { s.push_back(kBytes[r.below(strlen(kBytes))]); return; }
  switch (r.below(6)) {
    case 0: { size_t p = r.below(s.size()); s[p] = (char)(s[p] ^ (1u << r.below(8))); break; }
    case 1: { size_t p = r.below(s.size()); s[p] = r.chance(70) ? kBytes[r.below(strlen(kBytes))] : (char)r.below(256); break; }
    case 2: { size_t p = r.below(s.size() + 1), k = 1 + r.below(8); std::string ins;
              for (size_t i = 0; i < k; i++) ins.push_back(r.chance(80) ? kBytes[r.below(strlen(kBytes))] : (char)(1 + r.below(255)));
              s.insert(p, ins); break; }
    case 3: { size_t p = r.below(s.size()), k = 1 + r.below(r.chance(80) ? 16 : 400); s.erase(p, k); break; }
    case 4: { size_t p = r.below(s.size()), k = 1 + r.below(r.chance(80) ? 32 : 600); if (p + k > s.size()) k = s.size() - p;
              std::string span = s.substr(p, k); size_t rep = 1 + (r.chance(10) ? r.below(20) : 0);
              size_t q = r.below(s.size() + 1); for (size_t i = 0; i < rep; i++) s.insert(q, span); break; }
    default: { size_t p = r.below(s.size()); s.resize(p); break; }       // truncate
  }
}

static bool is_ident(char c) { return isalnum((unsigned char)c) || c == '_'; }

static void mut_token(std::string& s, Rng& r) {
  std::vector<Elem> els = scan(s);
  const std::string& tok = g_dict[r.below(g_dict.size())];
  int op = (int)r.below(5);
  if (els.empty()) op = 0;
  switch (op) {
    case 0: {   // replace a random identifier by a dictionary token
      std::vector<std::pair<size_t, size_t>> ids;
      for (size_t i = 0; i < s.size();) { if (isalpha((unsigned char)s[i]) || s[i] == '_') { size_t j = i; while (j < s.size() && is_ident(s[j])) j++;
          ids.push_back({i, j}); i = j; } else i++; }
      if (ids.empty()) { s += tok; break; }
      auto id = ids[r.below(ids.size())]; s.replace(id.first, id.second - id.first, tok); break; }
    case 1: {   // add attribute token="value" to a random element
      const Elem& e = els[r.below(els.size())];
      std::string val = r.chance(40) ? g_dict[r.below(g_dict.size())] : (r.chance(50) ? kNumbers[r.below(sizeof kNumbers / sizeof *kNumbers)] : "1 2 3");
      s.insert(e.ne, " " + tok + "=\"" + val + "\""); break; }
    case 2: {   // replace an attribute value by a dictionary token (or two)
      auto v = values(s, els); if (v.empty()) { s.insert(els[0].ne, " " + tok + "=\"\""); break; }
      auto p = v[r.below(v.size())]; std::string val = tok; if (r.chance(25)) val += " " + g_dict[r.below(g_dict.size())];
      s.replace(p.first, p.second - p.first, val); break; }
    case 3: {   // rename an element (open and close tag)
      const Elem& e = els[r.below(els.size())];
      if (!e.selfclosed && e.ce > e.cs + 3 && e.ce <= s.size()) s.replace(e.cs, e.ce - e.cs, "</" + tok + ">");
      s.replace(e.ns, e.ne - e.ns, tok); break; }
    default: {  // insert a new empty child element named by a token
      const Elem& e = els[r.below(els.size())];
      std::string child = "<" + tok; int na = (int)r.below(3);
      for (int i = 0; i < na; i++) child += " " + g_dict[r.below(g_dict.size())] + "=\"" + (r.chance(50) ? g_dict[r.below(g_dict.size())] : "0.1 0.2 0.3") + "\"";
      child += "/>";
      s.insert(e.selfclosed ? e.oe : e.cs, child); break; }
  }
}

static void mut_tree(std::string& s, Rng& r) {
  std::vector<Elem> els = scan(s);
  if (els.size() < 2) { mut_byte(s, r); return; }
  size_t a = 1 + r.below(els.size() - 1);            // never the root itself
  const Elem& e = els[a];
  size_t end = e.selfclosed ? e.oe : e.ce; if (end < e.oe) end = e.oe;
  std::string sub = s.substr(e.os, end - e.os);
  switch (r.below(6)) {
    case 0: s.insert(end, sub); break;                                                   // duplicate
    case 1: s.erase(e.os, end - e.os); break;                                            // delete
    case 2: {                                                                            // move
      size_t b = r.below(els.size()); const Elem& t = els[b];
      size_t at = (t.selfclosed || r.chance(50)) ? (t.selfclosed ? t.oe : t.ce) : t.oe;
      if (at >= e.os && at <= end) { s.insert(end, sub); break; }
      if (at > end) { s.insert(at, sub); s.erase(e.os, end - e.os); } else { s.erase(e.os, end - e.os); s.insert(at, sub); }
      break; }
    case 3: {                                                                            // splice an element of another seed
      const std::string& o = g_seeds[r.below(g_seeds.size())]; std::vector<Elem> oe = scan(o);
      if (oe.size() < 2) { s.insert(end, sub); break; }
      const Elem& x = oe[1 + r.below(oe.size() - 1)]; size_t xe = x.selfclosed ? x.oe : x.ce; if (xe < x.oe) xe = x.oe;
      if (xe - x.os > 20000) { s.insert(end, sub); break; }
      s.insert(r.chance(50) || e.selfclosed ? end : e.oe, o.substr(x.os, xe - x.os)); break; }
    case 4: {                                                                            // nest inside itself (depth growth)
      if (e.selfclosed) { s.insert(end, sub); break; }
      int depth = r.chance(10) ? (int)(100 + r.below(500)) : (int)(1 + r.below(6));
      std::string open = s.substr(e.os, e.oe - e.os), close = s.substr(e.cs, e.ce - e.cs);
      if ((open.size() + close.size()) * depth > 200000) depth = 3;
      std::string pre, post; for (int i = 0; i < depth; i++) { pre += open; post += close; }
      s.insert(e.cs, post); s.insert(e.oe, pre); break; }
    default: {                                                                           // swap with a sibling-ish element
      size_t b = 1 + r.below(els.size() - 1); const Elem& t = els[b]; size_t te = t.selfclosed ? t.oe : t.ce; if (te < t.oe) te = t.oe;
      if (b == a || !(te <= e.os || end <= t.os)) { s.erase(e.os, end - e.os); break; }
      std::string tsub = s.substr(t.os, te - t.os);
      if (t.os < e.os) { s.replace(e.os, end - e.os, tsub); s.replace(t.os, te - t.os, sub); }
      else { s.replace(t.os, te - t.os, sub); s.replace(e.os, end - e.os, tsub); }
      break; }
  }
}

static void mut_num(std::string& s, Rng& r) {
  std::vector<Elem> els = scan(s);
  auto v = values(s, els);
  std::vector<std::pair<size_t, size_t>> nums;
  for (auto p : v) {
    size_t i = p.first;
    while (i < p.second) {
      if (isdigit((unsigned char)s[i]) || ((s[i] == '-' || s[i] == '+' || s[i] == '.') && i + 1 < p.second && (isdigit((unsigned char)s[i + 1]) || s[i + 1] == '.'))) {
        size_t j = i + 1; while (j < p.second && (isdigit((unsigned char)s[j]) || s[j] == '.' || s[j] == 'e' || s[j] == 'E' || ((s[j] == '-' || s[j] == '+') && (s[j - 1] == 'e' || s[j - 1] == 'E')))) j++;
        nums.push_back({i, j}); i = j;
      } else i++;
    }
  }
  if (nums.empty()) { mut_token(s, r); return; }
  int k = r.chance(70) ? 1 : (int)(2 + r.below(4));
  for (int t = 0; t < k && !nums.empty(); t++) {
    size_t pick = r.below(nums.size()); auto p = nums[pick];
    std::string rep = kNumbers[r.below(sizeof kNumbers / sizeof *kNumbers)];
    if (r.chance(15)) { char buf[64]; snprintf(buf, sizeof buf, "%lld", (long long)(r.next() >> (r.below(50) + 1)) * (r.chance(30) ? -1 : 1)); rep = buf; }
    long delta = (long)rep.size() - (long)(p.second - p.first);
    s.replace(p.first, p.second - p.first, rep);
    nums.erase(nums.begin() + pick);
    for (auto& q : nums) if (q.first > p.first) { q.first += delta; q.second += delta; }
  }
}

static std::string make_input(uint64_t seed, uint64_t idx, unsigned* mask, int* api, int* errsz) {
  Rng r(seed, idx);
  std::string s = g_seeds[r.below(g_seeds.size())];
  *api = r.chance(12) ? 1 : 0;
  static const int sizes[] = {1000, 1000, 1000, 1000, 300, 64, 8, 1, 0};
  *errsz = sizes[r.below(sizeof sizes / sizeof *sizes)];
  int nm = 1; while (nm < 6 && r.chance(35)) nm++;
  *mask = 0;
  for (int i = 0; i < nm; i++) {
    int kind = (int)r.below(100); kind = kind < 20 ? M_BYTE : kind < 50 ? M_TOKEN : kind < 75 ? M_TREE : M_NUM;
    *mask |= 1u << kind;
    switch (kind) { case M_BYTE: mut_byte(s, r); break; case M_TOKEN: mut_token(s, r); break; case M_TREE: mut_tree(s, r); break; default: mut_num(s, r); }
    if (s.size() > 300000) break;
  }
  return s;
}

// logical cap: product of all <replicate count="n"> multiplicities (nesting upper bound); huge products are legitimate
// but only exercise the allocator and the watchdog
static double replicate_product(const std::string& s) {
  double prod = 1; size_t pos = 0;
  while ((pos = s.find("<replicate", pos)) != std::string::npos) {
    size_t e = s.find('>', pos); if (e == std::string::npos) break;
    size_t c = s.find("count=", pos);
    if (c != std::string::npos && c < e && c + 7 < s.size()) { double v = atof(s.c_str() + c + 7); if (v > 1) prod *= v; }
    pos = e;
  }
  return prod;
}

// ------------------------------------------------------------------------------------------ execution
static sigjmp_buf g_jb;
static volatile int g_armed = 0;          // 1: parse/compile (escape = violation), 2: run phase (tolerated)
static volatile long g_index = -1;
static char g_errmsg[600];
static long n_warn = 0;

static void on_error(const char* msg) {
  snprintf(g_errmsg, sizeof g_errmsg, "%s", msg ? msg : "");
  if (g_armed) siglongjmp(g_jb, 1);
  fprintf(stdout, "V kind=error-outside-call index=%ld msg=%s\n", (long)g_index, g_errmsg); fflush(stdout); _exit(3);
}
static void on_warning(const char*) { n_warn++; }

static void on_alarm(int) { char b[64]; int n = snprintf(b, sizeof b, "\nT %ld\n", (long)g_index); if (write(1, b, n)) {} _exit(4); }

// 'hang' mode: stack samples of a computation that exceeded its CPU-time cap
enum { NSAMPLE = 80, NFRAME = 48 };
static void* g_bt[NSAMPLE][NFRAME];
static int g_btn[NSAMPLE];
static unsigned long g_bttid[NSAMPLE];
static volatile int g_nsample = 0;
static void on_alarm_sample(int) {
  int k = g_nsample;
  if (k < NSAMPLE) {
    g_btn[k] = backtrace(g_bt[k], NFRAME);
    g_bttid[k] = (unsigned long)pthread_self();
    g_nsample = k + 1;
  }
  if (g_nsample < NSAMPLE) {                                    // 50 more CPU-milliseconds, then sample again
    struct itimerval it = {{0, 0}, {0, 50000}}; setitimer(ITIMER_PROF, &it, nullptr);
    alarm(3);                                                   // a sleeping deadlock burns no CPU time
    return;
  }
  char b[600]; int n = snprintf(b, sizeof b, "\nT %ld\n", (long)g_index); if (write(1, b, n)) {}
  for (int s = 0; s < NSAMPLE; s++) {
    n = snprintf(b, sizeof b, "S %d %lx", s, g_bttid[s]); if (write(1, b, n)) {}
    for (int i = 0; i < g_btn[s]; i++) {                        // innermost first; names from the dynamic symbol tables
      Dl_info di; const char* nm = (dladdr(g_bt[s][i], &di) && di.dli_sname) ? di.dli_sname : "?";
      n = snprintf(b, sizeof b, " %s", nm); if (write(1, b, n)) {}
    }
    if (write(1, "\n", 1)) {}
  }
  _exit(4);
}

static void on_terminate() {
  const char* name = "unknown"; char what[300] = "";
  if (std::type_info* t = abi::__cxa_current_exception_type()) {
    int st = 0; char* d = abi::__cxa_demangle(t->name(), 0, 0, &st); name = (st == 0 && d) ? d : t->name();
    try { throw; } catch (const std::exception& e) { snprintf(what, sizeof what, "%s", e.what()); } catch (...) {}
  }
  fprintf(stdout, "V kind=uncaught-exception index=%ld type=%s what=%s\n", (long)g_index, name, what); fflush(stdout); _exit(5);
}
static void on_exit_called() {
  if (g_armed) { fprintf(stdout, "V kind=exit-called index=%ld\n", (long)g_index); fflush(stdout); _exit(6); }
}

struct Stats { long execs = 0, big = 0, tok_reject = 0, schema_reject = 0, reader_reject = 0, compile_reject = 0, compiled = 0,
               stepped = 0, run_errors = 0, run_skipped = 0, viol = 0, vfs = 0, urdf = 0; long kind[M_NKIND] = {0, 0, 0, 0}; };
static Stats S;
static std::map<std::string, long> g_classes, g_msgs;

static std::string normalize(const char* m) {
  std::string o; bool inq = false;
  for (const char* p = m; *p && o.size() < 90; p++) {
    char c = *p;
    if (c == '\n') break;
    if (c == '\'') { inq = !inq; if (inq) o += "'_'"; continue; }
    if (inq) continue;
    if (isdigit((unsigned char)c)) { if (o.empty() || o.back() != '#') o += '#'; continue; }
    if ((unsigned char)c < 32 || (unsigned char)c > 126) c = '?';
    o += c;
  }
  return o;
}

static void viol(const char* kind, const char* extra) {
  S.viol++;
  fprintf(stdout, "V kind=%s index=%ld %s\n", kind, (long)g_index, extra); fflush(stdout);
}

// run phase: errors are the engine's own channel and are tolerated
static int run_model(mjModel* m) {
  if (m->nv > 600 || m->nbody > 2000 || m->ngeom > 2000 || m->narena > (64 << 20) || m->nuserdata > 1000000 ||
      m->nmocap > 1000 || m->nsensordata > 1000000 || m->nflexvert > 3000 || m->ntex > 50 || m->nhfielddata > 2000000) {
    S.run_skipped++; return 0;
  }
  mjData* volatile d = nullptr;
  if (__lsan_disable) __lsan_disable();
  g_armed = 2;
  if (sigsetjmp(g_jb, 1) == 0) {
    d = mj_makeData(m);
    if (d) { mj_step(m, d); S.stepped++; }
  } else {
    S.run_errors++;
  }
  g_armed = 0;
  if (d) mj_deleteData(d);
  if (__lsan_enable) __lsan_enable();
  return 1;
}

static const char* run_one(const std::string& in, int api, int errsz, int timeout_s) {
  const char* outcome = "?";
  char* buf = (char*)malloc(in.size() + 1);                 // exact-size heap copies: overreads are visible to ASan
  memcpy(buf, in.data(), in.size()); buf[in.size()] = 0;
  char* err = errsz > 0 ? (char*)malloc(errsz) : nullptr;
  if (err) memset(err, 'Z', errsz), err[errsz - 1] = 0;      // poisoned with text: the callee must overwrite it
  if (err && errsz > 1) err[0] = 'Z';
  alarm(timeout_s * 12);                                     // wall clock: generous (shared machine), catches sleeping deadlocks
  { struct itimerval it = {{0, 0}, {timeout_s, 0}}; setitimer(ITIMER_PROF, &it, nullptr); }   // CPU time: the real per-input cap
  g_errmsg[0] = 0;
  if (strstr(buf, "<robot")) S.urdf++;
  g_armed = 1;
  if (sigsetjmp(g_jb, 1) != 0) {
    // mju_error reached the global handler from inside a load call: contract broken; objects are in an unknown state
    fprintf(stdout, "V kind=ESCAPED-ERROR index=%ld api=%d msg=%s\n", (long)g_index, api, normalize(g_errmsg).c_str()); fflush(stdout);
    _exit(3);
  }
  if (api == 0) {
    mjSpec* spec = mj_parseXMLString(buf, nullptr, err, errsz);
    bool have_text = err && errsz > 1 && err[0] != 0;
    bool untouched = err && errsz >= 4 && err[0] == 'Z' && err[1] == 'Z' && err[2] == 'Z';
    if (untouched) viol(spec ? "spec-error-buffer-not-cleared" : "null-spec-error-not-written", "");
    if (!spec) {
      if (err && errsz > 1 && !have_text) viol("null-spec-empty-error", "");
      const char* e = err && errsz > 8 ? err : "";
      if (!strncmp(e, "XML parse error", 15) || !strncmp(e, "XML root element", 16)) { S.tok_reject++; outcome = "tokenizer-reject"; }
      else if (strstr(e, "Schema violation")) { S.schema_reject++; outcome = "schema-reject"; }
      else { S.reader_reject++; outcome = "reader-reject"; }
      if (errsz >= 300) g_msgs[normalize(e)]++;
    } else {
      if (have_text) { std::string x = "msg=" + normalize(err); viol("spec-with-error-text", x.c_str()); }
      mjModel* m = mj_compile(spec, nullptr);
      if (!m) {
        const char* ce = mjs_getError(spec);
        if (!ce || !ce[0]) viol("null-model-empty-error", "");
        S.compile_reject++; outcome = "compile-reject";
        g_msgs["compile: " + normalize(ce ? ce : "")]++;
      } else {
        if (mjs_getError(spec) && mjs_getError(spec)[0] && !mjs_isWarning(spec)) viol("model-with-error-text", "");
        S.compiled++; outcome = "compiled";
        g_armed = 0;
        printf("R %ld\n", (long)g_index);
        if (run_model(m)) outcome = "ran";
        printf("L %ld\n", (long)g_index);
        g_armed = 1;
        mj_deleteModel(m);
      }
      mj_deleteSpec(spec);
    }
  } else {
    S.vfs++;
    mjVFS vfs; mj_defaultVFS(&vfs);
    mj_addBufferVFS(&vfs, "fuzz.xml", buf, (int)strlen(buf));
    mjModel* m = mj_loadXML("fuzz.xml", &vfs, err, errsz);
    if (!m) {
      if (err && errsz > 1 && err[0] == 0) viol("null-model-empty-error(loadXML)", "");
      outcome = "load-reject"; S.reader_reject++;
      if (errsz >= 300) g_msgs["load: " + normalize(err)]++;
    } else {
      S.compiled++; outcome = "loaded";
      g_armed = 0;
      printf("R %ld\n", (long)g_index);
      if (run_model(m)) outcome = "ran";
      printf("L %ld\n", (long)g_index);
      g_armed = 1;
      mj_deleteModel(m);
      mj_freeLastXML();
    }
    mj_deleteVFS(&vfs);
  }
  g_armed = 0;
  alarm(0);
  { struct itimerval it = {{0, 0}, {0, 0}}; setitimer(ITIMER_PROF, &it, nullptr); }
  free(err);
  free(buf);
  return outcome;
}

int main(int argc, char** argv) {
  if (argc < 2) return 2;
  setvbuf(stdout, nullptr, _IOLBF, 0);
  mju_user_error = on_error;
  mju_user_warning = on_warning;
  std::set_terminate(on_terminate);
  atexit(on_exit_called);
  signal(SIGALRM, on_alarm);
  signal(SIGPROF, on_alarm);
  if (!__lsan_disable) {          // plain build: bound the address space so that runaway allocations fail fast (ASan has its own limit)
    struct rlimit rl = {3ull << 30, 3ull << 30};
    setrlimit(RLIMIT_AS, &rl);
  }
  std::string mode = argv[1];
  if (mode == "file" && argc >= 5) {
    std::string in; if (!read_file(argv[2], &in)) return 2;
    g_index = 0;
    printf("B 0\n");
    const char* o = run_one(in, atoi(argv[3]), atoi(argv[4]), 120);
    printf("OUTCOME %s\nSUMMARY execs=1 viol=%ld\n", o, S.viol);
    return S.viol ? 1 : 0;
  }
  if (mode == "hang" && argc >= 6) {
    std::string in; if (!read_file(argv[2], &in)) return 2;
    void* warm[4]; backtrace(warm, 4);                          // load the unwinder outside the signal handler
    signal(SIGALRM, on_alarm_sample);
    signal(SIGPROF, on_alarm_sample);
    g_index = 0;
    printf("B 0\n");
    const char* o = run_one(in, atoi(argv[3]), atoi(argv[4]), atoi(argv[5]));
    printf("OUTCOME %s\nSUMMARY execs=1 viol=%ld\n", o, S.viol);
    return S.viol ? 1 : 0;
  }
  if (argc < 7 || !load_lists(argv[2], argv[3])) { fprintf(stderr, "bad arguments\n"); return 2; }
  uint64_t seed = strtoull(argv[4], nullptr, 10);
  if (mode == "dump") {
    unsigned mask; int api, errsz;
    std::string in = make_input(seed, strtoull(argv[5], nullptr, 10), &mask, &api, &errsz);
    FILE* f = fopen(argv[6], "wb"); if (!f) return 2;
    fwrite(in.data(), 1, in.size(), f); fclose(f);
    printf("DUMP api=%d errsz=%d mask=%u bytes=%zu\n", api, errsz, mask, in.size());
    return 0;
  }
  uint64_t start = strtoull(argv[5], nullptr, 10), count = strtoull(argv[6], nullptr, 10);
  int timeout_s = argc > 7 ? atoi(argv[7]) : 30;
  for (uint64_t i = start; i < start + count; i++) {
    unsigned mask; int api, errsz;
    std::string in = make_input(seed, i, &mask, &api, &errsz);
    g_index = (long)i;
    if (in.size() > 256 * 1024 || replicate_product(in) > 1500) { S.big++; continue; }
    printf("B %llu\n", (unsigned long long)i);
    const char* o = run_one(in, api, errsz, timeout_s);
    S.execs++;
    for (int k = 0; k < M_NKIND; k++) if (mask & (1u << k)) { S.kind[k]++; g_classes[std::string(kKindName[k]) + ":" + o]++; }
  }
  for (auto& kv : g_classes) printf("CLASS %s %ld\n", kv.first.c_str(), kv.second);
  for (auto& kv : g_msgs) printf("MSG %ld %s\n", kv.second, kv.first.c_str());
  printf("SUMMARY execs=%ld big=%ld tokenizer_reject=%ld schema_reject=%ld reader_reject=%ld compile_reject=%ld compiled=%ld stepped=%ld "
         "run_errors=%ld run_skipped=%ld vfs=%ld urdf=%ld warnings=%ld byte=%ld token=%ld tree=%ld num=%ld viol=%ld\n",
         S.execs, S.big, S.tok_reject, S.schema_reject, S.reader_reject, S.compile_reject, S.compiled, S.stepped, S.run_errors,
         S.run_skipped, S.vfs, S.urdf, n_warn, S.kind[0], S.kind[1], S.kind[2], S.kind[3], S.viol);
  return S.viol ? 1 : 0;
}
