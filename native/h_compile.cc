// C33 (TSan/ASan part): compile a model file repeatedly (threaded asset compiler on), print a digest of the saved image.
// usage: h_compile <xml> <repeats>
#include <mujoco/mujoco.h>
#include <cstdint>
#include <cstdio>
#include <cstdlib>
#include <vector>
extern "C" void vf_install_handlers(void);
static uint64_t fnv(const unsigned char* p, size_t n) { uint64_t h = 1469598103934665603ull; for (size_t i = 0; i < n; i++) { h ^= p[i]; h *= 1099511628211ull; } return h; }
int main(int argc, char** argv) {
  if (argc < 3) return 2;
  vf_install_handlers();
  int rep = atoi(argv[2]);
  uint64_t first = 0; int ndiff = 0;
  for (int r = 0; r < rep; r++) {
    char err[1000] = "";
    mjModel* m = mj_loadXML(argv[1], nullptr, err, sizeof(err));
    if (!m) { printf("LOADFAIL %s\n", err); return 5; }
    mjtSize sz = mj_sizeModel(m);
    std::vector<unsigned char> buf((size_t)sz);
    mj_saveModel(m, nullptr, buf.data(), (int)sz);
    uint64_t h = fnv(buf.data(), buf.size());
    if (r == 0) first = h; else if (h != first) ndiff++;
    mjModel* c = mj_copyModel(nullptr, m);
    std::vector<unsigned char> buf2((size_t)sz);
    mj_saveModel(c, nullptr, buf2.data(), (int)sz);
    if (fnv(buf2.data(), buf2.size()) != h) ndiff++;
    mj_deleteModel(c);
    mj_deleteModel(m);
  }
  printf("SUMMARY digest=%016llx repeats=%d differing=%d\n", (unsigned long long)first, rep, ndiff);
  return ndiff ? 1 : 0;
}
