// C22: mjSORT / mjPARTIAL_SORT / mju_insertionSort* against a trivial stable reference.
// usage: h_sort exhaustive <maxlen> | random <seed> <count> <maxlen> | replay <k> <n> key0 key1 ...
// Buffers are exact-size heap blocks so ASan sees any overrun.
#include <mujoco/mujoco.h>
#include <stdio.h>
#include <stdlib.h>
#include <string.h>
#include <stdint.h>

#include "engine/engine_sort.h"

typedef struct { int key; int tag; } rec;
static long ncmp = 0;
static int reccmp(const rec* a, const rec* b, void* ctx) { ncmp++; return (a->key > b->key) - (a->key < b->key); }
static int dblcmp(const double* a, const double* b, void* ctx) { return (*a > *b) - (*a < *b); }
static int intcmp_desc(const int* a, const int* b, void* ctx) { int s = *(int*)ctx; return s * ((*a > *b) - (*a < *b)); }

mjSORT(sort_rec32, rec, reccmp);
mjPARTIAL_SORT(psort_rec, rec, reccmp);
mjSORT(sort_dbl, double, dblcmp);
mjSORT(sort_int_ctx, int, intcmp_desc);
mjPARTIAL_SORT(psort_dbl, double, dblcmp);

// the same macro bodies expanded with a tiny run size, so that short arrays (which can be
// enumerated exhaustively) exercise the run/merge/ping-pong logic and not only insertion sort
#undef _mjRUNSIZE
#define _mjRUNSIZE 2
mjSORT(sort_rec2, rec, reccmp);
#undef _mjRUNSIZE
#define _mjRUNSIZE 3
mjSORT(sort_rec3, rec, reccmp);
#undef _mjRUNSIZE
#define _mjRUNSIZE 32

static long n_eval = 0, n_fail = 0, n_distinct_len = 0;
static int seen_len[1 << 16];

static void ref_stable(rec* a, int n) {
  for (int i = 1; i < n; i++) {
    rec x = a[i]; int j = i - 1;
    while (j >= 0 && (a[j].key > x.key)) { a[j + 1] = a[j]; j--; }
    a[j + 1] = x;
  }
}

static void fail(const char* kind, const int* keys, int n, int k) {
  n_fail++;
  if (n_fail > 5) return;
  printf("FAIL kind=%s n=%d k=%d keys=", kind, n, k);
  for (int i = 0; i < n && i < 4000; i++) printf("%d%s", keys[i], i + 1 < n ? "," : "");
  printf("\n");
}

typedef void (*sortfn)(rec*, rec*, int, void*);

static void check_sort(sortfn f, const char* nm, const int* keys, int n) {
  rec* a = (rec*)malloc(sizeof(rec) * (n ? n : 1) );
  rec* b = (rec*)malloc(sizeof(rec) * (n ? n : 1));
  rec* r = (rec*)malloc(sizeof(rec) * (n ? n : 1));
  // exact-size: reallocate to n elements (n==0 -> 1 byte blocks are never touched legitimately)
  if (n) { a = realloc(a, sizeof(rec) * n); b = realloc(b, sizeof(rec) * n); }
  for (int i = 0; i < n; i++) { a[i].key = keys[i]; a[i].tag = i; r[i] = a[i]; }
  ref_stable(r, n);
  f(a, b, n, NULL);
  n_eval++;
  for (int i = 0; i < n; i++) {
    if (a[i].key != r[i].key) { fail(nm, keys, n, -1); break; }
    if (a[i].tag != r[i].tag) { char kind[64]; snprintf(kind, 64, "%s-stability", nm); fail(kind, keys, n, -1); break; }
  }
  free(a); free(b); free(r);
}

static void check_psort(const int* keys, int n, int k) {
  rec* a = (rec*)malloc(sizeof(rec) * (n ? n : 1));
  rec* r = (rec*)malloc(sizeof(rec) * (n ? n : 1));
  rec* buf = (rec*)malloc(sizeof(rec) * (k > 0 ? k : 1));
  for (int i = 0; i < n; i++) { a[i].key = keys[i]; a[i].tag = i; r[i] = a[i]; }
  ref_stable(r, n);
  psort_rec(a, buf, n, k, NULL);
  n_eval++;
  if (k > 0 && k <= n) {
    // first k must be the k smallest keys in order; tags must be a valid selection (distinct, matching keys)
    char* used = (char*)calloc(n ? n : 1, 1);
    for (int i = 0; i < k; i++) {
      if (a[i].key != r[i].key) { fail("partial", keys, n, k); break; }
      int t = a[i].tag;
      if (t < 0 || t >= n || used[t] || keys[t] != a[i].key) { fail("partial-notperm", keys, n, k); break; }
      used[t] = 1;
    }
    free(used);
  } else {
    // documented no-op
    for (int i = 0; i < n; i++) if (a[i].key != keys[i] || a[i].tag != i) { fail("partial-noop", keys, n, k); break; }
  }
  free(a); free(r); free(buf);
}

static void check_misc(const int* keys, int n) {
  double* x = (double*)malloc(sizeof(double) * (n ? n : 1));
  int* y = (int*)malloc(sizeof(int) * (n ? n : 1));
  double* xb = (double*)malloc(sizeof(double) * (n ? n : 1));
  int* yb = (int*)malloc(sizeof(int) * (n ? n : 1));
  if (n) { x = realloc(x, sizeof(double) * n); y = realloc(y, sizeof(int) * n); xb = realloc(xb, sizeof(double) * n); yb = realloc(yb, sizeof(int) * n); }
  long sum = 0;
  for (int i = 0; i < n; i++) { x[i] = keys[i] * 0.5; y[i] = keys[i]; sum += keys[i]; }
  mju_insertionSort(x, n);
  mju_insertionSortInt(y, n);
  n_eval += 2;
  long s2 = 0, s3 = 0;
  for (int i = 0; i < n; i++) {
    s2 += (long)(x[i] * 2); s3 += y[i];
    if (i && (x[i - 1] > x[i])) { fail("insertionSort", keys, n, -1); break; }
    if (i && (y[i - 1] > y[i])) { fail("insertionSortInt", keys, n, -1); break; }
  }
  if (s2 != sum || s3 != sum) fail("insertionSort-notperm", keys, n, -1);
  // double and context-carrying instantiations of mjSORT
  for (int i = 0; i < n; i++) { x[i] = keys[i] * 0.25; y[i] = keys[i]; }
  sort_dbl(x, xb, n, NULL);
  int sgn = -1;
  sort_int_ctx(y, yb, n, &sgn);
  n_eval += 2;
  s2 = 0; s3 = 0;
  for (int i = 0; i < n; i++) {
    s2 += (long)(x[i] * 4); s3 += y[i];
    if (i && x[i - 1] > x[i]) { fail("sort-double", keys, n, -1); break; }
    if (i && y[i - 1] < y[i]) { fail("sort-int-context", keys, n, -1); break; }
  }
  if (s2 != sum || s3 != sum) fail("sort-notperm", keys, n, -1);
  free(x); free(y); free(xb); free(yb);
}

static uint64_t rs;
static uint32_t rnd(void) { rs ^= rs << 13; rs ^= rs >> 7; rs ^= rs << 17; return (uint32_t)(rs >> 16); }

static void all_checks(const int* keys, int n, int allk) {
  check_sort(sort_rec32, "sort32", keys, n);
  check_sort(sort_rec2, "sort-run2", keys, n);
  check_sort(sort_rec3, "sort-run3", keys, n);
  check_misc(keys, n);
  if (allk) {
    for (int k = -1; k <= n + 1; k++) check_psort(keys, n, k);
  } else {
    int ks[6] = {1, n / 2, n - 1, n, n + 1, (int)(rnd() % (n + 1))};
    for (int i = 0; i < 6; i++) check_psort(keys, n, ks[i]);
  }
  if (n < (1 << 16) && !seen_len[n]) { seen_len[n] = 1; n_distinct_len++; }
}

int main(int argc, char** argv) {
  if (argc < 2) return 2;
  if (!strcmp(argv[1], "exhaustive")) {
    int maxlen = atoi(argv[2]);
    int keys[16];
    for (int n = 0; n <= maxlen; n++) {
      long total = 1; for (int i = 0; i < n; i++) total *= 3;
      for (long c = 0; c < total; c++) {
        long v = c; for (int i = 0; i < n; i++) { keys[i] = (int)(v % 3); v /= 3; }
        all_checks(keys, n, 1);
      }
    }
  } else if (!strcmp(argv[1], "random")) {
    rs = strtoull(argv[2], 0, 10) * 2654435761u + 88172645463325252ull;
    long count = atol(argv[3]);
    int maxlen = atoi(argv[4]);
    static const int special[] = {0, 1, 2, 3, 31, 32, 33, 63, 64, 65, 95, 96, 97, 127, 128, 129, 255, 256, 257,
                                  511, 512, 513, 1023, 1024, 1025, 2047, 2048, 2049, 4095, 4096, 4097, 8191, 8192,
                                  8193, 16383, 16384, 16385};
    int nspecial = sizeof(special) / sizeof(int);
    int* keys = (int*)malloc(sizeof(int) * (maxlen + 2));
    for (long c = 0; c < count; c++) {
      int n;
      uint32_t r = rnd() % 4;
      if (r == 0) { n = special[rnd() % nspecial]; if (n > maxlen) n = maxlen; }
      else if (r == 1) n = rnd() % 201;
      else n = rnd() % (maxlen + 1);
      int pattern = rnd() % 7;
      int range = (rnd() % 3 == 0) ? 2 + rnd() % 3 : (rnd() % 2 ? 1 + rnd() % 50 : 1 << 20);
      for (int i = 0; i < n; i++) {
        switch (pattern) {
          case 0: keys[i] = rnd() % range; break;
          case 1: keys[i] = i / (1 + range % 7); break;                       // sorted with ties
          case 2: keys[i] = (n - i) / (1 + range % 5); break;                 // reversed with ties
          case 3: keys[i] = 7; break;                                         // all equal
          case 4: keys[i] = i % (1 + range % 37); break;                      // saw-tooth
          case 5: keys[i] = (i % 2) ? (int)(rnd() % range) : i; break;        // interleaved
          default: keys[i] = (i < n / 2) ? i : (int)(rnd() % range); break;   // half sorted
        }
      }
      all_checks(keys, n, n <= 12);
    }
    free(keys);
  } else if (!strcmp(argv[1], "replay")) {
    int k = atoi(argv[2]); int n = atoi(argv[3]);
    int* keys = (int*)malloc(sizeof(int) * (n + 1));
    for (int i = 0; i < n; i++) keys[i] = atoi(argv[4 + i]);
    all_checks(keys, n, 1);
    (void)k;
    free(keys);
  }
  printf("SUMMARY evaluations=%ld failures=%ld distinct_lengths=%ld comparisons=%ld\n", n_eval, n_fail, n_distinct_len, ncmp);
  return n_fail ? 1 : 0;
}
