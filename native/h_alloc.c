// C19 direct workload: random well-nested sequences of mark / stack alloc / free / arena alloc on mjData with
// small arenas; every block is filled with a per-block byte pattern and re-verified before it dies; the shadow
// allocator (native/vfmem.c, fed by the repo's hook) checks alignment, bounds, overlap and mark/free restoration.
// usage: h_alloc seq <seed> <nhist> | conc <seed> <nthread> <ndispatch>
#include <mujoco/mujoco.h>
#include <setjmp.h>
#include <stdint.h>
#include <stdio.h>
#include <stdlib.h>
#include <string.h>

#include "engine/engine_memory.h"
#include "engine/engine_thread.h"

void vf_install_handlers(void);
jmp_buf** vf_jmp_slot(void);
const char* vf_last_error(void);
void vf_mem_install(int strict_arena);
void vf_mem_forget(const mjData* d);
void vf_mem_track(const mjData* d);
void vf_mem_arena_reset(const mjData* d);
void vf_mem_stats(const mjData* d, long long* out);
const char* vf_mem_violation(int i);

static long g_fail = 0;
#define FAIL(...) do { if (g_fail++ < 10) { printf("FAIL "); printf(__VA_ARGS__); printf("\n"); fflush(stdout);} } while (0)

static uint64_t rs;
static uint32_t rnd(void) { rs ^= rs << 13; rs ^= rs >> 7; rs ^= rs << 17; return (uint32_t)(rs >> 20); }

typedef struct { unsigned char* p; size_t n; unsigned char pat; int frame; int arena; } Rec;
#define MAXREC 4096
static Rec rec[MAXREC];
static int nrec = 0;
static long n_alloc = 0, n_mark = 0, n_free = 0, n_arena = 0, n_overflow_err = 0, n_arena_null = 0, n_verified = 0, n_zero = 0;

static void verify(Rec* r, const char* when) {
  for (size_t i = 0; i < r->n; i++) if (r->p[i] != r->pat) { FAIL("%s: %s block %p (+%zu bytes) corrupted at byte %zu", when, r->arena ? "arena" : "stack", (void*)r->p, r->n, i); return; }
  n_verified++;
}

static mjModel* make_model(const char* mem) {
  char xml[512], err[500] = "";
  snprintf(xml, sizeof(xml), "<mujoco><size memory=\"%s\"/><worldbody><body><joint/><geom size=\"1\"/></body></worldbody></mujoco>", mem);
  mjSpec* s = mj_parseXMLString(xml, NULL, err, 500);
  if (!s) { printf("parse failed: %s\n", err); exit(5); }
  mjModel* m = mj_compile(s, NULL);
  mj_deleteSpec(s);
  if (!m) { printf("compile failed\n"); exit(5); }
  return m;
}

static size_t pick_size(size_t avail) {
  switch (rnd() % 9) {
    case 0: return 0;
    case 1: return 1;
    case 2: return 7 + rnd() % 5;
    case 3: return 13 * (1 + rnd() % 9);
    case 4: return 8 * (1 + rnd() % 64);
    case 5: return avail ? avail / (2 + rnd() % 6) : 16;
    case 6: return avail > 256 ? avail - rnd() % 256 : avail;       // close to the remaining space
    case 7: return avail + 1 + rnd() % 4096;                         // more than the remaining space
    default: return 1 + rnd() % 300;
  }
}

static int run_seq(uint64_t seed, int nhist) {
  rs = seed * 0x9E3779B97F4A7C15ull + 99;
  static const char* mems[] = {"1K", "2K", "5K", "16K", "64K", "300K", "1M"};
  for (int h = 0; h < nhist; h++) {
    mjModel* m = make_model(mems[rnd() % 7]);
    mjData* d = mj_makeData(m);
    vf_mem_track(d);
    size_t pstack0 = d->pstack, pbase0 = d->pbase;
    nrec = 0;
    int depth = 0;
    int nops = 20 + rnd() % 200;
    int poisoned = 0;
    for (int k = 0; k < nops && !poisoned; k++) {
      uint32_t r = rnd() % 100;
      size_t avail = d->narena - d->pstack - d->parena;
      if (r < 18 && depth < 12) {
        jmp_buf jb; jmp_buf** slot = vf_jmp_slot(); jmp_buf* prev = *slot;
        if (setjmp(jb)) { *slot = prev; n_overflow_err++; poisoned = 1; break; }
        *slot = &jb;
        mj_markStack(d);
        *slot = prev;
        depth++; n_mark++;
      } else if (r < 30 && depth > 0) {
        // verify and kill the blocks of this frame
        for (int i = nrec - 1; i >= 0 && !rec[i].arena && rec[i].frame == depth; i--) { verify(&rec[i], "before free"); }
        int keep = 0;
        for (int i = 0; i < nrec; i++) if (rec[i].arena || rec[i].frame != depth) rec[keep++] = rec[i];
        nrec = keep;
        mj_freeStack(d);
        depth--; n_free++;
      } else if (r < 75 && depth > 0) {
        size_t sz = pick_size(avail);
        size_t al = (size_t)1 << (rnd() % 13);      // 1 .. 4096
        int which = rnd() % 4;
        void* p = NULL;
        jmp_buf jb; jmp_buf** slot = vf_jmp_slot(); jmp_buf* prev = *slot;
        if (setjmp(jb)) {
          *slot = prev;
          // documented: stack exhaustion is reported through mju_error
          if (!strstr(vf_last_error(), "stack overflow") && !strstr(vf_last_error(), "too large")) FAIL("unexpected error from stack allocation: %s", vf_last_error());
          if (sz + al + 64 < avail / 2) FAIL("stack overflow reported for %zu bytes (align %zu) with %zu available", sz, al, avail);
          n_overflow_err++;
          poisoned = 1;
          break;
        }
        *slot = &jb;
        if (which == 0) { p = mj_stackAllocNum(d, sz / 8); sz = (sz / 8) * 8; al = 8; }
        else if (which == 1) { p = mj_stackAllocInt(d, sz / 4); sz = (sz / 4) * 4; al = 4; }
        else p = mj_stackAllocByte(d, sz, al);
        *slot = prev;
        n_alloc++;
        if (sz == 0) { if (p) FAIL("size-0 stack request returned non-NULL"); n_zero++; continue; }
        if (!p) { FAIL("stack allocation of %zu returned NULL without error", sz); continue; }
        if ((uintptr_t)p % al) FAIL("stack block %p not aligned to %zu", p, al);
        if ((unsigned char*)p < (unsigned char*)d->arena + d->parena || (unsigned char*)p + sz > (unsigned char*)d->arena + d->narena) FAIL("stack block outside arena");
        if (nrec < MAXREC) { rec[nrec].p = p; rec[nrec].n = sz; rec[nrec].pat = (unsigned char)(1 + rnd() % 254); rec[nrec].frame = depth; rec[nrec].arena = 0; memset(p, rec[nrec].pat, sz); nrec++; }
      } else if (r < 92) {
        size_t sz = pick_size(avail);
        if (sz == 0) sz = 1;
        size_t al = (size_t)1 << (rnd() % 10);
        size_t parena0 = d->parena;
        void* p = mj_arenaAllocByte(d, sz, al);
        n_arena++;
        if (!p) {
          n_arena_null++;
          if (d->parena != parena0) FAIL("failed arena allocation moved parena");
          if (sz + al < avail) FAIL("arena allocation of %zu (align %zu) failed with %zu available", sz, al, avail);
          continue;
        }
        if ((uintptr_t)p % al) FAIL("arena block %p not aligned to %zu", p, al);
        if ((unsigned char*)p < (unsigned char*)d->arena || (unsigned char*)p + sz > (unsigned char*)d->arena + d->narena - d->pstack) FAIL("arena block crosses into the stack");
        if (nrec < MAXREC) { rec[nrec].p = p; rec[nrec].n = sz; rec[nrec].pat = (unsigned char)(1 + rnd() % 254); rec[nrec].frame = -1; rec[nrec].arena = 1; memset(p, rec[nrec].pat, sz); nrec++; }
      } else {
        for (int i = 0; i < nrec; i++) verify(&rec[i], "spot check");
      }
    }
    if (!poisoned) {
      for (int i = 0; i < nrec; i++) verify(&rec[i], "end of history");
      while (depth > 0) { mj_freeStack(d); depth--; n_free++; }
      if (d->pstack != pstack0 || d->pbase != pbase0) FAIL("after unwinding all frames pstack=%zu pbase=%zu, started with %zu %zu", d->pstack, d->pbase, pstack0, pbase0);
    }
    vf_mem_forget(d);
    if (poisoned) mj_resetData(m, d);   // a trapped error leaves open frames behind (documented: handlers do not return)
    mj_deleteData(d);
    mj_deleteModel(m);
  }
  return 0;
}

// ---- concurrent reservations under the thread lock ------------------------------------------------
static void task(const mjModel* m, mjData* d, void* arg, int thread_id, int task_id) {
  uint64_t r = ((uint64_t)task_id + 1) * 0x9E3779B97F4A7C15ull ^ *(uint64_t*)arg;
  int nb = 1 + (int)(r % 6);
  unsigned char* blocks[8]; size_t sizes[8];
  mj_markStack(d);   // no-op under threadlock
  for (int i = 0; i < nb; i++) {
    r = r * 6364136223846793005ull + 1442695040888963407ull;
    size_t sz = 1 + (size_t)((r >> 33) % 700);
    size_t al = (size_t)1 << ((r >> 20) % 8);
    unsigned char* p = (unsigned char*)mj_stackAllocByte(d, sz, al);
    if (!p) { __sync_fetch_and_add(&g_fail, 1); blocks[i] = 0; sizes[i] = 0; continue; }
    if ((uintptr_t)p % al) __sync_fetch_and_add(&g_fail, 1);
    memset(p, 0x11 * (1 + (task_id + i) % 14), sz);
    blocks[i] = p; sizes[i] = sz;
  }
  for (int spin = 0; spin < 200; spin++) __asm__ volatile("" ::: "memory");
  for (int i = 0; i < nb; i++) {
    if (!blocks[i]) continue;
    unsigned char pat = (unsigned char)(0x11 * (1 + (task_id + i) % 14));
    for (size_t k = 0; k < sizes[i]; k++) if (blocks[i][k] != pat) { __sync_fetch_and_add(&g_fail, 1); break; }
  }
  mj_freeStack(d);
  __sync_fetch_and_add(&n_alloc, nb);
}

static int run_conc(uint64_t seed, int nthread, int ndisp) {
  rs = seed * 0x9E3779B97F4A7C15ull + 5;
  mjModel* m = make_model("4M");
  mjData* d = mj_makeData(m);
  vf_mem_track(d);
  mju_threadpool(d, nthread);
  for (int k = 0; k < ndisp; k++) {
    uint64_t arg = ((uint64_t)rnd() << 20) ^ rnd();
    int ntask = 2 + rnd() % 40;
    size_t p0 = d->pstack, b0 = d->pbase;
    // outer frame with a live block that the workers must not touch
    mj_markStack(d);
    unsigned char* guard = (unsigned char*)mj_stackAllocByte(d, 256, 64);
    memset(guard, 0xEE, 256);
    mju_dispatch(m, d, task, &arg, ntask);
    for (int i = 0; i < 256; i++) if (guard[i] != 0xEE) { FAIL("guard block below the dispatch frame was overwritten"); break; }
    mj_freeStack(d);
    if (d->pstack != p0 || d->pbase != b0) FAIL("stack pointer not restored after dispatch: %zu/%zu -> %zu/%zu", p0, b0, d->pstack, d->pbase);
  }
  mju_threadpool(d, 0);
  vf_mem_forget(d);
  mj_deleteData(d);
  mj_deleteModel(m);
  return 0;
}

int main(int argc, char** argv) {
  vf_install_handlers();
  if (argc < 4) return 2;
  uint64_t seed = strtoull(argv[2], 0, 10);
  int conc = !strcmp(argv[1], "conc");
  vf_mem_install(conc ? 0 : 1);
  if (conc) run_conc(seed, atoi(argv[3]), atoi(argv[4]));
  else run_seq(seed, atoi(argv[3]));
  long long st[12];
  vf_mem_stats(NULL, st);
  for (int i = 0; i < 8 && i < st[5]; i++) printf("SHADOW-VIOLATION %s\n", vf_mem_violation(i));
  printf("SUMMARY mode=%s allocs=%ld marks=%ld frees=%ld arena=%ld arena_null=%ld overflow_errors=%ld zero_size=%ld verified_blocks=%ld "
         "hook_stack=%lld hook_threaded=%lld hook_arena=%lld hook_mark=%lld hook_free=%lld shadow_violations=%lld max_depth=%lld max_live=%lld failures=%ld\n",
         argv[1], n_alloc, n_mark, n_free, n_arena, n_arena_null, n_overflow_err, n_zero, n_verified,
         st[0], st[1], st[2], st[3], st[4], st[5], st[6], st[7], g_fail);
  return (g_fail || st[5]) ? 1 : 0;
}
