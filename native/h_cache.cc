// C38: the asset cache as a bounded priority cache -- history checker.
// usage: h_cache seq  <seed> <nhist> <maxlen>
//        h_cache conc <seed> <nhist> <nthreads> <nids> <ops_per_thread> <mode: lin|mix> [deref]
// seq : every history drives the real mjCCache and a small sequential reference model with the same seeded
//       operation sequence; after EVERY operation the public observables (Size, Capacity, HasAsset, PopulateData)
//       and the three private containers are compared with the reference.
// conc: pre-generated per-thread operation lists on few ids are executed by real threads;
//       lin: Insert/PopulateData/DeleteAsset/HasAsset with ample capacity -> per-key linearizability (Wing-Gong search
//            against the sequential register specification) + structural invariants at quiescence;
//       mix: all operations with tight capacity -> well-formedness of every hit + structural invariants at quiescence.
// The private containers are read through `#define private public` around the class header only (observation only;
// std headers are included before, so only user_cache.h is affected; the class is not modified and all its member
// functions are the ones compiled into the library).
#include <mujoco/mujoco.h>
#include <mujoco/mjplugin.h>

#include <algorithm>
#include <atomic>
#include <chrono>
#include <cstddef>
#include <cstdint>
#include <cstdio>
#include <cstdlib>
#include <cstring>
#include <functional>
#include <map>
#include <memory>
#include <mutex>
#include <set>
#include <string>
#include <thread>
#include <unordered_map>
#include <unordered_set>
#include <utility>
#include <vector>

#define private public
#include "user/user_cache.h"
#undef private

static std::atomic<long> g_fail{0};
static std::map<std::string, int> g_failtags;
static std::mutex g_failmu;
// FAIL <tag>: text     -- <tag> is the mechanism-level signature used by the python side
#define FAIL(tag, ...) do { g_fail++; std::lock_guard<std::mutex> lk_(g_failmu); if (g_failtags[tag]++ < 3) { \
  printf("FAIL %s: ", tag); printf(__VA_ARGS__); printf("\n"); fflush(stdout);} } while (0)

// ------------------------------------------------------------------------------------------------ payloads
static const uint64_t MAGIC = 0x5EEDCAC4E5A11E7ull;
struct Payload { uint64_t magic; int id; int ts; uint64_t uid; uint64_t check; };
static std::atomic<long> g_live{0};
static std::atomic<long> g_badfree{0};
static uint64_t pcheck(int id, int ts, uint64_t uid) { return (uid * 0x9E3779B97F4A7C15ull) ^ ((uint64_t)id << 32) ^ (uint64_t)ts; }

static std::shared_ptr<const void> make_payload(int id, int ts, uint64_t uid) {
  Payload* p = new Payload{MAGIC, id, ts, uid, pcheck(id, ts, uid)};
  g_live++;
  return std::shared_ptr<const void>(p, [](const void* q) {
    Payload* pp = (Payload*)q;
    if (pp->magic != MAGIC) g_badfree++;
    pp->magic = 0xDEADDEADull;
    delete pp;
    g_live--;
  });
}
static bool payload_ok(const Payload* p) { return p && p->magic == MAGIC && p->check == pcheck(p->id, p->ts, p->uid); }

// ------------------------------------------------------------------------------------------------ resources
static const char* TS[3] = {"", "QQ==", "stamp-two"};
static int prov_modified(const mjResource* r, const char* timestamp) { return strcmp(r->timestamp, timestamp) != 0; }
static mjpResourceProvider g_prov;
static mjResource g_res[3];
static char g_resname[] = "h_cache_resource";
static void init_resources() {
  mjp_defaultResourceProvider(&g_prov);
  g_prov.modified = prov_modified;
  for (int t = 0; t < 3; t++) {
    memset(&g_res[t], 0, sizeof(mjResource));
    g_res[t].name = g_resname;
    strcpy(g_res[t].timestamp, TS[t]);
    g_res[t].provider = &g_prov;
  }
}
static std::string idname(int id) { static const char* n[8] = {"mesh/a.obj", "tex/b.png", "hf/c.png", "d", "Mesh/A.obj", "e.msh", "f", "g"}; return n[id]; }
static std::string modelname(int m) { static const char* n[4] = {"model0.xml", "dir/model1.xml", "", "m3"}; return n[m]; }

// ------------------------------------------------------------------------------------------------ rng
struct Rng {
  uint64_t s;
  explicit Rng(uint64_t seed) : s(seed * 0x9E3779B97F4A7C15ull + 0x1234567ull) { for (int i = 0; i < 4; i++) next(); }
  uint64_t next() { s ^= s << 13; s ^= s >> 7; s ^= s << 17; return s; }
  uint32_t u(uint32_t n) { return (uint32_t)((next() >> 24) % n); }
};

// ------------------------------------------------------------------------------------------------ reference model
// Documented semantics (user_cache.h comments + test intent):
//  Insert: "if asset is already in the cache, its data is updated only if the timestamps disagree"; an asset that does
//          not fit is refused ("check if asset is too large to fit in the cache") -- the cache never evicts on insert;
//  PopulateData: hit iff stored and the resource is unmodified w.r.t. the stored timestamp; a hit increments the access count;
//  SetCapacity: "low-priority cached assets will be dropped to make the new memory requirement"; priority =
//          (access count, insertion number) ascending (mjCAssetCompare);
//  RemoveModel: "assets only referenced by the model will be deleted"; Reset(model): "wipes out all assets ... for the given model";
//  Reset(): everything; DeleteAsset(id).
struct RAsset { int ts; size_t size; uint64_t uid; size_t access; uint64_t ins; std::set<int> refs; };
struct Ref {
  size_t cap = 0;
  uint64_t counter = 0;
  std::map<int, RAsset> held;
  size_t total() const { size_t t = 0; for (auto& kv : held) t += kv.second.size; return t; }
  std::vector<int> order() const {
    std::vector<int> ids;
    for (auto& kv : held) ids.push_back(kv.first);
    std::sort(ids.begin(), ids.end(), [&](int a, int b) {
      const RAsset& x = held.at(a); const RAsset& y = held.at(b);
      if (x.access != y.access) return x.access < y.access;
      return x.ins < y.ins;
    });
    return ids;
  }
  void trim(long* nevict) { while (total() > cap) { held.erase(order()[0]); (*nevict)++; } }
};

// ------------------------------------------------------------------------------------------------ structural invariants
// self-consistency of the three containers and the byte count (no reference needed); returns number of assets
static size_t check_structure(mjCCache& c, const char* where) {
  size_t sum = 0;
  std::set<const mjCAsset*> live;
  std::set<size_t> insnums;
  for (auto& kv : c.lookup_) {
    const mjCAsset& a = kv.second;
    live.insert(&a);
    sum += a.BytesCount();
    if (a.Id() != kv.first) FAIL("lookup-key-differs-from-asset-id", "%s: key %s holds asset %s", where, kv.first.c_str(), a.Id().c_str());
    if (!insnums.insert(a.InsertNum()).second) FAIL("duplicate-insert-number", "%s: insert number %zu used twice", where, a.InsertNum());
    if (!payload_ok((const Payload*)a.Data())) FAIL("held-asset-data-corrupt-or-freed", "%s: asset %s", where, kv.first.c_str());
    if (!a.HasReferences()) FAIL("held-asset-without-model-reference", "%s: asset %s", where, kv.first.c_str());
    for (auto& r : a.References()) {
      auto it = c.models_.find(r);
      if (it == c.models_.end() || !it->second.count(const_cast<mjCAsset*>(&a)))
        FAIL("models-index-misses-referenced-asset", "%s: asset %s references model '%s' but models_ does not list it", where, kv.first.c_str(), r.c_str());
    }
  }
  if (c.size_ != sum) FAIL("size-differs-from-sum-of-held-assets", "%s: size_=%zu, sum of held asset sizes=%zu", where, c.size_, sum);
  if (c.size_ > c.capacity_) FAIL("size-exceeds-capacity", "%s: size_=%zu capacity_=%zu", where, c.size_, c.capacity_);
  if (c.entries_.size() != c.lookup_.size()) FAIL("priority-queue-and-lookup-disagree", "%s: entries_ has %zu, lookup_ has %zu", where, c.entries_.size(), c.lookup_.size());
  const mjCAsset* prev = nullptr;
  mjCAssetCompare cmp;
  for (mjCAsset* p : c.entries_) {
    if (!live.count(p)) { FAIL("priority-queue-holds-dangling-asset", "%s", where); continue; }
    if (prev && !cmp(prev, p)) FAIL("priority-queue-out-of-order", "%s: (%zu,%zu) before (%zu,%zu)", where, prev->AccessCount(), prev->InsertNum(), p->AccessCount(), p->InsertNum());
    prev = p;
  }
  for (auto& kv : c.lookup_)
    if (c.entries_.find(const_cast<mjCAsset*>(&kv.second)) == c.entries_.end())
      FAIL("priority-queue-cannot-find-held-asset", "%s: asset %s (access %zu, insert %zu)", where, kv.first.c_str(), kv.second.AccessCount(), kv.second.InsertNum());
  for (auto& kv : c.models_)
    for (mjCAsset* p : kv.second) {
      if (!live.count(p)) { FAIL("models-index-holds-dangling-asset", "%s: model '%s'", where, kv.first.c_str()); continue; }
      if (!p->References().count(kv.first)) FAIL("models-index-lists-unreferenced-asset", "%s: model '%s' lists %s", where, kv.first.c_str(), p->Id().c_str());
    }
  return c.lookup_.size();
}

// ------------------------------------------------------------------------------------------------ sequential
struct SeqStats { long ops = 0, ins = 0, ins_new = 0, ins_refused = 0, ins_same_ts = 0, ins_replace = 0, ins_unspec = 0, hits = 0, miss = 0, miss_modified = 0,
                  evict = 0, setcap = 0, rmmodel = 0, rm_survivors = 0, rm_deleted = 0, resetm = 0, resetm_shared = 0, resetall = 0, del = 0, has = 0,
                  nontrivial = 0, global_hist = 0, full = 0; };

static const int NID = 6, NMODEL = 3;

static void compare_with_ref(mjCCache& c, const Ref& ref, const char* opname, long h, int step) {
  char where[96]; snprintf(where, sizeof where, "hist %ld step %d after %s", h, step, opname);
  if (c.Size() != ref.total()) FAIL("reported-size-differs-from-reference", "%s: Size()=%zu reference=%zu", where, c.Size(), ref.total());
  if (c.Capacity() != ref.cap) FAIL("reported-capacity-differs-from-reference", "%s: Capacity()=%zu reference=%zu", where, c.Capacity(), ref.cap);
  if (c.Size() > c.Capacity()) FAIL("size-exceeds-capacity", "%s: Size()=%zu Capacity()=%zu", where, c.Size(), c.Capacity());
  size_t n = check_structure(c, where);
  if (n != ref.held.size()) FAIL("held-set-differs-from-reference", "%s: cache holds %zu assets, reference %zu", where, n, ref.held.size());
  for (int id = 0; id < NID; id++) {
    const std::string* ts = c.HasAsset(idname(id));
    auto it = ref.held.find(id);
    if ((ts != nullptr) != (it != ref.held.end())) {
      FAIL("held-set-differs-from-reference", "%s: HasAsset(%s)=%d, reference %d", where, idname(id).c_str(), ts != nullptr, it != ref.held.end());
      continue;
    }
    if (!ts) continue;
    const RAsset& r = it->second;
    if (*ts != TS[r.ts]) FAIL("stored-timestamp-differs-from-reference", "%s: %s has '%s', reference '%s'", where, idname(id).c_str(), ts->c_str(), TS[r.ts]);
    auto lit = c.lookup_.find(idname(id));
    if (lit == c.lookup_.end()) continue;
    const mjCAsset& a = lit->second;
    if (a.BytesCount() != r.size) FAIL("asset-size-differs-from-reference", "%s: %s has %zu bytes, reference %zu", where, idname(id).c_str(), a.BytesCount(), r.size);
    if (a.AccessCount() != r.access) FAIL("access-count-differs-from-reference", "%s: %s has %zu, reference %zu", where, idname(id).c_str(), a.AccessCount(), r.access);
    const Payload* p = (const Payload*)a.Data();
    if (payload_ok(p) && p->uid != r.uid) FAIL("stored-data-differs-from-reference", "%s: %s holds insert #%llu, reference #%llu", where, idname(id).c_str(), (unsigned long long)p->uid, (unsigned long long)r.uid);
    std::set<std::string> want;
    for (int m : r.refs) want.insert(modelname(m));
    if (a.References() != want) FAIL("model-references-differ-from-reference", "%s: %s referenced by %zu models, reference %zu", where, idname(id).c_str(), a.References().size(), want.size());
  }
  // eviction order: the priority queue iterates in the reference (access count, insertion order) order
  std::vector<int> ord = ref.order();
  size_t k = 0;
  for (mjCAsset* p : c.entries_) {
    if (k < ord.size() && p->Id() != idname(ord[k])) { FAIL("eviction-order-differs-from-reference", "%s: position %zu is %s, reference %s", where, k, p->Id().c_str(), idname(ord[k]).c_str()); break; }
    k++;
  }
  if (g_live.load() != (long)ref.held.size()) FAIL("dropped-asset-data-not-released", "%s: %ld payloads alive, %zu assets held", where, g_live.load(), ref.held.size());
  if (g_badfree.load()) FAIL("asset-data-freed-twice-or-corrupt", "%s", where);
}

static void run_history(uint64_t seed, long h, int maxlen, SeqStats& st) {
  Rng rng(seed * 1000003ull + (uint64_t)h);
  static const size_t caps[] = {0, 1, 7, 30, 30, 100, 100, 1000};
  size_t cap0 = caps[rng.u(8)];
  bool use_global = (h % 5 == 4);
  mjCache* gc = nullptr;
  std::unique_ptr<mjCCache> own;
  mjCCache* c;
  if (use_global) {
    gc = mj_getCache();
    if (!gc || !gc->impl_) { use_global = false; }
  }
  if (use_global) {
    c = (mjCCache*)gc->impl_;
    mj_clearCache(gc);
    size_t r = mj_setCacheCapacity(gc, cap0);
    if (r != cap0) FAIL("setCacheCapacity-return-differs-from-new-capacity", "hist %ld: returned %zu for %zu", h, r, cap0);
    st.global_hist++;
  } else {
    own.reset(new mjCCache(cap0));
    c = own.get();
  }
  Ref ref; ref.cap = cap0;
  uint64_t uid = 1;
  int len = 1 + (int)rng.u(maxlen);
  bool nontrivial = false;
  std::vector<int> weights = {36, 24, 4, 7, 8, 5, 2, 9};  // ins pop has del rmmodel resetmodel resetall setcap
  int wsum = 0; for (int w : weights) wsum += w;
  compare_with_ref(*c, ref, "construction", h, -1);
  for (int step = 0; step < len && g_fail.load() == 0; step++) {
    int r = (int)rng.u(wsum), op = 0;
    while (r >= weights[op]) { r -= weights[op]; op++; }
    const char* opname = "";
    st.ops++;
    switch (op) {
      case 0: {  // Insert
        opname = "Insert";
        int id = rng.u(NID), m = rng.u(NMODEL), ts = rng.u(3);
        size_t cap = ref.cap;
        size_t sizes[] = {0, 1, cap / 3, cap / 3 + 1, cap / 2, cap, cap + 1, 2, 5};
        size_t size = sizes[rng.u(9)];
        uint64_t u = uid++;
        bool got;
        { auto data = make_payload(id, ts, u); got = c->Insert(modelname(m), idname(id), &g_res[ts], data, size); }
        st.ins++;
        auto it = ref.held.find(id);
        if (it == ref.held.end()) {
          bool fits = ref.total() + size <= ref.cap;
          if (got != fits) FAIL(fits ? "insert-of-fitting-new-asset-refused" : "insert-beyond-capacity-accepted", "hist %ld step %d: size %zu, held %zu, capacity %zu -> %d", h, step, size, ref.total(), ref.cap, got);
          if (fits) { ref.held[id] = RAsset{ts, size, u, 0, ref.counter++, {m}}; st.ins_new++; if (ref.total() == ref.cap && size) st.full++; }
          else { st.ins_refused++; nontrivial = true; }
        } else {
          RAsset& a = it->second;
          bool fits = ref.total() - a.size + size <= ref.cap;
          if (a.ts == ts) {
            // documented: data is NOT updated when the timestamps agree; whether an insert whose (unused) new size
            // would not fit reports success is not documented -> either answer is accepted, the model reference follows it
            if (fits) { if (!got) FAIL("insert-same-timestamp-refused-although-fitting", "hist %ld step %d", h, step); a.refs.insert(m); }
            else { st.ins_unspec++; if (got) a.refs.insert(m); }
            st.ins_same_ts++;
          } else if (fits) {
            if (!got) FAIL("insert-of-fitting-update-refused", "hist %ld step %d: new size %zu old %zu held %zu cap %zu", h, step, size, a.size, ref.total(), ref.cap);
            a.ts = ts; a.size = size; a.uid = u; a.refs.insert(m);
            st.ins_replace++; nontrivial = true;
          } else {
            if (got) FAIL("insert-beyond-capacity-accepted", "hist %ld step %d: update to size %zu (old %zu), held %zu, capacity %zu accepted", h, step, size, a.size, ref.total(), ref.cap);
            st.ins_refused++; nontrivial = true;
          }
        }
        break;
      }
      case 1: {  // PopulateData
        opname = "PopulateData";
        int id = rng.u(NID), ts = rng.u(3);
        auto it = ref.held.find(id);
        if (it != ref.held.end() && rng.u(3)) ts = it->second.ts;   // bias towards hits
        int calls = 0; Payload seen{};
        bool ok_payload = true;
        bool hit = c->PopulateData(idname(id), &g_res[ts], [&](const void* d) {
          calls++;
          const Payload* p = (const Payload*)d;
          ok_payload = payload_ok(p);
          if (ok_payload) seen = *p;
          return true;
        });
        bool want = it != ref.held.end() && it->second.ts == ts;
        if (hit != want) FAIL(want ? "lookup-misses-unmodified-held-asset" : (it == ref.held.end() ? "lookup-hits-absent-asset" : "lookup-hits-asset-with-changed-timestamp"),
                              "hist %ld step %d: %s ts '%s' -> %d", h, step, idname(id).c_str(), TS[ts], hit);
        if (calls != (hit ? 1 : 0)) FAIL("lookup-callback-count", "hist %ld step %d: callback ran %d times, result %d", h, step, calls, hit);
        if (hit && want) {
          if (!ok_payload) FAIL("lookup-returns-corrupt-data", "hist %ld step %d", h, step);
          else if (seen.uid != it->second.uid || seen.id != id) FAIL("lookup-returns-data-of-another-insert", "hist %ld step %d: %s returned insert #%llu (asset %d), most recent effective insert #%llu",
                                                                   h, step, idname(id).c_str(), (unsigned long long)seen.uid, seen.id, (unsigned long long)it->second.uid);
          it->second.access++;
          st.hits++;
        } else if (!hit && !want) {
          st.miss++;
          if (it != ref.held.end()) st.miss_modified++;
        }
        break;
      }
      case 2: opname = "HasAsset"; st.has++; break;   // every id is probed in compare_with_ref
      case 3: {
        opname = "DeleteAsset";
        int id = rng.u(NID);
        c->DeleteAsset(idname(id));
        ref.held.erase(id);
        st.del++;
        break;
      }
      case 4: {
        opname = "RemoveModel";
        int m = rng.u(NMODEL);
        c->RemoveModel(modelname(m));
        for (auto it = ref.held.begin(); it != ref.held.end();) {
          if (it->second.refs.erase(m)) {
            if (it->second.refs.empty()) { it = ref.held.erase(it); st.rm_deleted++; continue; }
            st.rm_survivors++; nontrivial = true;
          }
          ++it;
        }
        st.rmmodel++;
        break;
      }
      case 5: {
        opname = "Reset(model)";
        int m = rng.u(NMODEL);
        c->Reset(modelname(m));
        for (auto it = ref.held.begin(); it != ref.held.end();) {
          if (it->second.refs.count(m)) { if (it->second.refs.size() > 1) st.resetm_shared++; it = ref.held.erase(it); }
          else ++it;
        }
        st.resetm++;
        break;
      }
      case 6: {
        opname = "Reset()";
        if (use_global) mj_clearCache(gc); else c->Reset();
        ref.held.clear(); ref.counter = 0;
        st.resetall++;
        break;
      }
      case 7: {
        opname = "SetCapacity";
        size_t tot = ref.total();
        size_t choices[] = {0, 1, tot, tot ? tot - 1 : 0, tot / 2, tot + 1, 30, 100, caps[rng.u(8)]};
        size_t nc = choices[rng.u(9)];
        if (use_global) {
          size_t r2 = mj_setCacheCapacity(gc, nc);
          if (r2 != nc) FAIL("setCacheCapacity-return-differs-from-new-capacity", "hist %ld step %d: returned %zu for %zu", h, step, r2, nc);
          if (mj_getCacheCapacity(gc) != nc) FAIL("reported-capacity-differs-from-reference", "hist %ld step %d: mj_getCacheCapacity", h, step);
        } else c->SetCapacity(nc);
        ref.cap = nc;
        long before = st.evict;
        ref.trim(&st.evict);
        if (st.evict > before && !ref.held.empty()) nontrivial = true;
        if (use_global && mj_getCacheSize(gc) != ref.total()) FAIL("reported-size-differs-from-reference", "hist %ld step %d: mj_getCacheSize()=%zu reference %zu", h, step, mj_getCacheSize(gc), ref.total());
        st.setcap++;
        break;
      }
    }
    compare_with_ref(*c, ref, opname, h, step);
  }
  if (use_global) { mj_clearCache(gc); mj_setCacheCapacity(gc, 1000); }
  else own.reset();
  if (g_fail.load() == 0 && g_live.load() != 0) FAIL("dropped-asset-data-not-released", "hist %ld: %ld payloads alive after the cache was destroyed/cleared", h, g_live.load());
  if (nontrivial) st.nontrivial++;
}

static int run_seq(uint64_t seed, long nhist, int maxlen) {
  SeqStats st;
  long h = 0;
  for (; h < nhist && g_fail.load() == 0; h++) run_history(seed, h, maxlen, st);
  printf("SUMMARY mode=seq histories=%ld nontrivial=%ld ops=%ld inserts=%ld inserted_new=%ld refused=%ld same_timestamp=%ld replaced=%ld unspecified_return=%ld hits=%ld misses=%ld "
         "misses_modified=%ld evictions=%ld setcapacity=%ld removemodel=%ld removemodel_survivors=%ld removemodel_deleted=%ld resetmodel=%ld resetmodel_shared=%ld resetall=%ld "
         "deletes=%ld filled_exactly=%ld global_cache_histories=%ld failures=%ld\n",
         h, st.nontrivial, st.ops, st.ins, st.ins_new, st.ins_refused, st.ins_same_ts, st.ins_replace, st.ins_unspec, st.hits, st.miss, st.miss_modified, st.evict, st.setcap,
         st.rmmodel, st.rm_survivors, st.rm_deleted, st.resetm, st.resetm_shared, st.resetall, st.del, st.full, st.global_hist, g_fail.load());
  return g_fail.load() ? 1 : 0;
}

// ------------------------------------------------------------------------------------------------ concurrent
enum { O_INS, O_POP, O_DEL, O_HAS, O_RMMODEL, O_RESETM, O_RESETALL, O_SETCAP, O_SIZE, O_READ };
struct COp {
  int op, id, ts, model; size_t size; uint64_t uid;          // inputs (pre-generated)
  bool ret = false; uint64_t got_uid = 0; int got_ts = -1;   // outputs
  int64_t t0 = 0, t1 = 0;                                   // invocation / response (steady clock, no synchronisation)
};
static inline int64_t now_ns() { return std::chrono::duration_cast<std::chrono::nanoseconds>(std::chrono::steady_clock::now().time_since_epoch()).count(); }

// register state of one key: present, ts, uid
struct KState { bool present; int ts; uint64_t uid; };
static bool apply_op(const COp& o, KState& s) {
  switch (o.op) {
    case O_INS:
      if (!o.ret) return false;                       // ample capacity: an insert can never be refused
      if (!s.present || s.ts != o.ts) s = KState{true, o.ts, o.uid};
      return true;
    case O_POP: {
      bool want = s.present && s.ts == o.ts;
      if (o.ret != want) return false;
      return !want || o.got_uid == s.uid;
    }
    case O_DEL: s.present = false; return true;
    case O_HAS: return o.ret == s.present;
    case O_READ: return o.ret == s.present && (!s.present || (o.got_uid == s.uid && o.got_ts == s.ts));
  }
  return false;
}

struct LinSearch {
  const std::vector<const COp*>& ops;
  std::set<std::pair<uint64_t, uint64_t>> seen;   // exact (done-set, register state) memo
  long nodes = 0, budget;
  LinSearch(const std::vector<const COp*>& o, long b) : ops(o), budget(b) {}
  // returns 1 linearizable, 0 not, -1 budget exceeded
  int go(uint64_t done, KState s) {
    if (done == (ops.size() == 64 ? ~0ull : ((1ull << ops.size()) - 1))) return 1;
    if (++nodes > budget) return -1;
    if (!seen.insert({done, s.present ? (s.uid * 8 + (uint64_t)s.ts * 2 + 1) : 0}).second) return 0;
    int64_t minresp = INT64_MAX;
    for (size_t i = 0; i < ops.size(); i++) if (!(done >> i & 1)) minresp = std::min(minresp, ops[i]->t1);
    for (size_t i = 0; i < ops.size(); i++) {
      if (done >> i & 1) continue;
      if (ops[i]->t0 > minresp) continue;             // some pending op finished strictly before this one started
      KState s2 = s;
      if (!apply_op(*ops[i], s2)) continue;
      int r = go(done | (1ull << i), s2);
      if (r != 0) return r;
    }
    return 0;
  }
};

struct ConcStats { long hist = 0, ops = 0, hits = 0, overlapping = 0, lin_keys = 0, lin_nodes = 0, lin_budget = 0, max_key_ops = 0, refused = 0, final_assets = 0; };

static void run_conc_history(uint64_t seed, long h, int nthreads, int nids, int opsper, bool mix, bool deref, ConcStats& st) {
  Rng rng(seed * 7919ull + (uint64_t)h * 104729ull + 17);
  const size_t BIG = 1u << 30;
  static const size_t mixcaps[] = {0, 10, 30, 60, 100}, setcaps[] = {0, 5, 30, 60, 100};
  size_t cap0 = mix ? mixcaps[rng.u(5)] : BIG;
  bool with_setcap = mix && rng.u(2);
  std::vector<std::vector<COp>> plan(nthreads);
  std::vector<int> perkey(nids, 0);
  std::map<uint64_t, COp> inserts;   // uid -> insert op
  uint64_t uid = 1;
  for (int t = 0; t < nthreads; t++) {
    for (int k = 0; k < opsper; k++) {
      COp o{};
      o.id = rng.u(nids); o.ts = rng.u(mix ? 3 : 2); o.model = rng.u(NMODEL);
      static const size_t szs[] = {0, 1, 3, 10, 20, 33};
      o.size = szs[rng.u(6)];
      int r = rng.u(100);
      if (!mix) {
        if (perkey[o.id] >= 40) continue;             // per-key history bound for the linearizability search
        o.op = r < 40 ? O_INS : r < 75 ? O_POP : r < 90 ? O_DEL : O_HAS;
        perkey[o.id]++;
      } else {
        o.op = r < 34 ? O_INS : r < 60 ? O_POP : r < 68 ? O_DEL : r < 73 ? O_HAS : r < 80 ? O_RMMODEL : r < 85 ? O_RESETM : r < 87 ? O_RESETALL : r < 93 ? O_SETCAP : O_SIZE;
        if (o.op == O_SETCAP && !with_setcap) o.op = O_SIZE;
        if (o.op == O_SETCAP) o.size = setcaps[rng.u(5)];
      }
      if (o.op == O_INS) { o.uid = uid++; inserts[o.uid] = o; }
      plan[t].push_back(o);
    }
  }
  g_live = 0;
  {
    mjCCache cache(cap0);
    std::atomic<int> ready{0};
    std::vector<std::thread> ths;
    for (int t = 0; t < nthreads; t++) {
      ths.emplace_back([&, t] {
        ready.fetch_add(1, std::memory_order_relaxed);
        while (ready.load(std::memory_order_relaxed) < nthreads) { std::this_thread::yield(); }
        for (COp& o : plan[t]) {
          const std::string idn = idname(o.id);
          const std::string mn = modelname(o.model);
          o.t0 = now_ns();
          switch (o.op) {
            case O_INS: { auto data = make_payload(o.id, o.ts, o.uid); o.ret = cache.Insert(mn, idn, &g_res[o.ts], data, o.size); break; }
            case O_POP: {
              COp* po = &o;
              o.ret = cache.PopulateData(idn, &g_res[o.ts], [po](const void* d) {
                const Payload* p = (const Payload*)d;
                if (!payload_ok(p)) { FAIL("lookup-returns-corrupt-data", "concurrent lookup"); return true; }
                po->got_uid = p->uid; po->got_ts = p->ts;
                if (p->id != po->id) FAIL("lookup-returns-data-of-another-asset", "concurrent lookup of %d returned %d", po->id, p->id);
                return true;
              });
              break;
            }
            case O_DEL: cache.DeleteAsset(idn); break;
            case O_HAS: {
              const std::string* s = cache.HasAsset(idn);
              o.ret = s != nullptr;
              if (s && deref) o.got_ts = (int)s->size();   // dereferences the returned pointer outside the lock
              break;
            }
            case O_RMMODEL: cache.RemoveModel(mn); break;
            case O_RESETM: cache.Reset(mn); break;
            case O_RESETALL: cache.Reset(); break;
            case O_SETCAP: cache.SetCapacity(o.size); break;
            case O_SIZE: {
              size_t s = cache.Size();
              if (!with_setcap && s > cap0) FAIL("size-exceeds-capacity", "concurrent Size()=%zu capacity %zu", s, cap0);
              if (s > 100 && mix) FAIL("size-exceeds-capacity", "concurrent Size()=%zu exceeds every capacity ever set", s);
              break;
            }
          }
          o.t1 = now_ns();
        }
      });
    }
    for (auto& th : ths) th.join();
    st.hist++;

    // ---- quiescent checks
    char where[64]; snprintf(where, sizeof where, "conc hist %ld at quiescence", h);
    size_t n = check_structure(cache, where);
    st.final_assets += (long)n;
    if (cache.Size() != cache.size_) FAIL("reported-size-differs-from-reference", "%s", where);
    if (g_live.load() != (long)n) FAIL("dropped-asset-data-not-released", "%s: %ld payloads alive, %zu assets held", where, g_live.load(), n);
    if (g_badfree.load()) FAIL("asset-data-freed-twice-or-corrupt", "%s", where);
    size_t sum_expected = 0;
    for (auto& kv : cache.lookup_) {
      const mjCAsset& a = kv.second;
      const Payload* p = (const Payload*)a.Data();
      if (!payload_ok(p)) continue;
      auto it = inserts.find(p->uid);
      if (it == inserts.end()) { FAIL("held-asset-data-from-unknown-insert", "%s", where); continue; }
      const COp& io = it->second;
      if (idname(io.id) != kv.first) FAIL("lookup-returns-data-of-another-asset", "%s: key %s holds data inserted for %s", where, kv.first.c_str(), idname(io.id).c_str());
      if (a.Timestamp() != TS[io.ts]) FAIL("stored-timestamp-differs-from-reference", "%s: %s has '%s' but its data came with '%s'", where, kv.first.c_str(), a.Timestamp().c_str(), TS[io.ts]);
      if (a.BytesCount() != io.size) FAIL("asset-size-differs-from-reference", "%s: %s has %zu bytes but its data came with %zu", where, kv.first.c_str(), a.BytesCount(), io.size);
      sum_expected += io.size;
    }
    if (g_fail.load() == 0 && cache.Size() != sum_expected) FAIL("size-differs-from-sum-of-held-assets", "%s: Size()=%zu, sizes of the inserts that supplied the held data sum to %zu", where, cache.Size(), sum_expected);

    // ---- per-operation well-formedness (both modes): a hit returns data some insert supplied for that id with that timestamp, not from the future
    long nops = 0;
    for (auto& pl : plan) for (auto& o : pl) {
      nops++;
      if (o.op == O_INS && !o.ret) st.refused++;
      if (o.op != O_POP || !o.ret) continue;
      st.hits++;
      auto it = inserts.find(o.got_uid);
      if (it == inserts.end()) { FAIL("lookup-returns-data-of-unknown-insert", "%s", where); continue; }
      if (it->second.id != o.id) FAIL("lookup-returns-data-of-another-asset", "%s", where);
      if (it->second.ts != o.ts) FAIL("lookup-hits-asset-with-changed-timestamp", "%s: lookup with '%s' returned data inserted with '%s'", where, TS[o.ts], TS[it->second.ts]);
    }
    st.ops += nops;

    // ---- per-key linearizability (lin mode)
    if (!mix) {
      for (int id = 0; id < nids; id++) {
        std::vector<COp> finals(1);
        COp& f = finals[0];
        f.op = O_READ; f.id = id; f.t0 = INT64_MAX - 1; f.t1 = INT64_MAX;
        auto lit = cache.lookup_.find(idname(id));
        f.ret = lit != cache.lookup_.end();
        if (f.ret) {
          const Payload* p = (const Payload*)lit->second.Data();
          if (payload_ok(p)) { f.got_uid = p->uid; }
          f.got_ts = -2;
          for (int t = 0; t < 3; t++) if (lit->second.Timestamp() == TS[t]) f.got_ts = t;
        }
        std::vector<const COp*> ops;
        for (auto& pl : plan) for (auto& o : pl) if (o.id == id) ops.push_back(&o);
        for (size_t i = 0; i < ops.size(); i++) for (size_t j = i + 1; j < ops.size(); j++)
          if (ops[i]->t0 <= ops[j]->t1 && ops[j]->t0 <= ops[i]->t1) st.overlapping++;
        ops.push_back(&f);
        st.max_key_ops = std::max(st.max_key_ops, (long)ops.size());
        if (ops.size() > 62) { st.lin_budget++; continue; }
        LinSearch ls(ops, 400000);
        int r = ls.go(0, KState{false, 0, 0});
        st.lin_nodes += ls.nodes;
        if (r < 0) { st.lin_budget++; continue; }
        st.lin_keys++;
        if (r == 0) {
          FAIL("per-key-history-not-linearizable", "conc hist %ld key %s: %zu operations admit no sequential order consistent with real-time order and the register specification", h, idname(id).c_str(), ops.size());
          if (g_failtags["per-key-history-not-linearizable"] <= 2) {
            std::vector<const COp*> srt(ops); std::sort(srt.begin(), srt.end(), [](const COp* a, const COp* b) { return a->t0 < b->t0; });
            int64_t base = srt[0]->t0;
            for (auto* o : srt) printf("  op=%d ts=%d uid=%llu ret=%d got_uid=%llu got_ts=%d t0=%lld t1=%lld\n", o->op, o->ts, (unsigned long long)o->uid, (int)o->ret,
                                       (unsigned long long)o->got_uid, o->got_ts, (long long)(o->t0 - base), (long long)(o->t1 == INT64_MAX ? -1 : o->t1 - base));
          }
        }
      }
    }
  }
  if (g_fail.load() == 0 && g_live.load() != 0) FAIL("dropped-asset-data-not-released", "conc hist %ld: %ld payloads alive after the cache was destroyed", h, g_live.load());
}

static int run_conc(uint64_t seed, long nhist, int nthreads, int nids, int opsper, bool mix, bool deref) {
  ConcStats st;
  for (long h = 0; h < nhist && g_fail.load() == 0; h++) run_conc_history(seed, h, nthreads, nids, opsper, mix, deref, st);
  printf("SUMMARY mode=%s histories=%ld threads=%d ids=%d ops=%ld hits=%ld refused=%ld overlapping_pairs=%ld keys_linearized=%ld search_nodes=%ld search_budget_exceeded=%ld "
         "max_ops_per_key=%ld final_assets=%ld deref=%d failures=%ld\n",
         mix ? "mix" : "lin", st.hist, nthreads, nids, st.ops, st.hits, st.refused, st.overlapping, st.lin_keys, st.lin_nodes, st.lin_budget, st.max_key_ops, st.final_assets, (int)deref, g_fail.load());
  return g_fail.load() ? 1 : 0;
}

// tiny self-test of the linearizability checker (a known-bad and a known-good register history)
static int selftest() {
  std::vector<COp> v(3);
  v[0].op = O_INS; v[0].ts = 0; v[0].uid = 1; v[0].ret = true; v[0].t0 = 0; v[0].t1 = 10;
  v[1].op = O_DEL; v[1].t0 = 20; v[1].t1 = 30;
  v[2].op = O_POP; v[2].ts = 0; v[2].ret = true; v[2].got_uid = 1; v[2].t0 = 40; v[2].t1 = 50;   // hit after a completed delete: impossible
  std::vector<const COp*> ops = {&v[0], &v[1], &v[2]};
  LinSearch bad(ops, 1000);
  int r1 = bad.go(0, KState{false, 0, 0});
  v[2].t0 = 25;                                                                                  // now overlaps the delete: fine
  LinSearch good(ops, 1000);
  int r2 = good.go(0, KState{false, 0, 0});
  printf("SUMMARY mode=selftest bad=%d good=%d failures=%d\n", r1, r2, (r1 == 0 && r2 == 1) ? 0 : 1);
  return (r1 == 0 && r2 == 1) ? 0 : 1;
}

int main(int argc, char** argv) {
  init_resources();
  if (argc >= 2 && !strcmp(argv[1], "selftest")) return selftest();
  if (argc < 5) return 2;
  uint64_t seed = strtoull(argv[2], 0, 10);
  if (!strcmp(argv[1], "seq")) return run_seq(seed, atol(argv[3]), atoi(argv[4]));
  if (!strcmp(argv[1], "conc") && argc >= 8)
    return run_conc(seed, atol(argv[3]), atoi(argv[4]), atoi(argv[5]), atoi(argv[6]), !strcmp(argv[7], "mix"), argc > 8 && atoi(argv[8]));
  return 2;
}
