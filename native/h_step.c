// C02 (TSan/ASan part): run forward / inverse / steps on a model with an engine thread pool attached, with
// seeded delays injected before each task through the repo's task hook, and dump a digest of the state so the
// caller can also compare pool sizes.  usage: h_step <xml> <nthread> <nsteps> <delay_mode> <seed> [solver cone jacobian noslip]
#include <mujoco/mujoco.h>
#include <stdint.h>
#include <stdio.h>
#include <stdlib.h>
#include <string.h>

void vf_install_handlers(void);
void vf_taskhook_install(int mode, unsigned long long seed);
void vf_taskhook_stats(long long* out);

static uint64_t fnv(uint64_t h, const void* p, size_t n) {
  const unsigned char* c = (const unsigned char*)p;
  for (size_t i = 0; i < n; i++) { h ^= c[i]; h *= 1099511628211ull; }
  return h;
}

int main(int argc, char** argv) {
  if (argc < 6) return 2;
  vf_install_handlers();
  char err[1000] = "";
  mjModel* m = mj_loadXML(argv[1], NULL, err, sizeof(err));
  if (!m) { printf("LOADFAIL %s\n", err); return 5; }
  int nthread = atoi(argv[2]), nsteps = atoi(argv[3]), mode = atoi(argv[4]);
  uint64_t seed = strtoull(argv[5], 0, 10);
  if (argc > 6) m->opt.solver = atoi(argv[6]);
  if (argc > 7) m->opt.cone = atoi(argv[7]);
  if (argc > 8) m->opt.jacobian = atoi(argv[8]);
  if (argc > 9) m->opt.noslip_iterations = atoi(argv[9]);
  mjData* d = mj_makeData(m);
  // configuration as the engine resolves it (printed before any stepping: sanitizer runs halt at the first report), used by the
  // caller to classify reports by mechanism; arena = address range that holds the efc_* arrays (efc_force, efc_AR, ...)
  printf("CONFIG nv=%d sparse=%d islands_enabled=%d solver_pgs=%d cone=%d noslip=%d nthread=%d arena_lo=%llu arena_hi=%llu\n", (int)m->nv,
         mj_isSparse(m), (m->opt.disableflags & mjDSBL_ISLAND) ? 0 : 1, m->opt.solver == mjSOL_PGS, (int)m->opt.cone,
         m->opt.noslip_iterations, nthread, (unsigned long long)(uintptr_t)d->arena,
         (unsigned long long)((uintptr_t)d->arena + d->narena));
  fflush(stdout);
  vf_taskhook_install(mode, seed * 2654435761u + 1);
  mju_threadpool(d, nthread);
  uint64_t rs = seed * 0x9E3779B97F4A7C15ull + 3;
  uint64_t h = 1469598103934665603ull;
  int maxisland = 0, maxcon = 0;
  mj_forward(m, d);
  mj_inverse(m, d);
  for (int s = 0; s < nsteps; s++) {
    for (int i = 0; i < m->nu; i++) { rs ^= rs << 13; rs ^= rs >> 7; rs ^= rs << 17; d->ctrl[i] = ((double)(rs >> 40) / (1 << 24)) - 0.5; }
    mj_step(m, d);
    if (d->nisland > maxisland) maxisland = d->nisland;
    if (d->ncon > maxcon) maxcon = d->ncon;
    h = fnv(h, d->qpos, sizeof(mjtNum) * m->nq);
    h = fnv(h, d->qvel, sizeof(mjtNum) * m->nv);
    h = fnv(h, d->qacc, sizeof(mjtNum) * m->nv);
    h = fnv(h, d->sensordata, sizeof(mjtNum) * m->nsensordata);
    h = fnv(h, d->efc_force, sizeof(mjtNum) * d->nefc);
    h = fnv(h, &d->ncon, sizeof(int));
    for (int i = 0; i < d->ncon; i++) { h = fnv(h, &d->contact[i].dist, sizeof(mjtNum)); h = fnv(h, d->contact[i].geom, 2 * sizeof(int)); h = fnv(h, d->contact[i].frame, 9 * sizeof(mjtNum)); }
  }
  mj_forward(m, d);
  mj_inverse(m, d);
  h = fnv(h, d->qfrc_inverse, sizeof(mjtNum) * m->nv);
  long long st[4];
  vf_taskhook_stats(st);
  mju_threadpool(d, 0);
  printf("SUMMARY digest=%016llx nthread=%d steps=%d max_islands=%d max_contacts=%d hook_tasks=%lld hook_done=%lld tasks_on_workers=%lld thread_mask=%lld\n",
         (unsigned long long)h, nthread, nsteps, maxisland, maxcon, st[0], st[1], st[2], st[3]);
  mj_deleteData(d);
  mj_deleteModel(m);
  return 0;
}
