// C39: virtual file system operations have set semantics -- sequential history checker.
// usage: h_vfs seq <seed> <nhist> <maxlen> <flags> <scratchdir>
//   flags bit0: also query mj_containsBufferVFS with literal names that need path normalisation ("d1\\f", "./f", "a/../f")
//         bit1: also mj_addFileVFS files that do not exist on disk (documented return: -1 failed to load)
//         bit2: also delete a file while a resource opened on it is still open (informational, outside the C39 verdict: the
//               statement has no memory-safety clause). The delete's return code is compared as usual, the event is counted
//               (open_across_delete) and the history ENDS there: the stale resource and the VFS are abandoned (leaked) and never
//               touched again, because mju_closeResource / mju_readResource / mj_deleteVFS would read the freed provider.
// <scratchdir> must exist and be empty; the harness populates it with the disk files and chdir()s into it.
// Reference: one dict keyed by the documented name normalisation (buffer names: path-reduced, case-sensitive;
// file names: directory stripped and lower-cased; delete: exact name first, then stripped lower-case), values are
// the added bytes (unique per add). A history stops at its first discrepancy (the reference is not re-synchronised).
#include <mujoco/mujoco.h>
#include <mujoco/mjplugin.h>
#include <sys/stat.h>
#include <unistd.h>

#include <algorithm>
#include <cstdint>
#include <cstdio>
#include <cstdlib>
#include <cstring>
#include <map>
#include <set>
#include <string>
#include <vector>

extern "C" {
void vf_install_handlers(void);
const char* vf_last_warning(void);
int vf_warning_count(void);
void vf_clear_messages(void);
}

static long g_fail = 0;
static std::map<std::string, int> g_failtags;
#define FAIL(tag, ...) do { g_fail++; if (g_failtags[tag]++ < 3) { printf("FAIL %s: ", tag); printf(__VA_ARGS__); printf("\n"); fflush(stdout);} } while (0)

struct Rng {
  uint64_t s;
  explicit Rng(uint64_t seed) : s(seed * 0x9E3779B97F4A7C15ull + 0x7654321ull) { for (int i = 0; i < 4; i++) next(); }
  uint64_t next() { s ^= s << 13; s ^= s >> 7; s ^= s << 17; return s; }
  uint32_t u(uint32_t n) { return (uint32_t)((next() >> 24) % n); }
};

// ------------------------------------------------------------------------------------------------ reference name rules
static bool is_sep(char c) { return c == '/' || c == '\\'; }
// path reduction: both separators are separators, "." components vanish, "x/.." cancels, result joined with '/'
static std::string ref_reduce(const std::string& s) {
  std::string prefix;
  size_t j = 0;
  if (!s.empty() && is_sep(s[0])) { prefix = s.substr(0, 1); j = 1; }
  std::vector<std::string> parts;
  std::string cur;
  for (size_t i = j; i <= s.size(); i++) {
    if (i == s.size() || is_sep(s[i])) {
      bool last = (i == s.size());
      if (!last && cur == ".." && !parts.empty() && parts.back() != "..") parts.pop_back();
      else if (last || cur != ".") parts.push_back(cur);
      cur.clear();
    } else cur += s[i];
  }
  std::string out = prefix;
  for (size_t i = 0; i < parts.size(); i++) { if (i) out += "/"; out += parts[i]; }
  return out;
}
static std::string ref_combine(const char* dir, const std::string& name) {
  std::string d = dir ? dir : "";
  if (!name.empty() && is_sep(name[0])) return name;
  if (!d.empty() && !is_sep(d.back())) return d + "/" + name;
  return d + name;
}
static std::string ref_strip(const std::string& s) { size_t n = s.find_last_of("/\\"); return n == std::string::npos ? s : s.substr(n + 1); }
static std::string ref_lower(std::string s) { for (auto& c : s) c = (char)tolower((unsigned char)c); return s; }
static std::string ref_dirpart(const std::string& s) { size_t n = s.find_last_of("/\\"); return n == std::string::npos ? "" : s.substr(0, n); }

// ------------------------------------------------------------------------------------------------ universe
static const char* BUFNAMES[] = {"vfq_a.txt", "VFQ_A.TXT", "d1/vfq_a.txt", "d1\\vfq_a.txt", "d2/vfq_a.txt", "D1/vfq_a.txt", "vfq_b.txt",
                                 "d1/d2/vfq_b.txt", "d2/../d1/vfq_a.txt", "./vfq_b.txt", "vfq_n.txt", "d3/vfq_n.txt", "d1/d2\\vfq_b.txt", "vfq_c.bin"};
static const int NBUF = sizeof(BUFNAMES) / sizeof(BUFNAMES[0]);
static const char* DISKFILES[] = {"vfq_a.txt", "VFQ_A.TXT", "d1/vfq_a.txt", "d2/vfq_a.txt", "D1/vfq_a.txt", "vfq_b.txt", "d1/d2/vfq_b.txt",
                                  "vfq_c.bin", "d1/Vfq_C.bin", "vfq_empty.dat"};
static const int NDISK = sizeof(DISKFILES) / sizeof(DISKFILES[0]);
static const char* QUERYNAMES[] = {"some/dir/vfq_a.txt", "some/dir\\VFQ_A.txt", "Vfq_B.TXT", "d1/d2/VFQ_B.txt", "vfq_missing.txt", "vfq_c.bin",
                                   "D1/VFQ_C.BIN", "vfq_empty.dat", "d9/vfq_n.txt", "VFQ_N.TXT", "d1/Vfq_C.bin"};
static const int NQUERY = sizeof(QUERYNAMES) / sizeof(QUERYNAMES[0]);
static const char* OPENDIRS[] = {nullptr, "", "d1", "d1/", "d2/..", "d1\\d2", "d9"};
static const int NOPENDIR = sizeof(OPENDIRS) / sizeof(OPENDIRS[0]);
static const char* MISSING[][2] = {{"d3", "vfq_a.txt"}, {nullptr, "vfq_missing.txt"}, {"", "d1/VFQ_A.TXT"}};

static std::string g_scratch;
static std::map<std::string, std::string> g_disk;   // relative path -> content

static std::string make_content(uint64_t uid, size_t n, char tag) {
  std::string c(n, '\0');
  uint64_t x = uid * 0x9E3779B97F4A7C15ull + (uint64_t)tag;
  for (size_t i = 0; i < n; i++) { x ^= x << 13; x ^= x >> 7; x ^= x << 17; c[i] = (char)(x >> 32); }
  if (n >= 9) { memcpy(&c[0], &uid, 8); c[8] = tag; }   // unique per add
  return c;
}

static void mkdirs(const std::string& rel) {
  size_t p = 0;
  while ((p = rel.find('/', p)) != std::string::npos) { mkdir((g_scratch + "/" + rel.substr(0, p)).c_str(), 0755); p++; }
}
static bool setup_disk() {
  static const size_t sizes[] = {40, 33, 100, 12, 57, 2000, 300, 65536, 700, 0};
  for (int i = 0; i < NDISK; i++) {
    mkdirs(DISKFILES[i]);
    std::string c = make_content(1000 + i, sizes[i], 'D');
    FILE* f = fopen((g_scratch + "/" + DISKFILES[i]).c_str(), "wb");
    if (!f) return false;
    if (!c.empty()) fwrite(c.data(), 1, c.size(), f);
    fclose(f);
    g_disk[DISKFILES[i]] = c;
  }
  return chdir(g_scratch.c_str()) == 0;
}
static const std::string* disk_lookup(const std::string& q) {
  std::string r = q;
  if (r.compare(0, g_scratch.size() + 1, g_scratch + "/") == 0) r = r.substr(g_scratch.size() + 1);
  auto it = g_disk.find(r);
  return it == g_disk.end() ? nullptr : &it->second;
}

// ------------------------------------------------------------------------------------------------ reference state
struct Entry { std::string literal; bool is_file; std::string content; uint64_t uid; };
struct OpenRes { mjResource* r; std::set<std::string> bound; std::string content; bool from_disk; bool stale; };

struct Stats {
  long hist = 0, nontrivial = 0, ops = 0, addbuf = 0, addfile = 0, repeated = 0, del_ok = 0, del_absent = 0, del_legacy = 0, contains = 0, opens = 0, open_exact = 0,
       open_legacy = 0, open_ambiguous = 0, open_disk = 0, open_none = 0, reads = 0, bytes = 0, kept_open = 0, deletevfs_open = 0, skipped_delete_open = 0, tolerated_crosskind = 0,
       stale_closes = 0, missing_adds = 0, unnormalised_queries = 0, sweeps = 0, open_across_delete = 0;
  std::map<std::string, long> cls;
};

struct Hist {
  mjVFS vfs;
  std::map<std::string, Entry> dict;
  std::vector<OpenRes> open;
  Stats& st;
  long h; int step = 0;
  bool abandoned = false;   // flag bit2: a file was deleted under an open resource; nothing of this VFS is touched any more
  explicit Hist(Stats& s, long hh) : st(s), h(hh) { mj_defaultVFS(&vfs); }

  std::string classify(const std::string& literal, const std::string& key) const {
    auto it = dict.find(key);
    if (it != dict.end()) return it->second.literal == literal ? "identical" : "same_after_normalisation";
    std::string cls = "fresh";
    for (auto& kv : dict) {
      if (ref_lower(kv.first) == ref_lower(key)) return "case_only";
      if (ref_strip(kv.first) == ref_strip(key)) cls = "directory_only";
      else if (cls == "fresh" && ref_lower(ref_strip(kv.first)) == ref_lower(ref_strip(key))) cls = "directory_and_case";
    }
    return cls;
  }

  // open + read and compare with the reference expectation; returns false on a discrepancy
  bool do_open(const char* dir, const std::string& name, bool keep) {
    std::string q = ref_reduce(ref_combine(dir, name));
    char err[200] = "";
    mjResource* r = mju_openResource(dir, name.c_str(), &vfs, err, sizeof err);
    st.opens++;
    std::set<std::string> cands;
    const std::string* diskc = nullptr;
    auto ex = dict.find(q);
    if (ex != dict.end()) { cands.insert(q); st.open_exact++; }
    else {
      for (auto& kv : dict) if (ref_lower(ref_strip(kv.first)) == ref_lower(ref_strip(q))) cands.insert(kv.first);
      if (!cands.empty()) { st.open_legacy++; if (cands.size() > 1) st.open_ambiguous++; }
      else { diskc = disk_lookup(q); if (diskc) st.open_disk++; else st.open_none++; }
    }
    if (cands.empty() && !diskc) {
      if (r) { FAIL("open-of-absent-file-succeeds", "hist %ld step %d: '%s' (dir '%s') is neither in the VFS nor on disk", h, step, name.c_str(), dir ? dir : "(null)"); mju_closeResource(r); return false; }
      return true;
    }
    if (!r) { FAIL("open-of-present-file-fails", "hist %ld step %d: '%s' (dir '%s') -> NULL (%s); %s", h, step, name.c_str(), dir ? dir : "(null)", err, cands.empty() ? "on disk" : "in the VFS"); return false; }
    const void* buf = nullptr;
    int n = mju_readResource(r, &buf);
    st.reads++;
    OpenRes o{r, {}, "", cands.empty(), false};
    bool ok = false;
    if (n >= 0) {
      std::string got((const char*)buf, (size_t)n);
      st.bytes += n;
      if (cands.empty()) ok = (got == *diskc);
      else for (auto& k : cands) if (dict[k].content == got) { ok = true; o.bound.insert(k); }
      o.content = got;
    }
    if (!ok) {
      const char* what = "other bytes";
      if (n >= 0 && !cands.empty()) {
        std::string got((const char*)buf, (size_t)n);
        const std::string* d = disk_lookup(q);
        if (d && *d == got) what = "the bytes of the disk file of that name";
        for (auto& kv : dict) if (kv.second.content == got) what = "the bytes of another VFS entry";
      }
      FAIL("read-bytes-differ-from-added-bytes", "hist %ld step %d: '%s' (dir '%s') read %d bytes: %s (%zu candidate entries, %s)", h, step, name.c_str(), dir ? dir : "(null)", n, what,
           cands.size(), ex != dict.end() ? "exact name" : (cands.empty() ? "disk" : "legacy filename match"));
      mju_closeResource(r);
      return false;
    }
    if (keep) { open.push_back(o); st.kept_open++; }
    else mju_closeResource(r);
    return true;
  }

  bool sweep(unsigned flags) {
    st.sweeps++;
    for (int i = 0; i < NBUF; i++) {
      std::string lit = BUFNAMES[i], key = ref_reduce(lit);
      bool normalised = (lit == key);
      if (!normalised && !(flags & 1)) continue;
      if (!normalised) st.unnormalised_queries++;
      int got = mj_containsBufferVFS(&vfs, lit.c_str());
      auto it = dict.find(key);
      if (it != dict.end() && it->second.is_file) { st.tolerated_crosskind++; continue; }
      int want = it != dict.end();
      st.contains++;
      if (got != want) {
        // both unnormalised-name tags require the direction want=1/got=0 (a present buffer reported absent because the raw query
        // string is looked up); a false positive (got=1, want=0) is a different defect and keeps the generic tag
        if (!normalised && want && !got && it->second.literal == lit)
          FAIL("contains-buffer-unnormalised-name:misses-the-literal-name-that-was-added", "hist %ld step %d: mj_addBufferVFS('%s') returned 0, mj_containsBufferVFS('%s') returns 0 (stored under '%s')", h, step, lit.c_str(), lit.c_str(), key.c_str());
        else if (!normalised && want && !got)
          FAIL("contains-buffer-unnormalised-name:equivalent-path-spelling", "hist %ld step %d: '%s' -> %d, reference (key '%s') %d", h, step, lit.c_str(), got, key.c_str(), want);
        else
          FAIL("contains-buffer-differs-from-reference", "hist %ld step %d: '%s' -> %d, reference %d", h, step, lit.c_str(), got, want);
        return false;
      }
    }
    static const char* fq[][2] = {{nullptr, "vfq_a.txt"}, {"d1", "VFQ_A.TXT"}, {"some\\dir/", "Vfq_B.txt"}, {"", "d1/d2/vfq_b.txt"}, {nullptr, "D1/VFQ_C.BIN"}, {"x", "vfq_empty.dat"}, {nullptr, "vfq_n.txt"}, {nullptr, "vfq_missing.txt"}};
    for (auto& p : fq) {
      std::string key = ref_lower(ref_strip(ref_reduce(ref_combine(p[0], p[1]))));
      int got = mj_containsFileVFS(&vfs, p[0], p[1]);
      auto it = dict.find(key);
      if (it != dict.end() && !it->second.is_file) { st.tolerated_crosskind++; continue; }
      int want = it != dict.end();
      st.contains++;
      if (got != want) { FAIL("contains-file-differs-from-reference", "hist %ld step %d: dir '%s' file '%s' -> %d, reference (key '%s') %d", h, step, p[0] ? p[0] : "(null)", p[1], got, key.c_str(), want); return false; }
    }
    return true;
  }

  // read every entry back through its exact key
  bool readback() {
    for (auto& kv : dict) if (!do_open(nullptr, kv.first, false)) return false;
    return true;
  }

  void finish(bool read_all) {
    if (read_all && g_fail == 0) readback();
    // close some of the open resources, leave the others to mj_deleteVFS (documented: warns, resources are invalidated)
    size_t left = 0, idx = 0;
    for (auto& o : open) {
      if (o.stale || (idx++ & 1)) { if (o.stale) st.stale_closes++; mju_closeResource(o.r); }
      else left++;
    }
    open.clear();
    vf_clear_messages();
    mj_deleteVFS(&vfs);
    if (left) {
      st.deletevfs_open++;
      if (!strstr(vf_last_warning(), "open resources")) FAIL("deletevfs-with-open-resources-does-not-warn", "hist %ld: %zu resources were open", h, left);
    }
    if (vfs.impl_ != nullptr) FAIL("deletevfs-leaves-impl-pointer", "hist %ld", h);
  }
};

static void run_history(uint64_t seed, long h, int maxlen, unsigned flags, Stats& st) {
  Rng rng(seed * 1000003ull + (uint64_t)h);
  Hist H(st, h);
  uint64_t uid = (uint64_t)h * 1000 + 1;
  int len = 1 + (int)rng.u(maxlen);
  bool saw_repeat = false, saw_absent_delete = false, saw_delete = false;
  static const size_t sizes[] = {0, 1, 2, 9, 17, 64, 64, 300, 1000, 5000};
  std::string scratch;
  for (H.step = 0; H.step < len && g_fail == 0; H.step++) {
    int r = rng.u(100);
    st.ops++;
    if (r < 27) {
      // ---- mj_addBufferVFS
      std::string lit = BUFNAMES[rng.u(NBUF)];
      std::string key = ref_reduce(lit);
      size_t n = rng.u(40) == 0 ? 65536 : sizes[rng.u(10)];
      uint64_t u = uid++;
      std::string content = make_content(u, n, 'B');
      std::string cls = H.classify(lit, key);
      scratch = content;
      int rc = mj_addBufferVFS(&H.vfs, lit.c_str(), n ? (const void*)scratch.data() : (rng.u(2) ? (const void*)scratch.data() : nullptr), (int)n);
      for (auto& c : scratch) c = (char)~c;   // the VFS must own a copy
      st.addbuf++;
      st.cls["addbuffer_" + cls + "_rc" + std::to_string(rc)]++;
      auto it = H.dict.find(key);
      if (it != H.dict.end()) {
        saw_repeat = true; st.repeated++;
        if (rc != 2) { FAIL("add-of-existing-name-not-reported-as-repeated", "hist %ld step %d: mj_addBufferVFS('%s') -> %d with '%s' present (%s)", h, H.step, lit.c_str(), rc, key.c_str(), cls.c_str()); break; }
        if (!H.do_open(nullptr, key, false)) { FAIL("repeated-add-changed-stored-contents", "hist %ld step %d: after refused add of '%s'", h, H.step, lit.c_str()); break; }
      } else {
        if (rc != 0) { FAIL("add-of-new-name-refused", "hist %ld step %d: mj_addBufferVFS('%s') -> %d, no entry '%s' (%s)", h, H.step, lit.c_str(), rc, key.c_str(), cls.c_str()); break; }
        H.dict[key] = Entry{lit, false, content, u};
      }
    } else if (r < 40) {
      // ---- mj_addFileVFS
      const char* dir; std::string fname; bool missing = false;
      if ((flags & 2) && rng.u(5) == 0) { int k = rng.u(3); dir = MISSING[k][0]; fname = MISSING[k][1]; missing = true; }
      else {
        std::string rel = DISKFILES[rng.u(NDISK)];
        int form = rng.u(4);
        static std::string dirbuf;
        if (form == 0) { dir = rng.u(2) ? nullptr : ""; fname = rel; }
        else if (form == 1) { dirbuf = ref_dirpart(rel); if (rng.u(2) && !dirbuf.empty()) dirbuf += "/"; dir = dirbuf.c_str(); fname = ref_strip(rel); }
        else if (form == 2) { dirbuf = g_scratch; if (rng.u(2)) dirbuf += "/"; dir = dirbuf.c_str(); fname = rel; }
        else { dirbuf = ref_dirpart(rel); std::replace(dirbuf.begin(), dirbuf.end(), '/', '\\'); dir = dirbuf.c_str(); fname = ref_strip(rel); }
      }
      std::string full = ref_reduce(ref_combine(dir, fname));
      std::string key = ref_lower(ref_strip(full));
      std::string cls = H.classify(fname, key);
      int rc = mj_addFileVFS(&H.vfs, dir, fname.c_str());
      st.addfile++;
      st.cls[std::string(missing ? "addfile_missing_" : "addfile_") + cls + "_rc" + std::to_string(rc)]++;
      auto it = H.dict.find(key);
      if (it != H.dict.end()) {
        saw_repeat = true; st.repeated++;
        if (rc != 2) { FAIL("add-of-existing-name-not-reported-as-repeated", "hist %ld step %d: mj_addFileVFS('%s','%s') -> %d with '%s' present (%s)", h, H.step, dir ? dir : "(null)", fname.c_str(), rc, key.c_str(), cls.c_str()); break; }
        if (!H.do_open(nullptr, key, false)) { FAIL("repeated-add-changed-stored-contents", "hist %ld step %d: after refused add of file '%s'", h, H.step, fname.c_str()); break; }
      } else if (missing) {
        st.missing_adds++;
        if (rc != -1) { FAIL("add-file-of-missing-disk-file-succeeds", "hist %ld step %d: mj_addFileVFS('%s','%s') -> %d although no such file exists (documented: -1 failed to load); mj_containsFileVFS -> %d", h, H.step,
                             dir ? dir : "(null)", fname.c_str(), rc, mj_containsFileVFS(&H.vfs, dir, fname.c_str())); break; }
      } else {
        const std::string* c = disk_lookup(full);
        if (!c) { FAIL("harness-disk-map", "no disk entry for %s", full.c_str()); break; }
        if (rc != 0) { FAIL("add-of-new-name-refused", "hist %ld step %d: mj_addFileVFS('%s','%s') -> %d, no entry '%s' (%s)", h, H.step, dir ? dir : "(null)", fname.c_str(), rc, key.c_str(), cls.c_str()); break; }
        H.dict[key] = Entry{fname, true, *c, 0};
      }
    } else if (r < 56) {
      // ---- mj_deleteFileVFS
      std::string lit = rng.u(3) ? BUFNAMES[rng.u(NBUF)] : QUERYNAMES[rng.u(NQUERY)];
      if (!H.dict.empty() && rng.u(4) == 0) { auto it = H.dict.begin(); std::advance(it, rng.u((uint32_t)H.dict.size())); lit = it->first; }
      std::string k1 = ref_reduce(lit), k2 = ref_lower(ref_strip(k1));
      std::string victim; bool legacy = false;
      if (H.dict.count(k1)) victim = k1; else if (H.dict.count(k2)) { victim = k2; legacy = true; }
      bool has_victim = H.dict.count(k1) || H.dict.count(k2);
      bool open_on_it = false;
      if (has_victim) for (auto& o : H.open) if (o.bound.count(victim)) open_on_it = true;
      if (open_on_it && !(flags & 4)) { st.skipped_delete_open++; continue; }
      int rc = mj_deleteFileVFS(&H.vfs, lit.c_str());
      if (has_victim) {
        if (rc != 0) { FAIL("delete-of-present-file-reports-failure", "hist %ld step %d: mj_deleteFileVFS('%s') -> %d, entry '%s' present", h, H.step, lit.c_str(), rc, victim.c_str()); break; }
        H.dict.erase(victim);
        for (auto& o : H.open) if (o.bound.count(victim)) o.stale = true;
        st.del_ok++; saw_delete = true; if (legacy) st.del_legacy++;
      } else {
        if (rc != -1) { FAIL("delete-of-absent-file-reports-success", "hist %ld step %d: mj_deleteFileVFS('%s') -> %d, neither '%s' nor '%s' present", h, H.step, lit.c_str(), rc, k1.c_str(), k2.c_str()); break; }
        st.del_absent++; saw_absent_delete = true;
      }
      if (open_on_it) {
        // flag bit2: the delete under an open resource was answered; end the history WITHOUT touching the stale resource or the VFS
        st.open_across_delete++;
        H.abandoned = true;
        H.open.clear();
        break;
      }
    } else if (r < 80) {
      // ---- mju_openResource / mju_readResource (/ keep open)
      std::string name;
      int w = rng.u(10);
      if (w < 5) name = BUFNAMES[rng.u(NBUF)];
      else if (w < 8) name = QUERYNAMES[rng.u(NQUERY)];
      else if (!H.dict.empty()) { auto it = H.dict.begin(); std::advance(it, rng.u((uint32_t)H.dict.size())); name = it->first; }
      else name = DISKFILES[rng.u(NDISK)];
      const char* dir = OPENDIRS[rng.u(3) ? rng.u(2) : rng.u(NOPENDIR)];
      static std::string absdir;
      if (rng.u(12) == 0) { absdir = g_scratch; dir = absdir.c_str(); }
      if (!H.do_open(dir, name, rng.u(4) == 0)) break;
    } else if (r < 90) {
      // ---- read again / close a kept-open resource
      if (H.open.empty()) continue;
      size_t i = rng.u((uint32_t)H.open.size());
      OpenRes& o = H.open[i];
      if (!o.stale) {
        const void* buf = nullptr;
        int n = mju_readResource(o.r, &buf);
        st.reads++;
        if (n < 0 || std::string((const char*)buf, (size_t)n) != o.content) { FAIL("reread-of-open-resource-differs", "hist %ld step %d: %d bytes", h, H.step, n); break; }
      }
      if (rng.u(2)) { mju_closeResource(o.r); H.open.erase(H.open.begin() + i); }
    } else if (r < 92) {
      // ---- mj_deleteVFS + mj_defaultVFS: everything is gone
      H.finish(false);
      H.dict.clear();
      mj_defaultVFS(&H.vfs);
    } else {
      // ---- explicit contains query on a random query name
      std::string lit = QUERYNAMES[rng.u(NQUERY)];
      std::string key = ref_reduce(lit);
      auto it = H.dict.find(key);
      int got = mj_containsBufferVFS(&H.vfs, lit.c_str());
      if (it != H.dict.end() && it->second.is_file) st.tolerated_crosskind++;
      else { st.contains++; if (got != (it != H.dict.end())) { FAIL("contains-buffer-differs-from-reference", "hist %ld step %d: '%s' -> %d", h, H.step, lit.c_str(), got); break; } }
    }
    if (g_fail == 0 && !H.sweep(flags)) break;
  }
  if (!H.abandoned) H.finish(true);
  st.hist++;
  if (saw_repeat && (saw_absent_delete || saw_delete)) st.nontrivial++;
}

// tiny self-test of the reference name rules against the documented examples (unit-test names in user_vfs_test.cc)
static int selftest() {
  int bad = 0;
  bad += ref_reduce("files/../dir/model") != "dir/model";
  bad += ref_reduce("d1\\vfq_a.txt") != "d1/vfq_a.txt";
  bad += ref_reduce("./a") != "a";
  bad += ref_reduce("/x/./y/../z") != "/x/z";
  bad += ref_reduce("../a") != "../a";
  bad += ref_lower(ref_strip("dir\\Activation.xml")) != "activation.xml";
  bad += ref_combine("some/dir", "f") != "some/dir/f";
  bad += ref_combine("some/dir/", "f") != "some/dir/f";
  bad += ref_combine(nullptr, "f") != "f";
  bad += ref_combine("d", "/abs/f") != "/abs/f";
  printf("SUMMARY mode=selftest failures=%d\n", bad);
  return bad ? 1 : 0;
}

int main(int argc, char** argv) {
  vf_install_handlers();
  if (argc >= 2 && !strcmp(argv[1], "selftest")) return selftest();
  if (argc < 7 || strcmp(argv[1], "seq")) return 2;
  uint64_t seed = strtoull(argv[2], 0, 10);
  long nhist = atol(argv[3]);
  int maxlen = atoi(argv[4]);
  unsigned flags = (unsigned)atoi(argv[5]);
  g_scratch = argv[6];
  while (g_scratch.size() > 1 && g_scratch.back() == '/') g_scratch.pop_back();
  if (!setup_disk()) { printf("FAIL harness-setup: cannot populate %s\n", g_scratch.c_str()); return 3; }
  Stats st;
  for (long h = 0; h < nhist && g_fail == 0; h++) run_history(seed, h, maxlen, flags, st);
  printf("SUMMARY mode=seq flags=%u histories=%ld nontrivial=%ld ops=%ld addbuffer=%ld addfile=%ld repeated_adds=%ld deletes_ok=%ld deletes_legacy_name=%ld deletes_absent=%ld contains_queries=%ld "
         "opens=%ld open_exact=%ld open_legacy=%ld open_ambiguous=%ld open_disk=%ld open_none=%ld reads=%ld bytes_compared=%ld kept_open=%ld deletevfs_with_open=%ld skipped_delete_open=%ld "
         "tolerated_crosskind=%ld stale_closes=%ld missing_file_adds=%ld unnormalised_contains_queries=%ld sweeps=%ld open_across_delete=%ld failures=%ld",
         flags, st.hist, st.nontrivial, st.ops, st.addbuf, st.addfile, st.repeated, st.del_ok, st.del_legacy, st.del_absent, st.contains, st.opens, st.open_exact, st.open_legacy, st.open_ambiguous,
         st.open_disk, st.open_none, st.reads, st.bytes, st.kept_open, st.deletevfs_open, st.skipped_delete_open, st.tolerated_crosskind, st.stale_closes, st.missing_adds, st.unnormalised_queries,
         st.sweeps, st.open_across_delete, g_fail);
  for (auto& kv : st.cls) printf(" cls_%s=%ld", kv.first.c_str(), kv.second);
  printf("\n");
  return g_fail ? 1 : 0;
}
