// Shadow allocator for C19, fed by the repo's mjv_memhook (engine_memory.c, guarded by MUJOCO_VERIF_HOOKS).
// One shadow per mjData: a frame stack mirroring mj_markStack/mj_freeStack, the list of live stack blocks,
// and the list of arena blocks since the last observed rewind.  All checks run inside the hook, under one
// harness mutex, on values the allocator has just computed.
#include <mujoco/mujoco.h>

#include <pthread.h>
#include <stdint.h>
#include <stdio.h>
#include <stdlib.h>
#include <string.h>

#define VF_API __attribute__((visibility("default")))

extern void (*mjv_memhook)(const mjData* d, int kind, const void* ptr, size_t bytes, size_t alignment);

typedef struct { uintptr_t lo, hi; int threaded; } Blk;
typedef struct { size_t pstack_before, pbase_before; int nlive; int known; } Frame;

#define MAXBLK 65536
#define MAXFRAME 1024
#define MAXSHADOW 64

typedef struct {
  const mjData* d;
  Blk* live; int nlive;
  Frame* fr; int nfr;
  Blk* ar; int nar;
  size_t last_pstack, last_pbase, last_parena;
  int synced;                // 0: first seen inside an event, the values before that event are unknown
  int strict_arena;          // 1: the harness never rewinds the arena -> overlap with any earlier block is an error
} Shadow;

static Shadow sh[MAXSHADOW];
static int nsh = 0;
static pthread_mutex_t mu = PTHREAD_MUTEX_INITIALIZER;
static long ev[5];
static long nviol = 0;
static char viol[8][400];
static long maxdepth = 0, maxlive = 0, n_threaded = 0, n_null_arena = 0;
static int default_strict = 0;

// arena-event trace (C20 fault plan): for every arena allocation the total arena size that allocation needed to succeed
// (parena after the allocation + the stack in use at that moment); a failed allocation records the size it would have needed
#define MAXTRACE 8192
static long long tr_need[MAXTRACE], tr_bytes[MAXTRACE], tr_peak[MAXTRACE], cur_peak = 0;  // tr_peak: largest parena+pstack seen before the event
static int ntr = 0, tracing = 0;

static void violate(const char* fmt, unsigned long long a, unsigned long long b, unsigned long long c, unsigned long long e) {
  if (nviol < 8) snprintf(viol[nviol], sizeof(viol[0]), fmt, a, b, c, e);
  nviol++;
}

static Shadow* get(const mjData* d) {
  for (int i = 0; i < nsh; i++) if (sh[i].d == d) return &sh[i];
  if (nsh >= MAXSHADOW) return NULL;
  Shadow* s = &sh[nsh++];
  memset(s, 0, sizeof(*s));
  s->d = d;
  s->live = (Blk*)malloc(sizeof(Blk) * MAXBLK);
  s->fr = (Frame*)malloc(sizeof(Frame) * MAXFRAME);
  s->ar = (Blk*)malloc(sizeof(Blk) * MAXBLK);
  s->last_pstack = d->pstack; s->last_pbase = d->pbase; s->last_parena = d->parena;
  s->strict_arena = default_strict;
  s->synced = 0;
  return s;
}

static int pow2(size_t a) { return a && !(a & (a - 1)); }

static void hook(const mjData* d, int kind, const void* ptr, size_t bytes, size_t alignment) {
  pthread_mutex_lock(&mu);
  Shadow* s = get(d);
  if (!s) { pthread_mutex_unlock(&mu); return; }
  if (kind >= 0 && kind < 5) ev[kind]++;
  uintptr_t arena = (uintptr_t)d->arena, top = arena + (uintptr_t)d->narena;
  uintptr_t p = (uintptr_t)ptr;
  if (kind == 0 || kind == 1) {
    if (tracing && (long long)(d->parena + d->pstack) > cur_peak) cur_peak = (long long)(d->parena + d->pstack);
    if (kind == 1) n_threaded++;
    if (!ptr) violate("stack alloc of %llu bytes returned NULL", bytes, 0, 0, 0);
    else {
      if (alignment && (pow2(alignment) ? (p & (alignment - 1)) : (p % alignment))) violate("stack block %llx not aligned to %llu", p, alignment, 0, 0);
      if (p < arena + d->parena || p + bytes > top) violate("stack block [%llx,+%llu) outside stack region [arena+parena=%llx, top=%llx)", p, bytes, arena + d->parena, top);
      // the block must lie inside the space the stack pointer now covers
      // (not read under the thread lock: other workers are adding to pstack atomically)
      if (kind == 0 && p < top - d->pstack) violate("stack block %llx below the stack pointer %llx (bytes=%llu)", p, top - d->pstack, bytes, 0);
      for (int i = 0; i < s->nlive; i++) {
        if (p < s->live[i].hi && s->live[i].lo < p + bytes) { violate("stack block [%llx,+%llu) overlaps live block [%llx,%llx)", p, bytes, s->live[i].lo, s->live[i].hi); break; }
      }
      if (s->nlive < MAXBLK) { s->live[s->nlive].lo = p; s->live[s->nlive].hi = p + bytes; s->live[s->nlive].threaded = kind; s->nlive++; }
      if (s->nlive > maxlive) maxlive = s->nlive;
    }
  } else if (kind == 2) {
    if (tracing && ntr < MAXTRACE) {
      size_t pad = 0;
      if (!ptr && alignment) { size_t mis = ((uintptr_t)d->arena + d->parena) % alignment; pad = mis ? alignment - mis : 0; }
      tr_need[ntr] = (long long)(d->parena + (ptr ? 0 : pad + bytes) + d->pstack);
      tr_bytes[ntr] = (long long)bytes;
      tr_peak[ntr] = cur_peak;
      if (tr_need[ntr] > cur_peak) cur_peak = tr_need[ntr];
      ntr++;
    }
    if (!ptr) {
      n_null_arena++;
    } else {
      if (alignment && (pow2(alignment) ? (p & (alignment - 1)) : (p % alignment))) violate("arena block %llx not aligned to %llu", p, alignment, 0, 0);
      if (p < arena || p + bytes > top - d->pstack) violate("arena block [%llx,+%llu) outside arena region [%llx,%llx)", p, bytes, arena, top - d->pstack);
      if (p + bytes != arena + d->parena) violate("arena block end %llx != arena+parena %llx", p + bytes, arena + d->parena, 0, 0);
      // rewind detection: the engine legitimately lowers parena between events
      uintptr_t start_off = p - arena;
      if (!s->strict_arena) {
        while (s->nar > 0 && s->ar[s->nar - 1].hi > p) s->nar--;   // blocks above the new start were released by a rewind
      }
      for (int i = 0; i < s->nar; i++) {
        if (p < s->ar[i].hi && s->ar[i].lo < p + bytes) { violate("arena block [%llx,+%llu) overlaps live arena block [%llx,%llx)", p, bytes, s->ar[i].lo, s->ar[i].hi); break; }
      }
      if (s->synced && start_off > s->last_parena + (alignment ? alignment : 1)) violate("arena block starts at offset %llu beyond previous top %llu + alignment %llu", start_off, s->last_parena, alignment, 0);
      if (s->nar < MAXBLK) { s->ar[s->nar].lo = p; s->ar[s->nar].hi = p + bytes; s->nar++; }
    }
  } else if (kind == 3) {
    if (s->nfr < MAXFRAME) {
      s->fr[s->nfr].pstack_before = s->last_pstack;
      s->fr[s->nfr].pbase_before = s->last_pbase;
      s->fr[s->nfr].nlive = s->nlive;
      s->fr[s->nfr].known = s->synced;
      s->nfr++;
      if (s->nfr > maxdepth) maxdepth = s->nfr;
    }
    if (s->synced && d->pstack <= s->last_pstack) violate("mark did not grow the stack: pstack %llu -> %llu", s->last_pstack, d->pstack, 0, 0);
  } else if (kind == 4) {
    if (s->nfr == 0) {
      // free without a frame: legal no-op only if pbase was 0
      if (s->synced && s->last_pbase != 0) violate("free with no shadow frame but pbase=%llu", s->last_pbase, 0, 0, 0);
    } else {
      Frame f = s->fr[--s->nfr];
      // (a recorded value beyond the arena size cannot have been a stack offset: with a thread pool attached the snapshot taken at the
      // mark raced with a worker's own update of the shared fields - the monitor's read is not atomic with the engine's lock; skipped)
      if (f.known && f.pstack_before <= d->narena && d->pstack != f.pstack_before) violate("free restored pstack=%llu, mark recorded %llu", d->pstack, f.pstack_before, 0, 0);
      if (f.known && f.pbase_before <= d->narena && d->pbase != f.pbase_before) violate("free restored pbase=%llu, mark recorded %llu", d->pbase, f.pbase_before, 0, 0);
      s->nlive = f.nlive;
    }
  }
  if (kind != 1) { s->last_pstack = d->pstack; s->last_pbase = d->pbase; s->last_parena = d->parena; s->synced = 1; }
  pthread_mutex_unlock(&mu);
}

VF_API void vf_mem_install(int strict_arena) {
  pthread_mutex_lock(&mu);
  default_strict = strict_arena;
  pthread_mutex_unlock(&mu);
  mjv_memhook = hook;
}

VF_API void vf_mem_uninstall(void) { mjv_memhook = 0; }

VF_API void vf_mem_trace(int on) { pthread_mutex_lock(&mu); tracing = on; if (on) { ntr = 0; cur_peak = 0; } pthread_mutex_unlock(&mu); }
VF_API int vf_mem_trace_get(long long* need, long long* bytes, int max) {
  int n = ntr < max ? ntr : max;
  for (int i = 0; i < n; i++) { need[i] = tr_need[i]; bytes[i] = tr_bytes[i]; }
  return ntr;
}
VF_API int vf_mem_trace_peaks(long long* peak, int max) {
  int n = ntr < max ? ntr : max;
  for (int i = 0; i < n; i++) peak[i] = tr_peak[i];
  return ntr;
}

// forget the shadow of d (after mj_resetData, a trapped error, or before deleting d)
VF_API void vf_mem_forget(const mjData* d) {
  pthread_mutex_lock(&mu);
  for (int i = 0; i < nsh; i++) if (sh[i].d == d) {
    free(sh[i].live); free(sh[i].fr); free(sh[i].ar);
    sh[i] = sh[nsh - 1];
    nsh--;
    break;
  }
  pthread_mutex_unlock(&mu);
}

// start tracking d now (quiescent: no open frames), so that the values before the first event are known
VF_API void vf_mem_track(const mjData* d) {
  vf_mem_forget(d);
  pthread_mutex_lock(&mu);
  Shadow* s = get(d);
  if (s) s->synced = 1;
  pthread_mutex_unlock(&mu);
}

// the harness rewound/reset the arena itself
VF_API void vf_mem_arena_reset(const mjData* d) {
  pthread_mutex_lock(&mu);
  Shadow* s = get(d);
  if (s) { s->nar = 0; s->last_parena = d->parena; }
  pthread_mutex_unlock(&mu);
}

// out: ev[0..4], nviol, maxdepth, maxlive, n_threaded, n_null_arena, open frames of d, live blocks of d
VF_API void vf_mem_stats(const mjData* d, long long* out) {
  pthread_mutex_lock(&mu);
  for (int i = 0; i < 5; i++) out[i] = ev[i];
  out[5] = nviol; out[6] = maxdepth; out[7] = maxlive; out[8] = n_threaded; out[9] = n_null_arena;
  out[10] = -1; out[11] = -1;
  if (d) for (int i = 0; i < nsh; i++) if (sh[i].d == d) { out[10] = sh[i].nfr; out[11] = sh[i].nlive; }
  pthread_mutex_unlock(&mu);
}

VF_API const char* vf_mem_violation(int i) {
  if (i < 0 || i >= 8 || i >= nviol) return "";
  return viol[i];
}

VF_API void vf_mem_clear_violations(void) { pthread_mutex_lock(&mu); nviol = 0; pthread_mutex_unlock(&mu); }

VF_API void vf_mem_clear(void) {
  pthread_mutex_lock(&mu);
  nviol = 0;
  memset(ev, 0, sizeof(ev));
  maxdepth = maxlive = n_threaded = n_null_arena = 0;
  pthread_mutex_unlock(&mu);
}
