// C03: thread-pool dispatch runs each task exactly once.
//   built twice: (a) -DVF_SCHED with the UNMODIFIED engine_thread.cc compiled against native/sched/shim.h
//                    (controlled scheduler: random / PCT / DFS with preemption bound),
//                (b) plain, against the library's engine_thread.cc on real OS threads (rel / tsan), with
//                    delays injected through the repo's task hook.
// usage: h_pool sched <random|pct|dfs> <seed> <nschedules> <history> [preemption_bound]
//        h_pool real  <seed> <nhistories> <maxpool> <dispatches_per_history> <delay_mode>
// history: comma-separated ops  c<k> create/resize pool to k workers, d<n> dispatch n tasks,
//          a<n> dispatch n tasks that allocate from the shared stack, x destroy pool
#include <mujoco/mujoco.h>

#include <atomic>
#include <chrono>
#include <cstdint>
#include <cstdio>
#include <cstdlib>
#include <cstring>
#include <set>
#include <string>
#include <thread>
#include <vector>

#include "engine/engine_thread.h"
#include "engine/engine_memory.h"
#ifdef VF_SCHED
#include "sched/sched.h"
#define VF_YIELD() vfs::yield()
#else
#define VF_YIELD()
#endif

extern "C" {
void vf_install_handlers(void);
extern void (*mjv_taskhook)(int phase, int thread_id, int task_id, int ntask);
}

static long g_fail = 0;
#define FAIL(...) do { if (g_fail++ < 10) { printf("FAIL "); printf(__VA_ARGS__); printf("\n"); fflush(stdout);} } while (0)

static const int MAXT = 64;
static std::atomic<int> t_count[MAXT];     // invocations per task id
static std::atomic<int> t_thread[MAXT];    // thread id that ran it
static std::atomic<int> n_begin{0}, n_end{0}, n_badid{0};
static std::atomic<int> hook_pre{0}, hook_post{0};
static int cur_ntask = 0;
static std::atomic<unsigned> thread_mask{0};
static long total_invocations = 0, total_dispatches = 0;
static std::set<unsigned long long> assignments;   // distinct task->thread assignment patterns

static void task(const mjModel*, mjData* d, void* arg, int thread_id, int task_id) {
  n_begin.fetch_add(1, std::memory_order_relaxed);
  if (task_id < 0 || task_id >= cur_ntask || task_id >= MAXT) { n_badid.fetch_add(1); return; }
  VF_YIELD();
  t_count[task_id].fetch_add(1, std::memory_order_relaxed);
  t_thread[task_id].store(thread_id, std::memory_order_relaxed);
  if (thread_id >= 0 && thread_id < 32) thread_mask.fetch_or(1u << thread_id, std::memory_order_relaxed);
  if (arg) {
    // reserve from the shared stack under the thread lock and fill with a per-task pattern
    size_t n = 24 + 8 * (size_t)(task_id % 5);
    mj_markStack(d);   // no-op under the thread lock, a real frame when the task runs inline
    unsigned char* p = (unsigned char*)mj_stackAllocByte(d, n, 8);
    if (!p) FAIL("stack allocation under threadlock returned NULL");
    else {
      memset(p, 0x40 + task_id, n);
      VF_YIELD();
      for (size_t i = 0; i < n; i++) if (p[i] != 0x40 + task_id) { FAIL("task %d: stack block overwritten by another task", task_id); break; }
    }
    mj_freeStack(d);
  }
  VF_YIELD();
  n_end.fetch_add(1, std::memory_order_release);
}

static void reset_log(int n) {
  cur_ntask = n;
  for (int i = 0; i < MAXT; i++) { t_count[i].store(0); t_thread[i].store(-1); }
  n_begin.store(0); n_end.store(0); n_badid.store(0); thread_mask.store(0); hook_pre.store(0); hook_post.store(0);
}

static void check_dispatch(mjData* d, int n, int nworkers, const char* ctxs) {
  total_dispatches++;
  total_invocations += n_begin.load();
  if (n_badid.load()) FAIL("%s: task id outside 0..%d passed to the task function", ctxs, n - 1);
  if (n_end.load(std::memory_order_acquire) != n_begin.load()) FAIL("%s: dispatch returned while %d invocation(s) still running", ctxs, n_begin.load() - n_end.load());
  unsigned long long pat = 1469598103934665603ull;
  for (int i = 0; i < n && i < MAXT; i++) {
    int c = t_count[i].load();
    if (c == 0) FAIL("%s: task %d of %d never ran", ctxs, i, n);
    if (c > 1) FAIL("%s: task %d of %d ran %d times", ctxs, i, n, c);
    int th = t_thread[i].load();
    if (c && (th < 0 || th > nworkers)) FAIL("%s: task %d ran on thread id %d, pool has ids 0..%d", ctxs, i, th, nworkers);
    pat = (pat ^ (unsigned long long)(th + 2)) * 1099511628211ull;
  }
  if (n_begin.load() != n) FAIL("%s: %d invocations for %d tasks", ctxs, n_begin.load(), n);
  if (d->threadlock) FAIL("%s: threadlock still set after dispatch", ctxs);
  assignments.insert(pat);
}

static mjModel* make_model() {
  char err[500] = "";
  mjSpec* s = mj_parseXMLString("<mujoco><size memory=\"1M\"/><worldbody><body><joint/><geom size=\"1\"/></body></worldbody></mujoco>", nullptr, err, 500);
  if (!s) { printf("model parse failed: %s\n", err); exit(5); }
  mjModel* m = mj_compile(s, nullptr);
  mj_deleteSpec(s);
  if (!m) { printf("model compile failed\n"); exit(5); }
  return m;
}

struct Op { char k; int n; };
static std::vector<Op> parse_history(const char* h) {
  std::vector<Op> ops;
  std::string s(h);
  size_t i = 0;
  while (i < s.size()) {
    size_t j = s.find(',', i);
    if (j == std::string::npos) j = s.size();
    Op o; o.k = s[i]; o.n = (j > i + 1) ? atoi(s.substr(i + 1, j - i - 1).c_str()) : 0;
    ops.push_back(o);
    i = j + 1;
  }
  return ops;
}

static int pool_size = 0;
static void run_history(const mjModel* m, mjData* d, const std::vector<Op>& ops, const char* tag) {
  pool_size = 0;
  size_t pstack0 = d->pstack, pbase0 = d->pbase;
  for (size_t k = 0; k < ops.size(); k++) {
    const Op& o = ops[k];
    char ctxs[96];
    snprintf(ctxs, sizeof(ctxs), "%s op%zu %c%d pool=%d", tag, k, o.k, o.n, pool_size);
    if (o.k == 'c') {
      mju_threadpool(d, o.n);
      pool_size = o.n;
      int nt = mju_numThread(d);
      if (nt != o.n + 1) FAIL("%s: mju_numThread=%d after setting pool size %d", ctxs, nt, o.n);
    } else if (o.k == 'x') {
      mju_threadpool(d, 0);
      pool_size = 0;
      if (d->threadpool) FAIL("%s: threadpool handle not cleared", ctxs);
    } else if (o.k == 'd' || o.k == 'a') {
      reset_log(o.n);
      int dummy = 1;
      mju_dispatch(m, d, task, o.k == 'a' ? &dummy : nullptr, o.n);
      check_dispatch(d, o.n, pool_size, ctxs);
      if (d->pstack != pstack0 || d->pbase != pbase0) FAIL("%s: stack pointer not restored after dispatch", ctxs);
    }
  }
}

#ifdef VF_SCHED
static void on_deadlock() { printf("FAIL deadlock: every thread blocked\n"); fflush(stdout); }

static int main_sched(int argc, char** argv) {
  const char* strat = argv[2];
  uint64_t seed = strtoull(argv[3], 0, 10);
  long nsched = atol(argv[4]);
  std::vector<Op> ops = parse_history(argv[5]);
  vfs::Config cfg;
  cfg.on_deadlock = on_deadlock;
  cfg.strategy = !strcmp(strat, "dfs") ? vfs::DFS : !strcmp(strat, "pct") ? vfs::PCT : vfs::RANDOM;
  if (argc > 6) cfg.preemption_bound = atoi(argv[6]);
  mjModel* m = make_model();
  mjData* d = mj_makeData(m);
  std::set<uint64_t> distinct;
  bool exhausted = false;
  vfs::dfs_reset();
  long s = 0;
  for (; s < nsched; s++) {
    if (cfg.strategy == vfs::PCT) { cfg.pct_depth = 1 + (int)((seed + s) % 3); cfg.pct_steps = 60 + 40 * (long)ops.size(); }
    if (cfg.strategy == vfs::RANDOM) cfg.switch_permille = 100 + (int)(((seed + s) * 97) % 800);
    vfs::begin_schedule(cfg, seed * 1000003ull + s);
    char tag[64];
    snprintf(tag, sizeof(tag), "sched#%ld", s);
    long f0 = g_fail;
    run_history(m, d, ops, tag);
    // make sure the pool is gone at the end of every schedule
    mju_threadpool(d, 0);
    int alive = vfs::alive_workers();
    if (alive) { FAIL("%s: %d worker thread(s) still alive after the pool was destroyed", tag, alive); printf("DECISIONS %s\n", vfs::decisions().c_str()); break; }
    uint64_t h = vfs::end_schedule();
    distinct.insert(h);
    if (g_fail > f0) { printf("DECISIONS %s\n", vfs::decisions().c_str()); break; }
    if (cfg.strategy == vfs::DFS && !vfs::dfs_next()) { exhausted = true; s++; break; }
  }
  const vfs::Stats& st = vfs::get_stats();
  printf("SUMMARY mode=sched strategy=%s schedules=%ld distinct_schedules=%zu exhausted=%d points=%ld preemptions=%ld spin_parks=%ld wait_blocks=%ld wakeups=%ld spawned=%ld max_decisions=%ld dispatches=%ld invocations=%ld assignments=%zu failures=%ld\n",
         strat, s, distinct.size(), exhausted ? 1 : 0, st.points, st.preemptions, st.spin_parks, st.wait_blocks, st.wakeups, st.spawned,
         st.max_decisions, total_dispatches, total_invocations, assignments.size(), g_fail);
  mj_deleteData(d);
  mj_deleteModel(m);
  return g_fail ? 1 : 0;
}
#endif

// ---- real threads ----------------------------------------------------------------------------
static uint64_t rs;
static inline uint32_t rnd() { rs ^= rs << 13; rs ^= rs >> 7; rs ^= rs << 17; return (uint32_t)(rs >> 20); }
static int delay_mode = 0;
static std::atomic<uint64_t> hook_rng{88172645463325252ull};

static void hook(int phase, int thread_id, int task_id, int ntask) {
  if (phase == 0) {
    hook_pre.fetch_add(1, std::memory_order_relaxed);
    if (delay_mode) {
      uint64_t r = hook_rng.fetch_add(0x9E3779B97F4A7C15ull, std::memory_order_relaxed);
      r ^= r >> 29; r *= 0xBF58476D1CE4E5B9ull; r ^= r >> 32;
      int k = (int)(r % 8);
      if (k == 1) std::this_thread::yield();
      else if (k == 2) { auto t = std::chrono::steady_clock::now() + std::chrono::microseconds(1 + (r >> 8) % 50); while (std::chrono::steady_clock::now() < t) {} }
      else if (k == 3 && delay_mode > 1) std::this_thread::sleep_for(std::chrono::microseconds(200));
    }
  } else {
    hook_post.fetch_add(1, std::memory_order_release);
  }
}

static int main_real(int argc, char** argv) {
  uint64_t seed = strtoull(argv[2], 0, 10);
  int nhist = atoi(argv[3]);
  int maxpool = atoi(argv[4]);
  int ndisp = atoi(argv[5]);
  delay_mode = atoi(argv[6]);
  rs = seed * 0x9E3779B97F4A7C15ull + 777;
  mjv_taskhook = hook;
  mjModel* m = make_model();
  mjData* d = mj_makeData(m);
  long hooked = 0;
  for (int h = 0; h < nhist; h++) {
    pool_size = 0;
    int nops = 2 + rnd() % 5;
    for (int k = 0; k < nops; k++) {
      int r = rnd() % 10;
      if (r < 3 || pool_size == 0) {
        int n = rnd() % (maxpool + 1);
        mju_threadpool(d, n);
        pool_size = n;
        if (mju_numThread(d) != n + 1) FAIL("real: numThread %d after pool size %d", mju_numThread(d), n);
      } else if (r == 3) {
        mju_threadpool(d, pool_size);   // same size: documented no-op
      } else {
        for (int q = 0; q < ndisp; q++) {
          int n = rnd() % 4 == 0 ? (int)(rnd() % 3) : (int)(rnd() % (MAXT - 1));
          reset_log(n);
          int dummy = 1;
          bool alloc = rnd() % 3 == 0;
          size_t pstack0 = d->pstack;
          mju_dispatch(m, d, task, alloc ? &dummy : nullptr, n);
          char ctxs[96];
          snprintf(ctxs, sizeof(ctxs), "real hist%d n=%d pool=%d", h, n, pool_size);
          check_dispatch(d, n, pool_size, ctxs);
          if (pool_size && n >= 2) {
            if (hook_pre.load() != n || hook_post.load(std::memory_order_acquire) != n) FAIL("%s: hook saw %d starts / %d ends", ctxs, hook_pre.load(), hook_post.load());
            hooked += n;
          }
          if (d->pstack != pstack0) FAIL("%s: stack pointer not restored", ctxs);
        }
      }
    }
    mju_threadpool(d, 0);
  }
  printf("SUMMARY mode=real histories=%d dispatches=%ld invocations=%ld hooked_invocations=%ld assignments=%zu failures=%ld\n",
         nhist, total_dispatches, total_invocations, hooked, assignments.size(), g_fail);
  mj_deleteData(d);
  mj_deleteModel(m);
  return g_fail ? 1 : 0;
}

int main(int argc, char** argv) {
  vf_install_handlers();
  setvbuf(stdout, nullptr, _IOLBF, 0);
  if (argc < 3) return 2;
#ifdef VF_SCHED
  if (!strcmp(argv[1], "sched")) return main_sched(argc, argv);
#endif
  if (!strcmp(argv[1], "real")) return main_real(argc, argv);
  return 2;
}
