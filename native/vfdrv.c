// Driver layer compiled into every flavour of the verification build (pure addition).
//   * field tables generated from the tree's own X-macros
//   * error/warning trap (setjmp/longjmp) around arbitrary engine calls
//   * mju_user_malloc interposer with shadow table and fault plan
#include <mujoco/mujoco.h>
#include <mujoco/mjxmacro.h>

#include <pthread.h>
#include <setjmp.h>
#include <stddef.h>
#include <stdint.h>
#include <stdio.h>
#include <stdlib.h>
#include <string.h>

#define VF_API __attribute__((visibility("default")))

typedef struct {
  const char* f_name;
  const char* f_ctype;
  long long f_nr, f_nc;
  void* f_ptr;
  long long f_elsize;
  long long f_offset;   // for struct members (scalars): byte offset inside the struct
} vf_field;

//------------------------------------ field tables -------------------------------------------------

VF_API int vf_model_sizes(const mjModel* m, const char** names, long long* vals, int cap) {
  int n = 0;
#define X(name) if (n < cap) { names[n] = #name; vals[n] = (long long)m->name; } n++;
  MJMODEL_SIZES
#undef X
  return n;
}

VF_API int vf_model_fields(const mjModel* m, vf_field* out, int cap) {
  int n = 0;
  MJMODEL_POINTERS_PREAMBLE(m)
#undef MJ_M
#define MJ_M(x) m->x
#define X(type, name, nr, nc) \
  if (n < cap) { out[n].f_name = #name; out[n].f_ctype = #type; out[n].f_nr = (long long)(m->nr); \
                 out[n].f_nc = (long long)(nc); out[n].f_ptr = (void*)m->name; out[n].f_elsize = sizeof(type); \
                 out[n].f_offset = offsetof(mjModel, name); } n++;
  MJMODEL_POINTERS
#undef X
  return n;
}

VF_API int vf_data_fields(const mjModel* m, const mjData* d, vf_field* out, int cap) {
  int n = 0;
  MJMODEL_POINTERS_PREAMBLE(m)
#define X(type, name, nr, nc) \
  if (n < cap) { out[n].f_name = #name; out[n].f_ctype = #type; out[n].f_nr = (long long)(m->nr); \
                 out[n].f_nc = (long long)(nc); out[n].f_ptr = (void*)d->name; out[n].f_elsize = sizeof(type); \
                 out[n].f_offset = offsetof(mjData, name); } n++;
  MJDATA_POINTERS
#undef X
  return n;
}

VF_API int vf_arena_fields(const mjModel* m, const mjData* d, vf_field* out, int cap) {
  int n = 0;
#undef MJ_M
#define MJ_M(x) m->x
#undef MJ_D
#define MJ_D(x) d->x
#define X(type, name, nr, nc) \
  if (n < cap) { out[n].f_name = #name; out[n].f_ctype = #type; out[n].f_nr = (long long)(nr); \
                 out[n].f_nc = (long long)(nc); out[n].f_ptr = (void*)d->name; out[n].f_elsize = sizeof(type); \
                 out[n].f_offset = offsetof(mjData, name); } n++;
  MJDATA_ARENA_POINTERS
#undef X
  return n;
}

VF_API int vf_data_scalars(vf_field* out, int cap) {
  int n = 0;
#define X(type, name) \
  if (n < cap) { out[n].f_name = #name; out[n].f_ctype = #type; out[n].f_nr = 1; out[n].f_nc = 1; out[n].f_ptr = 0; \
                 out[n].f_elsize = sizeof(type); out[n].f_offset = offsetof(mjData, name); } n++;
  MJDATA_SCALAR
#undef X
#define X(type, name, nr, nc) \
  if (n < cap) { out[n].f_name = #name; out[n].f_ctype = #type; out[n].f_nr = nr; out[n].f_nc = nc; out[n].f_ptr = 0; \
                 out[n].f_elsize = sizeof(type); out[n].f_offset = offsetof(mjData, name); } n++;
  MJDATA_VECTOR
#undef X
  return n;
}

VF_API int vf_option_fields(vf_field* out, int cap) {
  int n = 0;
#define X(type, name, num) \
  if (n < cap) { out[n].f_name = #name; out[n].f_ctype = #type; out[n].f_nr = num; out[n].f_nc = 1; out[n].f_ptr = 0; \
                 out[n].f_elsize = sizeof(type); out[n].f_offset = offsetof(mjOption, name); } n++;
#define XVEC X
  MJOPTION_FIELDS
#undef X
#undef XVEC
  return n;
}

VF_API long long vf_offsetof(const char* what) {
  if (!strcmp(what, "mjModel.opt")) return offsetof(mjModel, opt);
  if (!strcmp(what, "mjModel.stat")) return offsetof(mjModel, stat);
  if (!strcmp(what, "mjModel.vis")) return offsetof(mjModel, vis);
  if (!strcmp(what, "mjModel.names_map")) return offsetof(mjModel, names_map);
  if (!strcmp(what, "sizeof.mjModel")) return sizeof(mjModel);
  if (!strcmp(what, "sizeof.mjData")) return sizeof(mjData);
  if (!strcmp(what, "sizeof.mjOption")) return sizeof(mjOption);
  if (!strcmp(what, "sizeof.mjStatistic")) return sizeof(mjStatistic);
  if (!strcmp(what, "sizeof.mjVisual")) return sizeof(mjVisual);
  if (!strcmp(what, "sizeof.mjContact")) return sizeof(mjContact);
  if (!strcmp(what, "sizeof.mjvGeom")) return sizeof(mjvGeom);
  if (!strcmp(what, "sizeof.mjvScene")) return sizeof(mjvScene);
  if (!strcmp(what, "sizeof.mjvOption")) return sizeof(mjvOption);
  if (!strcmp(what, "sizeof.mjvCamera")) return sizeof(mjvCamera);
  if (!strcmp(what, "sizeof.mjvPerturb")) return sizeof(mjvPerturb);
  if (!strcmp(what, "sizeof.mjSolverStat")) return sizeof(mjSolverStat);
  if (!strcmp(what, "sizeof.mjWarningStat")) return sizeof(mjWarningStat);
  if (!strcmp(what, "sizeof.mjTimerStat")) return sizeof(mjTimerStat);
  if (!strcmp(what, "mjData.arena")) return offsetof(mjData, arena);
  if (!strcmp(what, "mjData.buffer")) return offsetof(mjData, buffer);
  if (!strcmp(what, "mjData.threadpool")) return offsetof(mjData, threadpool);
  if (!strcmp(what, "mjData.signature")) return offsetof(mjData, signature);
  if (!strcmp(what, "mjModel.signature")) return offsetof(mjModel, signature);
  if (!strcmp(what, "mjNSTATE")) return mjNSTATE;
  if (!strcmp(what, "mjNOBJECT")) return mjNOBJECT;
  if (!strcmp(what, "mjNWARNING")) return mjNWARNING;
  if (!strcmp(what, "mjNISLAND")) return mjNISLAND;
  if (!strcmp(what, "mjNSOLVER")) return mjNSOLVER;
  if (!strcmp(what, "mjNEQDATA")) return mjNEQDATA;
  if (!strcmp(what, "mjNDYN")) return mjNDYN;
  if (!strcmp(what, "mjNGAIN")) return mjNGAIN;
  if (!strcmp(what, "mjNBIAS")) return mjNBIAS;
  if (!strcmp(what, "mjNREF")) return mjNREF;
  if (!strcmp(what, "mjNIMP")) return mjNIMP;
  return -1;
}

// struct layouts as "name:ctype:count:offset;..." strings
#define F(S, type, name, cnt) \
  k += snprintf(buf + k, k < cap ? cap - k : 0, "%s:%s:%d:%d;", #name, #type, (int)(cnt), (int)offsetof(S, name));

VF_API int vf_struct_layout(const char* what, char* buf, int cap) {
  int k = 0;
  if (!strcmp(what, "mjContact")) {
    F(mjContact, mjtNum, dist, 1) F(mjContact, mjtNum, pos, 3) F(mjContact, mjtNum, frame, 9)
    F(mjContact, mjtNum, includemargin, 1) F(mjContact, mjtNum, friction, 5)
    F(mjContact, mjtNum, solref, mjNREF) F(mjContact, mjtNum, solreffriction, mjNREF)
    F(mjContact, mjtNum, solimp, mjNIMP) F(mjContact, mjtNum, adhesion, 1) F(mjContact, mjtNum, mu, 1)
    F(mjContact, mjtNum, H, 36) F(mjContact, int, dim, 1) F(mjContact, int, geom1, 1)
    F(mjContact, int, geom2, 1) F(mjContact, int, geom, 2) F(mjContact, int, flex, 2)
    F(mjContact, int, elem, 2) F(mjContact, int, vert, 2) F(mjContact, int, exclude, 1)
    F(mjContact, int, efc_address, 1)
  } else if (!strcmp(what, "mjWarningStat")) {
    F(mjWarningStat, int, lastinfo, 1) F(mjWarningStat, int, number, 1)
  } else if (!strcmp(what, "mjTimerStat")) {
    F(mjTimerStat, mjtNum, duration, 1) F(mjTimerStat, int, number, 1)
  } else if (!strcmp(what, "mjSolverStat")) {
    F(mjSolverStat, mjtNum, improvement, 1) F(mjSolverStat, mjtNum, gradient, 1)
    F(mjSolverStat, mjtNum, lineslope, 1) F(mjSolverStat, int, nactive, 1)
    F(mjSolverStat, int, nchange, 1) F(mjSolverStat, int, neval, 1) F(mjSolverStat, int, nupdate, 1)
  } else if (!strcmp(what, "mjvGeom")) {
    F(mjvGeom, int, type, 1) F(mjvGeom, int, dataid, 1) F(mjvGeom, int, objtype, 1)
    F(mjvGeom, int, objid, 1) F(mjvGeom, int, category, 1) F(mjvGeom, int, matid, 1)
    F(mjvGeom, int, texcoord, 1) F(mjvGeom, int, segid, 1) F(mjvGeom, float, size, 3)
    F(mjvGeom, float, pos, 3) F(mjvGeom, float, mat, 9) F(mjvGeom, float, rgba, 4)
    F(mjvGeom, float, emission, 1) F(mjvGeom, float, specular, 1) F(mjvGeom, float, shininess, 1)
    F(mjvGeom, float, reflectance, 1) F(mjvGeom, char, label, 100) F(mjvGeom, float, camdist, 1)
    F(mjvGeom, float, modelrbound, 1) F(mjvGeom, mjtByte, transparent, 1)
  } else if (!strcmp(what, "mjvScene")) {
    F(mjvScene, int, maxgeom, 1) F(mjvScene, int, ngeom, 1) F(mjvScene, void*, geoms, 1)
    F(mjvScene, void*, geomorder, 1) F(mjvScene, int, nflex, 1) F(mjvScene, int, nskin, 1)
    F(mjvScene, int, nlight, 1) F(mjvScene, int, status, 1)
  } else if (!strcmp(what, "mjvOption")) {
    F(mjvOption, int, label, 1) F(mjvOption, int, frame, 1) F(mjvOption, mjtByte, geomgroup, mjNGROUP)
    F(mjvOption, mjtByte, sitegroup, mjNGROUP) F(mjvOption, mjtByte, jointgroup, mjNGROUP)
    F(mjvOption, mjtByte, tendongroup, mjNGROUP) F(mjvOption, mjtByte, actuatorgroup, mjNGROUP)
    F(mjvOption, mjtByte, flexgroup, mjNGROUP) F(mjvOption, mjtByte, skingroup, mjNGROUP)
    F(mjvOption, mjtByte, flags, mjNVISFLAG) F(mjvOption, int, bvh_depth, 1)
    F(mjvOption, int, flex_layer, 1)
  } else {
    return -1;
  }
  return k;
}

//------------------------------------ error / warning trap -----------------------------------------

static __thread jmp_buf* vf_jmp = 0;
static __thread char vf_errmsg[2048];
static __thread int vf_nwarn = 0;
static __thread char vf_warnmsg[2048];
static int vf_nerr_unscoped = 0;     // errors raised with no active trap (counted, then abort)
static int vf_global_nwarn = 0;

static void vf_on_error(const char* msg) {
  snprintf(vf_errmsg, sizeof(vf_errmsg), "%s", msg ? msg : "");
  if (vf_jmp) {
    jmp_buf* j = vf_jmp;
    longjmp(*j, 1);
  }
  __sync_fetch_and_add(&vf_nerr_unscoped, 1);
  fprintf(stderr, "VF-UNSCOPED-ERROR: %s\n", vf_errmsg);
  fflush(stderr);
  abort();
}

static void vf_on_warning(const char* msg) {
  vf_nwarn++;
  __sync_fetch_and_add(&vf_global_nwarn, 1);
  snprintf(vf_warnmsg, sizeof(vf_warnmsg), "%s", msg ? msg : "");
}

VF_API void vf_install_handlers(void) {
  mju_user_error = vf_on_error;
  mju_user_warning = vf_on_warning;
}

VF_API const char* vf_last_error(void) { return vf_errmsg; }
VF_API const char* vf_last_warning(void) { return vf_warnmsg; }
VF_API int vf_warning_count(void) { return vf_nwarn; }
VF_API int vf_global_warning_count(void) { return vf_global_nwarn; }
VF_API void vf_clear_messages(void) { vf_errmsg[0] = 0; vf_warnmsg[0] = 0; vf_nwarn = 0; }

typedef uintptr_t (*vf_fn10)(uintptr_t, uintptr_t, uintptr_t, uintptr_t, uintptr_t, uintptr_t,
                             uintptr_t, uintptr_t, uintptr_t, uintptr_t, uintptr_t, uintptr_t);
typedef double (*vf_fd10)(uintptr_t, uintptr_t, uintptr_t, uintptr_t, uintptr_t, uintptr_t,
                          uintptr_t, uintptr_t, uintptr_t, uintptr_t, uintptr_t, uintptr_t);

// call fn(a[0..11]) (integer/pointer arguments only) under the trap.
// returns 0 ok, 1 error trapped (message via vf_last_error)
VF_API int vf_call(void* fn, const uintptr_t* a, uintptr_t* ret) {
  jmp_buf jb;
  jmp_buf* prev = vf_jmp;
  vf_errmsg[0] = 0;
  if (setjmp(jb)) {
    vf_jmp = prev;
    return 1;
  }
  vf_jmp = &jb;
  uintptr_t r = ((vf_fn10)fn)(a[0], a[1], a[2], a[3], a[4], a[5], a[6], a[7], a[8], a[9], a[10], a[11]);
  vf_jmp = prev;
  if (ret) *ret = r;
  return 0;
}

VF_API int vf_call_d(void* fn, const uintptr_t* a, double* ret) {
  jmp_buf jb;
  jmp_buf* prev = vf_jmp;
  vf_errmsg[0] = 0;
  if (setjmp(jb)) {
    vf_jmp = prev;
    return 1;
  }
  vf_jmp = &jb;
  double r = ((vf_fd10)fn)(a[0], a[1], a[2], a[3], a[4], a[5], a[6], a[7], a[8], a[9], a[10], a[11]);
  vf_jmp = prev;
  if (ret) *ret = r;
  return 0;
}

typedef uintptr_t (*vf_fmi)(uintptr_t, uintptr_t, uintptr_t, uintptr_t, uintptr_t, uintptr_t,
                            double, double, double, double, double, double, double, double,
                            uintptr_t, uintptr_t, uintptr_t, uintptr_t, uintptr_t, uintptr_t);
typedef double (*vf_fmd)(uintptr_t, uintptr_t, uintptr_t, uintptr_t, uintptr_t, uintptr_t,
                         double, double, double, double, double, double, double, double,
                         uintptr_t, uintptr_t, uintptr_t, uintptr_t, uintptr_t, uintptr_t);

// mixed call: <= 12 integer/pointer arguments and <= 8 double arguments, each class in its own order
// (SysV x86-64 assigns the two register classes independently; integer arguments beyond the sixth go on
// the stack in order, which is where the callee expects its 7th.. integer arguments).  want_double selects the return.
VF_API int vf_call_mixed(void* fn, const uintptr_t* a, const double* f, int want_double,
                         uintptr_t* iret, double* dret) {
  jmp_buf jb;
  jmp_buf* prev = vf_jmp;
  vf_errmsg[0] = 0;
  if (setjmp(jb)) {
    vf_jmp = prev;
    return 1;
  }
  vf_jmp = &jb;
  if (want_double) {
    double r = ((vf_fmd)fn)(a[0], a[1], a[2], a[3], a[4], a[5], f[0], f[1], f[2], f[3], f[4], f[5], f[6], f[7],
                           a[6], a[7], a[8], a[9], a[10], a[11]);
    vf_jmp = prev;
    if (dret) *dret = r;
  } else {
    uintptr_t r = ((vf_fmi)fn)(a[0], a[1], a[2], a[3], a[4], a[5], f[0], f[1], f[2], f[3], f[4], f[5], f[6], f[7],
                              a[6], a[7], a[8], a[9], a[10], a[11]);
    vf_jmp = prev;
    if (iret) *iret = r;
  }
  return 0;
}

// for native harnesses: VF_TRY { ... } VF_CATCH { ... }
VF_API jmp_buf** vf_jmp_slot(void) { return &vf_jmp; }

//------------------------------------ allocator interposer ----------------------------------------

#define VF_TAB (1u << 18)
typedef struct { void* p; size_t size; long serial; void* caller; } vf_blk;
static vf_blk* vf_tab = 0;
static pthread_mutex_t vf_mu = PTHREAD_MUTEX_INITIALIZER;
static long vf_serial = 0;           // number of allocation requests seen
static long vf_nlive = 0;
static size_t vf_live_bytes = 0;
static long vf_fail_at = -1;         // fail request with this serial (1-based); -1: none
static double vf_fail_p = 0;         // probability of failing each request
static uint64_t vf_rng = 88172645463325252ull;
static long vf_nfailed = 0;
static long vf_bad_free = 0;         // frees of pointers not in the table (double free / foreign)
static int vf_fill = -1;             // fill pattern for fresh blocks (-1: none)
static long vf_tab_overflow = 0;

static inline uint64_t vf_next(void) {
  vf_rng ^= vf_rng << 13; vf_rng ^= vf_rng >> 7; vf_rng ^= vf_rng << 17; return vf_rng;
}

static inline unsigned vf_hash(void* p) {
  uintptr_t x = (uintptr_t)p; x ^= x >> 17; x *= 0x9E3779B97F4A7C15ull; x ^= x >> 29;
  return (unsigned)(x & (VF_TAB - 1));
}

#include <execinfo.h>
#include <dlfcn.h>
static int vf_track_callers = 0;

static void* vf_malloc(size_t size) {
  void* caller = 0;
  if (vf_track_callers) {
#if defined(__SANITIZE_ADDRESS__)
    caller = __builtin_return_address(1);   // frame pointers are kept in the sanitizer flavours
#elif defined(__has_feature)
#if __has_feature(address_sanitizer)
    caller = __builtin_return_address(1);
#endif
#endif
    void* bt[6];
    int nb = caller ? 0 : backtrace(bt, 6);      // [vf_malloc, mju_malloc, caller, ...] (inlining may shift the frames)
    for (int i = 1; i < nb; i++) {
      Dl_info info;
      if (dladdr(bt[i], &info) && info.dli_sname &&
          (!strcmp(info.dli_sname, "mju_malloc") || !strcmp(info.dli_sname, "vf_malloc"))) continue;
      caller = bt[i];
      break;
    }
  }
  pthread_mutex_lock(&vf_mu);
  long s = ++vf_serial;
  int fail = (s == vf_fail_at);
  if (!fail && vf_fail_p > 0) {
    fail = ((vf_next() >> 11) * (1.0 / 9007199254740992.0)) < vf_fail_p;
  }
  if (fail) {
    vf_nfailed++;
    pthread_mutex_unlock(&vf_mu);
    return 0;
  }
  pthread_mutex_unlock(&vf_mu);
  // same contract as the default mju_malloc: 64-byte aligned
  void* p = 0;
  size_t sz = size ? size : 1;
  if (sz % 64) sz += 64 - sz % 64;
  p = aligned_alloc(64, sz);
  if (!p) return 0;
  if (vf_fill >= 0) memset(p, vf_fill, sz);
  pthread_mutex_lock(&vf_mu);
  unsigned h = vf_hash(p);
  unsigned i;
  for (i = 0; i < VF_TAB; i++) {
    vf_blk* b = &vf_tab[(h + i) & (VF_TAB - 1)];
    if (!b->p || b->p == (void*)1) { b->p = p; b->size = size; b->serial = s; b->caller = caller; break; }
  }
  if (i == VF_TAB) vf_tab_overflow++;
  vf_nlive++;
  vf_live_bytes += size;
  pthread_mutex_unlock(&vf_mu);
  return p;
}

static void vf_free(void* p) {
  if (!p) return;
  pthread_mutex_lock(&vf_mu);
  unsigned h = vf_hash(p);
  int found = 0;
  for (unsigned i = 0; i < VF_TAB; i++) {
    vf_blk* b = &vf_tab[(h + i) & (VF_TAB - 1)];
    if (!b->p) break;
    if (b->p == p) { b->p = (void*)1; vf_nlive--; vf_live_bytes -= b->size; found = 1; break; }
  }
  if (!found) vf_bad_free++;
  pthread_mutex_unlock(&vf_mu);
  if (found) free(p);
}

// 1 if p is the start of a block that is currently live in the shadow table
VF_API int vf_alloc_is_live(void* p) {
  if (!p || !vf_tab) return 0;
  pthread_mutex_lock(&vf_mu);
  unsigned h = vf_hash(p);
  int found = 0;
  for (unsigned i = 0; i < VF_TAB; i++) {
    vf_blk* b = &vf_tab[(h + i) & (VF_TAB - 1)];
    if (!b->p) break;
    if (b->p == p) { found = 1; break; }
  }
  pthread_mutex_unlock(&vf_mu);
  return found;
}

VF_API void vf_alloc_install(int fill) {
  if (!vf_tab) vf_tab = (vf_blk*)calloc(VF_TAB, sizeof(vf_blk));
  vf_fill = fill;
  mju_user_malloc = vf_malloc;
  mju_user_free = vf_free;
}

VF_API void vf_alloc_plan(long fail_at, double fail_p, unsigned long long seed) {
  pthread_mutex_lock(&vf_mu);
  vf_fail_at = fail_at;
  vf_fail_p = fail_p;
  if (seed) vf_rng = seed;
  pthread_mutex_unlock(&vf_mu);
}

// out: serial, nlive, live_bytes, nfailed, bad_free, tab_overflow
VF_API void vf_alloc_stats(long long* out) {
  pthread_mutex_lock(&vf_mu);
  out[0] = vf_serial; out[1] = vf_nlive; out[2] = (long long)vf_live_bytes;
  out[3] = vf_nfailed; out[4] = vf_bad_free; out[5] = vf_tab_overflow;
  pthread_mutex_unlock(&vf_mu);
}

// list serial numbers (allocation order) of live blocks with serial > since
VF_API int vf_alloc_live(long since, long long* serials, long long* sizes, int cap) {
  int n = 0;
  pthread_mutex_lock(&vf_mu);
  for (unsigned i = 0; i < VF_TAB; i++) {
    vf_blk* b = &vf_tab[i];
    if (b->p && b->p != (void*)1 && b->serial > since) {
      if (n < cap) { serials[n] = b->serial; sizes[n] = (long long)b->size; }
      n++;
    }
  }
  pthread_mutex_unlock(&vf_mu);
  return n;
}

VF_API void vf_alloc_track_callers(int on) { vf_track_callers = on; }

// callers (return address inside the function that called mju_malloc) of live blocks with serial > since
VF_API int vf_alloc_live_callers(long since, void** callers, int cap) {
  int n = 0;
  pthread_mutex_lock(&vf_mu);
  for (unsigned i = 0; i < VF_TAB; i++) {
    vf_blk* b = &vf_tab[i];
    if (b->p && b->p != (void*)1 && b->serial > since) {
      if (n < cap) callers[n] = b->caller;
      n++;
    }
  }
  pthread_mutex_unlock(&vf_mu);
  return n;
}

//------------------------------------ misc helpers -------------------------------------------------

VF_API void vf_memcpy(void* dst, const void* src, size_t n) { memcpy(dst, src, n); }

extern void _mjPRIVATE__set_xml_precision(const int);
VF_API void vf_set_xml_precision(int p) { _mjPRIVATE__set_xml_precision(p); }

// signature of the driver ABI, bumped when the table formats change
VF_API int vf_abi(void) { return 3; }

//------------------------------------ task hook: delay injection and assignment log ---------------

#include <sched.h>
#include <time.h>

extern void (*mjv_taskhook)(int phase, int thread_id, int task_id, int ntask);
static int vf_th_mode = 0;
static uint64_t vf_th_rng = 88172645463325252ull;
static long long vf_th_pre = 0, vf_th_post = 0, vf_th_worker = 0;
static unsigned vf_th_mask = 0;

static void vf_taskhook(int phase, int thread_id, int task_id, int ntask) {
  if (phase == 0) {
    __sync_fetch_and_add(&vf_th_pre, 1);
    if (thread_id > 0) __sync_fetch_and_add(&vf_th_worker, 1);
    if (thread_id >= 0 && thread_id < 32) __sync_fetch_and_or(&vf_th_mask, 1u << thread_id);
    if (vf_th_mode) {
      uint64_t r = __sync_fetch_and_add(&vf_th_rng, 0x9E3779B97F4A7C15ull);
      r ^= r >> 29; r *= 0xBF58476D1CE4E5B9ull; r ^= r >> 32;
      int k = (int)(r % 8);
      if (k == 1) sched_yield();
      else if (k == 2) {
        struct timespec t0, t1; clock_gettime(CLOCK_MONOTONIC, &t0);
        long ns = 1000 * (1 + (long)((r >> 8) % 50));
        do { clock_gettime(CLOCK_MONOTONIC, &t1); } while ((t1.tv_sec - t0.tv_sec) * 1000000000L + (t1.tv_nsec - t0.tv_nsec) < ns);
      } else if (k == 3 && vf_th_mode > 1) {
        struct timespec ts = {0, 200000}; nanosleep(&ts, 0);
      }
    }
  } else {
    __sync_fetch_and_add(&vf_th_post, 1);
  }
}

VF_API void vf_taskhook_install(int mode, unsigned long long seed) {
  vf_th_mode = mode;
  if (seed) vf_th_rng = seed;
  mjv_taskhook = vf_taskhook;
}

VF_API void vf_taskhook_uninstall(void) { mjv_taskhook = 0; }

// out: pre, post, invocations on worker threads (id>0), thread-id bitmask
VF_API void vf_taskhook_stats(long long* out) {
  out[0] = vf_th_pre; out[1] = vf_th_post; out[2] = vf_th_worker; out[3] = vf_th_mask;
}

// address and size of a named size field of mjModel (for harness-side edits such as narena before mj_makeData)
VF_API void* vf_model_size_addr(mjModel* m, const char* name, int* bytes) {
#define X(nm) if (!strcmp(name, #nm)) { if (bytes) *bytes = (int)sizeof(m->nm); return (void*)&m->nm; }
  MJMODEL_SIZES
#undef X
  return 0;
}
