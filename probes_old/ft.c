#include <mujoco/mujoco.h>
#include <mujoco/mjxmacro.h>
#include <stdio.h>
int main(int argc,char**argv){ char err[1000]; mjModel* m=mj_loadXML(argv[1],NULL,err,1000); if(!m){puts(err);return 1;} mjData* d=mj_makeData(m); mj_forward(m,d);
 int n=0;
 MJMODEL_POINTERS_PREAMBLE(m)
#define X(type,name,nr,nc) { n++; if(n<4) printf("m.%s %s [%lld x %lld] %p\n",#name,#type,(long long)(m->nr),(long long)(nc),(void*)m->name);}
 MJMODEL_POINTERS
#undef X
 printf("model pointers=%d\n",n); n=0;
#define X(type,name,nr,nc) { n++; if(n<4) printf("d.%s %s [%lld x %lld]\n",#name,#type,(long long)(m->nr),(long long)(nc));}
 MJDATA_POINTERS
#undef X
 printf("data pointers=%d\n",n); n=0;
#undef MJ_D
#define MJ_D(x) d->x
#undef MJ_M
#define MJ_M(x) m->x
#define X(type,name,nr,nc) { n++; if(n<6) printf("arena.%s %s [%lld x %lld] %p\n",#name,#type,(long long)(nr),(long long)(nc),(void*)d->name);}
 MJDATA_ARENA_POINTERS
#undef X
 printf("arena pointers=%d\n",n); n=0;
#define X(name) n++;
#define XNV X
 MJMODEL_SIZES
#undef X
#undef XNV
 printf("sizes=%d\n",n);
 return 0;}
