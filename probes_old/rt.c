#include <mujoco/mujoco.h>
#include <mujoco/mjxmacro.h>
#include <stdio.h>
#include <string.h>
#include <math.h>
void _mjPRIVATE__set_xml_precision(const int); int main(int argc,char**argv){ char err[1000]=""; _mjPRIVATE__set_xml_precision(17); mjModel* m=mj_loadXML(argv[1],NULL,err,1000); if(!m){printf("skip\n");return 0;}
 if(!mj_saveLastXML(argv[2],m,err,1000)){printf("savefail %s\n",err);return 0;}
 mjModel* m2=mj_loadXML(argv[2],NULL,err,1000); if(!m2){printf("reloadfail %.80s\n",err);return 0;}
 int nd=0, nonfloat=0; double maxd=0; char buf[4000]=""; 
#define X(name) if(m->name!=m2->name){nd++; if(strlen(buf)<3800) sprintf(buf+strlen(buf)," %s(%lld->%lld)",#name,(long long)m->name,(long long)m2->name);}
#define XNV X
 MJMODEL_SIZES
#undef X
#undef XNV
 if(nd){printf("SIZEDIFF%s\n",buf);return 0;}
 MJMODEL_POINTERS_PREAMBLE(m)
#define XNV(type,name,nr,nc) X(type,name,nr,nc)
#define X(type,name,nr,nc) { size_t n=sizeof(type)*(size_t)(m->nr)*(size_t)(nc); if(n && memcmp(m->name,m2->name,n)){ nd++; if(!strcmp(#type,"mjtNum")){ const double*a=(const double*)m->name,*b=(const double*)m2->name; for(size_t i=0;i<n/8;i++){ double e=fabs(a[i]-b[i]); if(e>maxd) maxd=e; } } else if(strcmp(#type,"float")) nonfloat++;  if(strlen(buf)<3800) sprintf(buf+strlen(buf)," %s",#name);} }
 MJMODEL_POINTERS
#undef X
#undef XNV
 if(memcmp(&m->opt,&m2->opt,sizeof(mjOption))) {nd++; strcat(buf," OPT");}
 if(memcmp(&m->stat,&m2->stat,sizeof(mjStatistic))) {nd++; strcat(buf," STAT");}
 if(nd) printf("DIFF maxd=%.3g nonfloat=%d%s\n",maxd,nonfloat,buf); else printf("same\n"); return 0; }
