import sys, time
import mujoco
mujoco.__path__.append('/repo/mjx/mujoco')
t=time.time()
from mujoco import mjx
print('import ok', time.time()-t, mjx.__file__)
import jax, numpy as np
xml='''<mujoco><worldbody><body><joint type="hinge" axis="0 1 0"/><geom size=".1" pos="0 0 -.5"/><body pos="0 0 -1"><joint type="hinge" axis="0 1 0"/><geom size=".1" pos="0 0 -.5"/></body></body></worldbody></mujoco>'''
m=mujoco.MjModel.from_xml_string(xml); d=mujoco.MjData(m)
d.qpos[:]=[.3,-.2]; d.qvel[:]=[.1,.2]
mx=mjx.put_model(m); dx=mjx.put_data(m,d)
t=time.time()
f=jax.jit(mjx.step)
dx2=f(mx,dx); dx2.qpos.block_until_ready()
print('jit+step', time.time()-t)
mujoco.mj_step(m,d)
print(np.array(dx2.qpos), d.qpos, np.array(dx2.qpos)-d.qpos)
print(jax.config.jax_enable_x64)
