import sys, types, importlib
import mujoco
def stubpkg(name, path):
    m = types.ModuleType(name); m.__path__=[path]; m.__package__=name; sys.modules[name]=m; return m
mujoco.__path__.insert(0,'/repo/python/mujoco')
stubpkg('mujoco.sysid','/repo/python/mujoco/sysid')
stubpkg('mujoco.sysid._src','/repo/python/mujoco/sysid/_src')
for n in ['mujoco.minimize','mujoco.sysid._src.parameter','mujoco.sysid._src.model_modifier','mujoco.sysid._src.timeseries','mujoco.sysid._src.signal_modifier','mujoco.sysid._src.signal_transform']:
    try:
        m=importlib.import_module(n); print('OK',n,m.__file__)
    except Exception as e:
        print('FAIL',n,repr(e))
import numpy as np
mm=sys.modules['mujoco.sysid._src.model_modifier']
th=np.random.randn(10)
pi=mm.pi_from_theta(th); J=mm.pseudoinertia_from_pi(pi); print(pi, np.linalg.eigvalsh(J)); print(mm.theta_from_pseudoinertia(J)-th)
