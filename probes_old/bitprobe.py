import ctypes, sys, glob, os, numpy as np
lib = ctypes.CDLL('/tmp/scratch/libmujoco_v.so')
vp=ctypes.c_void_p
lib.mj_loadXML.restype=vp; lib.mj_loadXML.argtypes=[ctypes.c_char_p,vp,ctypes.c_char_p,ctypes.c_int]
lib.mj_makeData.restype=vp; lib.mj_makeData.argtypes=[vp]
lib.mj_copyData.restype=vp; lib.mj_copyData.argtypes=[vp,vp,vp]
for f in ('mj_step','mj_forward','mj_deleteData'): getattr(lib,f).argtypes=[vp,vp] if f!='mj_deleteData' else [vp]
lib.mj_deleteModel.argtypes=[vp]
lib.mj_stateSize.argtypes=[vp,ctypes.c_int]; lib.mj_stateSize.restype=ctypes.c_int
lib.mj_getState.argtypes=[vp,vp,vp,ctypes.c_int]; lib.mj_setState.argtypes=[vp,vp,vp,ctypes.c_int]
lib.mju_threadpool.argtypes=[vp,ctypes.c_int]
INTEG=(1<<14)-1; FULL=0b10000000011111  # time qpos qvel act history plugin
ERR=ctypes.CFUNCTYPE(None,ctypes.c_char_p)
class MjErr(Exception): pass
def _err(msg): raise MjErr(msg.decode())
# errors: leave default (process exit) -> run each model in subprocess instead
def getstate(m,d,sig):
    n=lib.mj_stateSize(m,sig); a=np.zeros(n); lib.mj_getState(m,d,a.ctypes.data,sig); return a
def run(path):
    err=ctypes.create_string_buffer(1000)
    m=lib.mj_loadXML(path.encode(),None,err,1000)
    if not m: return 'skip'
    res=[]
    # C02: pool sizes
    ref=None
    for nth in (0,2,5):
        d=lib.mj_makeData(m); lib.mju_threadpool(d,nth)
        for i in range(60): lib.mj_step(m,d)
        s=getstate(m,d,INTEG); lib.mju_threadpool(d,0); lib.mj_deleteData(d)
        if ref is None: ref=s
        elif not np.array_equal(ref.view(np.uint64), s.view(np.uint64)): res.append('C02diff nth=%d max=%g'%(nth,np.nanmax(np.abs(ref-s))))
    # C01: setState into fresh, copyData
    d=lib.mj_makeData(m)
    for i in range(25): lib.mj_step(m,d)
    s=getstate(m,d,INTEG)
    d2=lib.mj_makeData(m); lib.mj_setState(m,d2,s.ctypes.data,INTEG)
    d3=lib.mj_copyData(None,m,d)
    for i in range(25):
        lib.mj_step(m,d); lib.mj_step(m,d2); lib.mj_step(m,d3)
    a,b,c=getstate(m,d,INTEG),getstate(m,d2,INTEG),getstate(m,d3,INTEG)
    if not np.array_equal(a.view(np.uint64),b.view(np.uint64)): res.append('C01 setState-fresh diff max=%g'%np.nanmax(np.abs(a-b)))
    if not np.array_equal(a.view(np.uint64),c.view(np.uint64)): res.append('C01 copyData diff max=%g'%np.nanmax(np.abs(a-c)))
    return ';'.join(res) if res else 'ok'
if __name__=='__main__':
    print(run(sys.argv[1]))
