#include <mujoco/mujoco.h>
#include <mujoco/mjplugin.h>
#include <thread>
#include <atomic>
#include <cstdio>
#include <string>
#include <vector>
static std::atomic<bool> stop{false};
static int nstate(const mjModel*, int){return 0;}
int main(){
  std::vector<std::string> names; for(int i=0;i<40;i++) names.push_back("vf.plugin."+std::to_string(i));
  std::thread r1([&]{ long n=0, it=0; while(!stop.load()){ it++; int slot; const mjpPlugin* p=mjp_getPlugin("vf.nonexistent",&slot); if(p) n++; } printf("r1 iters=%ld\n", it); });
  std::thread r2([&]{ while(!stop.load()){ int c=mjp_pluginCount(); for(int s=0;s<c;s++){ const mjpPlugin* p=mjp_getPluginAtSlot(s); if(!p||!p->name) printf("torn\n"); } } });
  for(int i=0;i<40;i++){ mjpPlugin p; mjp_defaultPlugin(&p); p.name=names[i].c_str(); p.capabilityflags=mjPLUGIN_PASSIVE; p.nstate=nstate; mjp_registerPlugin(&p); std::this_thread::sleep_for(std::chrono::milliseconds(2)); }
  stop=true; r1.join(); r2.join(); printf("count=%d\n", mjp_pluginCount()); return 0; }
