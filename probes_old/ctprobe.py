import ctypes, sys
lib = ctypes.CDLL(sys.argv[1])
lib.mj_loadXML.restype = ctypes.c_void_p
lib.mj_loadXML.argtypes = [ctypes.c_char_p, ctypes.c_void_p, ctypes.c_char_p, ctypes.c_int]
lib.mj_makeData.restype = ctypes.c_void_p; lib.mj_makeData.argtypes=[ctypes.c_void_p]
lib.mj_step.argtypes=[ctypes.c_void_p, ctypes.c_void_p]
err = ctypes.create_string_buffer(1000)
m = lib.mj_loadXML(b"/repo/model/humanoid/humanoid.xml", None, err, 1000)
print("model", hex(m or 0), err.value)
d = lib.mj_makeData(m)
import time; t=time.time()
for i in range(500): lib.mj_step(m, d)
print("500 steps", time.time()-t)
if len(sys.argv)>2:
    # deliberately overflow: write past a malloc'd buffer through mju_copy
    lib.mju_malloc.restype=ctypes.c_void_p; lib.mju_malloc.argtypes=[ctypes.c_size_t]
    p = lib.mju_malloc(64)
    lib.mju_zero.argtypes=[ctypes.c_void_p, ctypes.c_int]
    lib.mju_zero(p, 9)
    print("not reached?")
