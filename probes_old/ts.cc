#include <mujoco/mujoco.h>
#include "engine/engine_thread.h"
#include <cstdio>
#include <atomic>
static std::atomic<int> cnt{0};
static void task(const mjModel*, mjData*, void*, int tid, int id){ cnt.fetch_add(1); }
int main(){ mjData d{}; d.threadpool=0; d.threadlock=0;
  // minimal arena so mj_markStack works
  static char arena[1<<16]; d.arena=arena; d.narena=sizeof(arena); d.pstack=0; d.parena=0; d.pbase=0;
  mju_threadpool(&d,4); for(int i=0;i<200;i++) mju_dispatch(nullptr,&d,task,nullptr,7); mju_threadpool(&d,0);
  printf("cnt=%d\n",cnt.load()); return cnt.load()==1400?0:1; }
