#!/bin/sh
# tools/mut.sh <patch-file|-e sed-expr file> -- <check id> [args]   : run a check against a mutated scratch worktree
# usage: tools/mut.sh patch.diff C22 [--tier quick]
set -e
PATCH="$(readlink -f "$1")"; shift
W=$(mktemp -d /tmp/mut-XXXXXX)
rmdir "$W"
git -C /repo worktree add --detach "$W" HEAD >/dev/null 2>&1
trap 'git -C /repo worktree remove --force "$W" >/dev/null 2>&1 || rm -rf "$W"; git -C /repo worktree prune' EXIT
git -C "$W" apply "$PATCH"
cd /verif
VERIF_REPO="$W" VERIF_NO_EVIDENCE=1 ./check "$@" || echo "exit=$?"
