#!/venv/bin/python
"""Generate the machine-derived tables of DESIGN.md §6 (fix table, open findings by property, seeded changes, quick-tier cost)."""
import json, glob, os, subprocess, collections, sys
sys.path.insert(0, "/verif")
k = json.load(open("/verif/known_findings.json"))["findings"]
print("#### Fix commits in /repo (from `git -C /repo log`, oldest first)\n")
print("| commit | subject |\n|---|---|")
log = subprocess.run(["git", "-C", "/repo", "log", "--reverse", "--format=%h|%s", "dd8492c20..HEAD"], capture_output=True, text=True).stdout
for l in log.splitlines():
    h, s = l.split("|", 1)
    print("| %s | %s |" % (h, s))
print("\n#### Known findings by property (known_findings.json)\n")
print("| property | open | fixed | open signatures (mechanism keys) |\n|---|---|---|---|")
by = collections.defaultdict(lambda: {"open": [], "fixed": []})
for e in k:
    by[e["property"]][e["status"]].append(e["signature"])
for p in sorted(by):
    o = by[p]["open"]
    shown = "; ".join("`%s`" % s[:90] for s in o[:8]) + (" … (%d more)" % (len(o) - 8) if len(o) > 8 else "")
    print("| %s | %d | %d | %s |" % (p, len(o), len(by[p]["fixed"]), shown))
print("\n#### Quick-tier cost and coverage from the evidence files\n")
print("| property | level | evaluations | distinct non-trivial | wall s | verdict | known findings observed |\n|---|---|---|---|---|---|---|")
for f in sorted(glob.glob("/verif/evidence/C*.json")):
    e = json.load(open(f)); c = e["coverage"]
    print("| %s | %s | %s | %s | %s | %s (%s) | %d |" % (e["property_id"], e["level"], c.get("evaluations"), c.get("distinct_nontrivial"), e.get("wall_s"), c.get("verdict"), e.get("tier"), len(c.get("known_findings_observed", {}))))
