#!/bin/bash
# tools/apply_in_repo.sh <seeded dir name> <check id> : the procedure of the brief, literally: apply the stored change to /repo,
# run the registered quick command of the check, undo the change; the result is recorded in seeded/<name>/meta.json
# (run only when nothing else uses /repo)
N=$1; C=$2; DST=/verif/seeded/$N
[ -z "$(git -C /repo status --porcelain)" ] || { echo "/repo is not clean"; exit 2; }
git -C /repo apply $DST/patch.diff || { echo "PATCH DOES NOT APPLY"; exit 3; }
(cd /verif && VERIF_NO_EVIDENCE=1 timeout 3600 ./check $C --tier quick > $DST/check_${C}_in_repo.log 2>&1); RC=$?
git -C /repo checkout -- .
[ -z "$(git -C /repo status --porcelain)" ] || echo "WARNING: /repo not clean after undo"
SIG=$(grep "^VIOLATION" $DST/check_${C}_in_repo.log | head -2 | sed 's/.*# //' | tr '\n' ';' | cut -c1-200)
/venv/bin/python - "$DST/meta.json" "$C" "$RC" "$SIG" <<'PY'
import json, sys
p, c, rc, sig = sys.argv[1:5]
m = json.load(open(p))
m["applied_to_repo_and_undone"] = {"check": c, "exit": int(rc), "signatures": sig, "how": "git -C /repo apply; ./check; git -C /repo checkout -- ."}
json.dump(m, open(p, "w"), indent=1)
print(p.split("/")[-2], m["applied_to_repo_and_undone"])
PY
