#!/venv/bin/python
"""Print the markdown table of seeded changes (seeded/*/meta.json) for DESIGN.md §6.7."""
import json, glob, os, re
rows = []
for d in sorted(glob.glob("/verif/seeded/*")):
    mp = os.path.join(d, "meta.json")
    name = os.path.basename(d)
    if not os.path.exists(mp):
        rows.append((name, "-", "-", "-", "not run yet", ""))
        continue
    m = json.load(open(mp))
    notes = os.path.join(d, "NOTES.md")
    title = ""
    if os.path.exists(notes):
        for l in open(notes):
            if l.strip().startswith("#"):
                title = l.strip("# \n"); break
    elif os.path.exists(os.path.join(d, "fix_message.txt")):
        title = "reverse of: " + open(os.path.join(d, "fix_message.txt")).readline().strip()
    for c in m.get("checks_run", []):
        verdict = {0: "MISSED", 1: "caught", 2: "inconclusive"}.get(c["exit"], "exit %s" % c["exit"])
        rows.append((name, m.get("pinned_tests_with_change", "")[:9], "%s/%s" % (m.get("demo_exit_on_changed_tree"), m.get("demo_exit_on_unchanged_tree")),
                     c["check"], verdict, (c.get("signatures") or "")[:110].replace("|", "/"), title[:90]))
print("| seeded change | pinned tests | demo exit changed/unchanged | check | result | first signatures | what |")
print("|---|---|---|---|---|---|---|")
for r in rows:
    print("| " + " | ".join(str(x) for x in r) + " |")
