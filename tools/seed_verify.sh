#!/bin/bash
# tools/seed_verify.sh <PID> <tag> [check ids...] : independently confirm a seeded change, store it, run the checks against it
PID=$1; TAG=$2; shift 2
CHECKS="${*:-$PID}"
SRC=/tmp/seed-$PID-$TAG/out
DST=/verif/seeded/$PID-$TAG
[ -s $SRC/patch.diff ] || { echo "no patch in $SRC"; exit 2; }
mkdir -p $DST
cp $SRC/patch.diff $DST/patch.diff
cp $SRC/NOTES.md $DST/NOTES.md 2>/dev/null
for f in $SRC/*; do case "$f" in *.log|*/patch.diff|*/NOTES.md) ;; *) [ -f "$f" ] && cp "$f" $DST/ ;; esac; done   # demo, wrapper and helper files
W=$(mktemp -d /tmp/sv-XXXXXX); rmdir $W
git -C /repo worktree add --detach $W HEAD >/dev/null 2>&1
cleanup() { git -C /repo worktree remove --force $W >/dev/null 2>&1; rm -rf $W ${W}_lib; git -C /repo worktree prune; }
trap cleanup EXIT
if ! git -C $W apply $DST/patch.diff 2>$DST/apply.err; then echo "PATCH DOES NOT APPLY"; cat $DST/apply.err; exit 3; fi
# unchanged kit build (cached per repo HEAD)
H=$(git -C /repo rev-parse --short HEAD)
BASE=/tmp/seedkit_base_$H
(
  flock 9
  if [ ! -s $BASE/lib/libmujoco.so ] || [ $(stat -c %s $BASE/lib/libmujoco.so) -lt 1000000 ] || [ ! -d $BASE/tree/src ]; then
    [ -d $BASE/tree ] && git -C /repo worktree remove --force $BASE/tree >/dev/null 2>&1; rm -rf $BASE   # older bases stay until the final clean-up (may be in use)
    git -C /repo worktree prune
    mkdir -p $BASE
    git -C /repo worktree add --detach $BASE/tree HEAD >/dev/null 2>&1
    [ -d $BASE/tree/src ] && /tmp/seedkit/build_lib.sh $BASE/tree $BASE/lib > $BASE/build.log 2>&1
  fi
) 9>/tmp/seedkit_base.lock
TESTS=$(cd $W && /venv/bin/python -m pytest -q -p no:cacheprovider --timeout=900 --continue-on-collection-errors 2>&1 | tail -1)
BUILD=ok
/tmp/seedkit/build_lib.sh $W ${W}_lib > $DST/build_changed.log 2>&1 || BUILD=failed
DEMO_CHANGED=na; DEMO_BASE=na
if [ -f $DST/run_demo.sh ]; then
  chmod +x $DST/run_demo.sh
  (cd $DST && timeout 900 ./run_demo.sh $W ${W}_lib > $DST/demo_changed.log 2>&1); DEMO_CHANGED=$?
  (cd $DST && timeout 900 ./run_demo.sh $BASE/tree $BASE/lib > $DST/demo_unchanged.log 2>&1); DEMO_BASE=$?
fi
RES=""
for C in $CHECKS; do
  (cd /verif && VERIF_REPO=$W VERIF_NO_EVIDENCE=1 timeout 5400 ./check $C > $DST/check_$C.log 2>&1); RC=$?
  SIG=$(grep "^VIOLATION" $DST/check_$C.log | head -3 | sed 's/.*# //' | tr '\n' ';' | cut -c1-300)
  RES="$RES{\"check\":\"$C\",\"exit\":$RC,\"signatures\":\"$(echo $SIG | sed 's/"/\\"/g')\"},"
done
cat > $DST/meta.json <<EOM
{"property": "$PID", "seed_tag": "$TAG", "origin": "independent sub-agent given only the property text and a scratch worktree",
 "repo_head": "$H", "pinned_tests_with_change": "$TESTS", "kit_build_with_change": "$BUILD",
 "demo_exit_on_changed_tree": "$DEMO_CHANGED", "demo_exit_on_unchanged_tree": "$DEMO_BASE",
 "needs_to_manifest": "see NOTES.md",
 "checks_run": [${RES%,}]}
EOM
rm -f $DST/apply.err
cat $DST/meta.json
