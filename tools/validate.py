#!/usr/bin/env python3-vt
import json, sys, glob
import jsonschema
ok = True
man = json.load(open("/verif/MANIFEST.json"))
jsonschema.validate(man, json.load(open("/root/.vp/MANIFEST.schema.json")))
print("MANIFEST ok:", len(man["checks"]), "checks;", len(man.get("not_applicable", [])), "not claimed")
es = json.load(open("/root/.vp/EVIDENCE.schema.json"))
for c in man["checks"]:
    f = c["evidence_file"]
    try:
        ev = json.load(open(f))
        jsonschema.validate(ev, es)
        assert ev["level"] == c["level_claimed"]["category"], "level mismatch"
        print(" ", c["property_id"], "evidence ok", ev["tier"], ev["coverage"].get("verdict"), ev["coverage"]["evaluations"], ev["coverage"]["distinct_nontrivial"], "%.0fs" % ev["wall_s"])
    except Exception as e:
        ok = False
        print(" ", c["property_id"], "EVIDENCE INVALID:", str(e)[:200])
sys.exit(0 if ok else 1)
