#!/bin/bash
# tools/regress_verify.sh <dir-name under seeded/> <check id> : apply the reverse of a fix in a scratch worktree, run the check, write meta.json
N=$1; C=$2
DST=/verif/seeded/$N
W=$(mktemp -d /tmp/rg-XXXXXX); rmdir $W
git -C /repo worktree add --detach $W HEAD >/dev/null 2>&1
trap 'git -C /repo worktree remove --force $W >/dev/null 2>&1; rm -rf $W; git -C /repo worktree prune' EXIT
if ! git -C $W apply $DST/patch.diff 2>$DST/apply.err; then echo "PATCH DOES NOT APPLY"; cat $DST/apply.err; exit 3; fi
rm -f $DST/apply.err
H=$(git -C /repo rev-parse --short HEAD)
TESTS=$(cd $W && /venv/bin/python -m pytest -q -p no:cacheprovider --timeout=900 --continue-on-collection-errors 2>&1 | tail -1)
(cd /verif && VERIF_REPO=$W VERIF_NO_EVIDENCE=1 timeout 5400 ./check $C > $DST/check_$C.log 2>&1); RC=$?
SIG=$(grep "^VIOLATION" $DST/check_$C.log | head -3 | sed 's/.*# //' | tr '\n' ';' | cut -c1-300 | sed 's/"/\\"/g')
cat > $DST/meta.json <<EOM
{"property": "$C", "seed_tag": "$N", "origin": "reverse of a fix: commit in /repo (see fix_message.txt); re-introduces a genuine defect the checks found",
 "repo_head": "$H", "pinned_tests_with_change": "$TESTS", "kit_build_with_change": "n/a", "demo_exit_on_changed_tree": "n/a", "demo_exit_on_unchanged_tree": "n/a",
 "needs_to_manifest": "see fix_message.txt and known_findings.json (fixed entry)",
 "checks_run": [{"check":"$C","exit":$RC,"signatures":"$SIG"}]}
EOM
cat $DST/meta.json
