#!/bin/bash
# processes finished seeds, up to $LANES at a time, until /tmp/seed_queue.stop exists
LANES=${LANES:-3}
H=$(git -C /repo rev-parse --short HEAD)
while [ ! -f /tmp/seed_queue.stop ]; do
  for d in /tmp/seed-C*-*/out; do
    [ -f /tmp/seed_queue.stop ] && break
    [ -s $d/patch.diff ] && [ -s $d/NOTES.md ] || continue
    id=$(echo $d | sed 's#/tmp/seed-\(C[0-9]*\)-\([a-z0-9]*\)/out#\1 \2#')
    set -- $id
    [ -s /verif/seeded/$1-$2/meta.json ] && continue
    [ -f /tmp/seed-$1-$2/.verifying ] && continue
    # wait until the notes file has been stable for 3 minutes (agent finished writing)
    age=$(( $(date +%s) - $(stat -c %Y $d/NOTES.md) ))
    [ $age -lt 180 ] && continue
    while [ $(jobs -r | wc -l) -ge $LANES ]; do sleep 20; done
    touch /tmp/seed-$1-$2/.verifying
    /verif/tools/seed_verify.sh $1 $2 > /verif/out/seed_$1$2.log 2>&1 &
    sleep 45
  done
  sleep 60
done
wait
