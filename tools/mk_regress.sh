#!/bin/sh
# tools/mk_regress.sh <commit> <name> <property> : store the reverse of a fix commit as a seeded regression
set -e
C=$1; N=$2; P=$3
mkdir -p /verif/seeded/$N
git -C /repo diff $C $C~1 > /verif/seeded/$N/patch.diff
git -C /repo log -1 --format=%B $C > /verif/seeded/$N/fix_message.txt
echo "$N $P $(wc -l < /verif/seeded/$N/patch.diff) lines"
