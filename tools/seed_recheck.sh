#!/bin/bash
# tools/seed_recheck.sh <seeded dir name> <check id> : re-run one check against a stored seeded change (scratch worktree) and update meta.json
N=$1; C=$2; DST=/verif/seeded/$N
W=$(mktemp -d /tmp/rc-XXXXXX); rmdir $W
git -C /repo worktree add --detach $W HEAD >/dev/null 2>&1
trap 'git -C /repo worktree remove --force $W >/dev/null 2>&1; rm -rf $W; git -C /repo worktree prune' EXIT
git -C $W apply $DST/patch.diff || { echo "PATCH DOES NOT APPLY"; exit 3; }
(cd /verif && VERIF_REPO=$W VERIF_NO_EVIDENCE=1 timeout 5400 ./check $C > $DST/check_$C.log 2>&1); RC=$?
SIG=$(grep "^VIOLATION" $DST/check_$C.log | head -3 | sed 's/.*# //' | tr '\n' ';' | cut -c1-300)
/venv/bin/python - "$DST/meta.json" "$C" "$RC" "$SIG" "$(git -C /repo rev-parse --short HEAD)" <<'PY'
import json, sys
p, c, rc, sig, head = sys.argv[1:6]
m = json.load(open(p))
prev = [x for x in m["checks_run"] if x["check"] == c]
m["checks_run"] = [x for x in m["checks_run"] if x["check"] != c] + [{"check": c, "exit": int(rc), "signatures": sig, "rerun_at_repo_head": head,
                   "earlier_result": [{"exit": x["exit"], "signatures": x["signatures"]} for x in prev] or None}]
json.dump(m, open(p, "w"), indent=1)
print(m["checks_run"][-1])
PY
