#!/venv/bin/python
"""Regenerate /verif/MANIFEST.json from vf/registry.py and properties.jsonl."""
import json
import os
import sys
from pathlib import Path

V = Path(__file__).resolve().parent.parent
sys.path.insert(0, str(V))
from vf import registry  # noqa

props = [json.loads(l) for l in (V / "properties.jsonl").read_text().splitlines() if l.strip()]
checks, na = [], []
for p in props:
    pid = p["id"]
    r = registry.READY.get(pid)
    mod = V / "vf" / "props" / (pid.lower() + ".py")
    if r and mod.exists():
        checks.append({
            "property_id": pid,
            "quick_cmd": "./check %s --tier quick" % pid,
            "thorough_cmd": "./check %s --tier thorough" % pid,
            "evidence_file": "/verif/evidence/%s.json" % pid,
            "replay_cmd_template": "./check %s --replay {path}" % pid,
            "engine": "vf",
            "level_claimed": {"category": r["level"], "text": r["text"], "design_ref": r["design_ref"]},
            "level_note": r["note"],
            "technique": r["technique"],
        })
    else:
        na.append({"property_id": pid, "reason": registry.NOT_CLAIMED.get(pid, "not claimed: the runtime check designed in DESIGN.md §3 has not been built and validated yet") if hasattr(registry, "NOT_CLAIMED") else "not claimed: the runtime check designed in DESIGN.md §3 has not been built and validated yet"})

hooks_commits = getattr(registry, "HOOK_COMMITS", [])
man = {
    "version": 1,
    "setup_cmd": "./setup.sh",
    "hooks": {
        "guard": "MUJOCO_VERIF_HOOKS",
        "enable": "preprocessor define -DMUJOCO_VERIF_HOOKS=1 passed only by /verif/vf/build.py when it compiles /repo/src; hooks are function pointers that stay NULL until a harness installs them",
        "baseline_off_cmd": "cd /repo && /venv/bin/python -m pytest -ra -q -p no:cacheprovider --timeout=900 --continue-on-collection-errors",
        "source_commits": hooks_commits,
        "add_only": True,
    },
    "engines": [{"name": "vf", "path": "/verif/vf", "serves_properties": [c["property_id"] for c in checks],
                 "kind_free_text": "runtime monitoring harness: flavoured clang builds of /repo (rel, asan+ubsan, tsan, fuzz), ctypes driver with X-macro field tables, process-isolated parallel case runner, reference-model and twin-execution oracles"}],
    "checks": checks,
    "not_applicable": na,
    "notes": "All checks rebuild the library from /repo's working tree (content-hashed object cache under /verif/.build). Exit 2 = inconclusive (never folded into held). Known findings: /verif/known_findings.json.",
}
(V / "MANIFEST.json").write_text(json.dumps(man, indent=1) + "\n")
try:
    import jsonschema
    jsonschema.validate(man, json.load(open("/root/.vp/MANIFEST.schema.json")))
    print("MANIFEST.json valid: %d checks, %d not claimed" % (len(checks), len(na)))
except ImportError:
    print("written (jsonschema not available)")
