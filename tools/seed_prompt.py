#!/venv/bin/python
"""Print the prompt for an independent seeding agent: property text + scratch worktree, nothing from /verif."""
import json, sys, subprocess, os
pid = sys.argv[1]
tag = sys.argv[2] if len(sys.argv) > 2 else "a"
p = [json.loads(l) for l in open("/verif/properties.jsonl") if l.strip()]
p = [x for x in p if x["id"] == pid][0]
wt = "/tmp/seed-%s-%s/tree" % (pid, tag)
os.makedirs(os.path.dirname(wt), exist_ok=True)
if not os.path.exists(wt):
    subprocess.run(["git", "-C", "/repo", "worktree", "add", "--detach", wt, "HEAD"], stdout=subprocess.DEVNULL, stderr=subprocess.DEVNULL)
out = os.path.dirname(wt) + "/out"
os.makedirs(out, exist_ok=True)
text = {k: p[k] for k in ("id", "title", "statement", "quantifier", "why_tests_cant", "anchors")}
# later rounds: name the sites earlier independent changes touched (file + hunk header only) so that this one is different
import glob, re
avoid = []
for pd in sorted(glob.glob("/verif/seeded/%s-*/patch.diff" % pid) + glob.glob("/tmp/seed-%s-*/out/patch.diff" % pid)):
    if "/%s-%s/" % (pid, tag) in pd:
        continue
    cur = None
    for l in open(pd):
        if l.startswith("+++ b/"):
            cur = l[6:].strip()
        m = re.match(r"@@ .* @@\s*(.*)", l)
        if m and cur:
            avoid.append("%s (%s)" % (cur, m.group(1).strip()[:80] or "top of file"))
AVOID = ""
if avoid:
    AVOID = ("\n\nEarlier, independent changes for this property already touched these places; pick a DIFFERENT mechanism in a different function "
             "(ideally a different clause of the property statement): " + "; ".join(sorted(set(avoid))) + ".")
print("""You are given a git worktree of the MuJoCo physics-engine repository at %s (a scratch copy: edit it freely; do NOT touch /repo or /verif, and do not read anything under /verif — your work must be independent of it). An offline build kit is at /tmp/seedkit (read /tmp/seedkit/README.md first: it explains how to build the C/C++ library from the tree without network and how to run the repository's pinned test suite).

The following semantic property is supposed to hold for this code base:

%s

Your task: make ONE small, realistic change to the repository (the kind of slip a developer could make in a refactor or optimisation: a dropped term or reset, an off-by-one, a wrong index/frame/sign, a `<` vs `<=`, a missing lock/barrier/ordering, a skipped case, two sites that each look fine alone) that BREAKS this property while (a) the code still compiles, and (b) the pinned test suite still passes (86 passed — see the kit README for the command). The break must need something SPECIFIC to manifest — a particular interleaving, a fault at a particular point, a multi-step sequence of operations, an unusual but legitimate input or option combination — not something that any ordinary use would expose at once (e.g. not "every simulation step is wrong"). Do not touch tests, docs-only files or build files; change only source that the property is anchored in (or closely related code).

Then write a demonstration: a small self-contained program or script (C with the kit-built library, or Python with ctypes / the tree's pure-Python modules) that FAILS (non-zero exit, with a clear message) on the changed tree and PASSES (exit 0) on the unchanged tree. Build both variants to confirm (unchanged tree: `git -C %s stash` / `git stash pop`, or build into two output directories).

Deliverables, all under %s:
  patch.diff   — `git -C %s diff` of your change (source only)
  demo.*       — the demonstration plus a `run_demo.sh <tree> <libdir>` wrapper that builds/runs it against a given tree/library and exits 0/1
  NOTES.md     — what you changed and why it breaks the property; exactly what is needed for the break to manifest; the commands you ran and their outputs (pinned tests with the change: N passed; demo on changed tree: FAIL; demo on unchanged tree: PASS)
Leave the worktree with your change applied. Keep it to one change. Your final message: ≤15 lines summarising the change, the trigger condition and the evidence.""" % (wt, json.dumps(text, indent=1) + AVOID, wt, out, wt))
