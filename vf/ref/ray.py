"""Closed-form ray / primitive intersection, written from the geometric definitions of the shapes (doc XMLreference
geom/type) and the ray-casting contract of doc APIreference "Ray casting": the ray is {p + x v, x >= 0}; the answer is
the smallest x >= 0 at which the ray meets the *surface* of the shape (a ray starting inside therefore reports the exit
point), or -1.

Formulation (deliberately different from a face-by-face case analysis): every shape's surface is a subset of a few
quadrics / planes.  All roots of the ray with those constituent surfaces are candidates; a candidate is accepted iff the
point lies on the surface of the *shape*, decided by the shape's exact signed distance function (|sdf| <= eps).  The
answer is the smallest accepted non-negative root.

Geom type codes follow mjtGeom: 0 plane, 2 sphere, 3 capsule, 4 ellipsoid, 5 cylinder, 6 box.
"""
import math

import numpy as np

PLANE, HFIELD, SPHERE, CAPSULE, ELLIPSOID, CYLINDER, BOX, MESH = 0, 1, 2, 3, 4, 5, 6, 7


def _quad_roots(a, b, c):
    """real roots of a x^2 + 2 b x + c = 0 (numerically stable form)"""
    if a <= 0:
        return []
    disc = b * b - a * c
    if disc < 0:
        return []
    s = math.sqrt(disc)
    q = -(b + math.copysign(s, b)) if b != 0 else s
    r1 = q / a
    r2 = c / q if q != 0 else r1
    return [r1, r2]


def sdf(gtype, size, l):
    """exact signed distance of local point l to the shape (ellipsoid: first-order approximation f/|grad f|)"""
    x, y, z = l
    if gtype == SPHERE:
        return math.sqrt(x * x + y * y + z * z) - size[0]
    if gtype == CAPSULE:
        r, h = size[0], size[1]
        zc = min(max(z, -h), h)
        return math.sqrt(x * x + y * y + (z - zc) ** 2) - r
    if gtype == CYLINDER:
        r, h = size[0], size[1]
        dr = math.sqrt(x * x + y * y) - r
        dz = abs(z) - h
        if dr <= 0 and dz <= 0:
            return max(dr, dz)
        return math.sqrt(max(dr, 0) ** 2 + max(dz, 0) ** 2)
    if gtype == BOX:
        q = [abs(x) - size[0], abs(y) - size[1], abs(z) - size[2]]
        if max(q) <= 0:
            return max(q)
        return math.sqrt(sum(max(v, 0) ** 2 for v in q))
    if gtype == ELLIPSOID:
        a, b, c = size
        f = (x / a) ** 2 + (y / b) ** 2 + (z / c) ** 2 - 1
        g = 2 * math.sqrt((x / a ** 2) ** 2 + (y / b ** 2) ** 2 + (z / c ** 2) ** 2)
        return f / g if g > 0 else -min(a, b, c)
    raise ValueError(gtype)


def candidates(gtype, size, lp, lv):
    """ray parameters at which the ray meets the constituent quadrics / planes of the shape"""
    px, py, pz = lp
    vx, vy, vz = lv
    out = []
    if gtype == SPHERE:
        out += _quad_roots(vx * vx + vy * vy + vz * vz, px * vx + py * vy + pz * vz, px * px + py * py + pz * pz - size[0] ** 2)
    elif gtype == ELLIPSOID:
        a, b, c = size
        out += _quad_roots((vx / a) ** 2 + (vy / b) ** 2 + (vz / c) ** 2, px * vx / a ** 2 + py * vy / b ** 2 + pz * vz / c ** 2,
                           (px / a) ** 2 + (py / b) ** 2 + (pz / c) ** 2 - 1)
    elif gtype in (CAPSULE, CYLINDER):
        r, h = size[0], size[1]
        out += _quad_roots(vx * vx + vy * vy, px * vx + py * vy, px * px + py * py - r * r)
        for s in (-h, h):
            if gtype == CAPSULE:
                out += _quad_roots(vx * vx + vy * vy + vz * vz, px * vx + py * vy + (pz - s) * vz, px * px + py * py + (pz - s) ** 2 - r * r)
            elif vz != 0:
                out.append((s - pz) / vz)
    elif gtype == BOX:
        for i, (p, v) in enumerate(((px, vx), (py, vy), (pz, vz))):
            if v != 0:
                out.append((size[i] - p) / v)
                out.append((-size[i] - p) / v)
    else:
        raise ValueError(gtype)
    return out


def ray_shape(gtype, pos, R, size, pnt, vec, eps=None):
    """smallest x >= 0 with pnt + x vec on the surface of the shape, or -1.  R: 3x3 rotation (columns = local axes).
    eps: absolute geometric tolerance used to decide that a candidate lies on the surface (default: rounding level of the
    inputs, 1e-12 of the shape size plus 4e-15 of the coordinates involved)."""
    d = (pnt[0] - pos[0], pnt[1] - pos[1], pnt[2] - pos[2])
    lp = tuple(R[0][k] * d[0] + R[1][k] * d[1] + R[2][k] * d[2] for k in range(3))
    lv = tuple(R[0][k] * vec[0] + R[1][k] * vec[1] + R[2][k] * vec[2] for k in range(3))
    if gtype == PLANE:
        if lv[2] == 0:
            return -1.0
        x = -lp[2] / lv[2]
        if x < 0:
            return -1.0
        # finite rendered rectangle: positive size entries bound the plane (doc geom/type plane, changelog "in line with
        # geom visualisation conventions")
        qx, qy = lp[0] + x * lv[0], lp[1] + x * lv[1]
        if (size[0] > 0 and abs(qx) > size[0]) or (size[1] > 0 and abs(qy) > size[1]):
            return -1.0
        return x
    vv = lv[0] * lv[0] + lv[1] * lv[1] + lv[2] * lv[2]
    # re-parametrise from the point of closest approach to the shape centre: keeps the quadratics well conditioned for far origins
    t0 = -(lp[0] * lv[0] + lp[1] * lv[1] + lp[2] * lv[2]) / vv
    lq = (lp[0] + t0 * lv[0], lp[1] + t0 * lv[1], lp[2] + t0 * lv[2])
    if eps is None:
        mag = math.sqrt(d[0] ** 2 + d[1] ** 2 + d[2] ** 2) + sum(abs(v) for v in pos) + sum(abs(v) for v in pnt)
        eps = 1e-12 * max(abs(v) for v in size) + 4e-15 * mag
    best = -1.0
    for y in candidates(gtype, size, lq, lv):
        x = t0 + y
        if x < 0 or not math.isfinite(x):
            continue
        if best >= 0 and x >= best:
            continue
        q = (lq[0] + y * lv[0], lq[1] + y * lv[1], lq[2] + y * lv[2])
        if abs(sdf(gtype, size, q)) <= eps:
            best = x
    return best


def origin_surface_distance(gtype, pos, R, size, pnt):
    """|signed distance| of the ray origin to the surface of the shape (plane: to the plane)"""
    d = (pnt[0] - pos[0], pnt[1] - pos[1], pnt[2] - pos[2])
    lp = tuple(R[0][k] * d[0] + R[1][k] * d[1] + R[2][k] * d[2] for k in range(3))
    if gtype == PLANE:
        return abs(lp[2])
    return abs(sdf(gtype, size, lp))


def on_seam(gtype, pos, R, size, pnt, vec, x, rel=1e-9, abs_tol=0.0):
    """True if the point pnt + x vec lies (within rel * size + abs_tol) on the curve where two surface patches of the shape
    meet: capsule cap/cylinder circle, cylinder rim, box edge or vertex"""
    d = (pnt[0] + x * vec[0] - pos[0], pnt[1] + x * vec[1] - pos[1], pnt[2] + x * vec[2] - pos[2])
    q = tuple(R[0][k] * d[0] + R[1][k] * d[1] + R[2][k] * d[2] for k in range(3))
    tol = rel * max(abs(v) for v in size) + abs_tol
    if gtype == CAPSULE:
        return abs(abs(q[2]) - size[1]) <= tol
    if gtype == CYLINDER:
        return abs(abs(q[2]) - size[1]) <= tol and abs(math.hypot(q[0], q[1]) - size[0]) <= tol
    if gtype == BOX:
        return sum(1 for k in range(3) if abs(abs(q[k]) - size[k]) <= tol) >= 2
    return False


def plane_side(pos, R, pnt, vec):
    """(+1 ray travels towards the front face (against +Z), -1 towards the back face, 0 parallel)"""
    lvz = R[0][2] * vec[0] + R[1][2] * vec[1] + R[2][2] * vec[2]
    return 1 if lvz < 0 else (-1 if lvz > 0 else 0)


def outcomes(gtype, pos, R, size, pnt, vec, delta=1e-9):
    """reference answers for the nominal ray and for 12 rays displaced / tilted by `delta` (relative to the shape size, and
    at least 1000x the rounding level of the coordinates): the set of answers a correct implementation may return when the
    configuration is within rounding of a degenerate one (tangency, origin on the surface, hit on an edge)."""
    scale = max(abs(s) for s in size) if gtype != PLANE else 1.0
    vn = math.sqrt(vec[0] ** 2 + vec[1] ** 2 + vec[2] ** 2)
    mag = math.sqrt(sum((pnt[k] - pos[k]) ** 2 for k in range(3))) + sum(abs(v) for v in pos) + sum(abs(v) for v in pnt)
    dp = max(delta * scale, 4e-12 * mag)
    if gtype != PLANE:
        # the quadratic of a far, small shape loses (distance^2 / size) ulps: its discriminant b^2 - a*c is rounded at ulp(b^2), which is
        # the same as moving the ray sideways by ~eps * distance^2 / (2 * size); hit-or-miss within that displacement is undecided
        pos_sizes = [abs(v) for v in size if abs(v) > 0]
        if pos_sizes:
            dp = max(dp, 4.4e-16 * mag * mag / min(pos_sizes))
    dv = max(delta, 4e-12 * mag / max(scale, 1e-300)) * vn
    res = [ray_shape(gtype, pos, R, size, pnt, vec)]
    for k in range(3):
        for s in (-1, 1):
            p2 = list(pnt)
            p2[k] += s * dp
            res.append(ray_shape(gtype, pos, R, size, p2, vec))
            v2 = list(vec)
            v2[k] += s * dv
            res.append(ray_shape(gtype, pos, R, size, pnt, v2))
    # displacements along the shape's own axes (a ray lying in a face / cap plane is degenerate along one local axis only)
    for k in range(3):
        for s in (-1, 1):
            res.append(ray_shape(gtype, pos, R, size, [pnt[j] + s * dp * R[j][k] for j in range(3)], vec))
            res.append(ray_shape(gtype, pos, R, size, pnt, [vec[j] + s * dv * R[j][k] for j in range(3)]))
    return res


def nearest(geoms, pnt, vec, include):
    """geoms: list of (type, pos, R, size); include: list of bool.  Returns (x, index, all_x)"""
    allx = []
    best, bi = -1.0, -1
    for i, (t, pos, R, size) in enumerate(geoms):
        if not include[i]:
            allx.append(None)
            continue
        x = ray_shape(t, pos, R, size, pnt, vec)
        allx.append(x)
        if x >= 0 and (best < 0 or x < best):
            best, bi = x, i
    return best, bi, allx


def self_test():
    """known answers"""
    I = [[1, 0, 0], [0, 1, 0], [0, 0, 1]]
    out = {}
    out["sphere_outside"] = ray_shape(SPHERE, (0, 0, 0), I, (1, 0, 0), (-3, 0, 0), (1, 0, 0)) - 2.0
    out["sphere_inside"] = ray_shape(SPHERE, (0, 0, 0), I, (1, 0, 0), (0, 0, 0), (0, 2, 0)) - 0.5
    out["sphere_miss"] = ray_shape(SPHERE, (0, 0, 0), I, (1, 0, 0), (-3, 2, 0), (1, 0, 0)) + 1.0
    out["box_face"] = ray_shape(BOX, (0, 0, 0), I, (1, 2, 3), (0.5, 0.5, 10), (0, 0, -1)) - 7.0
    out["box_inside"] = ray_shape(BOX, (0, 0, 0), I, (1, 2, 3), (0.5, 0.5, 0), (0, 1, 0)) - 1.5
    out["cyl_cap"] = ray_shape(CYLINDER, (0, 0, 0), I, (1, 2, 0), (0.2, 0.1, 5), (0, 0, -1)) - 3.0
    out["cyl_side"] = ray_shape(CYLINDER, (0, 0, 0), I, (1, 2, 0), (5, 0, 1), (-1, 0, 0)) - 4.0
    out["cyl_miss_above"] = ray_shape(CYLINDER, (0, 0, 0), I, (1, 2, 0), (5, 0, 2.5), (-1, 0, 0)) + 1.0
    out["cap_top"] = ray_shape(CAPSULE, (0, 0, 0), I, (1, 2, 0), (0, 0, 5), (0, 0, -1)) - 2.0
    out["cap_side"] = ray_shape(CAPSULE, (0, 0, 0), I, (1, 2, 0), (5, 0, 1), (-1, 0, 0)) - 4.0
    out["ell"] = ray_shape(ELLIPSOID, (0, 0, 0), I, (1, 2, 3), (0, 0, 10), (0, 0, -1)) - 7.0
    out["plane_front"] = ray_shape(PLANE, (0, 0, 1), I, (0, 0, 1), (0, 0, 3), (0, 0, -2)) - 1.0
    out["plane_rect_miss"] = ray_shape(PLANE, (0, 0, 0), I, (1, 1, 1), (2, 0, 3), (0, 0, -1)) + 1.0
    # rotated box: 45 deg about z, ray along x hits the corner edge at sqrt(2)
    c = math.sqrt(0.5)
    Rz = [[c, -c, 0], [c, c, 0], [0, 0, 1]]
    out["box_rot"] = ray_shape(BOX, (0, 0, 0), Rz, (1, 1, 1), (-5, 0, 0), (1, 0, 0)) - (5 - math.sqrt(2))
    bad = {k: v for k, v in out.items() if abs(v) > 1e-9}
    if bad:
        raise AssertionError("ray reference self-test failed: %r" % bad)
    return {k: abs(v) for k, v in out.items()}


if __name__ == "__main__":
    print(self_test())
