"""Block-wise analysis of a stationary point of the dual (PGS) solver (doc/computation/index.rst, "Algorithms: PGS").

Dual problem (eq:dual):   min_{f in Omega}  D(f) = 1/2 f' (A + R) f + f' b,   A = J M^-1 J',  b = J a_s - aref
Omega = product over BLOCKS of: the real line (equality), [-eta, eta] (friction loss), [0, inf) (limits, frictionless
contacts, pyramid edges) and the elliptic cone K = {f_0 >= 0, f_0^2 >= sum_j f_j^2 / mu_j^2} (one block per contact).

PGS is block-coordinate descent on D.  A point f is the optimum iff EVERY block is block-optimal, i.e. f_B minimises D over
the block's own set with all other blocks fixed (Omega is a product set and D is strictly convex because R > 0).  With
g = grad D = (A + R) f + b the block conditions are
    equality       g_i = 0
    friction loss  |f_i| <= eta,  g_i = 0 inside,  g_i <= 0 at +eta,  g_i >= 0 at -eta
    one-sided      f_i >= 0, g_i >= 0, f_i g_i = 0
    elliptic cone  f_B in K,  g_B in K* = {g_0 >= sqrt(sum mu_j^2 g_j^2)},  g_B . f_B = 0
This module provides, independently of the engine (numpy / scipy only):
  * dual_problem(prob)            A + R and b from a vf.ref.constraint.Problem
  * slice_opt / cone_block_opt    EXACT minimisers of the ellipsoid slice (fixed normal force) and of the whole cone block,
                                  by safeguarded root finding (Brent) on the multiplier; Cholesky solves only
  * block_report                  exact block optimum, whitened step, block-cost decrease and KKT residual of every block
  * qcqp_newton_replica           a re-implementation of the multiplier iteration that engine_util_solve.c documents for
                                  mju_QCQP2/3/N (Newton from la = 0, at most 20 iterations, absolute 1e-10 tests) that reports
                                  WHY it stopped; used to confirm a mechanism, never as an oracle
  * engine_block_update           the elliptic block update of solPGS (normal-or-ray step, slice QCQP, rescale, cost-increase
                                  rejection) with the slice solver passed in as a callable: the caller passes the ENGINE's
                                  mju_QCQP* (counterfactual call) or slice_opt (exact alternation)
  * classify_cone_block           decides which documented-algorithm defect (if any) makes a non-optimal block a fixed point
The only engine code ever executed through this module is the callable handed to engine_block_update.
"""
import numpy as np
from scipy import linalg as sla
from scipy import optimize

MINVAL = 1e-15              # mjMINVAL
EPS = np.finfo(float).eps


def dual_problem(prob):
    """(A + R, b) of the dual of `prob` (vf.ref.constraint.Problem): A = J M^-1 J' through the Cholesky factor of M"""
    AR = prob.Jw @ prob.Jw.T + np.diag(prob.rows.R)
    return AR, np.array(prob.z0)


# ---- exact solvers ----------------------------------------------------------------------------------------------------
def _csolve(S, rhs):
    return sla.cho_solve(sla.cho_factor(S, lower=True, check_finite=False), rhs, check_finite=False)


def _slice_scaled(As, gs, r):
    """min 1/2 y'As y + gs'y  s.t. |y| <= r  (As SPD).  -> y, lam >= 0 with (As + lam I) y = -gs"""
    n = len(gs)
    if r <= 0:
        return np.zeros(n), np.inf
    y = -_csolve(As, gs)
    ny = float(np.linalg.norm(y))
    if ny <= r:
        return y, 0.0
    I = np.eye(n)

    def psi(lam):                           # increasing, ~linear in lam (secular equation in reciprocal form)
        return 1.0 / float(np.linalg.norm(_csolve(As + lam * I, gs))) - 1.0 / r
    hi = float(np.linalg.norm(gs)) / r      # |y(lam)| <= |gs| / lam
    k = 0
    while psi(hi) < 0 and k < 60:
        hi *= 2
        k += 1
    lam = optimize.brentq(psi, 0.0, hi, xtol=hi * 1e-17 + 1e-300, rtol=4 * EPS, maxiter=300)
    y = -_csolve(As + lam * I, gs)
    y *= r / float(np.linalg.norm(y))
    return y, lam


def slice_opt(A, g, mu, r):
    """EXACT  min 1/2 x'A x + g'x  s.t. sum (x_j/mu_j)^2 <= r^2.  -> x, lam (multiplier in mu-scaled coordinates)"""
    mu = np.asarray(mu, dtype=float)
    y, lam = _slice_scaled(np.asarray(A, dtype=float) * np.outer(mu, mu), np.asarray(g, dtype=float) * mu, float(r))
    return y * mu, lam


def cone_block_opt(A, c, mu):
    """EXACT  min_{x in K} 1/2 x'A x + c'x,  K = {x_0 >= 0, x_0^2 >= sum_j (x_j/mu_j)^2}  (A SPD).

    phi(n) = min over the slice {x_0 = n} is convex in n with phi'(n) = g_0 - lam n (envelope theorem; g = A x + c, lam the
    slice multiplier), phi'(0+) = c_0 - |mu*c_T|.  Root of phi' by Brent; the slice by _slice_scaled.  -> x"""
    A, c, mu = np.asarray(A, dtype=float), np.asarray(c, dtype=float), np.asarray(mu, dtype=float)
    D = np.concatenate([[1.0], mu])
    As, cs = A * np.outer(D, D), c * D
    dim = len(cs)
    ct = float(np.linalg.norm(cs[1:]))
    if cs[0] >= ct:                          # c in K*: the apex is optimal
        return np.zeros(dim)
    yu = -_csolve(As, cs)
    if yu[0] >= float(np.linalg.norm(yu[1:])):
        return yu * D

    def dphi(n):
        yT, lam = _slice_scaled(As[1:, 1:], cs[1:] + As[1:, 0] * n, n)
        return As[0, 0] * n + float(As[0, 1:] @ yT) + cs[0] - lam * n

    hi = max((ct - cs[0]) / As[0, 0], 1e-300)
    k = 0
    while dphi(hi) < 0 and k < 200:
        hi *= 2
        k += 1
    lo = hi
    k = 0
    while dphi(lo) >= 0 and k < 1000:
        lo *= 0.5
        k += 1
    if dphi(lo) >= 0:
        return np.zeros(dim)
    n = optimize.brentq(dphi, lo, hi, xtol=lo * 1e-17 + 1e-300, rtol=4 * EPS, maxiter=500) if lo < hi else hi
    yT, lam = _slice_scaled(As[1:, 1:], cs[1:] + As[1:, 0] * n, n)
    return np.concatenate([[n], yT]) * D


def scalar_block_opt(a, c, lo, hi):
    """min 1/2 a x^2 + c x on [lo, hi]"""
    return float(min(max(-c / a, lo), hi))


def quad(A, c, x):
    x = np.asarray(x, dtype=float)
    return 0.5 * float(x @ (np.asarray(A) @ x)) + float(np.asarray(c) @ x)


# ---- KKT residuals ------------------------------------------------------------------------------------------------------
def cone_kkt(f, g, R, mu, S):
    """largest violation of {f in K, g in K*, g.f = 0} in whitened units (f sqrt(R), g / sqrt(R)) relative to the scale S"""
    f, g, R, mu = (np.asarray(v, dtype=float) for v in (f, g, R, mu))
    s0 = float(np.sqrt(R[0]))
    pf = max(0.0, -f[0], float(np.sqrt(np.sum((f[1:] / mu) ** 2))) - f[0]) * s0 / S
    df = max(0.0, float(np.sqrt(np.sum((mu * g[1:]) ** 2))) - g[0]) / s0 / S
    cp = abs(float(f @ g)) / S ** 2
    return max(pf, df, cp)


def scalar_kkt(kind, f, g, R, eta, S):
    """kind: 'eq' | 'box' | 'pos'.  whitened relative KKT violation of a scalar block"""
    s = float(np.sqrt(R))
    fw, gw = f * s / S, g / s / S
    if kind == "eq":
        return abs(gw)
    if kind == "pos":
        return max(0.0, -fw, -gw, min(abs(fw), abs(gw)))
    ew = eta * s / S
    v = max(0.0, abs(fw) - ew)
    v = max(v, min(abs(gw), max(0.0, ew - fw)) if gw < 0 else min(abs(gw), max(0.0, fw + ew)))   # g<0 wants f up, g>0 wants f down
    return v


# ---- per-block report of a point f ------------------------------------------------------------------------------------------
def block_report(AR, b, rows, f, QUAD=0, HUBER=1, POS=2, CONE=3):
    """-> list of dicts (one per block): rows, kind, opt (exact block optimum with the other blocks fixed), decrease >= 0 of
    the dual cost when the block is replaced by opt, step_w = |(opt - f_B) sqrt(R_B)|, kkt (relative to S = |f sqrt(R)| + |g/sqrt(R)|
    over the whole problem), res (= grad D restricted to the block)"""
    f = np.asarray(f, dtype=float)
    g = AR @ f + b
    w = np.sqrt(rows.R)
    S = float(np.linalg.norm(f * w)) + float(np.linalg.norm(g / w)) + 1e-300
    out = []
    done = np.zeros(rows.n, dtype=bool)
    for a0, dim, mu in rows.cones:
        idx = np.arange(a0, a0 + dim)
        done[idx] = True
        A = AR[np.ix_(idx, idx)]
        c = g[idx] - A @ f[idx]
        rec = dict(rows=idx, kind="cone", mu=mu, res=g[idx].copy(), A=A)
        try:
            x = cone_block_opt(A, c, mu)
            dec = quad(A, c, f[idx]) - quad(A, c, x)
            # the decrease is evaluated as a difference of the increment form (no cancellation of the big constant)
            dlt = x - f[idx]
            dec = -(0.5 * float(dlt @ (A @ dlt)) + float(g[idx] @ dlt))
            gx = g[idx] + A @ dlt
            rec.update(opt=x, decrease=max(dec, 0.0), raw_decrease=dec, step_w=float(np.linalg.norm(dlt * w[idx])),
                       opt_kkt=cone_kkt(x, gx, rows.R[idx], mu, S))
        except (np.linalg.LinAlgError, ValueError, RuntimeError) as e:
            rec.update(opt=None, decrease=None, step_w=None, error=repr(e))
        rec["kkt"] = cone_kkt(f[idx], g[idx], rows.R[idx], mu, S)
        out.append(rec)
    for i in np.flatnonzero(~done):
        k = rows.kind[i]
        if k == QUAD:
            kind, lo, hi = "eq", -np.inf, np.inf
        elif k == HUBER:
            kind, lo, hi = "box", -rows.eta[i], rows.eta[i]
        elif k == POS:
            kind, lo, hi = "pos", 0.0, np.inf
        else:
            raise ValueError("cone row outside a cone block")
        a = AR[i, i]
        x = scalar_block_opt(a, g[i] - a * f[i], lo, hi)
        dl = x - f[i]
        dec = -(0.5 * a * dl * dl + g[i] * dl)
        out.append(dict(rows=np.array([i]), kind=kind, opt=np.array([x]), decrease=max(dec, 0.0), raw_decrease=dec, step_w=abs(dl) * w[i],
                        kkt=scalar_kkt(kind, f[i], g[i], rows.R[i], rows.eta[i], S), res=g[[i]].copy()))
    return out, g, S


# ---- the multiplier iteration documented in engine_util_solve.c (mechanism replica) -----------------------------------------
def _mj_chol_pivots(Mx, mindiag):
    """pivots (before the square root) of mju_cholFactor's row-wise factorisation; rank = number of pivots >= mindiag"""
    n = Mx.shape[0]
    Lm = np.zeros((n, n))
    piv = np.zeros(n)
    rank = n
    for j in range(n):
        t = Mx[j, j] - float(Lm[j, :j] @ Lm[j, :j])
        piv[j] = t
        if t < mindiag:
            t = mindiag
            rank -= 1
            Lm[j, j] = np.sqrt(t)
        else:
            Lm[j, j] = np.sqrt(t)
            for i in range(j + 1, n):
                Lm[i, j] = (Mx[i, j] - float(Lm[i, :j] @ Lm[j, :j])) / Lm[j, j]
    return piv, rank


def qcqp_newton_replica(A, b, mu, r, maxiter=20, thr=1e-10):
    """Newton iteration on the multiplier la of  min 1/2 x'Ax + b'x, sum (x/mu)^2 <= r^2  exactly as the comments of
    mju_QCQP2/3/N describe it: scale by mu, la = 0, repeat <= 20 times {SPD test det(A+la) < 1e-10 (n <= 3) or a Cholesky pivot
    < 1e-10 (n > 3) -> return 0; v = -(A+la)^-1 b; stop if |v|^2 - r^2 < 1e-10; delta = -val/deriv; stop if delta < 1e-10;
    la += delta}.  -> x, active (la != 0), info(exit, la, iters, spd_measure, la_of_x)"""
    mu = np.asarray(mu, dtype=float)
    n = len(mu)
    As = np.asarray(A, dtype=float) * np.outer(mu, mu)
    bs = np.asarray(b, dtype=float) * mu
    la = 0.0
    la_x = 0.0
    v = np.zeros(n)
    I = np.eye(n)
    info = dict(exit="iteration-cap", spd_measure=None)
    it = 0
    for it in range(maxiter):
        Ala = As + la * I
        if n <= 3:
            meas = float(np.linalg.det(Ala)) if n > 1 else float(Ala[0, 0])
            bad = meas < thr
        else:
            piv, rank = _mj_chol_pivots(Ala, thr)
            meas = float(piv.min())
            bad = rank < n
        if it == 0:
            info["spd_measure"] = meas
        if bad:
            info.update(exit="not-spd-abs-1e-10", la=la, iters=it, la_of_x=None)
            return np.zeros(n), 0, info
        v = -np.linalg.solve(Ala, bs)
        la_x = la
        val = float(v @ v) - r * r
        if val < thr:
            info["exit"] = "val<1e-10"
            break
        deriv = -2.0 * float(v @ np.linalg.solve(Ala, v))
        delta = -val / deriv
        if delta < thr:
            info["exit"] = "delta<1e-10"
            break
        la += delta
    info.update(la=la, iters=it + 1, la_of_x=la_x)
    return v * mu, int(la != 0), info


# ---- solPGS' elliptic block update (engine_solver.c, "elliptic cone constraint") ---------------------------------------
def project_ellipsoid(v, normal, mu):
    s = float(np.sum((v / mu) ** 2))
    return v * np.sqrt(normal * normal / max(MINVAL, s))


def engine_block_update(A, res, f, mu, qcqp):
    """one solPGS update of an elliptic block at force f (block residual res = (AR f + b)_B, A = AR_BB).

    qcqp(Ac, bc, mu, r) -> (v, active): the slice solver.  Steps: force[0] < mjMINVAL -> scalar normal update, clamp, zero
    friction; else exact ray step (scaling of the whole block force).  Then bc = res_T - Ac f_T(old) + A_T0 (f_0 - f_0(old)),
    v = qcqp(..., r = f_0); if active: v rescaled onto the ellipsoid; change = 1/2 d'Ad + d'res > 1e-10 -> old force restored.
    -> new force, info(ray_x, normal_update, active, v_raw, r, Ac, bc, change, restored)"""
    A, res, old, mu = (np.array(v, dtype=float) for v in (A, res, f, mu))
    f = old.copy()
    dim = len(f)
    info = dict(ray_x=None, normal_update=False, active=None, v_raw=None)
    if f[0] < MINVAL:
        info["normal_update"] = True
        f[0] = max(f[0] - res[0] / A[0, 0], 0.0)
        f[1:] = 0
    else:
        v = f.copy()
        denom = float(v @ (A @ v))
        if denom >= MINVAL:
            x = -float(v @ res) / denom
            if f[0] + x * v[0] < 0:
                x = -v[0] / f[0]
            f = f + x * v
            info["ray_x"] = x
    Ac = np.ascontiguousarray(A[1:, 1:])
    bc = res[1:] - Ac @ old[1:] + A[1:, 0] * (f[0] - old[0])
    info.update(r=float(f[0]), Ac=Ac, bc=bc)
    if f[0] < MINVAL:
        f[1:] = 0
    else:
        v, active = qcqp(Ac, np.ascontiguousarray(bc), mu, float(f[0]))
        v = np.array(v, dtype=float)
        info.update(active=int(active), v_raw=v.copy())
        if active:
            v = project_ellipsoid(v, f[0], mu)
        f[1:] = v
    d = f - old
    change = 0.5 * float(d @ (A @ d)) + float(d @ res)
    info["change"] = change
    info["restored"] = bool(change > 1e-10)
    if info["restored"]:
        f = old.copy()
    return f, info


def exact_qcqp(Ac, bc, mu, r):
    x, lam = slice_opt(Ac, bc, mu, r)
    return x, int(lam > 0)


# ---- mechanism of a non-optimal elliptic block ------------------------------------------------------------------------------
APEX, SMALLDET, UNCONV = "apex-stall", "qcqp-zero-friction-small-det", "qcqp-unconverged-iterate"
PRIORITY = (APEX, SMALLDET, UNCONV)


def classify_cone_block(rec, f_blk, w_blk, engine_qcqp, tol_cost, tol_move):
    """rec: block_report entry of a cone block that is NOT block-optimal; f_blk the engine's force; w_blk = sqrt(R_B);
    engine_qcqp(Ac, bc, mu, r) -> (v, active) calls the engine's own mju_QCQP2/3/N; tol_cost: absolute block-cost
    tolerance; tol_move: absolute whitened-force tolerance.

    -> (mechanism | None, evidence dict).  A mechanism is returned only if its defining engine behaviour is OBSERVED:
    apex-stall: force exactly 0, res_0 >= 0, res outside K*, and the engine's update rule leaves 0.
    qcqp-zero-friction-small-det: f_0 > 0, the engine update (with the engine's QCQP) does not move the block, the engine's QCQP
       returned 'inactive' + exactly zero friction, the SPD measure the source tests (det / Cholesky pivot of the mu-scaled
       tangential block) is below the absolute 1e-10 although the block is SPD relative to its own scale, and the exact
       slice optimum has non-zero friction and a lower slice cost.
    qcqp-unconverged-iterate: f_0 > 0, the engine update does not move the block, the engine's QCQP output is reproduced by the
       20-step unsafeguarded Newton replica which stopped (cap / absolute delta or val test) at a multiplier BELOW the root
       (output outside the ellipsoid, or inside-flag with an infeasible point), and the exact slice optimum (same A, b, r)
       has a lower slice cost than the engine's rescaled output."""
    A, res, mu = rec["A"], rec["res"], rec["mu"]
    f = np.asarray(f_blk, dtype=float)
    ev = dict(rows=[int(rec["rows"][0]), int(rec["rows"][-1])], dim=int(len(f)), mu=mu.tolist(), force=f.tolist(), residual=res.tolist(),
              block_cost_decrease=float(rec["decrease"]), exact_block_optimum=rec["opt"].tolist(), AR_block=A.tolist())
    gT = float(np.sqrt(np.sum((mu * res[1:]) ** 2)))
    if not f.any():
        new, inf = engine_block_update(A, res, f, mu, engine_qcqp)
        ev.update(res_normal=float(res[0]), res_tangential_scaled=gT, engine_update_result=new.tolist())
        if res[0] >= 0 and res[0] < gT and not new.any():
            return APEX, ev
        return None, ev
    if not f[0] > 0:
        return None, ev
    new, inf = engine_block_update(A, res, f, mu, engine_qcqp)
    xnew, xinf = engine_block_update(A, res, f, mu, exact_qcqp)
    move = float(np.linalg.norm((new - f) * w_blk))
    xmove = float(np.linalg.norm((xnew - f) * w_blk))
    Ac, bc, r = inf["Ac"], inf["bc"], inf["r"]
    n = dim1 = len(mu)
    As = Ac * np.outer(mu, mu)
    dg = np.sqrt(np.diag(As))
    eig_rel = float(np.linalg.eigvalsh(As / np.outer(dg, dg)).min()) if (dg > 0).all() else 0.0
    xs, lam_star = slice_opt(Ac, bc, mu, r)
    v_raw = inf["v_raw"] if inf["v_raw"] is not None else np.zeros(n)
    v_used = project_ellipsoid(v_raw, r, mu) if inf["active"] else v_raw
    slice_gain = quad(Ac, bc, v_used) - quad(Ac, bc, xs)
    rep, rep_active, rinf = qcqp_newton_replica(Ac, bc, mu, r)
    sc = float(np.linalg.norm(v_raw / mu)) + 1e-300
    rep_err = float(np.linalg.norm((rep - v_raw) / mu)) / (sc if v_raw.any() else 1.0)
    ratio = float(np.linalg.norm(v_raw / mu)) / r if r > 0 else np.inf
    ev.update(engine_update_move_w=move, exact_alternation_move_w=xmove, ray_step_x=inf["ray_x"], restored_by_costChange=inf["restored"],
              engine_update_cost_change=inf["change"], qcqp_r=r, qcqp_return=inf["active"], qcqp_output=v_raw.tolist(),
              qcqp_output_norm_over_r=ratio, exact_slice_optimum=xs.tolist(), exact_slice_multiplier=lam_star,
              slice_cost_gain_of_exact=slice_gain, spd_measure_abs=rinf["spd_measure"], min_eig_jacobi_scaled=eig_rel,
              replica_exit=rinf["exit"], replica_iters=rinf["iters"], replica_la=rinf["la"], replica_la_of_output=rinf["la_of_x"],
              replica_vs_engine_rel=rep_err, replica_return=rep_active, Ac=Ac.tolist(), bc=bc.tolist())
    eff_change = 0.0 if inf["restored"] else inf["change"]
    fixed = move <= tol_move and eff_change >= -tol_cost
    ev.update(engine_fixed_point=bool(fixed), exact_alternation_cost_change=xinf["change"], move_tolerance_w=tol_move, cost_tolerance=tol_cost)
    if not fixed:
        return None, ev
    if inf["active"] == 0 and not v_raw.any() and rinf["exit"] == "not-spd-abs-1e-10" and rinf["spd_measure"] < 1e-10 \
            and eig_rel > 1e-8 and np.any(xs) and slice_gain > tol_cost:
        return SMALLDET, ev
    unconverged = rinf["exit"] in ("iteration-cap", "delta<1e-10", "val<1e-10") and rinf["la_of_x"] is not None \
        and rinf["la_of_x"] < lam_star * (1 - 1e-6) and ratio > 1 + 1e-6
    if v_raw.any() and rep_err <= 1e-6 and rep_active == inf["active"] and unconverged and slice_gain > tol_cost:
        return UNCONV, ev
    return None, ev


# ---- self test ----------------------------------------------------------------------------------------------------------------
def self_test(seed=0, n=40):
    """exact solvers against KKT conditions and scipy SLSQP; Newton replica == exact slice solution whenever it converges;
    block update with the exact slice solver has no non-optimal fixed point.  Returns max errors (raises on failure)."""
    rng = np.random.default_rng(seed)
    e_kkt = e_slsqp = e_rep = e_slice = 0.0
    n_zone = [0, 0, 0]
    n_slsqp = n_alt = 0
    for k in range(n):
        dim = int(rng.choice([3, 4, 6]))
        mu = np.exp(rng.uniform(np.log(1e-4 if k % 2 else 0.05), np.log(2.0), size=dim - 1))
        B = rng.normal(size=(dim, dim + 2))
        A = B @ B.T + 0.05 * np.eye(dim)
        sc = np.exp(rng.uniform(-2, 2, size=dim))
        A *= np.outer(sc, sc)
        c = rng.normal(size=dim) * sc * np.exp(rng.uniform(-1, 3))
        if k % 5 == 0:
            c[0] = abs(c[0]) + np.linalg.norm(mu * c[1:]) * 1.5        # apex optimal
        x = cone_block_opt(A, c, mu)
        g = A @ x + c
        S = np.linalg.norm(x) + np.linalg.norm(g) + 1e-300
        e_kkt = max(e_kkt, cone_kkt(x, g, np.ones(dim), mu, S))
        n_zone[0 if not x.any() else (1 if x[0] > np.sqrt(np.sum((x[1:] / mu) ** 2)) * (1 + 1e-9) else 2)] += 1
        if k % 2 == 0:                                                   # SLSQP is only reliable for moderate scaling
            D = np.concatenate([[1.0], mu])
            As, cs = A * np.outer(D, D), c * D
            best = np.inf
            for s in range(4):
                y0 = np.abs(rng.normal(size=dim))
                y0[0] += np.linalg.norm(y0[1:])
                rs = optimize.minimize(lambda y: 0.5 * y @ As @ y + cs @ y, y0, jac=lambda y: As @ y + cs, method="SLSQP",
                                       constraints=[{"type": "ineq", "fun": lambda y: y[0] - np.sqrt(np.sum(y[1:] ** 2) + 1e-30)}],
                                       options={"ftol": 1e-14, "maxiter": 500})
                if rs.x[0] >= np.linalg.norm(rs.x[1:]) * (1 - 1e-9):
                    best = min(best, float(rs.fun))
            if np.isfinite(best):
                n_slsqp += 1
                e_slsqp = max(e_slsqp, (quad(A, c, x) - best) / (abs(best) + 1e-12 * np.sum(np.abs(c)) + 1e-300))
        # slice
        r = float(np.exp(rng.uniform(-3, 3)))
        At, gt = A[1:, 1:], c[1:]
        xs, lam = slice_opt(At, gt, mu, r)
        resid = (At * np.outer(mu, mu) + lam * np.eye(dim - 1)) @ (xs / mu) + gt * mu
        e_slice = max(e_slice, float(np.linalg.norm(resid)) / (np.linalg.norm(gt * mu) + 1e-300),
                      max(0.0, np.linalg.norm(xs / mu) / r - 1))
        rep, act, inf = qcqp_newton_replica(At, gt, mu, r)
        if inf["exit"] == "val<1e-10" and r > 1e-2 and np.linalg.norm(xs / mu) > 1e-3:
            e_rep = max(e_rep, float(np.linalg.norm((rep - xs) / mu)) / (np.linalg.norm(xs / mu) + 1e-300))
        # exact alternation: iterate to a fixed point from a feasible start and compare with the block optimum
        if k < 12 and x.any():
            f = x * np.exp(rng.uniform(-0.5, 0.5, size=dim))
            f[0] = max(f[0], 1.01 * np.sqrt(np.sum((f[1:] / mu) ** 2)))
            for _ in range(3000):
                f, _i = engine_block_update(A, A @ f + c, f, mu, exact_qcqp)
            if f[0] > 0:       # (the apex is the one place where solPGS' rule can stop: only the normal update is tried there)
                n_alt += 1
                assert quad(A, c, f) - quad(A, c, x) <= 1e-6 * (abs(quad(A, c, x)) + 1e-300), (quad(A, c, f), quad(A, c, x))
    assert e_kkt < 1e-9, e_kkt
    assert e_slsqp < 1e-7, e_slsqp
    assert e_slice < 1e-9, e_slice
    assert e_rep < 1e-4, e_rep
    assert min(n_zone) > 0 and n_slsqp >= n // 4 and n_alt >= 3, (n_zone, n_slsqp, n_alt)
    return {"cone_block_kkt": e_kkt, "cone_block_vs_slsqp": e_slsqp, "slice_kkt": e_slice, "newton_replica_vs_exact_when_converged": e_rep}


if __name__ == "__main__":
    print(self_test())
