"""Reference for convex shapes: support functions, point signed distances, closest distance and penetration depth with
optimality certificates.  Used by C13 (local contact checks) and C15 (GJK/EPA oracle).

Conventions (from the documentation of the geom types, XMLreference "body-geom-size"): sphere size[0]=radius; capsule
radius,size[1]=half length of the cylinder part along local z; ellipsoid three semi-axes; cylinder radius, half height
along local z; box three half extents; mesh = convex hull of its vertices.  A shape has a world position `pos` and a
rotation matrix `R` whose columns are the local axes expressed in world coordinates.

Nothing here mirrors the engine's algorithms:
 * distance(A, B): a textbook GJK with a brute-force Johnson sub-algorithm (all sub-simplices solved by linear algebra);
   whatever it returns is *certified*: `upper` = |x - y| for explicit points x in A and y in B (convex combinations of
   support points), `lower` = separation along a unit normal n, i.e. min_B <n,b> - max_A <n,a>, evaluated with the
   closed-form support functions.  lower <= true distance <= upper always holds, independent of the algorithm.
 * penetration(A, B): depth = min over unit n of the width w(n) = h_A(n) + h_B(-n).  For pairs of polytopes (incl. the
   degenerate cores point/segment of sphere/capsule) the minimum is attained on a finite candidate set (facet normals and
   edge x edge directions of the Minkowski difference) and the result is exact; otherwise a dense direction sample with
   local refinement gives an upper bound (every evaluated direction is a certificate that depth <= w(n)).
"""
import itertools
import math

import numpy as np

PLANE, HFIELD, SPHERE, CAPSULE, ELLIPSOID, CYLINDER, BOX, MESH = range(8)
NAMES = {PLANE: "plane", SPHERE: "sphere", CAPSULE: "capsule", ELLIPSOID: "ellipsoid", CYLINDER: "cylinder", BOX: "box", MESH: "mesh"}
KINDS = {v: k for k, v in NAMES.items()}


def _unit(v):
    n = math.sqrt(float(v @ v))
    return v / n if n > 0 else v


class Shape:
    def __init__(self, kind, size, pos, R, verts=None):
        self.kind = KINDS[kind] if isinstance(kind, str) else int(kind)
        self.size = np.array(size, dtype=float).reshape(-1)
        self.pos = np.array(pos, dtype=float).reshape(3)
        self.R = np.array(R, dtype=float).reshape(3, 3)
        self.verts = None if verts is None else np.array(verts, dtype=float).reshape(-1, 3)    # local coordinates
        self._hull = None
        if self.kind == MESH:
            self.W = self.pos + self.verts @ self.R.T

    # ---- basic geometry ------------------------------------------------------------------------------------------
    @property
    def axis(self):
        return self.R[:, 2]

    def radius(self):
        """radius of the rounding ball for sphere/capsule (their 'core' is a point/segment)"""
        return float(self.size[0]) if self.kind in (SPHERE, CAPSULE) else 0.0

    def extent(self):
        """radius of a bounding sphere around pos"""
        k, s = self.kind, self.size
        if k == SPHERE:
            return float(s[0])
        if k == CAPSULE:
            return float(s[0] + s[1])
        if k == ELLIPSOID:
            return float(max(s[:3]))
        if k == CYLINDER:
            return float(math.hypot(s[0], s[1]))
        if k == BOX:
            return float(np.linalg.norm(s[:3]))
        if k == MESH:
            return float(np.linalg.norm(self.verts, axis=1).max())
        return 1.0

    def minsize(self):
        k, s = self.kind, self.size
        if k == SPHERE:
            return float(s[0])
        if k in (CAPSULE, CYLINDER):
            return float(min(s[0], s[1])) if s[1] > 0 else float(s[0])
        if k in (ELLIPSOID, BOX):
            return float(min(s[:3]))
        if k == MESH:
            return float(np.ptp(self.verts, axis=0).min() / 2)
        return 1.0

    def local(self, p):
        return (np.asarray(p, dtype=float) - self.pos) @ self.R

    def world(self, q):
        return self.pos + self.R @ np.asarray(q, dtype=float)

    # ---- support -------------------------------------------------------------------------------------------------
    def h_many(self, D):
        """support function h(d) = max_{x in shape} <d, x> for the rows of D (need not be unit)"""
        D = np.atleast_2d(np.asarray(D, dtype=float))
        k, s = self.kind, self.size
        Dl = D @ self.R
        base = D @ self.pos
        if k == SPHERE:
            return base + s[0] * np.linalg.norm(D, axis=1)
        if k == CAPSULE:
            return base + s[0] * np.linalg.norm(D, axis=1) + s[1] * np.abs(Dl[:, 2])
        if k == ELLIPSOID:
            return base + np.linalg.norm(Dl * s[:3], axis=1)
        if k == CYLINDER:
            return base + s[0] * np.hypot(Dl[:, 0], Dl[:, 1]) + s[1] * np.abs(Dl[:, 2])
        if k == BOX:
            return base + np.abs(Dl) @ s[:3]
        if k == MESH:
            return (D @ self.W.T).max(axis=1)
        raise ValueError("no support function for kind %r" % k)

    def h(self, d):
        return float(self.h_many(np.asarray(d, dtype=float)[None, :])[0])

    def support(self, d, core=False):
        """a point of the shape (of its core if core=True) maximising <d, x>"""
        d = np.asarray(d, dtype=float)
        k, s = self.kind, self.size
        dl = d @ self.R
        if k == SPHERE:
            return self.pos.copy() if core else self.pos + s[0] * _unit(d)
        if k == CAPSULE:
            c = self.pos + self.axis * (s[1] if dl[2] >= 0 else -s[1])
            return c if core else c + s[0] * _unit(d)
        if k == ELLIPSOID:
            v = dl * s[:3]
            n = math.sqrt(float(v @ v))
            if n == 0:
                return self.pos.copy()
            return self.world(v * s[:3] / n)
        if k == CYLINDER:
            r = math.hypot(dl[0], dl[1])
            q = np.array([dl[0] / r * s[0] if r > 0 else 0.0, dl[1] / r * s[0] if r > 0 else 0.0, s[1] if dl[2] >= 0 else -s[1]])
            return self.world(q)
        if k == BOX:
            return self.world(np.where(dl >= 0, s[:3], -s[:3]))
        if k == MESH:
            return self.W[int(np.argmax(self.W @ d))].copy()
        raise ValueError("no support for kind %r" % k)

    # ---- polytope data -------------------------------------------------------------------------------------------
    def is_polytope_core(self):
        return self.kind in (SPHERE, CAPSULE, BOX, MESH)

    def facets_edges(self):
        """(unit facet normals (k,3), edge directions (e,3)) of the core polytope, in world coordinates"""
        k = self.kind
        if k == SPHERE:
            return np.zeros((0, 3)), np.zeros((0, 3))
        if k == CAPSULE:
            return np.zeros((0, 3)), self.axis[None, :].copy()
        if k == BOX:
            return self.R.T.copy(), self.R.T.copy()
        if k == MESH:
            if self._hull is None:
                from scipy.spatial import ConvexHull
                hull = ConvexHull(self.verts)
                N = hull.equations[:, :3]
                # unique facet normals
                key = np.round(N, 9)
                _, idx = np.unique(key, axis=0, return_index=True)
                E = set()
                for tri in hull.simplices:
                    for a, b in ((0, 1), (1, 2), (2, 0)):
                        E.add((min(tri[a], tri[b]), max(tri[a], tri[b])))
                ed = np.array([_unit(self.verts[b] - self.verts[a]) for a, b in sorted(E)])
                self._hull = (N[np.sort(idx)], ed, hull.equations.copy())
            N, ed, _ = self._hull
            return N @ self.R.T, ed @ self.R.T
        raise ValueError("not a polytope")

    # ---- signed distance of a point --------------------------------------------------------------------------------
    def sd_point(self, p):
        """signed distance from the point p to the surface (negative inside)"""
        k, s = self.kind, self.size
        q = self.local(p)
        if k == PLANE:
            return float(q[2])
        if k == SPHERE:
            return float(np.linalg.norm(q) - s[0])
        if k == CAPSULE:
            z = min(max(q[2], -s[1]), s[1])
            return float(np.linalg.norm(q - np.array([0, 0, z])) - s[0])
        if k == BOX:
            e = np.abs(q) - s[:3]
            out = np.maximum(e, 0)
            if out.any():
                return float(np.linalg.norm(out))
            return float(e.max())
        if k == CYLINDER:
            dr, dz = math.hypot(q[0], q[1]) - s[0], abs(q[2]) - s[1]
            if dr > 0 or dz > 0:
                return float(math.hypot(max(dr, 0), max(dz, 0)))
            return float(max(dr, dz))
        if k == ELLIPSOID:
            return ellipsoid_sd(q, s[:3])
        if k == MESH:
            self.facets_edges()
            eq = self._hull[2]
            v = eq[:, :3] @ q + eq[:, 3]
            if v.max() <= 0:
                return float(v.max())
            r = distance(Shape(SPHERE, [0.0], p, np.eye(3)), self)
            return float(r["upper"])
        raise ValueError(k)


def ellipsoid_sd(q, s):
    """signed distance from local point q to the ellipsoid with semi-axes s (closest point through the secular equation)"""
    from scipy.optimize import brentq
    q = np.abs(np.asarray(q, dtype=float))
    s = np.asarray(s, dtype=float)
    f0 = float(((q / s) ** 2).sum()) - 1.0
    if f0 == 0:
        return 0.0
    # closest point y_i = s_i^2 q_i / (t + s_i^2); g(t) = sum (s_i q_i / (t + s_i^2))^2 - 1 = 0, t > -min s^2
    g = lambda t: float(((s * q / (t + s * s)) ** 2).sum()) - 1.0
    if f0 > 0:
        lo, hi = 0.0, float(np.linalg.norm(s * q)) + 1.0
        while g(hi) > 0:
            hi *= 2
        try:
            t = brentq(g, lo, hi, xtol=1e-15 * max(hi, 1), rtol=1e-15, maxiter=300)
        except ValueError:          # f0 positive only by rounding: the point is on the surface to first order
            grad = 2 * q / (s * s)
            return float(f0 / max(np.linalg.norm(grad), 1e-300))
        y = s * s * q / (t + s * s)
        return float(np.linalg.norm(q - y))
    # inside: the nearest surface point; candidates are the roots of g in (-smin^2, 0) plus the axis-degenerate cases, so
    # use a robust direct minimisation over the surface as a fallback-free alternative: depth = min_n (h(n) - <n,q>)
    return -float(_min_width_point_in_ellipsoid(q, s))


def _min_width_point_in_ellipsoid(q, s):
    D = fib_sphere(4000)
    w = np.linalg.norm(D * s, axis=1) - D @ q
    best = D[np.argsort(w)[:4]]
    from scipy.optimize import minimize
    val = float(w.min())
    for d0 in best:
        f = lambda x: float(np.linalg.norm(_unit(x) * s) - _unit(x) @ q)
        r = minimize(f, d0, method="BFGS", options={"gtol": 1e-13})
        val = min(val, float(r.fun))
    return val


_FIB = {}


def fib_sphere(n):
    if n not in _FIB:
        i = np.arange(n) + 0.5
        phi = np.arccos(1 - 2 * i / n)
        th = math.pi * (1 + 5 ** 0.5) * i
        _FIB[n] = np.stack([np.cos(th) * np.sin(phi), np.sin(th) * np.sin(phi), np.cos(phi)], axis=1)
    return _FIB[n]


# ---- pair functions ---------------------------------------------------------------------------------------------------
def width(A, B, n):
    """w(n) = h_A(n) + h_B(-n): overlap of the two shapes along n (n from A to B); separation along n is -w(n)"""
    n = np.asarray(n, dtype=float)
    return A.h(n) + B.h(-n)


def width_many(A, B, N):
    return A.h_many(N) + B.h_many(-N)


def sep(A, B, n):
    """separation of B from A along the unit vector n (<= signed distance for every n, = for the optimal n)"""
    return -width(A, B, n)


def _closest_in_simplex(P):
    """min-norm point of conv(P) (rows), brute force over sub-simplices; returns (v, lambdas over rows)"""
    m = len(P)
    best = None
    for r in range(1, m + 1):
        for S in itertools.combinations(range(m), r):
            Q = P[list(S)]
            if r == 1:
                lam = np.array([1.0])
            else:
                # minimise |sum lam_i q_i|^2 with sum lam = 1
                G = Q @ Q.T
                K = np.zeros((r + 1, r + 1))
                K[:r, :r] = G
                K[:r, r] = 1
                K[r, :r] = 1
                rhs = np.zeros(r + 1)
                rhs[r] = 1
                try:
                    sol = np.linalg.solve(K, rhs)
                except np.linalg.LinAlgError:
                    continue
                lam = sol[:r]
                if not np.isfinite(lam).all() or (lam < -1e-12).any():
                    continue
                lam = np.maximum(lam, 0)
                lam /= lam.sum()
            v = lam @ Q
            nv = float(v @ v)
            if best is None or nv < best[0]:
                full = np.zeros(m)
                full[list(S)] = lam
                best = (nv, v, full)
    return best[1], best[2]


def distance(A, B, rtol=1e-13, itmax=300):
    """closest distance between two convex shapes, with certificate.

    returns dict(upper, lower, x, y, n, iters): x in A, y in B with |x-y| = upper; n unit (from A to B) with
    sep(A,B,n) = lower.  Intersecting shapes give upper = 0 (lower <= 0)."""
    rA, rB = A.radius(), B.radius()
    scale = A.extent() + B.extent() + float(np.linalg.norm(A.pos - B.pos))
    d0 = B.pos - A.pos
    if float(d0 @ d0) == 0:
        d0 = np.array([1.0, 0, 0])
    a, b = A.support(d0, core=True), B.support(-d0, core=True)
    pts = [(b - a, a, b)]
    v = b - a            # points of the Minkowski difference B - A (core shapes)
    lam = np.array([1.0])
    lower = -np.inf
    nbest = _unit(d0)
    it = 0
    for it in range(itmax):
        nv = math.sqrt(float(v @ v))
        if nv <= 1e-15 * scale:
            break
        n = v / nv                   # from A towards B
        a, b = A.support(n, core=True), B.support(-n, core=True)
        w = b - a
        lo = float(n @ w)
        if lo > lower:
            lower, nbest = lo, n
        if nv - lower <= rtol * scale:
            break
        P = np.array([p[0] for p in pts] + [w])
        pts.append((w, a, b))
        v, lam = _closest_in_simplex(P)
        keep = [i for i in range(len(pts)) if lam[i] > 0]
        pts = [pts[i] for i in keep]
        lam = lam[keep]
    x = sum(l * p[1] for l, p in zip(lam, pts))
    y = sum(l * p[2] for l, p in zip(lam, pts))
    dcore = float(np.linalg.norm(y - x))
    if dcore > 0:
        n = (y - x) / dcore
    else:
        n = nbest
    if dcore <= 1e-12 * scale:        # cores intersect (numerically): no witness direction from the points
        dcore, n = 0.0, nbest
    if dcore > rA + rB:
        x, y = x + rA * n, y - rB * n
        upper = dcore - rA - rB
    else:
        upper = 0.0
    lo_n = float(n @ (B.support(-n, core=True) - A.support(n, core=True)))
    if lo_n >= lower:
        lower, nbest = lo_n, n
    return {"upper": upper, "lower": lower - rA - rB, "x": x, "y": y, "n": nbest, "iters": it, "core_dist": dcore}


def penetration(A, B, nsample=3000, refine=6):
    """penetration depth (min translation separating the shapes) as min over unit n of width(A,B,n).

    returns dict(depth, n, exact): n points from A to B.  exact=True when both cores are polytopes (finite candidate set);
    otherwise depth is an upper bound of the true depth (dense sample + local refinement)."""
    if A.is_polytope_core() and B.is_polytope_core():
        FA, EA = A.facets_edges()
        FB, EB = B.facets_edges()
        C = [FA, FB]
        if len(EA) and len(EB):
            X = np.cross(EA[:, None, :], EB[None, :, :]).reshape(-1, 3)
            nrm = np.linalg.norm(X, axis=1)
            X = X[nrm > 1e-9] / nrm[nrm > 1e-9, None]
            C.append(X)
        C = np.concatenate([c for c in C if len(c)], axis=0) if any(len(c) for c in C) else np.zeros((0, 3))
        if len(C) == 0:       # two points/parallel segments: the direction between the cores
            r = distance(A, B)
            return {"depth": A.radius() + B.radius() - r["core_dist"], "n": r["n"], "exact": True}
        C = np.concatenate([C, -C], axis=0)
        w = width_many(A, B, C)
        # sphere/capsule vs polytope: if the core lies outside the other polytope the optimum is the core distance direction
        i = int(np.argmin(w))
        depth, n = float(w[i]), C[i]
        if A.radius() + B.radius() > 0:
            Ac = Shape(A.kind, np.concatenate([[0.0], A.size[1:]]), A.pos, A.R, A.verts) if A.radius() else A
            Bc = Shape(B.kind, np.concatenate([[0.0], B.size[1:]]), B.pos, B.R, B.verts) if B.radius() else B
            r = distance(Ac, Bc)
            if r["upper"] > 0:        # cores separated: depth = radii - core distance, attained along the witness direction
                return {"depth": A.radius() + B.radius() - r["upper"], "n": r["n"], "exact": r["upper"] - r["lower"] <= 1e-9 * (A.extent() + B.extent()),
                        "gap": r["upper"] - r["lower"]}
        return {"depth": depth, "n": n, "exact": True}
    D = fib_sphere(nsample)
    w = width_many(A, B, D)
    order = np.argsort(w)[:refine]
    best, nb = float(w[order[0]]), D[order[0]]
    from scipy.optimize import minimize
    f = lambda x: width(A, B, _unit(x))
    for i in order:
        for method in ("BFGS", "Nelder-Mead"):
            try:
                r = minimize(f, D[i], method=method, options=({"gtol": 1e-12} if method == "BFGS" else {"xatol": 1e-12, "fatol": 1e-15, "maxiter": 800}))
            except Exception:
                continue
            if r.fun < best:
                best, nb = float(r.fun), _unit(r.x)
    return {"depth": best, "n": nb, "exact": False}


def penetration_certified(A, B, hints=(), eps=1e-9, itmax=600, nstart=48):
    """certified two-sided bracket of the penetration depth of two INTERSECTING convex shapes.

    depth = min over unit n of w(n) = h_M(n), M = A - B (Minkowski difference, contains the origin).
      upper: w(n) for any n is an upper bound (the smallest value met is kept, `n` realises it);
      lower: the convex hull P of support points of M is inside M, so the distance from the origin to the boundary of P (smallest
             facet offset of P, facets from qhull) is a lower bound of the depth.
    The polytope is refined with the support point along the normal of its nearest facet (the expanding-polytope iteration, but with
    an exact convex hull at every step instead of a horizon heuristic) until upper - lower <= eps.
    returns dict(lower, upper, n, iters, certified)"""
    from scipy.spatial import ConvexHull, QhullError
    sup = lambda n: A.support(n) - B.support(-n)
    D = [d for d in fib_sphere(nstart)] + [np.eye(3)[i] * sg for i in range(3) for sg in (1.0, -1.0)]
    for h in hints:
        h = np.asarray(h, dtype=float)
        nh = float(np.linalg.norm(h))
        if nh > 0 and np.isfinite(h).all():
            D += [h / nh, -h / nh]
    D = np.array(D)
    w = width_many(A, B, D)
    i = int(np.argmin(w))
    upper, nbest = float(w[i]), D[i]
    pts = np.array([sup(d) for d in D])
    lower, it, ok = 0.0, 0, False
    try:
        hull = ConvexHull(pts, incremental=True)
        for it in range(itmax):
            eq = hull.equations
            off = -eq[:, 3]                        # distance of the origin from each facet plane (negative: origin outside)
            j = int(np.argmin(off))
            lower = max(float(off[j]), 0.0)
            n = eq[j, :3]
            wn = width(A, B, n)
            if wn < upper:
                upper, nbest = float(wn), n.copy()
            if upper - lower <= eps:
                ok = True
                break
            p = sup(n)
            if float(n @ p) - float(off[j]) <= 1e-15 * (1 + abs(float(off[j]))):
                # the support point is already on this facet: w(n) equals the facet offset, hence depth = lower exactly
                upper, nbest = min(upper, float(wn)), (n.copy() if wn <= upper else nbest)
                ok = upper - lower <= eps
                break
            hull.add_points(p[None, :])
        hull.close()
    except (QhullError, ValueError):
        ok = False
    return {"lower": lower, "upper": upper, "n": nbest, "iters": it, "certified": bool(ok and upper - lower <= eps)}


def signed_distance(A, B):
    """dict(dist_upper, dist_lower, n, exact, x, y): bracket of the signed distance (negative = -penetration depth).

    separated: lower <= d <= upper from distance(); penetrating: d >= -depth_ref always (upper bound certificate of the
    depth), and d = -depth_ref when exact."""
    r = distance(A, B)
    if r["upper"] > 0:
        return {"upper": r["upper"], "lower": max(r["lower"], 0.0) if r["lower"] > 0 else r["lower"], "n": r["n"], "exact": True,
                "x": r["x"], "y": r["y"], "separated": True}
    p = penetration(A, B)
    return {"upper": (-p["depth"]) if p["exact"] else 0.0, "lower": -p["depth"], "n": p["n"], "exact": p["exact"], "x": None, "y": None,
            "separated": False}


# ---- self test --------------------------------------------------------------------------------------------------------
def _rand_rot(rng):
    q = rng.normal(size=4)
    q /= np.linalg.norm(q)
    w, x, y, z = q
    return np.array([[1 - 2 * (y * y + z * z), 2 * (x * y - z * w), 2 * (x * z + y * w)],
                     [2 * (x * y + z * w), 1 - 2 * (x * x + z * z), 2 * (y * z - x * w)],
                     [2 * (x * z - y * w), 2 * (y * z + x * w), 1 - 2 * (x * x + y * y)]])


def random_shape(rng, kind, pos=None, scale=1.0):
    s = {SPHERE: [0.3], CAPSULE: [0.2, 0.4], ELLIPSOID: [0.3, 0.2, 0.5], CYLINDER: [0.25, 0.35], BOX: [0.3, 0.2, 0.4]}.get(kind)
    verts = None
    if kind == MESH:
        V = rng.normal(size=(14, 3))
        verts = V / np.linalg.norm(V, axis=1, keepdims=True) * [0.3, 0.25, 0.4] * scale
        s = [0, 0, 0]
    else:
        s = np.array(s) * scale * rng.uniform(0.5, 1.5, size=len(s))
    return Shape(kind, s, rng.normal(size=3) * 0.5 if pos is None else pos, _rand_rot(rng), verts)


def self_test(seed=0, n=60):
    """consistency of the reference with itself and with brute force; returns dict of max errors"""
    rng = np.random.default_rng(seed)
    out = {"support_vs_h": 0.0, "support_vs_samples": 0.0, "dist_gap": 0.0, "dist_vs_brute": 0.0, "pen_exact_vs_sampled": 0.0,
           "sd_point_vs_distance": 0.0}
    kinds = [SPHERE, CAPSULE, ELLIPSOID, CYLINDER, BOX, MESH]
    for t in range(n):
        ka, kb = kinds[t % 6], kinds[(t // 6) % 6]
        A = random_shape(rng, ka)
        B = random_shape(rng, kb, pos=A.pos + _unit(rng.normal(size=3)) * rng.uniform(0.05, 1.6))
        d = _unit(rng.normal(size=3))
        for S in (A, B):
            out["support_vs_h"] = max(out["support_vs_h"], abs(S.h(d) - d @ S.support(d)))
            # no sampled surface point beats the support value
            pts = np.array([S.support(x) for x in fib_sphere(200)])
            out["support_vs_samples"] = max(out["support_vs_samples"], float((pts @ d).max() - S.h(d)))
        r = distance(A, B)
        if r["upper"] > 0:
            out["dist_gap"] = max(out["dist_gap"], r["upper"] - r["lower"])
            # membership of the witnesses
            out["sd_point_vs_distance"] = max(out["sd_point_vs_distance"], abs(A.sd_point(r["x"])), abs(B.sd_point(r["y"])),
                                              abs(B.sd_point(r["x"]) - r["upper"]))
            # brute force over sampled surface points can only be larger
            pa = np.array([A.support(x) for x in fib_sphere(300)])
            pb = np.array([B.support(x) for x in fib_sphere(300)])
            bf = np.sqrt(((pa[:, None, :] - pb[None, :, :]) ** 2).sum(-1)).min()
            out["dist_vs_brute"] = max(out["dist_vs_brute"], r["upper"] - bf)
        else:
            p = penetration(A, B)
            w = width_many(A, B, fib_sphere(20000)).min()
            out["pen_exact_vs_sampled"] = max(out["pen_exact_vs_sampled"], p["depth"] - w)   # reference never worse than sampling
            # certified bracket: must close, must contain the exact depth of polytope pairs, its lower bound never exceeds any width
            cb = penetration_certified(A, B, eps=1e-7 * (A.extent() + B.extent()))
            viol = max(cb["lower"] - w, 0.0) + (0.0 if cb["certified"] else 1.0)
            if p["exact"]:
                viol += max(cb["lower"] - p["depth"], p["depth"] - cb["upper"], 0.0)
            out["pen_certified_bracket"] = max(out.get("pen_certified_bracket", 0.0), viol)
            if p["exact"]:      # ... and the sampled-and-refined search (forced) agrees with the exact candidate enumeration
                A2, B2 = A, B
                f = lambda x: width(A2, B2, _unit(x))
                from scipy.optimize import minimize
                D = fib_sphere(20000)
                ws = width_many(A, B, D)
                loc = min(float(minimize(f, D[i], method="Nelder-Mead", options={"xatol": 1e-12, "fatol": 1e-14, "maxiter": 2000}).fun)
                          for i in np.argsort(ws)[:5])
                out["pen_exact_vs_refined"] = max(out.get("pen_exact_vs_refined", 0.0), abs(p["depth"] - loc))
    return out


if __name__ == "__main__":
    print(self_test())
