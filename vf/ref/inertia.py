"""Closed-form reference for the log-Cholesky parameterisation of rigid-body inertia (Rucker & Wensing 2022).

Derived from the docstring of `pi_from_theta` (theta = [alpha, d1, d2, d3, s12, s23, s13, t1, t2, t3]; the pseudo-inertia
is J = U U^T with U = e^alpha * [[e^d1, s12, s13, t1], [0, e^d2, s23, t2], [0, 0, e^d3, t3], [0, 0, 0, 1]]) and the
textbook definitions (J = [[Sigma, h], [h^T, m]], Sigma = 1/2 tr(I) 1 - I, I = tr(Sigma) 1 - Sigma, parallel axis).
Nothing here calls the code under test.  Expanding the product by hand gives expressions WITHOUT cancellation:

    m = e^{2 alpha}                      h = m t                     com = t
    Sigma_com = m S S^T   with S = [[e^d1, s12, s13], [0, e^d2, s23], [0, 0, e^d3]]
    Sigma     = Sigma_com + m t t^T
    I_com     = tr(Sigma_com) 1 - Sigma_com          I_origin = tr(Sigma) 1 - Sigma
"""
import numpy as np


def from_theta(theta):
    th = np.asarray(theta, dtype=np.float64)
    alpha, d1, d2, d3, s12, s23, s13, t1, t2, t3 = [float(v) for v in th]
    m = float(np.exp(2.0 * alpha))
    t = np.array([t1, t2, t3])
    S = np.array([[np.exp(d1), s12, s13], [0.0, np.exp(d2), s23], [0.0, 0.0, np.exp(d3)]])
    sig_com = m * (S @ S.T)
    sig = sig_com + m * np.outer(t, t)
    J = np.zeros((4, 4))
    J[:3, :3] = sig
    J[:3, 3] = m * t
    J[3, :3] = m * t
    J[3, 3] = m
    return {
        "m": m, "h": m * t, "com": t.copy(), "Sigma": sig, "Sigma_com": sig_com, "J": J,
        "I_origin": np.trace(sig) * np.eye(3) - sig, "I_com": np.trace(sig_com) * np.eye(3) - sig_com,
    }


def scaled_spd(J):
    """(is_spd, condition number) of the Jacobi-scaled matrix D^-1/2 J D^-1/2 (congruence keeps definiteness, removes
    the e^{2d} row scaling that makes the raw matrix numerically singular)."""
    J = np.asarray(J, float)
    d = np.diag(J)
    if not np.all(np.isfinite(J)) or np.any(d <= 0):
        return False, float("inf")
    s = 1.0 / np.sqrt(d)
    Js = J * s[:, None] * s[None, :]
    Js = 0.5 * (Js + Js.T)
    w = np.linalg.eigvalsh(Js)
    try:
        np.linalg.cholesky(Js)
        ok = True
    except np.linalg.LinAlgError:
        ok = False
    cond = float(w[-1] / w[0]) if w[0] > 0 else float("inf")
    return bool(ok and w[0] > 0), cond


def triangle_margin(I):
    """min over the three triangle inequalities of (a + b - c) for the principal moments of the symmetric 3x3 I."""
    w = np.linalg.eigvalsh(0.5 * (np.asarray(I, float) + np.asarray(I, float).T))
    return float(min(w[0] + w[1] - w[2], w[0] + w[2] - w[1], w[1] + w[2] - w[0])), w


def quat_to_mat(q):
    w, x, y, z = [float(v) for v in q]
    n = w * w + x * x + y * y + z * z
    s = 2.0 / n
    return np.array([[1 - s * (y * y + z * z), s * (x * y - z * w), s * (x * z + y * w)],
                     [s * (x * y + z * w), 1 - s * (x * x + z * z), s * (y * z - x * w)],
                     [s * (x * z - y * w), s * (y * z + x * w), 1 - s * (x * x + y * y)]])


def selftest():
    rng = np.random.default_rng(0)
    for _ in range(200):
        th = rng.uniform(-2, 2, 10)
        r = from_theta(th)
        U = np.zeros((4, 4))
        U[0] = [np.exp(th[1]), th[4], th[6], th[7]]
        U[1] = [0, np.exp(th[2]), th[5], th[8]]
        U[2] = [0, 0, np.exp(th[3]), th[9]]
        U[3, 3] = 1
        U *= np.exp(th[0])
        assert np.allclose(U @ U.T, r["J"], rtol=1e-12, atol=0)
        c = r["com"]
        par = r["I_origin"] - r["m"] * (c @ c * np.eye(3) - np.outer(c, c))
        assert np.allclose(par, r["I_com"], rtol=1e-9, atol=1e-9 * np.abs(r["I_origin"]).max())
        assert scaled_spd(r["J"])[0] and triangle_margin(r["I_com"])[0] > 0
        q = rng.standard_normal(4)
        R = quat_to_mat(q)
        assert np.allclose(R @ R.T, np.eye(3), atol=1e-12) and abs(np.linalg.det(R) - 1) < 1e-12
    assert not scaled_spd(np.diag([1.0, 1.0, -1.0, 1.0]))[0]
    return True


if __name__ == "__main__":
    print("selftest", selftest())
