"""Closed-form signed distances for pairs of primitive shapes (reference for C13).

Every function takes two `convex.Shape` objects (A = first geom, B = second geom) and returns a dict
    dist    true signed distance (negative = minus the penetration depth, i.e. the smallest translation separating them)
    n       unit normal from A to B realising it, or None when it is not unique (coincident centres, symmetric ties)
    ncond   length that conditions the normal (the normal is trusted to ~ eps*extent/ncond)
    p1, p2  nearest surface points on A and B when unique (else None)
No iteration, no engine code: point/segment/box geometry only (box-box: exhaustive feature enumeration when separated,
15-axis separating-axis minimum translation when overlapping, both exact for boxes).  The generic, certified optimiser in
vf/ref/convex.py is used by the self-test to cross-check these formulas, not by the formulas.
"""
import math

import numpy as np

from .convex import BOX, CAPSULE, CYLINDER, ELLIPSOID, MESH, PLANE, SPHERE, Shape, _unit


def _res(dist, n=None, ncond=0.0, p1=None, p2=None):
    return {"dist": float(dist), "n": None if n is None else np.asarray(n, dtype=float), "ncond": float(ncond), "p1": p1, "p2": p2}


# ---- plane : anything convex -------------------------------------------------------------------------------------------
def plane_convex(A, B):
    """half-space z_local <= 0 of A against the convex shape B: distance is along the plane normal for every pose"""
    n = A.R[:, 2]
    lowest = -B.h(-n)                       # min over B of <n, x>
    d = lowest - float(n @ A.pos)
    return _res(d, n, 1.0)


# ---- point helpers ------------------------------------------------------------------------------------------------------
def _point_box(q, s):
    """signed distance of local point q to the box with half extents s, outward normal at the nearest surface point
    (None if tied), nearest surface point"""
    e = np.abs(q) - s
    out = np.maximum(e, 0)
    sg = np.where(q >= 0, 1.0, -1.0)
    if out.any():
        d = float(np.linalg.norm(out))
        n = sg * out / d
        return d, n, np.clip(q, -s, s), d
    i = int(np.argmax(e))
    srt = np.sort(e)
    tie = srt[-1] - srt[-2]
    n = np.zeros(3)
    n[i] = sg[i]
    c = q.copy()
    c[i] = sg[i] * s[i]
    tie = min(float(tie), 2 * abs(float(q[i])))          # other axes, and the opposite face of the same axis
    return float(e[i]), (n if tie > 0 else None), c, tie


def _point_cyl(q, r, hh):
    rho = math.hypot(q[0], q[1])
    dr, dz = rho - r, abs(q[2]) - hh
    sz = 1.0 if q[2] >= 0 else -1.0
    er = np.array([q[0] / rho, q[1] / rho, 0.0]) if rho > 0 else None
    if dr > 0 or dz > 0:
        a, b = max(dr, 0.0), max(dz, 0.0)
        d = math.hypot(a, b)
        n = (er * a if a > 0 else np.zeros(3)) + np.array([0, 0, sz * b])
        return d, n / d, d
    if dr > dz:
        return dr, er, min(dr - dz, rho)
    if dz > dr:
        return dz, np.array([0, 0, sz]), min(dz - dr, 2 * abs(q[2]))
    return dz, None, 0.0


def _seg_seg(p1, d1, p2, d2):
    """closest points of segments p1 + s d1, p2 + t d2, s,t in [-1,1] (exact, by cases); returns (s, t, dist, unique)"""
    best = None
    cands = []
    a, b, c = float(d1 @ d1), float(d1 @ d2), float(d2 @ d2)
    w = p1 - p2
    det = a * c - b * b
    if det > 1e-14 * a * c and a > 0 and c > 0:
        s = (b * float(d2 @ w) - c * float(d1 @ w)) / det
        t = (a * float(d2 @ w) - b * float(d1 @ w)) / det
        if abs(s) <= 1 and abs(t) <= 1:
            cands.append((s, t))
    for s in (-1.0, 1.0):
        t = float(d2 @ (p1 + s * d1 - p2)) / c if c > 0 else 0.0
        cands.append((s, min(max(t, -1.0), 1.0)))
    for t in (-1.0, 1.0):
        s = float(d1 @ (p2 + t * d2 - p1)) / a if a > 0 else 0.0
        cands.append((min(max(s, -1.0), 1.0), t))
    vals = [float(np.linalg.norm(p1 + s * d1 - p2 - t * d2)) for s, t in cands]
    i = int(np.argmin(vals))
    # uniqueness: another candidate with (nearly) the same distance at a different place (parallel segments)
    scale = math.sqrt(a) + math.sqrt(c)
    unique = all(abs(vals[j] - vals[i]) > 1e-9 * scale or (abs(cands[j][0] - cands[i][0]) < 1e-6 and abs(cands[j][1] - cands[i][1]) < 1e-6)
                 for j in range(len(cands)))
    return cands[i][0], cands[i][1], vals[i], unique


def _seg_box_dist(p, d, s):
    """min over t in [-1,1] of dist(p + t d, box(s)) (local coordinates); exact: the squared distance is a convex piecewise
    quadratic in t with breakpoints where a coordinate enters/leaves its slab.  returns (dist, t)"""
    br = {-1.0, 1.0}
    for i in range(3):
        if d[i] != 0:
            for sg in (-1, 1):
                t = (sg * s[i] - p[i]) / d[i]
                if -1 < t < 1:
                    br.add(float(t))
    br = sorted(br)

    def g(t):
        e = np.maximum(np.abs(p + t * d) - s, 0)
        return float(e @ e)
    best_t, best = br[0], g(br[0])
    for t in br[1:]:
        if g(t) < best:
            best_t, best = t, g(t)
    for t0, t1 in zip(br[:-1], br[1:]):
        tm = 0.5 * (t0 + t1)
        q = p + tm * d
        act = np.abs(q) > s                    # coordinates outside their slab on this interval
        if not act.any():
            return 0.0, tm
        sg = np.sign(q)
        # g(t) = sum_act (sg_i (p_i + t d_i) - s_i)^2
        a = float((d[act] ** 2).sum())
        b = float((sg[act] * d[act] * (sg[act] * p[act] - s[act])).sum())
        if a > 0:
            t = min(max(-b / a, t0), t1)
            if g(t) < best:
                best_t, best = t, g(t)
    return math.sqrt(best), best_t


# ---- sphere pairs ---------------------------------------------------------------------------------------------------------
def sphere_sphere(A, B):
    v = B.pos - A.pos
    D = float(np.linalg.norm(v))
    return _res(D - A.size[0] - B.size[0], v / D if D > 0 else None, D)


def sphere_capsule(A, B):
    z = float((A.pos - B.pos) @ B.axis)
    c = B.pos + B.axis * min(max(z, -B.size[1]), B.size[1])
    v = c - A.pos
    D = float(np.linalg.norm(v))
    return _res(D - A.size[0] - B.size[0], v / D if D > 0 else None, D)


def sphere_box(A, B):
    q = B.local(A.pos)
    d, nl, c, cond = _point_box(q, B.size[:3])
    n = None if nl is None else -(B.R @ nl)          # nl points from the box to the sphere centre; A=sphere -> B=box
    return _res(d - A.size[0], n, cond if d > 0 else cond)


def sphere_cylinder(A, B):
    q = B.local(A.pos)
    d, nl, cond = _point_cyl(q, B.size[0], B.size[1])
    n = None if nl is None else -(B.R @ nl)
    r = _res(d - A.size[0], n, cond)
    # ncond ~ 0 with the sphere centre on the cylinder axis (radial direction undefined) or on the side/cap medial surface (tie)
    r["degenerate_axis"] = bool(math.hypot(q[0], q[1]) <= 1e-12 * (B.size[0] + B.size[1]) and d < 0 and (math.hypot(q[0], q[1]) - B.size[0]) > (abs(q[2]) - B.size[1]))
    return r


# ---- capsule pairs --------------------------------------------------------------------------------------------------------
def capsule_capsule(A, B):
    d1, d2 = A.axis * A.size[1], B.axis * B.size[1]
    s, t, D, unique = _seg_seg(A.pos, d1, B.pos, d2)
    v = (B.pos + t * d2) - (A.pos + s * d1)
    return _res(D - A.size[0] - B.size[0], v / D if (D > 0 and unique) else None, D)


def capsule_box(A, B):
    p = B.local(A.pos)
    d = (A.axis * A.size[1]) @ B.R
    s = B.size[:3]
    D, t = _seg_box_dist(p, d, s)
    if D > 0:
        q = p + t * d
        c = np.clip(q, -s, s)
        n = B.R @ ((c - q) / D)
        return _res(D - A.size[0], n, D)
    # segment meets the box: minimum translation over the separating-axis candidates of segment vs box
    axes = [np.eye(3)[i] for i in range(3)]
    for i in range(3):
        x = np.cross(np.eye(3)[i], d)
        if np.linalg.norm(x) > 1e-12 * np.linalg.norm(d):
            axes.append(x / np.linalg.norm(x))
    best, bn, second = None, None, None
    for a in axes:
        for sg in (1.0, -1.0):
            u = sg * a                                     # direction from segment (A) to box (B)
            # width along u: h_seg(u) + h_box(-u) with box centred at the origin, segment centre p
            w = float(u @ p) + abs(float(u @ d)) + float(np.abs(u) @ s)
            if best is None or w < best:
                second = best
                best, bn = w, u
            elif second is None or w < second:
                second = w
    tie = (second - best) if second is not None else 1.0
    return _res(-best - A.size[0], (B.R @ bn) if tie > 1e-9 * float(np.linalg.norm(s)) else None, tie)


# ---- box : box --------------------------------------------------------------------------------------------------------------
def _box_verts(S):
    c = np.array([[sx, sy, sz] for sx in (-1, 1) for sy in (-1, 1) for sz in (-1, 1)], dtype=float) * S.size[:3]
    return S.pos + c @ S.R.T


def _box_edges(S):
    out = []
    s = S.size[:3]
    for ax in range(3):
        o = [i for i in range(3) if i != ax]
        for sa in (-1, 1):
            for sb in (-1, 1):
                c = np.zeros(3)
                c[o[0]], c[o[1]] = sa * s[o[0]], sb * s[o[1]]
                out.append((S.pos + S.R @ c, S.R[:, ax] * s[ax]))
    return out


def box_box(A, B):
    # overlap test and minimum translation by the 15 separating-axis candidates
    axes = [A.R[:, i] for i in range(3)] + [B.R[:, i] for i in range(3)]
    for i in range(3):
        for j in range(3):
            x = np.cross(A.R[:, i], B.R[:, j])
            nx = np.linalg.norm(x)
            if nx > 1e-9:
                axes.append(x / nx)
    N = np.array(axes)
    N = np.concatenate([N, -N])
    w = A.h_many(N) + B.h_many(-N)
    i = int(np.argmin(w))
    sat_sep = float(-w[i])                 # largest separation over the 15 axes (<= true distance when separated)
    if w[i] > 0:
        srt = np.sort(w)
        # ties between distinct directions make the normal non-unique
        others = w[np.abs(N @ N[i]) < 1 - 1e-9]
        tie = float(others.min() - w[i]) if len(others) else 1.0
        return _res(-w[i], N[i] if tie > 1e-9 * (A.extent() + B.extent()) else None, tie)
    # separated: closest features are vertex-(solid box) or edge-edge
    best, bn = None, None
    for P, S, sign in ((_box_verts(A), B, -1.0), (_box_verts(B), A, 1.0)):
        for v in P:
            d, nl, c, _ = _point_box(S.local(v), S.size[:3])
            if best is None or d < best:
                best, bn = d, sign * (S.R @ nl)          # nl: from box S to the vertex
    for p1, d1 in _box_edges(A):
        for p2, d2 in _box_edges(B):
            s, t, D, _ = _seg_seg(p1, d1, p2, d2)
            if D < best:
                best, bn = D, _unit((p2 + t * d2) - (p1 + s * d1))
    r = _res(best, bn, best)
    r["sat_sep"] = sat_sep
    return r


# ---- dispatch -------------------------------------------------------------------------------------------------------------
TABLE = {
    (SPHERE, SPHERE): sphere_sphere, (SPHERE, CAPSULE): sphere_capsule, (SPHERE, BOX): sphere_box, (SPHERE, CYLINDER): sphere_cylinder,
    (CAPSULE, CAPSULE): capsule_capsule, (CAPSULE, BOX): capsule_box, (BOX, BOX): box_box,
}


def analytic(A, B):
    """reference for the pair (A, B) in the engine's canonical order (type of A <= type of B); None if no closed form here"""
    if A.kind == PLANE:
        if B.kind in (SPHERE, CAPSULE, CYLINDER, BOX, ELLIPSOID, MESH):
            return plane_convex(A, B)
        return None
    f = TABLE.get((A.kind, B.kind))
    return f(A, B) if f else None


def self_test(seed=0, n=140):
    """cross-check of the closed forms against the certified generic optimiser; returns max abs errors per pair"""
    from . import convex as cx
    rng = np.random.default_rng(seed)
    out = {}
    pairs = list(TABLE)
    for t in range(n):
        ka, kb = pairs[t % len(pairs)]
        A = cx.random_shape(rng, ka)
        B = cx.random_shape(rng, kb, pos=A.pos + _unit(rng.normal(size=3)) * rng.uniform(0.0, 1.5))
        r = analytic(A, B)
        g = cx.signed_distance(A, B)
        key = cx.NAMES[ka] + "-" + cx.NAMES[kb]
        if g["exact"]:
            err = max(r["dist"] - g["upper"], g["lower"] - r["dist"], 0.0)
        else:
            err = max(g["lower"] - r["dist"], 0.0)       # sampled depth is only an upper bound of the depth
        out[key] = max(out.get(key, 0.0), float(err))
        if r["n"] is not None:
            # the reference normal realises the reference distance
            out[key + ":normal"] = max(out.get(key + ":normal", 0.0), abs(cx.sep(A, B, r["n"]) - r["dist"]))
    return out


if __name__ == "__main__":
    print(self_test())
