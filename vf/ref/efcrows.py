"""Row classifier, admissible sets and contact-force decoding for the system-level constraint vector (efc_*).

Written from doc/computation/index.rst ("Constraint model", "Friction cones", "Dual problem", "Adhesion") and the public
enum mjtConstraint -- not from the solver code:

* rows are ordered  equality | friction loss | limit | contact, "and then by model element within each type";
* admissible set Omega: equality rows unconstrained, |f| <= frictionloss element-wise for friction-loss rows, f >= 0 for limit,
  frictionless-contact and pyramid-edge rows, and for an elliptic contact of dimension n
      f_1 >= 0,  f_1^2 >= sum_{i=2..n} f_i^2 / mu_{i-1}^2 ;
* a contact occupies 1 (condim 1), 2(n-1) (pyramidal) or n (elliptic) consecutive rows starting at contact.efc_address;
* the contact-frame wrench is E f with E = identity (elliptic) or the pyramid edges  n + mu_k t_k , n - mu_k t_k  for
  k = 1..n-1 in this order (pair k occupies rows 2(k-1), 2(k-1)+1); mj_contactForce reports E f minus the adhesive pull along
  the normal ("reports the net interface force").
"""
import numpy as np

from ..mjconst import E

EQUALITY, FRICTION, LIMIT, FRICTIONLESS, PYRAMID, ELLIPTIC = "equality", "frictionloss", "limit", "frictionless", "pyramid", "elliptic"

_GROUP = None


def _group_of_type():
    global _GROUP
    if _GROUP is None:
        _GROUP = {int(E.mjCNSTR_EQUALITY): (0, EQUALITY), int(E.mjCNSTR_FRICTION_DOF): (1, FRICTION),
                  int(E.mjCNSTR_FRICTION_TENDON): (1, FRICTION), int(E.mjCNSTR_LIMIT_JOINT): (2, LIMIT),
                  int(E.mjCNSTR_LIMIT_TENDON): (2, LIMIT), int(E.mjCNSTR_CONTACT_FRICTIONLESS): (3, FRICTIONLESS),
                  int(E.mjCNSTR_CONTACT_PYRAMIDAL): (3, PYRAMID), int(E.mjCNSTR_CONTACT_ELLIPTIC): (3, ELLIPTIC)}
    return _GROUP


class Block:
    __slots__ = ("kind", "start", "n", "id", "type", "dim", "bound")

    def __init__(self, kind, start, n, id_, type_, dim=1, bound=None):
        self.kind, self.start, self.n, self.id, self.type, self.dim, self.bound = kind, start, n, id_, type_, dim, bound

    def rows(self):
        return slice(self.start, self.start + self.n)


def classify(efc_type, efc_id, ne, nf, nl, contacts, pyramidal, dof_frictionloss=None, tendon_frictionloss=None):
    """-> (blocks, problems). `problems` lists structural inconsistencies of the row layout (strings naming the mechanism);
    `contacts` is any sequence of records with fields dim, friction, efc_address, exclude."""
    G = _group_of_type()
    nefc = len(efc_type)
    blocks, problems = [], []
    i = 0
    prev_group = 0
    seen_contacts = set()
    while i < nefc:
        t = int(efc_type[i])
        if t not in G:
            problems.append("efc_type-unknown-value")
            break
        g, kind = G[t]
        if g < prev_group:
            problems.append("rows-not-ordered-equality-friction-limit-contact")
        prev_group = max(prev_group, g)
        want_group = 0 if i < ne else 1 if i < ne + nf else 2 if i < ne + nf + nl else 3
        if g != want_group:
            problems.append("row-type-disagrees-with-ne-nf-nl-counts")
        cid = int(efc_id[i])
        if g < 3:
            bound = None
            if kind == FRICTION:
                src = dof_frictionloss if t == int(E.mjCNSTR_FRICTION_DOF) else tendon_frictionloss
                if src is not None:
                    if not 0 <= cid < len(src):
                        problems.append("frictionloss-row-efc_id-out-of-range")
                    else:
                        bound = float(src[cid])
            blocks.append(Block(kind, i, 1, cid, t, 1, bound))
            i += 1
            continue
        if not 0 <= cid < len(contacts):
            problems.append("contact-row-efc_id-out-of-range")
            break
        c = contacts[cid]
        dim = int(c["dim"])
        if dim not in (1, 3, 4, 6):
            problems.append("contact-dim-not-1-3-4-6")
            break
        want_kind = FRICTIONLESS if dim == 1 else (PYRAMID if pyramidal else ELLIPTIC)
        if kind != want_kind:
            problems.append("contact-row-type-disagrees-with-condim-and-cone")
        n = 1 if dim == 1 else (2 * (dim - 1) if kind == PYRAMID else dim)
        if i + n > nefc:
            problems.append("contact-block-runs-past-nefc")
            break
        if any(int(efc_id[i + k]) != cid or int(efc_type[i + k]) != t for k in range(n)):
            problems.append("contact-block-rows-have-mixed-id-or-type")
        if int(c["efc_address"]) != i:
            problems.append("contact-efc_address-is-not-first-row-of-its-block")
        if cid in seen_contacts:
            problems.append("contact-appears-in-two-blocks")
        seen_contacts.add(cid)
        blocks.append(Block(kind, i, n, cid, t, dim, None))
        i += n
    for k in range(len(contacts)):
        a = int(contacts[k]["efc_address"])
        if a >= 0 and k not in seen_contacts and not problems:
            problems.append("contact-with-efc_address-has-no-rows")
        if a < 0 and k in seen_contacts:
            problems.append("contact-without-efc_address-has-rows")
    return blocks, problems


def admissibility(blocks, force, contacts, eps):
    """list of (signature, info dict) for every block whose force leaves its admissible set by more than eps"""
    out = []
    for b in blocks:
        f = force[b.rows()]
        if not np.isfinite(f).all():
            out.append(("non-finite-constraint-force:" + b.kind, dict(row=b.start, force=[float(x) for x in f])))
            continue
        if b.kind == EQUALITY:
            continue
        if b.kind == FRICTION:
            if b.bound is not None and abs(f[0]) > b.bound * (1 + 1e-12) + eps:
                out.append(("frictionloss-force-exceeds-frictionloss", dict(row=b.start, force=float(f[0]), bound=b.bound, id=b.id, type=b.type)))
        elif b.kind in (LIMIT, FRICTIONLESS):
            if f[0] < -eps:
                out.append(("negative-%s-force" % ("limit" if b.kind == LIMIT else "frictionless-contact"), dict(row=b.start, force=float(f[0]), id=b.id)))
        elif b.kind == PYRAMID:
            if (f < -eps).any():
                k = int(np.argmin(f))
                out.append(("negative-pyramid-edge-force", dict(row=b.start + k, edge=k, force=float(f[k]), contact=b.id, dim=b.dim)))
        else:
            mu = np.asarray(contacts[b.id]["friction"], dtype=float)[:b.dim - 1]
            if f[0] < -eps:
                out.append(("elliptic-contact-negative-normal-force", dict(row=b.start, force=[float(x) for x in f], contact=b.id, dim=b.dim)))
            else:
                with np.errstate(divide="ignore", invalid="ignore"):
                    w = np.where(f[1:] == 0, 0.0, f[1:] / mu)
                tn = float(np.sqrt((w * w).sum()))
                if not tn <= f[0] * (1 + 1e-9) + eps:
                    out.append(("elliptic-contact-friction-outside-cone", dict(row=b.start, force=[float(x) for x in f], mu=[float(x) for x in mu],
                                                                               weighted_tangential_norm=tn, normal=float(f[0]), contact=b.id, dim=b.dim)))
    return out


def pyramid_basis(mu, dim):
    """6 x 2(dim-1) matrix E of the documented pyramid edges (contact-frame wrench = E f)"""
    Em = np.zeros((6, 2 * (dim - 1)))
    for k in range(1, dim):
        Em[0, 2 * (k - 1)] = 1.0
        Em[k, 2 * (k - 1)] = mu[k - 1]
        Em[0, 2 * (k - 1) + 1] = 1.0
        Em[k, 2 * (k - 1) + 1] = -mu[k - 1]
    return Em


def contact_wrench(block, force, contact):
    """reference for mj_contactForce: (6-vector, rounding scale)"""
    f = np.asarray(force[block.rows()], dtype=float)
    out = np.zeros(6)
    if block.kind == PYRAMID:
        Em = pyramid_basis(np.asarray(contact["friction"], dtype=float), block.dim)
        out = Em @ f
        scale = np.abs(Em) @ np.abs(f)
    else:
        out[:block.n] = f
        scale = np.abs(out)
    adh = float(contact["adhesion"]) if "adhesion" in contact.dtype.names else 0.0
    out[0] -= adh
    scale = scale + 0.0
    scale[0] += abs(adh)
    return out, scale


def dense_J(L, m, d, af=None):
    """nefc x nv Jacobian rebuilt from the arena arrays (CSR when mj_isSparse, row-major dense otherwise)"""
    nefc, nv = d.s("nefc"), m.n("nv")
    af = af or d.arena_fields()
    raw = np.array(d.arena("efc_J", af)).ravel()
    if L.call("mj_isSparse", m):
        nnz = np.array(d.arena("efc_J_rownnz", af)).ravel()
        adr = np.array(d.arena("efc_J_rowadr", af)).ravel()
        col = np.array(d.arena("efc_J_colind", af)).ravel()
        J = np.zeros((nefc, nv))
        for r in range(nefc):
            a, n = int(adr[r]), int(nnz[r])
            np.add.at(J[r], col[a:a + n], raw[a:a + n])
        return J, True
    return raw[:nefc * nv].reshape(nefc, nv).copy(), False


def self_test():
    """tiny self test of the decoding and the admissible sets on hand-made data"""
    dt = np.dtype([("dim", "i4"), ("friction", "f8", (5,)), ("efc_address", "i4"), ("exclude", "i4"), ("adhesion", "f8")])
    con = np.zeros(2, dtype=dt)
    con[0] = (3, (0.5, 0.5, 0.01, 0.001, 0.001), 2, 0, 0.0)
    con[1] = (1, (1, 1, 0.01, 0.001, 0.001), 6, 0, 0.25)
    t = [int(E.mjCNSTR_EQUALITY), int(E.mjCNSTR_FRICTION_DOF)] + [int(E.mjCNSTR_CONTACT_PYRAMIDAL)] * 4 + [int(E.mjCNSTR_CONTACT_FRICTIONLESS)]
    ids = [0, 1, 0, 0, 0, 0, 1]
    blocks, problems = classify(t, ids, 1, 1, 0, con, True, dof_frictionloss=[0.0, 0.3])
    assert not problems, problems
    assert [b.kind for b in blocks] == [EQUALITY, FRICTION, PYRAMID, FRICTIONLESS]
    f = np.array([-5.0, 0.3, 1.0, 0.0, 0.5, 0.25, 2.0])
    assert not admissibility(blocks, f, con, 1e-12)
    w, _ = contact_wrench(blocks[2], f, con[0])
    assert np.allclose(w, [1.75, 0.5, 0.125, 0, 0, 0])
    w, _ = contact_wrench(blocks[3], f, con[1])
    assert np.allclose(w, [1.75, 0, 0, 0, 0, 0])
    f2 = f.copy()
    f2[1] = -0.31
    f2[3] = -1e-3
    bad = admissibility(blocks, f2, con, 1e-12)
    assert [s for s, _ in bad] == ["frictionloss-force-exceeds-frictionloss", "negative-pyramid-edge-force"]
    # elliptic
    con[0]["efc_address"] = 2
    t = [int(E.mjCNSTR_EQUALITY), int(E.mjCNSTR_FRICTION_DOF)] + [int(E.mjCNSTR_CONTACT_ELLIPTIC)] * 3
    con2 = con[:1]
    blocks, problems = classify(t, [0, 1, 0, 0, 0], 1, 1, 0, con2, False, dof_frictionloss=[0.0, 0.3])
    assert not problems, problems
    assert not admissibility(blocks, np.array([0, 0, 1.0, 0.3, 0.4]), con2, 1e-12)
    assert admissibility(blocks, np.array([0, 0, 1.0, 0.3, 0.41]), con2, 1e-12)[0][0] == "elliptic-contact-friction-outside-cone"
    assert admissibility(blocks, np.array([0, 0, -0.1, 0.0, 0.0]), con2, 1e-12)[0][0] == "elliptic-contact-negative-normal-force"
    return {"ok": 1.0}
