"""Reference sensor model (numpy only), written from the documentation:

  doc/XMLreference.rst  sensor/*  (what every sensor measures, which frame it is expressed in, "copied from mjData.X")
  doc/modeling.rst      "Sensors" (cutoff: "limits the absolute value of the sensor output"), "Force limits"
  include/mujoco/mjtype.h  mjtDataType comments (real | positive | axis: 3D unit vector | quaternion: unit quaternion)
  doc/XMLreference.rst  option/flag/energy (potential = sum m g h + 1/2 k x^2 of joint and tendon springs; kinetic = 1/2 v'Mv)

Kinematics, velocities, Jacobians and their time derivatives come from vf/ref/rbd.py (world coordinates about the world
origin, dense formulas) - a different representation from the engine's subtree-COM based c-frame quantities (cvel, cacc,
cfrc_int).  Everything here is computed from (model constants, qpos, qvel, qacc, mocap pose, applied Cartesian forces,
gravity) plus the quantities the documentation declares as the *source* of a sensor ("copied from mjData.ten_length",
contact list and constraint forces for touch / force / torque / limit sensors).

    R = SensorRef(A, C)          # A: mapping name -> model array / int; C: mapping of enum constants (mjSENS_*, mjOBJ_*, ...)
    out = R.evaluate(S)          # S: mapping with the state and the documented source arrays; -> list of Result per sensor
    apply_cutoff(x, cutoff, datatype, C)

Result: .val (value before cutoff), .tol (absolute tolerance per component), .alts (other acceptable values: a limit sensor
with both sides active, a touch contact whose normal ray grazes the zone), .interval (lo, hi) for scalar ranges
(rangefinder near a discontinuity), .skip (reason string or None), .quat (compare up to sign), .tags (set of strings).
"""
import math

import numpy as np

from . import ray as RAY
from . import rbd

FREE, BALL, SLIDE, HINGE = rbd.FREE, rbd.BALL, rbd.SLIDE, rbd.HINGE
RTOL = 2e-9

MODEL_FIELDS = [
    "body_parentid", "body_pos", "body_quat", "body_ipos", "body_iquat", "body_mass", "body_inertia", "body_jntadr", "body_jntnum",
    "body_mocapid", "jnt_type", "jnt_qposadr", "jnt_dofadr", "jnt_pos", "jnt_axis", "qpos0", "qpos_spring", "jnt_stiffness",
    "jnt_range", "jnt_margin", "jnt_limited", "dof_armature", "geom_bodyid", "geom_pos", "geom_quat", "geom_type", "geom_size",
    "geom_rgba", "geom_matid", "site_bodyid", "site_pos", "site_quat", "site_type", "site_size", "cam_bodyid", "cam_pos",
    "cam_quat", "cam_mode", "tendon_range", "tendon_margin", "tendon_limited", "tendon_stiffness", "tendon_lengthspring",
    "tendon_armature", "actuator_trntype", "actuator_trnid", "eq_type", "eq_obj1id", "eq_obj2id", "eq_objtype", "eq_data",
    "sensor_type", "sensor_datatype", "sensor_needstage", "sensor_objtype", "sensor_objid", "sensor_reftype", "sensor_refid",
    "sensor_dim", "sensor_adr", "sensor_cutoff", "sensor_intprm", "sensor_history",
]
OPTIONAL_FIELDS = ["mat_rgba", "jnt_stiffnesspoly", "tendon_stiffnesspoly", "actuator_outadr", "actuator_outnum", "actuator_armature"]
SIZES = ["nbody", "nv", "nq", "njnt", "ngeom", "nsite", "ncam", "ntendon", "nu", "nsensor", "nsensordata", "neq", "nmat", "nflex"]

# documented output size and data type of every supported sensor ("This sensor outputs three numbers", "non-negative scalar",
# "unit quaternion", "3D unit vector", ...)
DOC = {
    "TOUCH": (1, "POSITIVE"), "ACCELEROMETER": (3, "REAL"), "VELOCIMETER": (3, "REAL"), "GYRO": (3, "REAL"), "FORCE": (3, "REAL"),
    "TORQUE": (3, "REAL"), "MAGNETOMETER": (3, "REAL"), "RANGEFINDER": (None, "REAL"), "JOINTPOS": (1, "REAL"), "JOINTVEL": (1, "REAL"),
    "TENDONPOS": (1, "REAL"), "TENDONVEL": (1, "REAL"), "ACTUATORPOS": (1, "REAL"), "ACTUATORVEL": (1, "REAL"), "ACTUATORFRC": (1, "REAL"),
    "JOINTACTFRC": (1, "REAL"), "TENDONACTFRC": (1, "REAL"), "BALLQUAT": (4, "QUATERNION"), "BALLANGVEL": (3, "REAL"),
    "JOINTLIMITPOS": (1, "REAL"), "JOINTLIMITVEL": (1, "REAL"), "JOINTLIMITFRC": (1, "REAL"), "TENDONLIMITPOS": (1, "REAL"),
    "TENDONLIMITVEL": (1, "REAL"), "TENDONLIMITFRC": (1, "REAL"), "FRAMEPOS": (3, "REAL"), "FRAMEQUAT": (4, "QUATERNION"),
    "FRAMEXAXIS": (3, "AXIS"), "FRAMEYAXIS": (3, "AXIS"), "FRAMEZAXIS": (3, "AXIS"), "FRAMELINVEL": (3, "REAL"), "FRAMEANGVEL": (3, "REAL"),
    "FRAMELINACC": (3, "REAL"), "FRAMEANGACC": (3, "REAL"), "SUBTREECOM": (3, "REAL"), "SUBTREELINVEL": (3, "REAL"),
    "SUBTREEANGMOM": (3, "REAL"), "E_POTENTIAL": (1, "REAL"), "E_KINETIC": (1, "REAL"), "CLOCK": (1, "REAL"),
}
RAYDATA = [("DIST", 1), ("DIR", 3), ("ORIGIN", 3), ("POINT", 3), ("NORMAL", 3), ("DEPTH", 1)]     # documented order and sizes


def apply_cutoff(x, cutoff, datatype, C):
    """documented cutoff: real -> |x| limited to cutoff; positive -> limited from above; axis / quaternion: unit objects, never
    clamped; cutoff <= 0: off"""
    x = np.array(x, dtype=float)
    if not cutoff > 0:
        return x
    if datatype == C["mjDATATYPE_REAL"]:
        return np.clip(x, -cutoff, cutoff)
    if datatype == C["mjDATATYPE_POSITIVE"]:
        return np.minimum(x, cutoff)
    return x


class Result:
    __slots__ = ("val", "tol", "alts", "interval", "skip", "quat", "tags", "extra")

    def __init__(self, val=None, tol=None, skip=None, quat=False):
        self.val = None if val is None else np.atleast_1d(np.asarray(val, dtype=float))
        self.tol = None if tol is None else np.atleast_1d(np.asarray(tol, dtype=float)) * np.ones_like(self.val)
        self.alts, self.interval, self.skip, self.quat, self.tags, self.extra = [], None, skip, quat, set(), {}


def _vt(val, scale, atol=1e-11):
    val = np.atleast_1d(np.asarray(val, dtype=float))
    return Result(val, RTOL * np.abs(np.atleast_1d(scale)) + atol)


class SensorRef:
    def __init__(self, A, C):
        self.A = {k: np.array(A[k], copy=True) for k in MODEL_FIELDS}
        for k in OPTIONAL_FIELDS:
            if k in A:
                self.A[k] = np.array(A[k], copy=True)
        self.n = {k: int(A[k]) for k in SIZES}
        self.C = C
        self.T = rbd.Tree(dict(self.A, **self.n))
        self.kind = {}
        for k in DOC:
            self.kind[int(C["mjSENS_" + k])] = k
        a = self.A
        self.geom_pos, self.geom_quat = a["geom_pos"].reshape(-1, 3), a["geom_quat"].reshape(-1, 4)
        self.site_pos, self.site_quat = a["site_pos"].reshape(-1, 3), a["site_quat"].reshape(-1, 4)
        self.cam_pos, self.cam_quat = a["cam_pos"].reshape(-1, 3), a["cam_quat"].reshape(-1, 4)
        self.site_size, self.geom_size = a["site_size"].reshape(-1, 3), a["geom_size"].reshape(-1, 3)

    def kind_of(self, i):
        return self.kind.get(int(self.A["sensor_type"][i]))

    # ---- layout ------------------------------------------------------------------------------------------------------
    def expected_dim(self, i):
        k = self.kind_of(i)
        if k is None:
            return None
        if k == "RANGEFINDER":
            spec = int(self.A["sensor_intprm"].reshape(self.n["nsensor"], -1)[i, 0])
            per = sum(sz for b, (_, sz) in enumerate(RAYDATA) if spec & (1 << b))
            if int(self.A["sensor_objtype"][i]) != self.C["mjOBJ_SITE"]:
                return None
            return per
        if k in ("ACTUATORPOS", "ACTUATORVEL", "ACTUATORFRC") and "actuator_outnum" in self.A:
            return int(self.A["actuator_outnum"][self.A["sensor_objid"][i]])
        return DOC[k][0]

    def layout_problems(self):
        """'The outputs of all sensors are concatenated in the field mjData.sensordata which has size mjModel.nsensordata'"""
        out = []
        a = self.A
        adr = 0
        for i in range(self.n["nsensor"]):
            if int(a["sensor_adr"][i]) != adr:
                out.append(("sensor_adr-not-cumulative-sum-of-dims", dict(sensor=i, adr=int(a["sensor_adr"][i]), expected=adr)))
                break
            k = self.kind_of(i)
            if k is not None:
                ed = self.expected_dim(i)
                if ed is not None and int(a["sensor_dim"][i]) != ed:
                    out.append(("sensor_dim-differs-from-documented-size:" + k, dict(sensor=i, dim=int(a["sensor_dim"][i]), expected=ed)))
                if int(a["sensor_datatype"][i]) != self.C["mjDATATYPE_" + DOC[k][1]]:
                    out.append(("sensor_datatype-differs-from-documented-type:" + k, dict(sensor=i, datatype=int(a["sensor_datatype"][i]))))
            adr += int(a["sensor_dim"][i])
        if not out and adr != self.n["nsensordata"]:
            out.append(("nsensordata-differs-from-sum-of-dims", dict(nsensordata=self.n["nsensordata"], total=adr)))
        return out

    # ---- frames ------------------------------------------------------------------------------------------------------
    def frame(self, K, objtype, oid):
        """(body, world position, rotation matrix, quaternion) of an object with a spatial frame"""
        C, T = self.C, self.T
        if objtype == C["mjOBJ_XBODY"]:
            return oid, K.xpos[oid].copy(), K.xmat[oid].copy(), K.xquat[oid].copy()
        if objtype == C["mjOBJ_BODY"]:
            p, R, q = T.local2global(K, oid, T.body_ipos[oid], T.body_iquat[oid])
            return oid, p, R, q
        if objtype == C["mjOBJ_GEOM"]:
            b = int(self.A["geom_bodyid"][oid])
            return (b,) + T.local2global(K, b, self.geom_pos[oid], self.geom_quat[oid])
        if objtype == C["mjOBJ_SITE"]:
            b = int(self.A["site_bodyid"][oid])
            return (b,) + T.local2global(K, b, self.site_pos[oid], self.site_quat[oid])
        if objtype == C["mjOBJ_CAMERA"]:
            if int(self.A["cam_mode"][oid]) != 0:
                return None
            b = int(self.A["cam_bodyid"][oid])
            return (b,) + T.local2global(K, b, self.cam_pos[oid], self.cam_quat[oid])
        return None

    def point_kin(self, ctx, b, p):
        """velocity (ang, lin), acceleration (ang, lin; classical, gravity not included) of the point p moving with body b,
        and rounding scales"""
        T, K, V, Sdot, qvel, qacc = self.T, ctx["K"], ctx["V"], ctx["Sdot"], ctx["qvel"], ctx["qacc"]
        w, v = T.point_velocity(V, b, p)
        jp, jr = T.point_jac(K, b, p)
        jpd, jrd = T.point_jacdot(K, V, Sdot, b, p)
        al = jp @ qacc + jpd @ qvel
        aa = jr @ qacc + jrd @ qvel
        sv = np.abs(jp) @ np.abs(qvel)
        sw = np.abs(jr) @ np.abs(qvel)
        sal = np.abs(jp) @ np.abs(qacc) + np.abs(jpd) @ np.abs(qvel)
        saa = np.abs(jr) @ np.abs(qacc) + np.abs(jrd) @ np.abs(qvel)
        return dict(w=w, v=v, al=al, aa=aa, sv=sv, sw=sw, sal=sal, saa=saa)

    # ---- rigid-body quantities shared by several sensors ---------------------------------------------------------------
    def _dynamics(self, ctx):
        """per-body spatial velocity, spatial acceleration (world acceleration = -gravity) and inertial wrench
        F_b = I a + v x* I v about the world origin, with rounding scales"""
        if "F" in ctx:
            return
        T, K, qvel, qacc = self.T, ctx["K"], ctx["qvel"], ctx["qacc"]
        nb = T.nbody
        Vs = np.zeros((nb, 6))
        Acc = np.zeros((nb, 6))
        Acc[0, 3:] = -np.asarray(ctx["gravity"])
        F = np.zeros((nb, 6))
        Fs = np.zeros((nb, 6))
        for b in range(1, nb):
            v = Vs[T.parent[b]].copy()
            a = Acc[T.parent[b]].copy()
            for grp in T.groups[b]:
                vj = K.S[:, grp] @ qvel[grp]
                a = a + K.S[:, grp] @ qacc[grp] + rbd.cross_motion(v, vj)
                v = v + vj
            Vs[b], Acc[b] = v, a
            I = T.spatial_inertia(K, b)
            Iv = I @ v
            F[b] = I @ a + rbd.cross_force(v, Iv)
            aI = np.abs(I)
            av, aIv = np.abs(v), aI @ np.abs(v)
            Fs[b] = aI @ np.abs(a) + np.concatenate([rbd._acr(av[:3], aIv[:3]) + rbd._acr(av[3:], aIv[3:]), rbd._acr(av[:3], aIv[3:])])
        ctx["F"], ctx["Fs"] = F, Fs

    def _contact_wrench(self, c, efc_force, pyramidal):
        """contact-frame wrench (force 3, torque 3) of an active contact, decoded from its constraint rows as documented
        (computation: friction cones): frictionless 1 row; pyramidal 2(dim-1) edge forces n +- mu_k t_k; elliptic dim rows"""
        adr, dim = int(c["efc_address"]), int(c["dim"])
        w = np.zeros(6)
        if adr < 0:
            return None
        if dim == 1:
            w[0] = efc_force[adr]
        elif pyramidal:
            f = efc_force[adr:adr + 2 * (dim - 1)]
            w[0] = f.sum()
            mu = c["friction"]
            for k in range(dim - 1):
                w[1 + k] = mu[k] * (f[2 * k] - f[2 * k + 1])
        else:
            w[:dim] = efc_force[adr:adr + dim]
        if "adhesion" in c.dtype.names:
            w[0] -= float(c["adhesion"])
        return w

    def _external(self, ctx, S):
        """Cartesian forces that act on the bodies from outside the kinematic tree: xfrc_applied (at the body COM), contact
        wrenches (on the body of geom2, opposite on geom1, at the contact point) and the forces of connect / weld constraints.
        -> (nbody x 6 wrench about the world origin [torque; force], scale, set of bodies touched by a weld constraint,
            set of bodies whose external wrench could not be derived)"""
        if "EXT" in ctx:
            return
        T, K, C, A = self.T, ctx["K"], self.C, self.A
        nb = T.nbody
        W = np.zeros((nb, 6))
        Wraw = np.zeros((nb, 6))        # variant: weld rotational rows taken as a world torque as they are (diagnostic only)
        Ws = np.zeros((nb, 6))
        weld_pairs, unknown = [], set()

        def add(b, f, p, tau=None, tau_raw=None):
            if b <= 0:
                return
            n = np.cross(p, f) + (tau if tau is not None else 0)
            W[b] += np.concatenate([n, f])
            Wraw[b] += np.concatenate([np.cross(p, f) + (tau_raw if tau_raw is not None else (tau if tau is not None else 0)), f])
            Ws[b] += np.concatenate([rbd._acr(np.abs(p), np.abs(f)) + (np.abs(tau) if tau is not None else 0), np.abs(f)])

        xf = np.asarray(S["xfrc_applied"]).reshape(nb, 6)
        for b in range(1, nb):
            if xf[b].any():
                add(b, xf[b, :3], K.xipos[b], xf[b, 3:])
        con = S["contacts"]
        for c in con:
            if int(c["efc_address"]) < 0:
                continue
            g1, g2 = int(c["geom"][0]), int(c["geom"][1])
            if g1 < 0 or g2 < 0:
                unknown.update(range(1, nb))
                continue
            w = self._contact_wrench(c, S["efc_force"], S["pyramidal"])
            Rc = np.asarray(c["frame"]).reshape(3, 3)          # rows: normal (geom1 -> geom2), tangent 1, tangent 2
            f, tau = Rc.T @ w[:3], Rc.T @ w[3:]
            p = np.asarray(c["pos"])
            add(int(A["geom_bodyid"][g2]), f, p, tau)
            add(int(A["geom_bodyid"][g1]), -f, p, -tau)
        # connect / weld rows: the Cartesian force pair whose generalized force equals J' f of the constraint rows
        ne = int(S["ne"])
        i = 0
        eqd = A["eq_data"].reshape(self.n["neq"], -1) if self.n["neq"] else None
        J = S.get("efc_J")
        while i < ne:
            e = int(S["efc_id"][i])
            et = int(A["eq_type"][e])
            if et == C["mjEQ_CONNECT"] or et == C["mjEQ_WELD"]:
                weld = et == C["mjEQ_WELD"]
                nrow = 6 if weld else 3
                o1, o2 = int(A["eq_obj1id"][e]), int(A["eq_obj2id"][e])
                if int(A["eq_objtype"][e]) == C["mjOBJ_SITE"]:
                    b1, b2 = int(A["site_bodyid"][o1]), int(A["site_bodyid"][o2])
                    l1, l2 = self.site_pos[o1], self.site_pos[o2]
                else:
                    b1, b2 = o1, o2
                    # connect: anchor given in body1, its image in body2 stored next; weld: anchor relative to body2 first
                    l1, l2 = (eqd[e, 3:6], eqd[e, 0:3]) if weld else (eqd[e, 0:3], eqd[e, 3:6])
                p1 = K.xpos[b1] + K.xmat[b1] @ l1
                p2 = K.xpos[b2] + K.xmat[b2] @ l2
                f = np.array(S["efc_force"][i:i + 3])
                ok = J is not None
                if ok:
                    jp1, jr1 = T.point_jac(K, b1, p1)
                    jp2, jr2 = T.point_jac(K, b2, p2)
                    Jd = jp1 - jp2
                    Je = J[i:i + 3]
                    den = (Jd * Jd).sum()
                    s = 1.0 if (Je * Jd).sum() >= 0 else -1.0
                    if den < 1e-20 or np.abs(Je - s * Jd).max() > 1e-6 * (1 + np.abs(Jd).max()):
                        ok = False
                if not ok:
                    unknown.update([b1, b2])
                else:
                    tau = tau_raw = None
                    if weld:
                        D = jr1 - jr2
                        Jr = J[i + 3:i + 6]
                        if np.linalg.matrix_rank(D, tol=1e-9) < 3:
                            unknown.update([b1, b2])
                            tau = np.zeros(3)
                        else:
                            Am = Jr @ np.linalg.pinv(D)                       # Jr = Am D
                            if np.abs(Am @ D - Jr).max() > 1e-8 * (1 + np.abs(Jr).max()):
                                unknown.update([b1, b2])
                            tau = Am.T @ np.array(S["efc_force"][i + 3:i + 6])
                        tau_raw = s * np.array(S["efc_force"][i + 3:i + 6])
                        weld_pairs.append((b1, b2))
                    add(b1, s * f, p1, tau, tau_raw)
                    add(b2, -s * f, p2, None if tau is None else -tau, None if tau_raw is None else -tau_raw)
                i += nrow
            elif et == C["mjEQ_JOINT"] or et == C["mjEQ_TENDON"]:
                i += 1
            else:
                unknown.update(range(1, nb))
                break
        ctx["EXT"], ctx["EXTs"], ctx["EXTraw"], ctx["weld_pairs"], ctx["ext_unknown"] = W, Ws, Wraw, weld_pairs, unknown

    def interaction_wrench(self, ctx, S, b):
        """wrench (about the world origin) that the parent exerts on body b so that the subtree of b moves as it does:
        sum over the subtree of (I a + v x* I v) minus every external Cartesian force on the subtree (gravity enters as the
        world acceleration -g)"""
        self._dynamics(ctx)
        self._external(ctx, S)
        sub = self.T.subtree[b]
        W = ctx["F"][sub].sum(0) - ctx["EXT"][sub].sum(0)
        Ws = ctx["Fs"][sub].sum(0) + ctx["EXTs"][sub].sum(0)
        ctx["Wraw_last"] = ctx["F"][sub].sum(0) - ctx["EXTraw"][sub].sum(0)
        return W, Ws

    # ---- evaluate ------------------------------------------------------------------------------------------------------
    def evaluate(self, S, only=None):
        A, C, T, n = self.A, self.C, self.T, self.n
        qpos, qvel, qacc = [np.asarray(S[k], dtype=float) for k in ("qpos", "qvel", "qacc")]
        K = T.fk(qpos, S.get("mocap_pos"), S.get("mocap_quat"))
        V, Sdot = T.velocities(K, qvel)
        ctx = dict(K=K, V=V, Sdot=Sdot, qvel=qvel, qacc=qacc, gravity=np.asarray(S["gravity"], dtype=float))
        out = []
        for i in range(n["nsensor"]):
            if only is not None and i not in only:
                out.append(Result(skip="not-requested"))
                continue
            k = self.kind_of(i)
            if k is None:
                out.append(Result(skip="unsupported-type"))
                continue
            if A["sensor_history"].reshape(n["nsensor"], -1)[i, 0] > 0:
                out.append(Result(skip="history-buffer"))
                continue
            try:
                r = self._one(i, k, S, ctx)
            except _Skip as e:
                r = Result(skip=str(e))
            out.append(r)
        return out

    def _one(self, i, k, S, ctx):
        A, C, T, n = self.A, self.C, self.T, self.n
        K, V, qvel, qacc = ctx["K"], ctx["V"], ctx["qvel"], ctx["qacc"]
        oid, otype = int(A["sensor_objid"][i]), int(A["sensor_objtype"][i])
        rid, rtype = int(A["sensor_refid"][i]), int(A["sensor_reftype"][i])
        qpos = np.asarray(S["qpos"], dtype=float)

        # ---- scalar joint / tendon / actuator quantities: "copied from mjData.X"
        if k == "JOINTPOS":
            return _vt(qpos[A["jnt_qposadr"][oid]], 0, 0)
        if k == "JOINTVEL":
            return _vt(qvel[A["jnt_dofadr"][oid]], 0, 0)
        if k == "TENDONPOS":
            return _vt(S["ten_length"][oid], 0, 0)
        if k == "TENDONVEL":
            return _vt(S["ten_velocity"][oid], 0, 0)
        if k in ("ACTUATORPOS", "ACTUATORVEL", "ACTUATORFRC"):
            src = {"ACTUATORPOS": "actuator_length", "ACTUATORVEL": "actuator_velocity", "ACTUATORFRC": "actuator_force"}[k]
            adr = int(A["actuator_outadr"][oid]) if "actuator_outadr" in A else oid
            num = int(A["actuator_outnum"][oid]) if "actuator_outnum" in A else 1
            return _vt(np.asarray(S[src])[adr:adr + num], 0, 0)
        if k == "JOINTACTFRC":
            return _vt(S["qfrc_actuator"][A["jnt_dofadr"][oid]], 0, 0)
        if k == "TENDONACTFRC":
            tt, tid = A["actuator_trntype"], A["actuator_trnid"].reshape(-1, 2)
            tot, sc = 0.0, 0.0
            for a in range(n["nu"]):
                if int(tt[a]) == C["mjTRN_TENDON"] and int(tid[a, 0]) == oid:
                    adr = int(A["actuator_outadr"][a]) if "actuator_outadr" in A else a
                    tot += S["actuator_force"][adr]
                    sc += abs(S["actuator_force"][adr])
            return _vt(tot, sc, 0)
        if k == "BALLQUAT":
            pa = int(A["jnt_qposadr"][oid])
            r = _vt(rbd.qnorm(qpos[pa:pa + 4]), 1, 0)
            r.quat = True
            return r
        if k == "BALLANGVEL":
            va = int(A["jnt_dofadr"][oid])
            return _vt(qvel[va:va + 3], 0, 0)

        # ---- limit sensors: distance - margin / velocity / force of the limit constraint, 0 when inactive
        if k.startswith("JOINTLIMIT") or k.startswith("TENDONLIMIT"):
            return self._limit(i, k, S, ctx, oid)

        # ---- frame sensors
        if k in ("FRAMEPOS", "FRAMEQUAT", "FRAMEXAXIS", "FRAMEYAXIS", "FRAMEZAXIS", "FRAMELINVEL", "FRAMEANGVEL", "FRAMELINACC", "FRAMEANGACC"):
            fo = self.frame(K, otype, oid)
            if fo is None:
                raise _Skip("object-frame-not-modelled")
            b, p, R, q = fo
            ref = None
            if rid >= 0:
                ref = self.frame(K, rtype, rid)
                if ref is None:
                    raise _Skip("reference-frame-not-modelled")
            mag = 1 + np.abs(p).max()
            if k == "FRAMEPOS":
                if ref is None:
                    return _vt(p, mag)
                return _vt(ref[2].T @ (p - ref[1]), mag + np.abs(ref[1]).max())
            if k == "FRAMEQUAT":
                r = _vt(q if ref is None else rbd.qmul(rbd.qconj(ref[3]), q), 1)
                r.quat = True
                return r
            if k in ("FRAMEXAXIS", "FRAMEYAXIS", "FRAMEZAXIS"):
                ax = R[:, "XYZ".index(k[5])]
                return _vt(ax if ref is None else ref[2].T @ ax, 1)
            pk = self.point_kin(ctx, b, p)
            if k in ("FRAMELINVEL", "FRAMEANGVEL"):
                if ref is None:
                    return _vt(pk["v"], pk["sv"]) if k == "FRAMELINVEL" else _vt(pk["w"], pk["sw"])
                rk = self.point_kin(ctx, ref[0], ref[1])
                if k == "FRAMEANGVEL":
                    return _vt(ref[2].T @ (pk["w"] - rk["w"]), (pk["sw"] + rk["sw"]).max())
                # time derivative of the framepos reading: R_ref' (v - v_ref - w_ref x (p - p_ref))
                r = p - ref[1]
                val = ref[2].T @ (pk["v"] - rk["v"] - np.cross(rk["w"], r))
                sc = (pk["sv"] + rk["sv"] + rbd._acr(np.abs(rk["w"]), np.abs(r)) + rk["sw"] * np.abs(r).max()).max()
                return _vt(val, sc)
            # accelerations: global coordinates; on bodies with dofs the linear acceleration follows the accelerometer convention
            # (includes gravity as the world acceleration -g, see ASSUMPTIONS of the check). The documentation of framelinacc
            # ("3D linear acceleration of the spatial frame of the object, in global coordinates") does not mention gravity, so on
            # a frame attached to a dof-less (static / mocap) body both the literal kinematic value 0 and the accelerometer-
            # convention value -g are documented readings: both are accepted (audit B1; the check counts which one is seen).
            if k == "FRAMEANGACC":
                return _vt(pk["aa"], pk["saa"].max())
            r = _vt(pk["al"] - ctx["gravity"], (pk["sal"] + np.abs(ctx["gravity"])).max())
            if not T.chain[b]:
                r.tags.add("static-frame-linacc")
                r.alts.append(_vt(pk["al"], pk["sal"].max()))
            return r

        # ---- site-mounted inertial sensors
        if k in ("ACCELEROMETER", "VELOCIMETER", "GYRO", "MAGNETOMETER", "FORCE", "TORQUE"):
            b, p, R, q = self.frame(K, C["mjOBJ_SITE"], oid)
            if k == "MAGNETOMETER":
                return _vt(R.T @ np.asarray(S["magnetic"]), np.abs(S["magnetic"]).max())
            if k in ("FORCE", "TORQUE"):
                W, Ws = self.interaction_wrench(ctx, S, b)
                sub = set(T.subtree[b])
                unk = ctx["ext_unknown"] & sub
                if unk:
                    raise _Skip("external-constraint-force-not-derivable")
                f = W[3:]
                if k == "FORCE":
                    r = _vt(R.T @ f, Ws[3:].max())
                else:
                    tq = W[:3] - np.cross(p, f)                     # move the moment from the world origin to the site
                    r = _vt(R.T @ tq, (Ws[:3] + rbd._acr(np.abs(p), Ws[3:])).max())
                if any((b1 in sub) != (b2 in sub) for b1, b2 in ctx["weld_pairs"]):
                    r.tags.add("weld-external")
                    Wr = ctx["Wraw_last"]
                    r.extra["weld_rows_as_world_torque"] = R.T @ (Wr[3:] if k == "FORCE" else Wr[:3] - np.cross(p, Wr[3:]))
                if any(int(c["efc_address"]) >= 0 for c in S["contacts"]):
                    r.tags.add("contacts")
                return r
            pk = self.point_kin(ctx, b, p)
            if k == "GYRO":
                return _vt(R.T @ pk["w"], pk["sw"].max())
            if k == "VELOCIMETER":
                return _vt(R.T @ pk["v"], pk["sv"].max())
            r = _vt(R.T @ (pk["al"] - ctx["gravity"]), (pk["sal"] + np.abs(ctx["gravity"])).max())
            if not T.chain[b]:
                r.tags.add("static-body")
            return r

        if k == "TOUCH":
            return self._touch(S, ctx, oid)
        if k == "RANGEFINDER":
            return self._rangefinder(i, S, ctx, oid, otype)

        # ---- subtree quantities
        if k == "SUBTREECOM":
            com = T.subtree_com(K, oid)
            return _vt(com, 1 + np.abs(com).max())
        if k in ("SUBTREELINVEL", "SUBTREEANGMOM"):
            sub = T.subtree[oid]
            ms = T.body_mass[sub]
            tot = ms.sum()
            if tot <= 0:
                raise _Skip("massless-subtree")
            com = T.subtree_com(K, oid)
            vs = np.array([T.point_velocity(V, j, K.xipos[j])[1] for j in sub])
            vc = (ms[:, None] * vs).sum(0) / tot
            if k == "SUBTREELINVEL":
                return _vt(vc, np.abs(vs).max())
            Lm = np.zeros(3)
            sc = 0.0
            for j, m_, v_ in zip(sub, ms, vs):
                Ic = K.ximat[j] @ np.diag(T.body_inertia[j]) @ K.ximat[j].T
                w = V[j][:3]
                r = K.xipos[j] - com
                Lm += Ic @ w + m_ * np.cross(r, v_ - vc)
                sc += (np.abs(Ic) @ np.abs(w)).max() + m_ * np.abs(r).max() * (np.abs(v_).max() + np.abs(vc).max()) * 2
            return _vt(Lm, sc)

        # ---- global
        if k == "CLOCK":
            return _vt(S["time"], 0, 0)
        if k == "E_KINETIC":
            if A["tendon_armature"].any() or ("actuator_armature" in A and A["actuator_armature"].any()):
                raise _Skip("armature-beyond-joints")
            ke, sc = 0.0, 0.0
            for b in range(1, T.nbody):
                I = T.spatial_inertia(K, b)
                ke += 0.5 * V[b] @ I @ V[b]
                sc += 0.5 * np.abs(V[b]) @ np.abs(I) @ np.abs(V[b])
            arm = 0.5 * (A["dof_armature"] * qvel * qvel).sum()
            return _vt(ke + arm, sc + arm)
        if k == "E_POTENTIAL":
            return self._potential(S, ctx)
        raise _Skip("unsupported-type")

    # ---- pieces --------------------------------------------------------------------------------------------------------
    def _limit(self, i, k, S, ctx, oid):
        A, C = self.A, self.C
        joint = k.startswith("JOINT")
        what = k[-3:]
        if joint:
            jt = int(A["jnt_type"][oid])
            if jt not in (SLIDE, HINGE):
                raise _Skip("ball-joint-limit")
            x = float(S["qpos"][A["jnt_qposadr"][oid]])
            xd = float(ctx["qvel"][A["jnt_dofadr"][oid]])
            lo, hi = A["jnt_range"].reshape(-1, 2)[oid]
            margin, limited = float(A["jnt_margin"][oid]), bool(A["jnt_limited"][oid])
            ctype = C["mjCNSTR_LIMIT_JOINT"]
        else:
            x, xd = float(S["ten_length"][oid]), float(S["ten_velocity"][oid])
            lo, hi = A["tendon_range"].reshape(-1, 2)[oid]
            margin, limited = float(A["tendon_margin"][oid]), bool(A["tendon_limited"][oid])
            ctype = C["mjCNSTR_LIMIT_TENDON"]
        # documented: distance to the limit, active (constraint present) when distance < margin; lower side listed first
        sides = []
        if limited and S["limits_enabled"]:
            for side, dist, vel in ((0, x - lo, xd), (1, hi - x, -xd)):
                if dist < margin:
                    sides.append((side, dist, vel))
        rows = [j for j in range(int(S["ne"]) + int(S["nf"]), int(S["nefc"])) if int(S["efc_type"][j]) == ctype and int(S["efc_id"][j]) == oid]
        near = limited and S["limits_enabled"] and min(abs(x - lo - margin), abs(hi - x - margin)) < 1e-12 * (1 + abs(x) + abs(lo) + abs(hi))
        if near:
            raise _Skip("limit-distance-equals-margin")
        if len(rows) != len(sides):
            r = Result(np.zeros(1), np.zeros(1))
            r.tags.add("limit-row-count-differs:%d-vs-%d" % (len(rows), len(sides)))
            r.skip = "limit-rows-differ-from-documented-activation"
            return r
        if not sides:
            return _vt(0.0, 0, 0)
        vals = []
        for (side, dist, vel), row in zip(sides, rows):
            if what == "POS":
                vals.append((dist - margin, 1 + abs(x) + abs(lo) + abs(hi) + abs(margin)))
            elif what == "VEL":
                vals.append((vel, abs(vel)))
            else:
                vals.append((float(S["efc_force"][row]), 0.0))
        r = _vt(vals[0][0], vals[0][1], 1e-13)
        for v, s in vals[1:]:
            r.alts.append(_vt(v, s, 1e-13))
        r.tags.add("limit-active")
        return r

    def _touch(self, S, ctx, sid):
        A, C, T, K = self.A, self.C, self.T, ctx["K"]
        b, p, R, q = self.frame(K, C["mjOBJ_SITE"], sid)
        stype, size = int(A["site_type"][sid]), tuple(float(x) for x in self.site_size[sid])
        if stype not in (RAY.SPHERE, RAY.CAPSULE, RAY.ELLIPSOID, RAY.CYLINDER, RAY.BOX):
            raise _Skip("site-shape-not-modelled")
        sure, maybe, sc = 0.0, [], 0.0
        Rl = R.tolist()
        for c in S["contacts"]:
            if int(c["efc_address"]) < 0:
                continue
            g1, g2 = int(c["geom"][0]), int(c["geom"][1])
            if g1 < 0 or g2 < 0:
                raise _Skip("flex-contact")
            b1, b2 = int(A["geom_bodyid"][g1]), int(A["geom_bodyid"][g2])
            if b not in (b1, b2):
                continue
            fn = self._contact_wrench(c, S["efc_force"], S["pyramidal"])[0]
            if not fn > 0:
                continue
            nrm = np.asarray(c["frame"][:3])
            # the normal ray leaves the sensorised body towards the other body (normal points from geom1 to geom2)
            dirn = nrm if b == b1 else -nrm
            if b1 == b2:
                maybe.append(fn)
                continue
            cp = np.asarray(c["pos"])
            loc = R.T @ (cp - p)
            inside = RAY.sdf(stype, size, tuple(loc))
            res = RAY.outcomes(stype, tuple(p), Rl, size, tuple(cp), tuple(dirn))
            hits = [x >= 0 for x in res]
            tolg = 1e-9 * max(size)
            if inside < -tolg or all(hits):
                sure += fn
            elif abs(inside) <= tolg or any(hits):
                maybe.append(fn)
            sc += abs(fn)
        r = _vt(sure, sc, 1e-12)
        if maybe:
            if len(maybe) > 6:
                raise _Skip("too-many-grazing-contacts")
            for mask in range(1, 1 << len(maybe)):
                r.alts.append(_vt(sure + sum(f for j, f in enumerate(maybe) if mask >> j & 1), sc + sum(maybe), 1e-12))
            r.tags.add("touch-ambiguous")
        if sure > 0:
            r.tags.add("touch-active")
        return r

    def _geoms_world(self, ctx):
        if "G" not in ctx:
            A, T, K = self.A, self.T, ctx["K"]
            G = []
            for g in range(self.n["ngeom"]):
                b = int(A["geom_bodyid"][g])
                p, R, q = T.local2global(K, b, self.geom_pos[g], self.geom_quat[g])
                G.append((int(A["geom_type"][g]), tuple(p.tolist()), R.tolist(), tuple(self.geom_size[g].tolist())))
            ctx["G"] = G
        return ctx["G"]

    def _rangefinder(self, i, S, ctx, sid, otype):
        A, C, K = self.A, self.C, ctx["K"]
        if otype != C["mjOBJ_SITE"]:
            raise _Skip("camera-rangefinder")
        spec = int(A["sensor_intprm"].reshape(self.n["nsensor"], -1)[i, 0])
        if spec & (1 << 4):
            raise _Skip("rangefinder-normal-output")
        b, p, R, q = self.frame(K, C["mjOBJ_SITE"], sid)
        vec = R[:, 2]
        G = self._geoms_world(ctx)
        inc = []
        mrgba = A["mat_rgba"].reshape(-1, 4) if "mat_rgba" in A and self.n["nmat"] else None
        rgba = A["geom_rgba"].reshape(-1, 4)
        for g in range(self.n["ngeom"]):
            if G[g][0] not in (RAY.PLANE, RAY.SPHERE, RAY.CAPSULE, RAY.ELLIPSOID, RAY.CYLINDER, RAY.BOX):
                raise _Skip("geom-type-not-modelled")
            mat = int(A["geom_matid"][g])
            alpha = mrgba[mat, 3] if (mat >= 0 and mrgba is not None) else rgba[g, 3]
            # "Geoms attached to the same body as the sensor site are excluded. Invisible geoms (alpha=0) are also excluded."
            inc.append(int(A["geom_bodyid"][g]) != b and alpha != 0)
        pt, vt = tuple(p.tolist()), tuple(vec.tolist())
        x, gi, allx = RAY.nearest(G, pt, vt, inc)
        lo_all, hi_all = math.inf, math.inf
        for g in range(len(G)):
            if not inc[g]:
                continue
            res = RAY.outcomes(G[g][0], G[g][1], G[g][2], G[g][3], pt, vt)
            vals = [v if v >= 0 else math.inf for v in res]
            lo, hi = min(vals), max(vals)
            scale = max(abs(s) for s in G[g][3]) if G[g][0] != RAY.PLANE else 1.0
            mag = math.sqrt(sum((pt[j] - G[g][1][j]) ** 2 for j in range(3))) + sum(abs(v) for v in G[g][1]) + sum(abs(v) for v in pt)
            if lo <= 20 * max(1e-9 * scale, 4e-12 * mag) or RAY.origin_surface_distance(G[g][0], G[g][1], G[g][2], G[g][3], pt) <= 20 * max(1e-9 * scale, 4e-12 * mag):
                lo = 0.0
            if G[g][0] == RAY.PLANE and RAY.plane_side(G[g][1], G[g][2], pt, vt) <= 0:
                hi = math.inf
            lo_all, hi_all = min(lo_all, lo), min(hi_all, hi)
        ambiguous = not (lo_all == hi_all == math.inf) and not (math.isfinite(lo_all) and math.isfinite(hi_all) and hi_all - lo_all <= 1e-7 * (1 + hi_all))
        # assemble the documented fields in the documented order
        hit = x >= 0
        vals, tols = [], []
        ex = 1e-9 * (1 + abs(x)) + (2e-14 * (1 + np.abs(p).sum()) ** 2 / 1e-3)
        point = p + x * vec if hit else np.zeros(3)
        fields = {"DIST": ([x], [ex]), "DIR": (vec if hit else np.zeros(3), [1e-12] * 3), "ORIGIN": (p, [1e-9 * (1 + np.abs(p).max())] * 3),
                  "POINT": (point, [ex + 1e-9 * (1 + np.abs(p).max())] * 3), "DEPTH": ([x], [ex])}
        for bit, (nm, sz) in enumerate(RAYDATA):
            if spec & (1 << bit):
                vals += list(fields[nm][0])
                tols += list(fields[nm][1])
        r = Result(np.array(vals, dtype=float), np.array(tols, dtype=float))
        if ambiguous:
            r.interval = (lo_all, hi_all)
            r.tags.add("ray-ambiguous")
        r.tags.add("ray-hit" if hit else "ray-miss")
        return r

    def _potential(self, S, ctx):
        A, T, K = self.A, self.T, ctx["K"]
        for nm in ("jnt_stiffnesspoly", "tendon_stiffnesspoly"):
            if nm in A and A[nm].any():
                raise _Skip("polynomial-stiffness")
        if self.n["nflex"]:
            raise _Skip("flex")
        g = ctx["gravity"]
        e, sc = 0.0, 0.0
        for b in range(1, T.nbody):
            t = T.body_mass[b] * (g @ K.xipos[b])
            e -= t
            sc += T.body_mass[b] * (np.abs(g) @ np.abs(K.xipos[b]))
        if S["springs_enabled"]:
            qpos, qs = np.asarray(S["qpos"], dtype=float), A["qpos_spring"]
            for j in range(T.njnt):
                kk = float(A["jnt_stiffness"][j])
                if kk == 0:
                    continue
                pa, t = int(T.jnt_qposadr[j]), int(T.jnt_type[j])
                if t == FREE:
                    dd = qpos[pa:pa + 3] - qs[pa:pa + 3]
                    e += 0.5 * kk * (dd @ dd)
                    pa += 3
                if t in (FREE, BALL):
                    dq = rbd.qmul(rbd.qconj(rbd.qnorm(qs[pa:pa + 4])), rbd.qnorm(qpos[pa:pa + 4]))
                    rv = rbd.q2rotvec(dq)
                    e += 0.5 * kk * (rv @ rv)
                else:
                    e += 0.5 * kk * (qpos[pa] - qs[pa]) ** 2
            ls = A["tendon_lengthspring"].reshape(-1, 2)
            for t in range(self.n["ntendon"]):
                kk = float(A["tendon_stiffness"][t])
                if kk == 0:
                    continue
                Lt = float(S["ten_length"][t])
                x = Lt - ls[t, 1] if Lt > ls[t, 1] else (Lt - ls[t, 0] if Lt < ls[t, 0] else 0.0)
                e += 0.5 * kk * x * x
        return _vt(e, sc + abs(e))


class _Skip(Exception):
    pass


# ---- self test -------------------------------------------------------------------------------------------------------
def self_test():
    """internal consistency of the frame formulas on the rbd demo tree (no engine): the relative linear / angular velocity in a
    moving reference frame equals the finite difference of the relative position / orientation, and the point acceleration
    equals the finite difference of the point velocity. Returns the max errors."""
    T, rng = rbd._demo_tree()
    q = T.integrate_pos(T.qpos0.copy(), rng.normal(size=T.nv), 0.6)
    v = rng.normal(size=T.nv)
    a = rng.normal(size=T.nv)
    h = 1e-6
    bo, br = 3, 2
    lo, lr = rng.normal(size=3) * 0.2, rng.normal(size=3) * 0.2

    def rel(qq, vv):
        K = T.fk(qq)
        V, Sd = T.velocities(K, vv)
        po, pr = K.xpos[bo] + K.xmat[bo] @ lo, K.xpos[br] + K.xmat[br] @ lr
        wo, vo = T.point_velocity(V, bo, po)
        wr, vr = T.point_velocity(V, br, pr)
        Rr = K.xmat[br]
        relv = Rr.T @ (vo - vr - np.cross(wr, po - pr))
        relw = Rr.T @ (wo - wr)
        jp, jr = T.point_jac(K, bo, po)
        jpd, jrd = T.point_jacdot(K, V, Sd, bo, po)
        return Rr.T @ (po - pr), Rr.T @ K.xmat[bo], relv, relw, vo, jp, jpd

    p0, R0, relv, relw, vo, jp, jpd = rel(q, v)
    pp, Rp, _, _, vop, _, _ = rel(T.integrate_pos(q, v, h), v + h * a)
    pm, Rm, _, _, vom, _, _ = rel(T.integrate_pos(q, v, -h), v - h * a)
    out = {"rel_linvel_fd": float(np.abs((pp - pm) / (2 * h) - relv).max())}
    # relative angular velocity expressed in the reference frame: Rdot = [w]x R  (R = orientation of obj in ref)
    Wm = (Rp - Rm) / (2 * h) @ R0.T
    out["rel_angvel_fd"] = float(np.abs(np.array([Wm[2, 1], Wm[0, 2], Wm[1, 0]]) - relw).max())
    out["point_acc_fd"] = float(np.abs((vop - vom) / (2 * h) - (jp @ a + jpd @ v)).max())
    # cutoff semantics
    Cc = {"mjDATATYPE_REAL": 0, "mjDATATYPE_POSITIVE": 1, "mjDATATYPE_AXIS": 2, "mjDATATYPE_QUATERNION": 3}
    assert list(apply_cutoff([-3, 0.5, 3], 1, 0, Cc)) == [-1, 0.5, 1] and list(apply_cutoff([-3, 3], 1, 1, Cc)) == [-3, 1]
    assert list(apply_cutoff([-3, 3], 1, 2, Cc)) == [-3, 3] and list(apply_cutoff([-3, 3], 0, 0, Cc)) == [-3, 3]
    assert out["rel_linvel_fd"] < 1e-7 and out["rel_angvel_fd"] < 1e-7 and out["point_acc_fd"] < 1e-7, out
    return out


if __name__ == "__main__":
    print(self_test())
