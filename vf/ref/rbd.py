"""Independent rigid-body reference (numpy only) for kinematic trees in the MJCF convention.

Written from the documentation (doc/computation: "Kinematic tree", "General framework"; doc/XMLreference: body/joint/
inertial; doc/programming: free-joint velocity convention: linear velocity in the world frame, angular velocity in
the body frame) using textbook spatial algebra (Featherstone) expressed in WORLD coordinates about the WORLD ORIGIN:

    motion vectors  [omega ; v_O]   (v_O = velocity of the body-fixed point that currently coincides with the origin)
    force vectors   [n_O   ; f  ]

This is deliberately a different representation from the engine's subtree-COM based "c-frame" and uses dense
O(n^2)/O(n^3) formulas instead of the engine's sparse recursions.

    T  = Tree(arrays)                       # arrays: mapping name -> numpy array / int (model constants only)
    K  = T.fk(qpos [, mocap_pos, mocap_quat])
    J  = T.body_jac6(K, b)                  # 6 x nv
    jp, jr = T.point_jac(K, b, p)           # 3 x nv each, world point p attached to body b
    M  = T.mass_matrix(K)                   # sum_b J_b' I_b J_b   (rigid part only; armature is added by the caller)
    tau = T.rne(K, qvel, qacc, gravity)     # inverse dynamics of the rigid tree
    T.integrate_pos(q, v, dt), T.differentiate_pos(q2, q1, dt)
"""
import numpy as np

FREE, BALL, SLIDE, HINGE = 0, 1, 2, 3
NDOF = {FREE: 6, BALL: 3, SLIDE: 1, HINGE: 1}
NPOS = {FREE: 7, BALL: 4, SLIDE: 1, HINGE: 1}


# ---- quaternions / rotations (w, x, y, z) -------------------------------------------------------------------------
def qnorm(q):
    q = np.asarray(q, dtype=float)
    n = np.linalg.norm(q)
    if n < 1e-15:
        return np.array([1.0, 0, 0, 0])
    return q / n


def qmul(a, b):
    aw, ax, ay, az = a
    bw, bx, by, bz = b
    return np.array([aw * bw - ax * bx - ay * by - az * bz,
                     aw * bx + ax * bw + ay * bz - az * by,
                     aw * by - ax * bz + ay * bw + az * bx,
                     aw * bz + ax * by - ay * bx + az * bw])


def qconj(q):
    return np.array([q[0], -q[1], -q[2], -q[3]])


def q2mat(q):
    w, x, y, z = q
    return np.array([[w * w + x * x - y * y - z * z, 2 * (x * y - w * z), 2 * (x * z + w * y)],
                     [2 * (x * y + w * z), w * w - x * x + y * y - z * z, 2 * (y * z - w * x)],
                     [2 * (x * z - w * y), 2 * (y * z + w * x), w * w - x * x - y * y + z * z]])


def axang2q(axis, angle):
    axis = np.asarray(axis, dtype=float)
    n = np.linalg.norm(axis)
    if n < 1e-15 or angle == 0:
        return np.array([1.0, 0, 0, 0])
    s = np.sin(angle / 2) / n
    return np.array([np.cos(angle / 2), axis[0] * s, axis[1] * s, axis[2] * s])


def rotvec2q(v):
    ang = np.linalg.norm(v)
    if ang < 1e-300:
        return np.array([1.0, 0, 0, 0])
    return axang2q(v / ang, ang)


def q2rotvec(q):
    """rotation vector (axis*angle, angle in (-pi, pi]) of a unit quaternion"""
    s = np.linalg.norm(q[1:])
    if s < 1e-300:
        return np.zeros(3)
    ang = 2 * np.arctan2(s, q[0])
    if ang > np.pi:
        ang -= 2 * np.pi
    return q[1:] / s * ang


def mat2rotvec(R):
    """log of a rotation matrix (robust for small angles)"""
    w = np.array([R[2, 1] - R[1, 2], R[0, 2] - R[2, 0], R[1, 0] - R[0, 1]]) * 0.5
    s = np.linalg.norm(w)
    c = (np.trace(R) - 1) * 0.5
    ang = np.arctan2(s, c)
    if s < 1e-12:
        return w
    return w / s * ang


def skew(v):
    return np.array([[0, -v[2], v[1]], [v[2], 0, -v[0]], [-v[1], v[0], 0.0]])


def cross_motion(v, m):
    """spatial motion cross product v x m"""
    return np.concatenate([np.cross(v[:3], m[:3]), np.cross(v[:3], m[3:]) + np.cross(v[3:], m[:3])])


def cross_force(v, f):
    """spatial force cross product v x* f"""
    return np.concatenate([np.cross(v[:3], f[:3]) + np.cross(v[3:], f[3:]), np.cross(v[:3], f[3:])])


def _acr(a, b):
    """componentwise magnitude bound of a cross product of two non-negative vectors"""
    return np.array([a[1] * b[2] + a[2] * b[1], a[2] * b[0] + a[0] * b[2], a[0] * b[1] + a[1] * b[0]])


class Kin:
    pass


class Tree:
    def __init__(self, A):
        g = lambda k: np.array(A[k], copy=True)
        self.nbody = int(A["nbody"])
        self.nv = int(A["nv"])
        self.nq = int(A["nq"])
        self.njnt = int(A["njnt"])
        self.parent = g("body_parentid").astype(int)
        self.body_pos = g("body_pos").reshape(-1, 3)
        self.body_quat = g("body_quat").reshape(-1, 4)
        self.body_ipos = g("body_ipos").reshape(-1, 3)
        self.body_iquat = g("body_iquat").reshape(-1, 4)
        self.body_mass = g("body_mass").ravel()
        self.body_inertia = g("body_inertia").reshape(-1, 3)
        self.body_jntadr = g("body_jntadr").astype(int)
        self.body_jntnum = g("body_jntnum").astype(int)
        self.body_mocapid = g("body_mocapid").astype(int)
        self.jnt_type = g("jnt_type").astype(int)
        self.jnt_qposadr = g("jnt_qposadr").astype(int)
        self.jnt_dofadr = g("jnt_dofadr").astype(int)
        self.jnt_pos = g("jnt_pos").reshape(-1, 3)
        self.jnt_axis = g("jnt_axis").reshape(-1, 3)
        self.qpos0 = g("qpos0").ravel()
        # dof -> body, and per body the list of dofs on the path from the root (own derivation from the body tree)
        self.dof_body = np.zeros(self.nv, dtype=int)
        self.dof_jnt = np.zeros(self.nv, dtype=int)
        own = [[] for _ in range(self.nbody)]
        for b in range(self.nbody):
            for j in range(self.body_jntadr[b], self.body_jntadr[b] + self.body_jntnum[b]):
                for k in range(NDOF[self.jnt_type[j]]):
                    dof = self.jnt_dofadr[j] + k
                    self.dof_body[dof] = b
                    self.dof_jnt[dof] = j
                    own[b].append(dof)
        self.own_dofs = own
        # dof groups that share one joint frame: free -> (translation, rotation), ball -> (3 dofs), scalar -> (1 dof)
        self.groups = [[] for _ in range(self.nbody)]
        for b in range(self.nbody):
            for j in range(self.body_jntadr[b], self.body_jntadr[b] + self.body_jntnum[b]):
                va, t = self.jnt_dofadr[j], self.jnt_type[j]
                if t == FREE:
                    self.groups[b] += [list(range(va, va + 3)), list(range(va + 3, va + 6))]
                elif t == BALL:
                    self.groups[b].append(list(range(va, va + 3)))
                else:
                    self.groups[b].append([va])
        self.chain = [[] for _ in range(self.nbody)]
        for b in range(1, self.nbody):
            self.chain[b] = self.chain[self.parent[b]] + own[b]
        self.subtree = [[b] for b in range(self.nbody)]
        for b in range(self.nbody - 1, 0, -1):
            self.subtree[self.parent[b]] = self.subtree[self.parent[b]] + self.subtree[b]

    # ---- configuration-space maps ---------------------------------------------------------------------------------
    def integrate_pos(self, qpos, qvel, dt):
        q = np.array(qpos, dtype=float)
        for j in range(self.njnt):
            pa, va, t = self.jnt_qposadr[j], self.jnt_dofadr[j], self.jnt_type[j]
            if t == FREE:
                q[pa:pa + 3] += dt * qvel[va:va + 3]
                pa += 3
                va += 3
            if t in (FREE, BALL):
                qq = qmul(qnorm(q[pa:pa + 4]), rotvec2q(np.asarray(qvel[va:va + 3]) * dt))
                q[pa:pa + 4] = qnorm(qq)
            else:
                q[pa] += dt * qvel[va]
        return q

    def differentiate_pos(self, qpos2, qpos1, dt):
        """velocity v such that integrate_pos(qpos1, v, dt) == qpos2 (rotations by less than pi)"""
        v = np.zeros(self.nv)
        for j in range(self.njnt):
            pa, va, t = self.jnt_qposadr[j], self.jnt_dofadr[j], self.jnt_type[j]
            if t == FREE:
                v[va:va + 3] = (qpos2[pa:pa + 3] - qpos1[pa:pa + 3]) / dt
                pa += 3
                va += 3
            if t in (FREE, BALL):
                dq = qmul(qconj(qnorm(qpos1[pa:pa + 4])), qnorm(qpos2[pa:pa + 4]))
                v[va:va + 3] = q2rotvec(dq) / dt
            else:
                v[va] = (qpos2[pa] - qpos1[pa]) / dt
        return v

    # ---- forward kinematics ---------------------------------------------------------------------------------------
    def fk(self, qpos, mocap_pos=None, mocap_quat=None):
        nb, nv = self.nbody, self.nv
        K = Kin()
        K.xpos = np.zeros((nb, 3))
        K.xquat = np.zeros((nb, 4))
        K.xquat[:, 0] = 1
        K.xmat = np.zeros((nb, 3, 3))
        K.xmat[0] = np.eye(3)
        K.xanchor = np.zeros((self.njnt, 3))
        K.xaxis = np.zeros((self.njnt, 3))
        K.S = np.zeros((6, nv))              # motion subspace columns, world coords about world origin
        K.sdot_ref = np.zeros(nv, dtype=int)  # 0: column fixed in world, 1: fixed in the frame *before* the joint, 2: after the body
        for b in range(1, nb):
            p = self.parent[b]
            js = range(self.body_jntadr[b], self.body_jntadr[b] + self.body_jntnum[b])
            if len(js) == 1 and self.jnt_type[js[0]] == FREE:
                j = js[0]
                pa, va = self.jnt_qposadr[j], self.jnt_dofadr[j]
                pos = np.array(qpos[pa:pa + 3], dtype=float)
                quat = qnorm(qpos[pa + 3:pa + 7])
                R = q2mat(quat)
                K.xanchor[j] = pos
                K.xaxis[j] = self.jnt_axis[j]
                for k in range(3):
                    K.S[3 + k, va + k] = 1.0
                    K.sdot_ref[va + k] = 0
                    ax = R[:, k]
                    K.S[:3, va + 3 + k] = ax
                    K.S[3:, va + 3 + k] = np.cross(pos, ax)
                    K.sdot_ref[va + 3 + k] = 2
            else:
                if self.body_mocapid[b] >= 0 and mocap_pos is not None:
                    bp = np.asarray(mocap_pos).reshape(-1, 3)[self.body_mocapid[b]]
                    bq = qnorm(np.asarray(mocap_quat).reshape(-1, 4)[self.body_mocapid[b]])
                else:
                    bp, bq = self.body_pos[b], self.body_quat[b]
                pos = K.xpos[p] + K.xmat[p] @ bp
                quat = qmul(K.xquat[p], bq)
                for j in js:
                    t = self.jnt_type[j]
                    pa, va = self.jnt_qposadr[j], self.jnt_dofadr[j]
                    R = q2mat(qnorm(quat))
                    axis = R @ self.jnt_axis[j]
                    anchor = pos + R @ self.jnt_pos[j]
                    K.xanchor[j] = anchor
                    K.xaxis[j] = axis
                    if t == SLIDE:
                        pos = pos + axis * (qpos[pa] - self.qpos0[pa])
                        K.S[3:, va] = axis
                        K.sdot_ref[va] = 1
                    elif t == HINGE:
                        quat = qmul(quat, axang2q(self.jnt_axis[j], qpos[pa] - self.qpos0[pa]))
                        pos = anchor - q2mat(qnorm(quat)) @ self.jnt_pos[j]
                        K.S[:3, va] = axis
                        K.S[3:, va] = np.cross(anchor, axis)
                        K.sdot_ref[va] = 1
                    elif t == BALL:
                        quat = qmul(quat, qnorm(qpos[pa:pa + 4]))
                        Rn = q2mat(qnorm(quat))
                        pos = anchor - Rn @ self.jnt_pos[j]
                        for k in range(3):
                            ax = Rn[:, k]
                            K.S[:3, va + k] = ax
                            K.S[3:, va + k] = np.cross(anchor, ax)
                            K.sdot_ref[va + k] = 2
                    else:
                        raise ValueError("free joint mixed with other joints")
                quat = qnorm(quat)
            K.xpos[b] = pos
            K.xquat[b] = quat
            K.xmat[b] = q2mat(quat)
        # inertial frames
        K.xipos = np.zeros((nb, 3))
        K.ximat = np.zeros((nb, 3, 3))
        for b in range(nb):
            K.xipos[b] = K.xpos[b] + K.xmat[b] @ self.body_ipos[b]
            K.ximat[b] = q2mat(qnorm(qmul(K.xquat[b], self.body_iquat[b])))
        return K

    def local2global(self, K, b, pos, quat):
        """world position / rotation matrix / quaternion of a frame (pos, quat) attached to body b"""
        q = qnorm(qmul(K.xquat[b], qnorm(quat)))
        return K.xpos[b] + K.xmat[b] @ np.asarray(pos), q2mat(q), q

    def subtree_com(self, K, b):
        ms = np.array([self.body_mass[i] for i in self.subtree[b]])
        ps = np.array([K.xipos[i] for i in self.subtree[b]])
        tot = ms.sum()
        return (ms[:, None] * ps).sum(0) / tot if tot > 0 else K.xipos[b].copy()

    # ---- Jacobians -------------------------------------------------------------------------------------------------
    def body_jac6(self, K, b):
        J = np.zeros((6, self.nv))
        c = self.chain[b]
        if c:
            J[:, c] = K.S[:, c]
        return J

    def point_jac(self, K, b, p):
        J = self.body_jac6(K, b)
        jr = J[:3]
        jp = J[3:] + np.cross(jr.T, np.asarray(p)).T      # v_p = v_O + omega x p
        return jp, jr

    def subtree_com_jac(self, K, b):
        tot = sum(self.body_mass[i] for i in self.subtree[b])
        jp = np.zeros((3, self.nv))
        for i in self.subtree[b]:
            jp += self.body_mass[i] * self.point_jac(K, i, K.xipos[i])[0]
        return jp / tot

    # ---- velocities --------------------------------------------------------------------------------------------------
    def velocities(self, K, qvel):
        """per-body spatial velocity (about the world origin) and the time derivative of every column of S"""
        nb = self.nbody
        V = np.zeros((nb, 6))
        Sdot = np.zeros((6, self.nv))
        for b in range(1, nb):
            v = V[self.parent[b]].copy()
            for grp in self.groups[b]:
                ref = K.sdot_ref[grp[0]]
                vn = v + K.S[:, grp] @ np.asarray(qvel)[grp]
                for dof in grp:
                    if ref == 1:        # column fixed in the frame before the joint
                        Sdot[:, dof] = cross_motion(v, K.S[:, dof])
                    elif ref == 2:      # column fixed in the frame after the joint
                        Sdot[:, dof] = cross_motion(vn, K.S[:, dof])
                v = vn
            V[b] = v
        return V, Sdot

    def point_velocity(self, V, b, p):
        """(angular, linear) velocity of the world point p attached to body b"""
        return V[b][:3].copy(), V[b][3:] + np.cross(V[b][:3], p)

    def point_jacdot(self, K, V, Sdot, b, p):
        """d/dt of point_jac for a point p that moves with body b"""
        c = self.chain[b]
        jpd = np.zeros((3, self.nv))
        jrd = np.zeros((3, self.nv))
        if not c:
            return jpd, jrd
        pdot = V[b][3:] + np.cross(V[b][:3], p)
        jrd[:, c] = Sdot[:3, c]
        jpd[:, c] = Sdot[3:, c] + np.cross(Sdot[:3, c].T, p).T + np.cross(K.S[:3, c].T, pdot).T
        return jpd, jrd

    # ---- dynamics ------------------------------------------------------------------------------------------------------
    def spatial_inertia(self, K, b):
        m = self.body_mass[b]
        c = K.xipos[b]
        Ic = K.ximat[b] @ np.diag(self.body_inertia[b]) @ K.ximat[b].T
        cx = skew(c)
        I = np.zeros((6, 6))
        I[:3, :3] = Ic + m * (cx @ cx.T)
        I[:3, 3:] = m * cx
        I[3:, :3] = m * cx.T
        I[3:, 3:] = m * np.eye(3)
        return I

    def mass_matrix(self, K):
        M = np.zeros((self.nv, self.nv))
        for b in range(1, self.nbody):
            c = self.chain[b]
            if not c:
                continue
            J = K.S[:, c]
            M[np.ix_(c, c)] += J.T @ self.spatial_inertia(K, b) @ J
        return M

    def rne(self, K, qvel, qacc, gravity, return_scale=False):
        """tau = M_rigid(q) qacc + c(q, qvel) - gravity forces  (textbook recursive Newton-Euler, world coordinates).
        return_scale: also return, per dof, the sum of the magnitudes of all terms that are added up (rounding scale)."""
        nb = self.nbody
        Fa = np.zeros((nb, 6))
        V = np.zeros((nb, 6))
        Acc = np.zeros((nb, 6))
        Acc[0, 3:] = -np.asarray(gravity)
        F = np.zeros((nb, 6))
        for b in range(1, nb):
            v = V[self.parent[b]].copy()
            a = Acc[self.parent[b]].copy()
            for grp in self.groups[b]:
                # all columns of one joint are fixed in the same frame: sum_k Sdot_k qd_k = v_pre x (S qd)
                vj = K.S[:, grp] @ np.asarray(qvel)[grp]
                a = a + K.S[:, grp] @ np.asarray(qacc)[grp] + cross_motion(v, vj)
                v = v + vj
            V[b], Acc[b] = v, a
            I = self.spatial_inertia(K, b)
            F[b] = I @ a + cross_force(v, I @ v)
            if return_scale:
                Iv = np.abs(I) @ np.abs(v)
                av = np.abs(v)
                Fa[b] = np.abs(I) @ np.abs(a) + np.concatenate([_acr(av[:3], Iv[:3]) + _acr(av[3:], Iv[3:]), _acr(av[:3], Iv[3:])])
        for b in range(nb - 1, 0, -1):
            F[self.parent[b]] += F[b]
            Fa[self.parent[b]] += Fa[b]
        tau = np.zeros(self.nv)
        sc = np.zeros(self.nv)
        for dof in range(self.nv):
            tau[dof] = K.S[:, dof] @ F[self.dof_body[dof]]
            sc[dof] = np.abs(K.S[:, dof]) @ Fa[self.dof_body[dof]]
        return (tau, sc) if return_scale else tau

    def kinetic_energy(self, K, qvel):
        V, _ = self.velocities(K, qvel)
        return sum(0.5 * V[b] @ self.spatial_inertia(K, b) @ V[b] for b in range(1, self.nbody))


# ---- self test -----------------------------------------------------------------------------------------------------
def _demo_tree():
    """3 bodies: free root, hinge+slide child with offsets, ball grandchild"""
    rng = np.random.default_rng(0)
    rq = lambda: qnorm(rng.normal(size=4))
    A = dict(nbody=4, nv=11, nq=13, njnt=4,
             body_parentid=[0, 0, 1, 2],
             body_pos=rng.normal(size=(4, 3)) * 0.3, body_quat=np.array([[1, 0, 0, 0.0], rq(), rq(), rq()]),
             body_ipos=rng.normal(size=(4, 3)) * 0.1, body_iquat=np.array([[1, 0, 0, 0.0], rq(), rq(), rq()]),
             body_mass=[0, 1.3, 0.7, 0.4], body_inertia=np.array([[0, 0, 0], [0.02, 0.03, 0.04], [0.01, 0.015, 0.02], [0.005, 0.004, 0.003]]),
             body_jntadr=[-1, 0, 1, 3], body_jntnum=[0, 1, 2, 1], body_mocapid=[-1, -1, -1, -1],
             jnt_type=[FREE, HINGE, SLIDE, BALL], jnt_qposadr=[0, 7, 8, 9], jnt_dofadr=[0, 6, 7, 8],
             jnt_pos=rng.normal(size=(4, 3)) * 0.1, jnt_axis=np.array([[0, 0, 1.0], qnorm(rng.normal(size=3)), qnorm(rng.normal(size=3)), [0, 0, 1.0]]),
             qpos0=np.array([0, 0, 0, 1, 0, 0, 0, 0.1, -0.2, 1, 0, 0, 0.0]))
    A["jnt_pos"][0] = 0
    return Tree(A), rng


def self_test():
    """internal consistency of the reference (independent of the engine): returns max relative errors"""
    T, rng = _demo_tree()
    q = T.qpos0.copy()
    q = T.integrate_pos(q, rng.normal(size=T.nv), 0.7)
    v = rng.normal(size=T.nv)
    a = rng.normal(size=T.nv)
    g = np.array([0.3, -0.2, -9.81])
    K = T.fk(q)
    M = T.mass_matrix(K)
    out = {}
    # (1) RNE(a) - RNE(0) == M a
    out["rne_linear"] = np.abs(T.rne(K, v, a, g) - T.rne(K, v, 0 * a, g) - M @ a).max() / np.abs(M).max()
    # (2) Jacobian == FD of positions along integrate_pos
    eps = 1e-6
    err = 0
    for b in range(1, T.nbody):
        ploc = rng.normal(size=3)
        p = K.xpos[b] + K.xmat[b] @ ploc
        jp, jr = T.point_jac(K, b, p)
        for i in range(T.nv):
            e = np.zeros(T.nv)
            e[i] = 1
            Kp, Km = T.fk(T.integrate_pos(q, e, eps)), T.fk(T.integrate_pos(q, e, -eps))
            fd = ((Kp.xpos[b] + Kp.xmat[b] @ ploc) - (Km.xpos[b] + Km.xmat[b] @ ploc)) / (2 * eps)
            fr = mat2rotvec(Kp.xmat[b] @ Km.xmat[b].T) / (2 * eps)
            err = max(err, np.abs(fd - jp[:, i]).max(), np.abs(fr - jr[:, i]).max())
    out["jac_fd"] = err
    # (3) power balance: d/dt KE == v . (M a + c) with gravity off, along a short trajectory (energy theorem)
    z = np.zeros(3)
    tau = T.rne(K, v, a, z)
    h = 1e-5
    Kp, Km = T.fk(T.integrate_pos(q, v, h)), T.fk(T.integrate_pos(q, v, -h))
    # KE(t+h) with velocity v + h a  (free/ball velocities are body-frame, constant components => consistent with integrate_pos)
    dke = (T.kinetic_energy(Kp, v + h * a) - T.kinetic_energy(Km, v - h * a)) / (2 * h)
    out["power_balance"] = abs(dke - v @ tau) / (abs(v @ tau) + 1)
    # (4) jacdot == FD of jac along qvel
    V, Sdot = T.velocities(K, v)
    b = 3
    ploc = rng.normal(size=3)
    p = K.xpos[b] + K.xmat[b] @ ploc
    jpd, jrd = T.point_jacdot(K, V, Sdot, b, p)
    jp1, jr1 = T.point_jac(Kp, b, Kp.xpos[b] + Kp.xmat[b] @ ploc)
    jp0, jr0 = T.point_jac(Km, b, Km.xpos[b] + Km.xmat[b] @ ploc)
    out["jacdot_fd"] = max(np.abs((jp1 - jp0) / (2 * h) - jpd).max(), np.abs((jr1 - jr0) / (2 * h) - jrd).max())
    # (5) differentiate inverts integrate
    q2 = T.integrate_pos(q, v, 0.3)
    out["diff_int"] = np.abs(T.differentiate_pos(q2, q, 0.3) - v).max()
    assert out["rne_linear"] < 1e-12 and out["jac_fd"] < 1e-7 and out["power_balance"] < 1e-6 and out["jacdot_fd"] < 1e-6 \
        and out["diff_int"] < 1e-12, out
    return out


if __name__ == "__main__":
    print(self_test())
