"""Analytic mass properties of MuJoCo's primitive geoms and their composition (reference for C35/C36).

Everything is derived from textbook integrals, not from the compiler sources:

* solid primitives: volume and principal moments about the centroid (sphere, capsule = cylinder + two hemispheres
  composed with the parallel-axis theorem from the hemisphere's own centroid 3r/8, ellipsoid, cylinder, box);
* shells (uniform surface density): area and moments (sphere 2/3 m r^2; hemispherical shell centroid r/2; lateral
  cylinder surface m r^2 / m(r^2/2 + h^2/12); discs; rectangular plates).  The ellipsoidal shell has no closed form:
  it is integrated by Gauss-Legendre x periodic-trapezoid quadrature of the surface element;
* closed triangulated polyhedra: exact volume / centroid / inertia by signed tetrahedra from the origin (covariance
  of a tetrahedron with one vertex at 0), and area-weighted surface moments for shells;
* composition: full tensors R diag(I) R^T, summed about the common centre of mass with m (|d|^2 1 - d d^T);
* the MJCF orientation spellings as documented in modeling.rst "Frame orientations" and XMLreference eulerseq.

Units are arbitrary; `measure` is the volume (solid) or area (shell) so that mass = density * measure.
"""
import math

import numpy as np

from . import so3

PI = math.pi


# ---- orientation spellings (documentation: modeling.rst "Frame orientations") ----------------------------------

def orient_mat(kind, vals, degree=True, eulerseq="xyz"):
    """Rotation matrix (columns = frame axes in the parent) of an MJCF orientation attribute."""
    v = [float(x) for x in vals]
    k = PI / 180.0 if degree else 1.0
    if kind == "quat":
        return so3.quat_to_mat(v)
    if kind == "axisangle":
        ax = np.array(v[:3])
        return so3.exp_so3(ax / np.linalg.norm(ax) * v[3] * k)
    if kind == "euler":
        return so3.euler_mat([x * k for x in v], eulerseq)
    if kind == "xyaxes":
        x = np.array(v[:3])
        x = x / np.linalg.norm(x)
        y = np.array(v[3:6])
        y = y - x * float(x @ y)
        y = y / np.linalg.norm(y)
        return np.column_stack([x, y, np.cross(x, y)])
    if kind == "zaxis":
        z = np.array(v)
        z = z / np.linalg.norm(z)
        ax = np.cross([0.0, 0.0, 1.0], z)
        s = float(np.linalg.norm(ax))
        if s < 1e-10:
            # (anti)parallel: the documented "minimal rotation" is the identity for +z; for -z any half turn about an
            # axis in the xy plane is minimal, callers avoid that case
            return np.eye(3) if z[2] > 0 else np.diag([1.0, -1.0, -1.0])
        return so3.exp_so3(ax / s * math.atan2(s, z[2]))
    raise ValueError(kind)


def mat_to_quat(R):
    """Unit quaternion (w>=0) of a rotation matrix (Shepperd's method)."""
    R = np.asarray(R, float)
    t = np.trace(R)
    c = [t, R[0, 0], R[1, 1], R[2, 2]]
    i = int(np.argmax(c))
    if i == 0:
        w = 0.5 * math.sqrt(1 + t)
        q = [w, (R[2, 1] - R[1, 2]) / (4 * w), (R[0, 2] - R[2, 0]) / (4 * w), (R[1, 0] - R[0, 1]) / (4 * w)]
    elif i == 1:
        x = 0.5 * math.sqrt(1 + R[0, 0] - R[1, 1] - R[2, 2])
        q = [(R[2, 1] - R[1, 2]) / (4 * x), x, (R[0, 1] + R[1, 0]) / (4 * x), (R[0, 2] + R[2, 0]) / (4 * x)]
    elif i == 2:
        y = 0.5 * math.sqrt(1 - R[0, 0] + R[1, 1] - R[2, 2])
        q = [(R[0, 2] - R[2, 0]) / (4 * y), (R[0, 1] + R[1, 0]) / (4 * y), y, (R[1, 2] + R[2, 1]) / (4 * y)]
    else:
        z = 0.5 * math.sqrt(1 - R[0, 0] - R[1, 1] + R[2, 2])
        q = [(R[1, 0] - R[0, 1]) / (4 * z), (R[0, 2] + R[2, 0]) / (4 * z), (R[1, 2] + R[2, 1]) / (4 * z), z]
    q = np.array(q)
    q = q / np.linalg.norm(q)
    return q if q[0] >= 0 else -q


def mat_to_axisangle(R):
    q = mat_to_quat(R)
    s = float(np.linalg.norm(q[1:]))
    if s < 1e-15:
        return np.array([0.0, 0.0, 1.0]), 0.0
    return q[1:] / s, 2.0 * math.atan2(s, q[0])


def euler_product_order(seq):
    """axes (0,1,2) of the elementary rotations in the order they appear in the matrix product that the documented
    rule builds (intrinsic letters post-multiply, extrinsic letters pre-multiply)."""
    order = []
    for ch in seq:
        a = "xyz".index(ch.lower())
        if ch.islower():
            order.append(a)
        else:
            order.insert(0, a)
    return order


def euler_seq_complete(seq):
    """True when the sequence can represent every rotation (no two neighbouring factors about the same axis)."""
    o = euler_product_order(seq)
    return o[0] != o[1] and o[1] != o[2]


def mat_to_euler(R, seq):
    """Angles e with so3.euler_mat(e, seq) == R, for any 3-letter sequence over {x,y,z,X,Y,Z} with distinct
    neighbouring axes handled by a generic numeric solve (Newton on the rotation-vector residual, started from a
    closed-form guess for the all-intrinsic/all-extrinsic case, else from a coarse grid)."""
    R = np.asarray(R, float)
    if not euler_seq_complete(seq):
        return None

    def res(e):
        D = so3.euler_mat(e, seq).T @ R
        return np.array([D[2, 1] - D[1, 2], D[0, 2] - D[2, 0], D[1, 0] - D[0, 1]]) * 0.5, np.trace(D)

    best = None
    starts = [np.zeros(3)]
    g = np.linspace(-2.5, 2.5, 5)
    starts += [np.array([a, b, c]) for a in g for b in g for c in g]
    for e0 in starts:
        e = e0.copy()
        ok = False
        for _ in range(40):
            r, tr = res(e)
            if np.linalg.norm(r) < 1e-14 and tr > 2.9:
                ok = True
                break
            J = np.zeros((3, 3))
            h = 1e-6
            for j in range(3):
                d = np.zeros(3)
                d[j] = h
                J[:, j] = (res(e + d)[0] - res(e - d)[0]) / (2 * h)
            try:
                step = np.linalg.solve(J, -r)
            except np.linalg.LinAlgError:
                break
            n = np.linalg.norm(step)
            if n > 1.0:
                step = step / n
            e = e + step
        if ok:
            e = (e + PI) % (2 * PI) - PI
            if np.abs(so3.euler_mat(e, seq) - R).max() < 1e-12:
                best = e
                break
    return best


# ---- primitives -----------------------------------------------------------------------------------------------

def _ellipsoid_shell(a, b, c, nt=160, nph=256):
    """area and second moments (per unit surface density) of the ellipsoid surface by quadrature."""
    x, w = np.polynomial.legendre.leggauss(nt)
    th = 0.5 * PI * (x + 1.0)
    wt = 0.5 * PI * w
    ph = (np.arange(nph) + 0.5) * (2 * PI / nph)
    T, Pm = np.meshgrid(th, ph, indexing="ij")
    st, ct, sp, cp = np.sin(T), np.cos(T), np.sin(Pm), np.cos(Pm)
    dA = st * np.sqrt((b * c * st * cp) ** 2 + (a * c * st * sp) ** 2 + (a * b * ct) ** 2)
    W = wt[:, None] * (2 * PI / nph) * dA
    X, Y, Z = a * st * cp, b * st * sp, c * ct
    A = float(W.sum())
    sxx, syy, szz = float((W * X * X).sum()), float((W * Y * Y).sum()), float((W * Z * Z).sum())
    return A, np.array([syy + szz, sxx + szz, sxx + syy])


# Thomsen's closed-form approximation of the ellipsoid area, 4 pi ((a^p b^p + b^p c^p + c^p a^p)/3)^(1/p) with p = 1.6075, has a
# worst-case relative error of 1.061 % (Thomsen 2004; the supremum is reached for a flat disc).  The area of a general ellipsoid
# has no closed form (incomplete elliptic integrals) and the documentation promises "density ... has semantics of mass/area"
# without promising an exact area, so C35 accepts the mass of a density-specified ellipsoidal shell within this bound (with a
# little head room for the quadrature) instead of treating it as a defect.  The formula itself is deliberately NOT evaluated here.
THOMSEN_MAX_RELERR = 1.07e-2


def ellipsoid_layer_unit_inertia(a, b, c, eps=1e-6):
    """DEFECT MODEL, used only by C35's classifier of the known finding `ellipsoid-shell:inertia-tensor` (never as the
    reference): principal moments per unit mass of the solid layer between the ellipsoids (a,b,c) and (a+eps,b+eps,c+eps).
    That layer has non-uniform normal thickness eps (u1^2/a + u2^2/b + u3^2/c) / |(u1/a, u2/b, u3/c)|, so its moments differ from
    the uniform shell's by up to 20 % (needle / disc limits), 15 % for aspect ratios up to 14."""
    def vol(a, b, c):
        return 4.0 / 3.0 * PI * a * b * c

    def mom(a, b, c):
        return vol(a, b, c) * np.array([b * b + c * c, a * a + c * c, a * a + b * b]) / 5.0
    return (mom(a + eps, b + eps, c + eps) - mom(a, b, c)) / (vol(a + eps, b + eps, c + eps) - vol(a, b, c))


def primitive(gtype, size, shell=False):
    """(measure, I_unit) with I_unit the principal moments about the centroid PER UNIT MASS, in the geom frame
    (capsule/cylinder axis = z; size as in MJCF: radius, half-length / semi-axes / half-extents)."""
    s = [float(v) for v in size]
    if gtype == "sphere":
        r = s[0]
        if shell:
            return 4 * PI * r * r, np.full(3, 2.0 / 3.0 * r * r)
        return 4.0 / 3.0 * PI * r ** 3, np.full(3, 0.4 * r * r)
    if gtype == "cylinder":
        r, hh = s[0], s[1]
        h = 2 * hh
        if shell:
            a_side, a_disc = 2 * PI * r * h, PI * r * r
            A = a_side + 2 * a_disc
            ixx = a_side * (r * r / 2 + h * h / 12) + 2 * a_disc * (r * r / 4 + hh * hh)
            izz = a_side * r * r + 2 * a_disc * r * r / 2
            return A, np.array([ixx, ixx, izz]) / A
        return PI * r * r * h, np.array([(3 * r * r + h * h) / 12, (3 * r * r + h * h) / 12, r * r / 2])
    if gtype == "capsule":
        r, hh = s[0], s[1]
        h = 2 * hh
        if shell:
            a_side, a_hemi = 2 * PI * r * h, 2 * PI * r * r
            A = a_side + 2 * a_hemi
            # hemispherical shell: centroid at r/2 from the flat rim, transverse moment about the sphere centre
            # 2/3 m r^2, hence about its own centroid (2/3 - 1/4) m r^2, axial 2/3 m r^2
            d = hh + r / 2
            ixx = a_side * (r * r / 2 + h * h / 12) + 2 * a_hemi * ((2.0 / 3 - 0.25) * r * r + d * d)
            izz = a_side * r * r + 2 * a_hemi * (2.0 / 3) * r * r
            return A, np.array([ixx, ixx, izz]) / A
        v_cyl, v_hemi = PI * r * r * h, 2.0 / 3.0 * PI * r ** 3
        V = v_cyl + 2 * v_hemi
        # solid hemisphere: centroid 3r/8, moments about the sphere centre 2/5 m r^2 (all axes)
        d = hh + 3 * r / 8
        ixx = v_cyl * (3 * r * r + h * h) / 12 + 2 * v_hemi * ((0.4 - 9.0 / 64) * r * r + d * d)
        izz = v_cyl * r * r / 2 + 2 * v_hemi * 0.4 * r * r
        return V, np.array([ixx, ixx, izz]) / V
    if gtype == "ellipsoid":
        a, b, c = s[:3]
        if shell:
            A, I = _ellipsoid_shell(a, b, c)
            return A, I / A
        return 4.0 / 3.0 * PI * a * b * c, np.array([b * b + c * c, a * a + c * c, a * a + b * b]) / 5.0
    if gtype == "box":
        a, b, c = s[:3]
        if shell:
            # plates: pair normal to z (2a x 2b at z=+-c), normal to x (2b x 2c at x=+-a), normal to y (2a x 2c at y=+-b)
            az, ax, ay = 4 * a * b, 4 * b * c, 4 * a * c
            A = 2 * (az + ax + ay)
            ixx = 2 * (az * (b * b / 3 + c * c) + ax * (b * b + c * c) / 3 + ay * (c * c / 3 + b * b))
            iyy = 2 * (az * (a * a / 3 + c * c) + ax * (c * c / 3 + a * a) + ay * (a * a + c * c) / 3)
            izz = 2 * (az * (a * a + b * b) / 3 + ax * (b * b / 3 + a * a) + ay * (a * a / 3 + b * b))
            return A, np.array([ixx, iyy, izz]) / A
        return 8 * a * b * c, np.array([b * b + c * c, a * a + c * c, a * a + b * b]) / 3.0
    raise ValueError(gtype)


# ---- composition ----------------------------------------------------------------------------------------------

def full_tensor(R, idiag):
    R = np.asarray(R, float)
    return R @ np.diag(np.asarray(idiag, float)) @ R.T


def shift(m, d):
    d = np.asarray(d, float)
    return m * (float(d @ d) * np.eye(3) - np.outer(d, d))


def compose(parts):
    """parts: iterable of (mass, com(3), I_com(3x3)) in one frame -> (mass, com, I about the total com)."""
    parts = list(parts)
    M = sum(p[0] for p in parts)
    if M <= 0:
        return 0.0, np.zeros(3), np.zeros((3, 3))
    com = sum(p[0] * np.asarray(p[1], float) for p in parts) / M
    I = np.zeros((3, 3))
    for m, c, Ic in parts:
        I += np.asarray(Ic, float) + shift(m, np.asarray(c, float) - com)
    return float(M), com, I


# ---- polyhedra ------------------------------------------------------------------------------------------------

def polyhedron(V, F, shell=False):
    """exact (measure, centroid, I about the centroid per unit density) of a closed, outward-oriented triangle mesh
    (solid) or of its surface (shell)."""
    V = np.asarray(V, float)
    F = np.asarray(F, int)
    A, B, C = V[F[:, 0]], V[F[:, 1]], V[F[:, 2]]
    if shell:
        n = np.cross(B - A, C - A)
        ar = 0.5 * np.linalg.norm(n, axis=1)
        S = float(ar.sum())
        cen = ((A + B + C) / 3.0 * ar[:, None]).sum(0) / S
        a, b, c = A - cen, B - cen, C - cen
        # second moment of a triangle: area/12 * (sum_i p_i p_i^T + (sum p)(sum p)^T)
        sm = a + b + c
        Cov = np.einsum("f,fij->ij", ar / 12.0, np.einsum("fi,fj->fij", a, a) + np.einsum("fi,fj->fij", b, b)
                        + np.einsum("fi,fj->fij", c, c) + np.einsum("fi,fj->fij", sm, sm))
        return S, cen, np.trace(Cov) * np.eye(3) - Cov
    det = np.einsum("fi,fi->f", A, np.cross(B, C))
    vol = det / 6.0
    Vt = float(vol.sum())
    cen = ((A + B + C) / 4.0 * vol[:, None]).sum(0) / Vt
    # covariance of a tetrahedron (0,a,b,c): vol/20 * (sum_i p_i p_i^T + (sum p)(sum p)^T)
    sm = A + B + C
    Cov = np.einsum("f,fij->ij", vol / 20.0, np.einsum("fi,fj->fij", A, A) + np.einsum("fi,fj->fij", B, B)
                    + np.einsum("fi,fj->fij", C, C) + np.einsum("fi,fj->fij", sm, sm))
    Cov = Cov - Vt * np.outer(cen, cen)
    return Vt, cen, np.trace(Cov) * np.eye(3) - Cov


def _grid_sphere(n):
    """latitude/longitude triangulation of the unit sphere with n latitude bands and 2n longitude sectors."""
    verts = [(0.0, 0.0, 1.0)]
    for i in range(1, n):
        t = PI * i / n
        for j in range(2 * n):
            p = PI * j / n
            verts.append((math.sin(t) * math.cos(p), math.sin(t) * math.sin(p), math.cos(t)))
    verts.append((0.0, 0.0, -1.0))
    m = 2 * n
    faces = []

    def idx(i, j):
        return 1 + (i - 1) * m + (j % m)
    for j in range(m):
        faces.append((0, idx(1, j), idx(1, j + 1)))
    for i in range(1, n - 1):
        for j in range(m):
            a, b, c, d = idx(i, j), idx(i + 1, j), idx(i + 1, j + 1), idx(i, j + 1)
            faces.append((a, b, c))
            faces.append((a, c, d))
    last = len(verts) - 1
    for j in range(m):
        faces.append((last, idx(n - 1, j + 1), idx(n - 1, j)))
    return np.array(verts), np.array(faces, int)


def tessellate(gtype, size, n):
    """closed outward-oriented triangulation of the primitive with vertices ON its surface; n = resolution
    (angular step pi/n), so the discretisation error of volume and inertia is O(1/n^2)."""
    s = [float(v) for v in size]
    if gtype == "sphere":
        V, F = _grid_sphere(n)
        return V * s[0], F
    if gtype == "ellipsoid":
        V, F = _grid_sphere(n)
        return V * np.array(s[:3]), F
    if gtype == "capsule":
        if n % 2:
            n += 1
        V, F = _grid_sphere(n)          # equator ring is at band n/2: split there
        V = V * s[0]
        up = V[:, 2] > 1e-12 * s[0]
        eq = np.abs(V[:, 2]) <= 1e-12 * s[0]
        V2 = V.copy()
        V2[up, 2] += s[1]
        V2[~up & ~eq, 2] -= s[1]
        # duplicate the equator ring: top copy at +hh, bottom copy at -hh, joined by a band of quads
        eq_idx = np.flatnonzero(eq)
        top = {int(i): len(V2) + k for k, i in enumerate(eq_idx)}
        Vtop = V2[eq_idx].copy()
        Vtop[:, 2] = s[1]
        V2[eq_idx, 2] = -s[1]
        Vall = np.vstack([V2, Vtop])
        Fn = []
        for f in F:
            zs = V[f, 2]
            if (zs > -1e-12 * s[0]).all() and (zs > 1e-12 * s[0]).any():     # upper hemisphere face
                Fn.append([top.get(int(i), int(i)) for i in f])
            else:
                Fn.append([int(i) for i in f])
        m = 2 * n
        ring = [1 + (n // 2 - 1) * m + j for j in range(m)]
        for j in range(m):
            a, b = ring[j], ring[(j + 1) % m]
            Fn.append([a, b, top[b]])
            Fn.append([a, top[b], top[a]])
        return Vall, np.array(Fn, int)
    if gtype == "cylinder":
        m = 2 * n
        r, hh = s[0], s[1]
        V = [(0, 0, -hh), (0, 0, hh)]
        for j in range(m):
            p = 2 * PI * j / m
            V.append((r * math.cos(p), r * math.sin(p), -hh))
        for j in range(m):
            p = 2 * PI * j / m
            V.append((r * math.cos(p), r * math.sin(p), hh))
        F = []
        for j in range(m):
            a, b = 2 + j, 2 + (j + 1) % m
            c, d = 2 + m + j, 2 + m + (j + 1) % m
            F += [(0, b, a), (1, c, d), (a, b, d), (a, d, c)]
        return np.array(V, float), np.array(F, int)
    if gtype == "box":
        a, b, c = s[:3]
        # n x n grid per face is exact already; use the 8 corners plus face centres so that n matters only trivially
        V = np.array([(sx * a, sy * b, sz * c) for sx in (-1, 1) for sy in (-1, 1) for sz in (-1, 1)], float)
        quads = [(0, 1, 3, 2), (4, 6, 7, 5), (0, 4, 5, 1), (2, 3, 7, 6), (0, 2, 6, 4), (1, 5, 7, 3)]
        F = []
        for q in quads:
            F += [(q[0], q[1], q[2]), (q[0], q[2], q[3])]
        F = np.array(F, int)
        # orient outward
        cen = V.mean(0)
        for i, f in enumerate(F):
            nrm = np.cross(V[f[1]] - V[f[0]], V[f[2]] - V[f[0]])
            if nrm @ (V[f].mean(0) - cen) < 0:
                F[i] = f[[0, 2, 1]]
        return V, F
    raise ValueError(gtype)


# ---- self test ------------------------------------------------------------------------------------------------

def selftest():
    rng = np.random.default_rng(1)
    # closed forms against fine tessellations (independent path: polyhedron integrals), O(h^2) convergence
    for g, sz in [("sphere", [0.7]), ("capsule", [0.3, 0.5]), ("ellipsoid", [0.3, 0.5, 0.8]), ("cylinder", [0.4, 0.6]),
                  ("box", [0.3, 0.5, 0.8])]:
        for shell in (False, True):
            m0, I0 = primitive(g, sz, shell)
            errs = []
            for n in (12, 24, 48):
                V, F = tessellate(g, sz, n)
                m1, c1, I1 = polyhedron(V, F, shell)
                assert np.abs(c1).max() < 1e-9, (g, c1)
                errs.append(max(abs(m1 - m0) / m0, np.abs(np.diag(I1) / m1 - I0).max() / I0.max()))
                assert np.abs(I1 - np.diag(np.diag(I1))).max() < 1e-9 * np.abs(I1).max() + 1e-15
            if g == "box":
                assert errs[-1] < 1e-12, (g, shell, errs)
            else:
                assert errs[2] < errs[1] < errs[0] and errs[2] < 2e-3, (g, shell, errs)
                assert 3.0 < errs[0] / errs[1] < 5.0 and 3.0 < errs[1] / errs[2] < 5.0, (g, shell, errs)
    # ellipsoid quadrature against the closed form of the oblate spheroid area (aspect ratios up to 15)
    for a_, c_ in ((1.0, 0.5), (1.0, 0.1), (0.3, 0.02)):
        ecc = math.sqrt(1 - c_ * c_ / (a_ * a_))
        exact = 2 * PI * a_ * a_ + PI * c_ * c_ / ecc * math.log((1 + ecc) / (1 - ecc))
        assert abs(_ellipsoid_shell(a_, a_, c_)[0] / exact - 1) < 1e-8, (a_, c_)
    # defect model: a sphere's layer is a uniform shell (up to the finite eps); a prolate needle is ~15 % off
    assert np.abs(ellipsoid_layer_unit_inertia(0.1, 0.1, 0.1) / primitive("ellipsoid", [0.1] * 3, True)[1] - 1).max() < 3e-5
    dev = np.abs(ellipsoid_layer_unit_inertia(0.1, 0.1, 1.4) / primitive("ellipsoid", [0.1, 0.1, 1.4], True)[1] - 1).max()
    assert 0.13 < dev < 0.15, dev
    # orientation conversions round trip
    for _ in range(100):
        q = rng.normal(size=4)
        R = so3.quat_to_mat(q)
        assert np.abs(so3.quat_to_mat(mat_to_quat(R)) - R).max() < 1e-12
        ax, ang = mat_to_axisangle(R)
        assert np.abs(orient_mat("axisangle", list(ax) + [ang], degree=False) - R).max() < 1e-12
        assert np.abs(orient_mat("xyaxes", list(R[:, 0] * 2) + list(R[:, 1] * 3 + R[:, 0]), True) - R).max() < 1e-12
        Rz = orient_mat("zaxis", R[:, 2] * 1.7)
        assert np.abs(Rz[:, 2] - R[:, 2]).max() < 1e-12 and abs(np.linalg.det(Rz) - 1) < 1e-12
    assert mat_to_euler(np.eye(3), "XyX") is None and mat_to_euler(np.eye(3), "zZx") is None
    for seq in ("xyz", "XYZ", "zyx", "xYz", "ZxY", "zxz", "yXz", "XYX"):
        for _ in range(5):
            R = so3.quat_to_mat(rng.normal(size=4))
            e = mat_to_euler(R, seq)
            assert e is not None and np.abs(so3.euler_mat(e, seq) - R).max() < 1e-12
    # composition: two point-like spheres
    M, c, I = compose([(1.0, [1, 0, 0], np.zeros((3, 3))), (1.0, [-1, 0, 0], np.zeros((3, 3)))])
    assert M == 2 and np.abs(c).max() == 0 and np.allclose(np.diag(I), [0, 2, 2])
    return True


if __name__ == "__main__":
    print("selftest", selftest())
