"""Reference actuation model (numpy only), written from the documentation:

  doc/computation/index.rst  "Actuation model" (transmission, stateful actuators, force generation)
  doc/XMLreference.rst       actuator/general (gear, joint, jointinparent, site, refsite, tendon, cranksite, slidersite, body,
                             dyntype/gaintype/biastype tables, actearly), shortcuts, pid, orientation
  doc/modeling.rst           "Force limits", "Activation limits", "Muscles" (+ doc/_static/FLV.m)

Kinematics come from vf/ref/rbd.py (independent forward kinematics and point Jacobians in world coordinates).

Conventions: a transmission is returned as (length, moment) with moment a dense nv-vector. Quaternions are (w, x, y, z).
"""
import numpy as np

from . import rbd

FREE, BALL, SLIDE, HINGE = rbd.FREE, rbd.BALL, rbd.SLIDE, rbd.HINGE


def clip(x, lo, hi):
    return min(max(x, lo), hi)


def sigmoid(x):
    """mju_sigmoid (doc APIreference: quintic 6x^5 - 15x^4 + 10x^3 on [0, 1], clamped outside)"""
    if x <= 0:
        return 0.0
    if x >= 1:
        return 1.0
    return 6 * x ** 5 - 15 * x ** 4 + 10 * x ** 3


# ---- muscle model: doc/modeling.rst "Muscles" and doc/_static/FLV.m -------------------------------------------------------
def bump(L, A, mid, B):
    """skewed bump function of FLV.m (quadratic spline)"""
    left = 0.5 * (A + mid)
    right = 0.5 * (mid + B)
    if L <= A or L >= B:
        return 0.0
    if L < left:
        x = (L - A) / (left - A)
        return 0.5 * x * x
    if L < mid:
        x = (mid - L) / (mid - left)
        return 1 - 0.5 * x * x
    if L < right:
        x = (L - mid) / (right - mid)
        return 1 - 0.5 * x * x
    x = (B - L) / (B - right)
    return 0.5 * x * x


def muscle_scaling(length, vel, lengthrange, acc0, prm):
    """(L, V, F0): scaled muscle length, scaled velocity (in units of vmax) and peak force.
    prm = (range0, range1, force, scale, lmin, lmax, vmax, fpmax, fvmax)"""
    r0, r1, force, scale = prm[0], prm[1], prm[2], prm[3]
    vmax = prm[6]
    # (lengthrange[k] - LT) / L0 = range[k]
    L0 = (lengthrange[1] - lengthrange[0]) / (r1 - r0)
    LT = lengthrange[0] - r0 * L0
    L = (length - LT) / L0
    V = vel / L0 / vmax
    F0 = force if force >= 0 else scale / acc0
    return L, V, F0


def muscle_FL(L, lmin, lmax, variant="FLV.m"):
    if variant == "FLV.m":
        return bump(L, lmin, 1, lmax) + 0.15 * bump(L, lmin, 0.5 * (lmin + 0.95), 0.95)
    return bump(L, lmin, 1, lmax)               # "single-bump": the figure's main lobe only


def muscle_FV(V, fvmax):
    c = fvmax - 1
    if V <= -1:
        return 0.0
    if V <= 0:
        return (V + 1) * (V + 1)
    if V <= c:
        return fvmax - (c - V) * (c - V) / c
    return fvmax


def muscle_FP(L, lmax, fpmax, variant="FLV.m"):
    b = 0.5 * (1 + lmax)
    if L <= 1:
        return 0.0
    if variant == "FLV.m":
        if L <= b:
            x = (L - 1) / (b - 1)
            return 0.25 * fpmax * x * x * x
        x = (L - b) / (b - 1)
        return 0.25 * fpmax * (1 + 3 * x)
    # "half-quadratic": quadratic to b, linear beyond (value 0.5*fpmax at b, 1.5*fpmax at lmax)
    if L <= b:
        x = (L - 1) / (b - 1)
        return fpmax * 0.5 * x * x
    x = (L - b) / (b - 1)
    return fpmax * (0.5 + x)


def muscle_gain(length, vel, lengthrange, acc0, prm, variant="FLV.m"):
    """actuator gain = -F0 * FL(L) * FV(V)   (actuator_force = -FLV * F0)"""
    L, V, F0 = muscle_scaling(length, vel, lengthrange, acc0, prm)
    return -F0 * muscle_FL(L, prm[4], prm[5], variant) * muscle_FV(V, prm[8])


def muscle_bias(length, lengthrange, acc0, prm, variant="FLV.m"):
    L, _, F0 = muscle_scaling(length, 0.0, lengthrange, acc0, prm)
    return -F0 * muscle_FP(L, prm[5], prm[7], variant)


def muscle_dynamics(ctrl, act, prm):
    """d act/dt = (ctrl - act) / tau(ctrl, act), ctrl clamped to [0, 1]; prm = (tau_act, tau_deact, tausmooth)"""
    c = clip(ctrl, 0.0, 1.0)
    tau_act = prm[0] * (0.5 + 1.5 * act)
    tau_deact = prm[1] / (0.5 + 1.5 * act)
    dctrl = c - act
    if prm[2] > 0:
        # smooth interpolation between the two values within (ctrl - act) +- tausmooth / 2
        tau = tau_deact + (tau_act - tau_deact) * sigmoid(dctrl / prm[2] + 0.5)
    else:
        tau = tau_act if dctrl > 0 else tau_deact
    return dctrl / tau


# ---- activation ------------------------------------------------------------------------------------------------------------
def next_activation(kind, act, act_dot, h, tau=None, actlimited=False, actrange=(0, 0)):
    """w_{i+1}: Euler, or the analytic integral for filterexact; then clamped to actrange when actlimited"""
    if kind == "filterexact":
        w = act + act_dot * tau * (1 - np.exp(-h / tau))
    else:
        w = act + h * act_dot
    if actlimited:
        w = clip(w, actrange[0], actrange[1])
    return w


def affine(prm, length, velocity):
    return prm[0] + prm[1] * length + prm[2] * velocity


def wrap_setpoint(u, length, period):
    """representative of u (mod period) nearest to length"""
    return u - period * np.round((u - length) / period)


# ---- transmissions ---------------------------------------------------------------------------------------------------------
class Sites:
    """world frames of sites from the reference kinematics"""

    def __init__(self, T, K, site_bodyid, site_pos, site_quat):
        self.T, self.K = T, K
        self.body = np.asarray(site_bodyid, dtype=int)
        self.lpos = np.asarray(site_pos, dtype=float).reshape(-1, 3)
        self.lquat = np.asarray(site_quat, dtype=float).reshape(-1, 4)

    def frame(self, s):
        b = self.body[s]
        pos, mat, quat = self.T.local2global(self.K, b, self.lpos[s], self.lquat[s])
        return pos, mat, quat

    def jac(self, s):
        pos, _, _ = self.frame(s)
        return self.T.point_jac(self.K, self.body[s], pos)


def trn_joint(T, K, j, qpos, gear, inparent):
    """joint / jointinparent transmission: (length, moment)"""
    nv = T.nv
    t = T.jnt_type[j]
    pa, va = T.jnt_qposadr[j], T.jnt_dofadr[j]
    mom = np.zeros(nv)
    if t in (SLIDE, HINGE):
        mom[va] = gear[0]
        return qpos[pa] * gear[0], mom
    if t == BALL:
        q = rbd.qnorm(qpos[pa:pa + 4])
        aa = rbd.q2rotvec(q)                         # angle-axis representation of the joint quaternion
        length = float(np.dot(gear[:3], aa))
        # torque axis: child frame (joint) or parent frame (jointinparent); dof coordinates are child-frame
        mom[va:va + 3] = gear[:3] if not inparent else rbd.q2mat(q).T @ gear[:3]
        return length, mom
    # free: translation axis in the world frame, rotation axis in the child (joint) or world (jointinparent) frame
    q = rbd.qnorm(qpos[pa + 3:pa + 7])
    mom[va:va + 3] = gear[:3]
    mom[va + 3:va + 6] = gear[3:6] if not inparent else rbd.q2mat(q).T @ gear[3:6]
    return 0.0, mom


def common_ancestor_dofs(T, b0, b1):
    """dofs that move both bodies together: the chain of the last common dof (it and all its ancestors)"""
    c0, c1 = T.chain[b0], T.chain[b1]
    n = 0
    while n < len(c0) and n < len(c1) and c0[n] == c1[n]:
        n += 1
    return list(c0[:n])


def trn_site(T, S, s, ref, gear):
    """site transmission. Without refsite: wrench `gear` in the site frame, length 0. With refsite: length = gear . (pose
    difference of the two sites in the refsite frame); the wrench acts in the refsite frame on the relative motion of the two
    sites (dofs that are ancestors of both sites do not change their relative pose and carry no moment)."""
    nv = T.nv
    pos, mat, quat = S.frame(s)
    jp, jr = S.jac(s)
    if ref < 0:
        return 0.0, jp.T @ (mat @ gear[:3]) + jr.T @ (mat @ gear[3:6])
    rpos, rmat, rquat = S.frame(ref)
    jpr, jrr = S.jac(ref)
    length = 0.0
    mom = np.zeros(nv)
    com = common_ancestor_dofs(T, S.body[s], S.body[ref])
    if np.any(gear[:3] != 0):
        length += float(np.dot(gear[:3], rmat.T @ (pos - rpos)))
        J = jp - jpr
        J[:, com] = 0
        mom += J.T @ (rmat @ gear[:3])
    if np.any(gear[3:6] != 0):
        rel = rbd.qmul(rbd.qconj(rquat), quat)         # orientation of the site in the refsite frame
        length += float(np.dot(gear[3:6], rbd.q2rotvec(rbd.qnorm(rel))))
        J = jr - jrr
        J[:, com] = 0
        mom += J.T @ (rmat @ gear[3:6])
    return length, mom


def slidercrank_length(pc, ps, axis, rod):
    """position of the slider pin along the slider axis (through ps, direction `axis`) such that the rod of length `rod`
    reaches the crank pin pc: the pin sits at ps + axis*l... solved from |pc - (ps + axis*l)| = rod, smaller root"""
    v = pc - ps
    av = float(np.dot(axis, v))
    det = av * av + rod * rod - float(np.dot(v, v))
    return (av - np.sqrt(det)) if det > 0 else av, det


def trn_slidercrank(T, S, crank, slider, rod, gear0, eps=1e-6):
    """slider-crank: length = gear * slider position; moment = gradient of the length. The gradient is taken analytically
    with respect to the two world points / the axis and mapped through the reference Jacobians."""
    pc, _, _ = S.frame(crank)
    ps, ms, _ = S.frame(slider)
    axis = ms[:, 2]
    length, det = slidercrank_length(pc, ps, axis, rod)
    v = pc - ps
    av = float(np.dot(axis, v))
    jpc, _ = S.jac(crank)
    jps, jrs = S.jac(slider)
    nv = T.nv
    if det > 0:
        sd = np.sqrt(det)
        # l = a.v - sqrt((a.v)^2 + r^2 - v.v)
        dl_dv = axis * (1 - av / sd) + v / sd
        dl_da = v * (1 - av / sd)
    else:
        dl_dv = axis.copy()
        dl_da = v.copy()
    # d axis/dt = omega x axis  ->  Jacobian of the axis = -skew(axis) @ jr
    jaxis = -rbd.skew(axis) @ jrs
    mom = (jpc - jps).T @ dl_dv + jaxis.T @ dl_da
    return length * gear0, mom * gear0, det


def trn_body(T, K, body, contacts, geom_bodyid):
    """adhesion: length 0; moment = minus the average of the contact-normal Jacobians of all contacts involving the body.
    contacts: iterable of (pos, normal, geom1, geom2) with the normal pointing from geom1 to geom2"""
    mom = np.zeros(T.nv)
    n = 0
    for pos, normal, g1, g2 in contacts:
        if g1 < 0 or g2 < 0:
            continue
        b1, b2 = int(geom_bodyid[g1]), int(geom_bodyid[g2])
        if b1 != body and b2 != body:
            continue
        j1, _ = T.point_jac(K, b1, pos)
        j2, _ = T.point_jac(K, b2, pos)
        mom += (j2 - j1).T @ np.asarray(normal)
        n += 1
    if n:
        mom *= -1.0 / n
    return 0.0, mom, n


# ---- self test -------------------------------------------------------------------------------------------------------------
def self_test():
    """internal consistency (independent of the engine)"""
    out = {}
    # muscle curves at their documented anchor points
    prm = np.array([0.75, 1.05, 100.0, 200.0, 0.5, 1.6, 1.5, 1.3, 1.2])
    lr = np.array([0.3, 0.9])
    L, V, F0 = muscle_scaling(0.3, 0.0, lr, 1.0, prm)
    assert abs(L - 0.75) < 1e-12 and F0 == 100
    L, V, F0 = muscle_scaling(0.9, 0.0, lr, 1.0, prm)
    assert abs(L - 1.05) < 1e-12
    assert abs(muscle_FL(1.0, 0.5, 1.6, "single") - 1) < 1e-12 and muscle_FL(0.5, 0.5, 1.6) == 0 and muscle_FL(1.6, 0.5, 1.6) == 0
    assert muscle_FV(-1, 1.2) == 0 and muscle_FV(0, 1.2) == 1 and abs(muscle_FV(5, 1.2) - 1.2) < 1e-12
    assert abs(muscle_FP(1.6, 1.6, 1.3) - 1.3) < 1e-12          # "passive force generated at lmax" = fpmax
    out["muscle_F0_auto"] = muscle_scaling(0.5, 0, lr, 4.0, np.array([0.75, 1.05, -1, 200, 0.5, 1.6, 1.5, 1.3, 1.2]))[2]
    assert out["muscle_F0_auto"] == 50
    # filterexact converges to Euler for h -> 0
    a = next_activation("filterexact", 0.2, (1 - 0.2) / 0.05, 1e-7, tau=0.05)
    b = next_activation("filter", 0.2, (1 - 0.2) / 0.05, 1e-7)
    assert abs(a - b) < 1e-10
    # slider-crank moment = FD of length on a demo tree
    T, rng = rbd._demo_tree()
    q = T.integrate_pos(T.qpos0, rng.normal(size=T.nv), 0.5)
    sb = np.array([1, 3])
    sp = rng.normal(size=(2, 3)) * 0.2
    sq = np.array([rbd.qnorm(rng.normal(size=4)) for _ in range(2)])

    def L_of(qq):
        K = T.fk(qq)
        S = Sites(T, K, sb, sp, sq)
        return trn_slidercrank(T, S, 0, 1, 3.0, 1.7)

    l0, m0, det = L_of(q)
    assert det > 0
    err = 0
    for i in range(T.nv):
        e = np.zeros(T.nv)
        e[i] = 1
        fd = (L_of(T.integrate_pos(q, e, 1e-6))[0] - L_of(T.integrate_pos(q, e, -1e-6))[0]) / 2e-6
        err = max(err, abs(fd - m0[i]))
    out["slidercrank_fd"] = err
    assert err < 1e-6, err
    # translational refsite with a world-fixed reference: moment = FD of length
    sb = np.array([3, 0])

    def R_of(qq):
        K = T.fk(qq)
        S = Sites(T, K, sb, sp, sq)
        return trn_site(T, S, 0, 1, np.array([0.3, -1.0, 0.5, 0, 0, 0]))

    l0, m0 = R_of(q)
    err = 0
    for i in range(T.nv):
        e = np.zeros(T.nv)
        e[i] = 1
        fd = (R_of(T.integrate_pos(q, e, 1e-6))[0] - R_of(T.integrate_pos(q, e, -1e-6))[0]) / 2e-6
        err = max(err, abs(fd - m0[i]))
    out["refsite_fd"] = err
    assert err < 1e-6, err
    return out


if __name__ == "__main__":
    print(self_test())
