"""Reference model of the documented constraint objective (doc/computation/index.rst, "Constraint solver").

Primal problem (eq:primal)      min_{x,y} 1/2 |x - M^-1(tau-c)|^2_M + 1/2 |y - aref|^Huber(eta)_{R^-1}
                                s.t.  J_E x - y_E = 0,  J_F x - y_F = 0,  J_C x - y_C in K*
Reduced problem (eq:reduced)    min_x 1/2 |x - a_s|^2_M + s(J x - aref)
with s(z) the minimum over the slack y of the second term.  This module derives s() row class by row class
DIRECTLY from that definition (nearest point of the admissible set in the R^-1 metric) and never looks at the engine's
cost code, efc_D, efc_state or contact.mu:

* equality rows            y = J x                     s = z^2 / (2R)
* friction-loss rows       Huber(eta) in the R^-1 norm: the dual variable is boxed |f| <= eta
                           s = z^2/(2R) for |z| <= R eta,   eta |z| - R eta^2 / 2 outside  (C1 at the joints)
* limits, frictionless contacts, pyramid edges (K* = non-negative ray, self dual)
                           s = min(z,0)^2 / (2R)
* elliptic contact, friction coefficients mu_j: K = {f0 >= 0, f0^2 >= sum f_j^2/mu_j^2}, K* = {u0 >= sqrt(sum mu_j^2 u_j^2)}
                           s(z) = min_{u in K*} 1/2 sum (z_j-u_j)^2 / R_j
  In whitened coordinates y_j = z_j / sqrt(R_j) and with the documented coupling R_j mu_j^2 = const = c the set K* is the
  circular cone y0 >= kappa |y_T|, kappa^2 = c / R_0, so s is half the squared Euclidean distance to a circular cone:
  three zones (inside K*: 0; inside the polar cone kappa y0 + |y_T| <= 0: |y|^2/2; otherwise (y0 - kappa|y_T|)^2 / (2(1+kappa^2))).
  self_test() validates this closed form against a brute-force numerical projection onto K*.

The constraint force is f = -grad s (doc: "the constraint forces f are given by the negative gradient of s").
"""
import numpy as np

# efc_type classes (values are taken from the tree's header by the caller; see `classify`)
QUAD, HUBER, POS, CONE = 0, 1, 2, 3


def classify(efc_type, E):
    """efc_type (engine enum) -> class per row (QUAD/HUBER/POS/CONE)"""
    t = np.asarray(efc_type)
    k = np.full(len(t), -1, dtype=int)
    k[t == E.mjCNSTR_EQUALITY] = QUAD
    k[(t == E.mjCNSTR_FRICTION_DOF) | (t == E.mjCNSTR_FRICTION_TENDON)] = HUBER
    k[(t == E.mjCNSTR_LIMIT_JOINT) | (t == E.mjCNSTR_LIMIT_TENDON) | (t == E.mjCNSTR_CONTACT_FRICTIONLESS)
      | (t == E.mjCNSTR_CONTACT_PYRAMIDAL)] = POS
    k[t == E.mjCNSTR_CONTACT_ELLIPTIC] = CONE
    if (k < 0).any():
        raise ValueError("unknown efc_type %r" % sorted(set(t[k < 0].tolist())))
    return k


class RowCost:
    """s(z) for a fixed row composition.

    kind[i] in {QUAD,HUBER,POS,CONE}; R[i] > 0; eta[i] friction-loss bound (HUBER rows);
    cones: list of (start_row, dim, mu[dim-1]) for elliptic contacts (rows start..start+dim-1 are kind CONE)."""

    def __init__(self, kind, R, eta, cones):
        self.kind = np.asarray(kind, dtype=int)
        self.R = np.asarray(R, dtype=float)
        self.eta = np.asarray(eta, dtype=float)
        self.n = len(self.kind)
        self.iq = np.flatnonzero(self.kind == QUAD)
        self.ih = np.flatnonzero(self.kind == HUBER)
        self.ip = np.flatnonzero(self.kind == POS)
        self.cones = [(int(a), int(dim), np.asarray(mu, dtype=float)) for a, dim, mu in cones]
        covered = np.zeros(self.n, dtype=bool)
        for a, dim, mu in self.cones:
            if covered[a:a + dim].any() or not (self.kind[a:a + dim] == CONE).all() or len(mu) != dim - 1:
                raise ValueError("inconsistent cone block at row %d" % a)
            covered[a:a + dim] = True
        if (covered != (self.kind == CONE)).any():
            raise ValueError("cone rows not covered by contact blocks")
        # group cones by dim for vectorised evaluation
        self.groups = {}
        self.coupling_err = 0.0
        for a, dim, mu in self.cones:
            self.groups.setdefault(dim, []).append((a, mu))
        self.G = {}
        for dim, lst in self.groups.items():
            idx = np.array([np.arange(a, a + dim) for a, _ in lst])               # (nc, dim)
            mu = np.array([mu for _, mu in lst])                                   # (nc, dim-1)
            Rb = self.R[idx]
            c = Rb[:, 1:] * mu ** 2                                                # documented coupling: all equal per contact
            cm = c.mean(axis=1)
            self.coupling_err = max(self.coupling_err, float(np.abs(c / cm[:, None] - 1).max()))
            kappa = np.sqrt(cm / Rb[:, 0])
            self.G[dim] = (idx, np.sqrt(Rb), kappa)

    # ---- value / gradient / Hessian of s ---------------------------------------------------------------------------
    def eval(self, z, grad=True, hess=False, zones=False):
        """-> s, grad (or None), Hessian as dense (n,n) (or None), zone labels per row (or None)

        zone labels: 0 zero-cost, 1 quadratic, 2 linear-, 3 linear+, 4 cone-middle"""
        z = np.asarray(z, dtype=float)
        R, eta = self.R, self.eta
        s = 0.0
        g = np.zeros(self.n) if grad else None
        H = np.zeros((self.n, self.n)) if hess else None
        zn = np.zeros(self.n, dtype=int) if zones else None
        i = self.iq
        if len(i):
            s += 0.5 * np.sum(z[i] ** 2 / R[i])
            if grad:
                g[i] = z[i] / R[i]
            if hess:
                H[i, i] = 1 / R[i]
            if zones:
                zn[i] = 1
        i = self.ih
        if len(i):
            zi, Ri, ei = z[i], R[i], eta[i]
            lin = np.abs(zi) >= Ri * ei
            s += np.sum(np.where(lin, ei * np.abs(zi) - 0.5 * Ri * ei ** 2, 0.5 * zi ** 2 / Ri))
            if grad:
                g[i] = np.where(lin, ei * np.sign(zi), zi / Ri)
            if hess:
                H[i, i] = np.where(lin, 0.0, 1 / Ri)
            if zones:
                zn[i] = np.where(lin, np.where(zi < 0, 2, 3), 1)
        i = self.ip
        if len(i):
            zi = np.minimum(z[i], 0.0)
            s += 0.5 * np.sum(zi ** 2 / R[i])
            if grad:
                g[i] = zi / R[i]
            if hess:
                H[i, i] = np.where(z[i] < 0, 1 / R[i], 0.0)
            if zones:
                zn[i] = np.where(z[i] < 0, 1, 0)
        for dim, (idx, sR, kappa) in self.G.items():
            y = z[idx] / sR                                  # whitened block (nc, dim)
            N = y[:, 0]
            T = np.sqrt(np.sum(y[:, 1:] ** 2, axis=1))
            top = N >= kappa * T
            bot = (~top) & (kappa * N + T <= 0)
            mid = ~(top | bot)
            d = N - kappa * T
            k2 = 1 + kappa ** 2
            s += np.sum(np.where(bot, 0.5 * (N ** 2 + T ** 2), 0.0)) + np.sum(np.where(mid, 0.5 * d ** 2 / k2, 0.0))
            if zones:
                zn[idx] = np.where(top, 0, np.where(bot, 1, 4))[:, None]
            if grad or hess:
                Tsafe = np.where(T > 0, T, 1.0)
                that = y[:, 1:] / Tsafe[:, None]
            if grad:
                gy = np.zeros_like(y)
                gy[bot] = y[bot]
                r = d / k2
                gm = np.concatenate([r[:, None], (-kappa * r)[:, None] * that], axis=1)
                gy[mid] = gm[mid]
                g[idx] = gy / sR
            if hess:
                for c in range(len(idx)):
                    if top[c]:
                        continue
                    if bot[c]:
                        Hy = np.eye(dim)
                    else:
                        u = np.concatenate([[1.0], -kappa[c] * that[c]])
                        Hy = np.outer(u, u) / k2[c]
                        Pt = np.eye(dim - 1) - np.outer(that[c], that[c])
                        Hy[1:, 1:] += (-kappa[c] * d[c] / k2[c] / T[c]) * Pt
                    Hz = Hy / np.outer(sR[c], sR[c])
                    H[np.ix_(idx[c], idx[c])] = Hz
        return s, g, H, zn

    def cost(self, z):
        return self.eval(z, grad=False)[0]

    def force(self, z):
        """documented constraint force -grad s(z)"""
        return -self.eval(z)[1]

    def block_terms(self, z):
        """per-row / per-contact cost terms (for diagnostics): dict name -> value"""
        out = {}
        for name, i in (("equality", self.iq), ("frictionloss", self.ih), ("onesided", self.ip)):
            if len(i):
                sub = RowCost(self.kind[i], self.R[i], self.eta[i], [])
                out[name] = sub.cost(np.asarray(z)[i])
        tot = 0.0
        for a, dim, mu in self.cones:
            sub = RowCost([CONE] * dim, self.R[a:a + dim], np.zeros(dim), [(0, dim, mu)])
            tot += sub.cost(np.asarray(z)[a:a + dim])
        if self.cones:
            out["elliptic"] = tot
        return out


class Problem:
    """1/2 (a-a_s)' M (a-a_s) + s(J a - aref)   (dense)."""

    def __init__(self, M, a_s, J, aref, rows):
        self.M = np.asarray(M, dtype=float)
        self.a_s = np.asarray(a_s, dtype=float)
        self.J = np.asarray(J, dtype=float)
        self.aref = np.asarray(aref, dtype=float)
        self.rows = rows
        self.nv = len(self.a_s)
        self.Lc = np.linalg.cholesky(self.M)                 # M = Lc Lc'
        # whitened variable x = Lc'(a - a_s): Gauss term = |x|^2/2, Hessian >= I
        self.Jw = np.linalg.solve(self.Lc, self.J.T).T       # J Lc^-T
        self.z0 = self.J @ self.a_s - self.aref

    def to_x(self, a):
        return self.Lc.T @ (np.asarray(a, dtype=float) - self.a_s)

    def to_a(self, x):
        return self.a_s + np.linalg.solve(self.Lc.T, x)

    def jar(self, a):
        return self.J @ np.asarray(a, dtype=float) - self.aref

    def cost(self, a):
        da = np.asarray(a, dtype=float) - self.a_s
        return 0.5 * da @ (self.M @ da) + self.rows.cost(self.J @ a - self.aref)

    def grad(self, a):
        da = np.asarray(a, dtype=float) - self.a_s
        return self.M @ da + self.J.T @ self.rows.eval(self.J @ a - self.aref)[1]

    def gap_bound(self, a):
        """doc (Warmstart): cost(a) - cost* <= 1/2 g' M^-1 g  (strong convexity in the M norm)"""
        g = self.grad(a)
        w = np.linalg.solve(self.Lc, g)
        return 0.5 * float(w @ w)

    # whitened objective for the optimiser
    def fx(self, x):
        s, g, _, _ = self.rows.eval(self.z0 + self.Jw @ x)
        return 0.5 * float(x @ x) + s, x + self.Jw.T @ g

    def hx(self, x):
        H = self.rows.eval(self.z0 + self.Jw @ x, hess=True)[2]
        return np.eye(self.nv) + self.Jw.T @ H @ self.Jw

    def polish(self, x, iters=120):
        """damped Newton (exact generalised Hessian, Armijo backtracking) on the whitened objective; globally convergent for
        this strongly convex C1 piecewise-smooth function; stops at the roundoff floor of the gradient"""
        f, g = self.fx(x)
        for _ in range(iters):
            gn = float(np.linalg.norm(g))
            if gn <= 1e-15 * (1.0 + np.sqrt(2 * abs(f))):
                break
            try:
                p = -np.linalg.solve(self.hx(x), g)
            except np.linalg.LinAlgError:
                break
            slope = float(g @ p)
            t = 1.0
            ok = False
            for _ in range(50):
                xn = x + t * p
                fn, gnew = self.fx(xn)
                if fn <= f + 1e-4 * t * slope or (t == 1.0 and float(np.linalg.norm(gnew)) < 0.5 * gn):
                    ok = True
                    break
                t *= 0.5
            if not ok:
                break
            x, f, g = xn, fn, gnew
        return x, f, g

    def solve(self, rng=None, second_start_scale=1.0):
        """Reference optimum from two starts. -> dict(a, cost, gap, a2, cost2, gap2, agree(bool), dist)

        start 1: a_s (x = 0), scipy trust-region Newton (trust-exact) with the analytic Hessian;
        start 2: a random point, scipy L-BFGS-B; both followed by a few damped-Newton polishing steps.
        `gap` is the documented certificate 1/2 g'M^-1 g >= cost - cost*."""
        from scipy import optimize
        rng = rng or np.random.default_rng(0)
        nv = self.nv
        f0 = self.fx(np.zeros(nv))[0]
        r1 = optimize.minimize(lambda x: self.fx(x), np.zeros(nv), jac=True, hess=self.hx, method="trust-exact",
                               options={"gtol": 1e-9 * (1 + np.sqrt(2 * abs(f0))), "maxiter": 300})
        x1, f1, g1 = self.polish(r1.x)
        xs = rng.normal(size=nv) * second_start_scale * (1 + np.sqrt(2 * abs(f0)))
        r2 = optimize.minimize(lambda x: self.fx(x), xs, jac=True, method="L-BFGS-B",
                               options={"maxiter": 120, "maxcor": 20, "ftol": 1e-15, "gtol": 1e-12})
        x2, f2, g2 = self.polish(r2.x)
        dist = float(np.linalg.norm(x1 - x2))
        out = dict(x=x1, a=self.to_a(x1), cost=f1, gap=0.5 * float(g1 @ g1), x2=x2, a2=self.to_a(x2), cost2=f2,
                   gap2=0.5 * float(g2 @ g2), dist=dist, cost_start=f0, nit=(int(r1.nit), int(r2.nit)))
        if f2 < f1:       # keep the better one as the reference
            out.update(x=x2, a=out["a2"], cost=f2, gap=out["gap2"], x2=x1, a2=self.to_a(x1), cost2=f1, gap2=0.5 * float(g1 @ g1))
        return out


# ---- brute-force oracle for the elliptic block (self test only) ------------------------------------------------------
def cone_distance_bruteforce(z, R, mu):
    """min_{u in K*} 1/2 sum (z-u)^2/R,  K* = {u0 >= sqrt(sum mu_j^2 u_j^2)}.  For fixed tangential part w the best
    admissible normal part is u0 = max(z0, |mu*w|), which leaves the unconstrained convex problem
        min_w  max(|mu*w| - z0, 0)^2 / (2 R0) + sum (z_j - w_j)^2 / (2 R_j)
    solved numerically (BFGS + Nelder-Mead polish, several starts). Independent of the closed form above."""
    from scipy import optimize
    z, R, mu = map(lambda v: np.asarray(v, dtype=float), (z, R, mu))
    sc = np.sqrt(R[1:])

    def h(q):                    # q = w / sqrt(R_T) (scaled for conditioning only)
        w = q * sc
        return 0.5 * max(np.sqrt(np.sum((mu * w) ** 2)) - z[0], 0.0) ** 2 / R[0] + 0.5 * np.sum((z[1:] - w) ** 2 / R[1:])
    best = np.inf
    for q0 in (z[1:] / sc, 0.5 * z[1:] / sc, 1e-3 * z[1:] / sc):
        r = optimize.minimize(h, q0, method="BFGS", options={"gtol": 1e-12})
        r2 = optimize.minimize(h, r.x, method="Nelder-Mead", options={"xatol": 1e-12, "fatol": 1e-18, "maxiter": 4000})
        best = min(best, float(r.fun), float(r2.fun))
    return best


def cone_kkt_residual(z, R, mu, g):
    """KKT certificate that u = z - R*g is the R^-1-nearest point of K* to z (g = claimed grad s, f = -g the force):
    u in K*, f in K (the documented elliptic cone), f'u = 0. Returns the largest scaled violation."""
    z, R, mu, g = map(lambda v: np.asarray(v, dtype=float), (z, R, mu, g))
    f = -g
    u = z + R * f
    sc = np.sqrt(np.sum(z ** 2 / R)) + 1e-300
    r1 = max(0.0, np.sqrt(np.sum((mu * u[1:]) ** 2)) - u[0]) / (np.sqrt(R[0]) * sc)
    r2 = max(0.0, -f[0], np.sqrt(np.sum((f[1:] / mu) ** 2)) - f[0]) * np.sqrt(R[0]) / sc
    r3 = abs(float(f @ u)) / sc ** 2
    return max(r1, r2, r3)


def self_test(seed=0, n=60):
    """closed-form elliptic cost == brute-force projection onto K*; gradients == finite differences; Huber / one-sided rows
    equal their defining minimisations. Returns dict of max relative errors (raises on failure)."""
    rng = np.random.default_rng(seed)
    err_cone = err_grad = err_hub = err_hess = err_kkt = 0.0
    for k in range(n):
        dim = int(rng.choice([3, 4, 6]))
        mu = np.exp(rng.uniform(np.log(0.01), np.log(2.0), size=dim - 1))
        R0 = float(np.exp(rng.uniform(np.log(1e-4), np.log(1e0))))
        kap2 = float(np.exp(rng.uniform(np.log(0.05), np.log(5.0))))
        R = np.concatenate([[R0], kap2 * R0 / mu ** 2])
        rows = RowCost([CONE] * dim, R, np.zeros(dim), [(0, dim, mu)])
        assert rows.coupling_err < 1e-12
        # points in all three zones, expressed in whitened coordinates
        zone = k % 3
        kap = np.sqrt(kap2)
        t = rng.normal(size=dim - 1)
        t *= np.exp(rng.uniform(-1, 1)) / np.linalg.norm(t)
        T = np.linalg.norm(t)
        N = [kap * T * (1 + rng.random()), -T / kap * (1 + rng.random()), rng.uniform(-T / kap, kap * T)][zone]
        z = np.concatenate([[N], t]) * np.sqrt(R)
        s, g, H, zn = rows.eval(z, hess=True, zones=True)
        assert zn[0] == [0, 1, 4][zone], (zn, zone)
        bf = cone_distance_bruteforce(z, R, mu)
        sc = 0.5 * np.sum(z ** 2 / R)
        err_cone = max(err_cone, abs(s - bf) / sc)
        err_kkt = max(err_kkt, cone_kkt_residual(z, R, mu, g))
        assert abs(s - 0.5 * np.sum(R * g ** 2)) <= 1e-12 * sc      # s = 1/2 |y - aref|^2_{R^-1} at the nearest point
        h = 1e-6 * np.sqrt(R) * np.linalg.norm(z / np.sqrt(R))
        gf = np.array([(rows.cost(z + h[j] * np.eye(dim)[j]) - rows.cost(z - h[j] * np.eye(dim)[j])) / (2 * h[j]) for j in range(dim)])
        err_grad = max(err_grad, float(np.abs((g - gf) * np.sqrt(R)).max() / np.sqrt(2 * sc)))
        Hf = np.array([(rows.eval(z + h[j] * np.eye(dim)[j])[1] - rows.eval(z - h[j] * np.eye(dim)[j])[1]) / (2 * h[j]) for j in range(dim)])
        Hs = np.outer(np.sqrt(R), np.sqrt(R))
        err_hess = max(err_hess, float(np.abs((H - Hf) * Hs).max()))
    assert err_cone < 1e-6, err_cone
    assert err_kkt < 1e-9, err_kkt
    assert err_grad < 1e-6, err_grad
    assert err_hess < 1e-4, err_hess
    # Huber: s(z) = max_{|f|<=eta} (-f z - R f^2/2)   (dual form of the box-constrained multiplier)
    for _ in range(200):
        R, eta, z = float(np.exp(rng.normal())), float(np.exp(rng.normal())), float(rng.normal() * 3)
        rows = RowCost([HUBER], [R], [eta], [])
        fs = np.linspace(-eta, eta, 20001)
        dual = np.max(-fs * z - 0.5 * R * fs ** 2)
        err_hub = max(err_hub, abs(rows.cost([z]) - dual) / (1 + abs(dual)))
        rows = RowCost([POS], [R], [0], [])
        us = np.linspace(0, 10, 20001)         # y = z - u, u >= 0: s = min_u (z-u)^2/(2R)
        prim = np.min(0.5 * (z - us) ** 2 / R)
        err_hub = max(err_hub, abs(rows.cost([z]) - prim) / (1 + prim))
    assert err_hub < 1e-6, err_hub
    # optimiser on a random strictly convex instance: two starts agree, gap certificate tiny
    nv, ne = 7, 12
    A = rng.normal(size=(nv, nv))
    M = A @ A.T + 0.1 * np.eye(nv)
    kind = [QUAD, HUBER, HUBER, POS, POS, POS, CONE, CONE, CONE, CONE, CONE, CONE]
    mu1, mu2 = np.array([0.7, 0.3]), np.array([1.2, 1.2])
    R = np.exp(rng.normal(size=ne) - 3)
    R[7:9] = R[6] * 0.5 / mu1 ** 2
    R[10:12] = R[9] * 2.0 / mu2 ** 2
    rows = RowCost(kind, R, np.abs(rng.normal(size=ne)), [(6, 3, mu1), (9, 3, mu2)])
    P = Problem(M, rng.normal(size=nv), rng.normal(size=(ne, nv)), rng.normal(size=ne), rows)
    r = P.solve(rng)
    assert r["dist"] < 1e-7 and r["gap"] < 1e-20 * (1 + r["cost"]), r
    assert abs(P.cost(r["a"]) - r["cost"]) < 1e-10 * (1 + r["cost"])
    return {"elliptic_vs_bruteforce": err_cone, "elliptic_kkt_residual": err_kkt, "grad_vs_fd": err_grad, "hess_vs_fd": err_hess, "huber_onesided_vs_definition": err_hub,
            "two_start_distance": r["dist"], "gap": r["gap"]}


if __name__ == "__main__":
    print(self_test())


# ---- reading a problem instance out of an mjData (documented public arrays only) --------------------------------------
def dense_J(L, m, d, af=None):
    """dense nefc x nv constraint Jacobian; in sparse mode rebuilt from efc_J_rownnz/rowadr/colind"""
    af = af or d.arena_fields()
    nefc, nv = d.s("nefc"), m.n("nv")
    J = np.zeros((nefc, nv))
    if nefc == 0:
        return J
    vals = d.arena("efc_J", af).ravel()
    if L.call("mj_isSparse", m):
        nnz, adr, col = d.arena("efc_J_rownnz", af), d.arena("efc_J_rowadr", af), d.arena("efc_J_colind", af)
        for r in range(nefc):
            a, n = int(adr[r]), int(nnz[r])
            J[r, col[a:a + n]] = vals[a:a + n]
    else:
        J[:] = vals[:nefc * nv].reshape(nefc, nv)
    return J


def rows_from_data(m, d, E, af=None):
    """RowCost for the constraint rows of d (efc_type, efc_id, efc_R, efc_frictionloss, contact.dim/friction/efc_address)"""
    af = af or d.arena_fields()
    nefc = d.s("nefc")
    et = np.array(d.arena("efc_type", af)[:nefc])
    eid = np.array(d.arena("efc_id", af)[:nefc])
    R = np.array(d.arena("efc_R", af)[:nefc])
    eta = np.array(d.arena("efc_frictionloss", af)[:nefc])
    kind = classify(et, E)
    cones = []
    if (kind == CONE).any():
        con = d.contacts()
        seen = set()
        for i in np.flatnonzero(kind == CONE):
            c = int(eid[i])
            if c in seen:
                continue
            seen.add(c)
            a, dim = int(con["efc_address"][c]), int(con["dim"][c])
            cones.append((a, dim, np.array(con["friction"][c][:dim - 1])))
    return RowCost(kind, R, eta, cones)


def problem_from_data(L, m, d, E):
    """Problem(M, qacc_smooth, J, efc_aref, rows) after mj_forward / mj_fwdConstraint"""
    af = d.arena_fields()
    nv = m.n("nv")
    M = np.zeros((nv, nv))
    L.call("mj_fullM", m, d, M, ret=None)
    nefc = d.s("nefc")
    return Problem(M, np.array(d["qacc_smooth"]), dense_J(L, m, d, af), np.array(d.arena("efc_aref", af)[:nefc]),
                   rows_from_data(m, d, E, af))
