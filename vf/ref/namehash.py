"""Re-implementation of mj_hashString (src/engine/engine_name.c) used ONLY to search for colliding names.

It is never used as an oracle: the expected result of a lookup is always obtained by a brute-force scan of the
model's name table.  `int c = *s++` reads a (signed) char, so bytes >= 0x80 are sign-extended before the xor.
"""
import itertools

M64 = (1 << 64) - 1


def hash64(s, h=5381):
    """full 64-bit state after consuming bytes `s`, starting from state `h`."""
    for c in s:
        if c >= 128:
            c = (c - 256) & M64
        h = ((((h << 5) + h) & M64) ^ c) & M64
    return h


def bucket(s, n):
    return hash64(s) % n


_ALPHA = [c for c in range(0x21, 0x7f) if chr(c) not in "&<>\"'"]


def colliding_with(prefix, rng, count, width=2):
    """`count` distinct strings prefix+X (|X| = width.. ) that all have the same full 64-bit hash."""
    h0 = hash64(prefix)
    groups = {}
    for tup in itertools.product(_ALPHA, repeat=width):
        s = bytes(tup)
        groups.setdefault(hash64(s, h0), []).append(s)
    best = [g for g in groups.values() if len(g) >= 2]
    if not best:
        return []
    best.sort(key=len, reverse=True)
    g = best[int(rng.integers(0, min(len(best), 20)))]
    idx = rng.permutation(len(g))[:count]
    return [prefix + g[int(i)] for i in idx]


def in_bucket(n, target, rng, count, stem=b"n", exclude=()):
    """`count` distinct printable names whose hash modulo n is `target`."""
    out = []
    ex = set(exclude)
    k = 0
    while len(out) < count and k < 200000:
        k += 1
        L = int(rng.integers(1, 7))
        s = stem + bytes(int(_ALPHA[int(x)]) for x in rng.integers(0, len(_ALPHA), size=L))
        if s in ex:
            continue
        if hash64(s) % n == target:
            out.append(s)
            ex.add(s)
    return out


def selftest():
    # values computed by hand from the C definition: h = 5381; h = (h*33) ^ c
    assert hash64(b"") == 5381
    assert hash64(b"a") == (5381 * 33) ^ 97
    assert hash64(b"ab") == ((((5381 * 33) ^ 97) * 33) ^ 98)
    # sign extension of high bytes
    assert hash64(b"\xc3") == ((5381 * 33) ^ ((0xc3 - 256) & M64)) & M64
    import numpy as np
    rng = np.random.default_rng(0)
    c = colliding_with(b"x", rng, 3)
    assert len(c) >= 2 and len({hash64(s) for s in c}) == 1 and len(set(c)) == len(c)
    b = in_bucket(10, 9, rng, 4)
    assert len(b) == 4 and all(hash64(s) % 10 == 9 for s in b)
    return True


if __name__ == "__main__":
    print(selftest())
