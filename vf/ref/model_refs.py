"""Independent validator for the cross-references of a loaded mjModel.

Written from the field comments in include/mujoco/mjmodel.h ("id of ...", "start addr of ...; -1: none"), not from the
engine's own mj_validateReferences.  validate(m) returns a list of (array, index, value, bound) for entries that point
outside the array they index.  Type-dependent ids (geom_dataid, wrap_objid, actuator_trnid, sensor_objid/refid,
eq_obj*id, tuple_objid) are resolved through the object-type enums.
"""
import numpy as np

from ..mjconst import E

# array -> (size field of the indexed array, count array or None, minimum legal value)
SIMPLE = {
    "body_parentid": ("nbody", None, 0), "body_rootid": ("nbody", None, 0), "body_weldid": ("nbody", None, 0),
    "body_mocapid": ("nmocap", None, -1), "body_jntadr": ("njnt", "body_jntnum", -1), "body_dofadr": ("nv", "body_dofnum", -1),
    "body_treeid": ("ntree", None, -1), "body_geomadr": ("ngeom", "body_geomnum", -1), "body_plugin": ("nplugin", None, -1),
    "jnt_qposadr": ("nq", None, 0), "jnt_dofadr": ("nv", None, 0), "jnt_bodyid": ("nbody", None, 0),
    "jnt_actuatorid": ("nactuator", None, -1),
    "dof_bodyid": ("nbody", None, 0), "dof_jntid": ("njnt", None, 0), "dof_parentid": ("nv", None, -1), "dof_treeid": ("ntree", None, 0),
    "tree_bodyadr": ("nbody", "tree_bodynum", 0), "tree_dofadr": ("nv", "tree_dofnum", -1),
    "geom_bodyid": ("nbody", None, 0), "geom_matid": ("nmat", None, -1), "geom_plugin": ("nplugin", None, -1),
    "site_bodyid": ("nbody", None, 0), "site_matid": ("nmat", None, -1),
    "cam_bodyid": ("nbody", None, 0), "cam_targetbodyid": ("nbody", None, -1),
    "light_bodyid": ("nbody", None, 0), "light_targetbodyid": ("nbody", None, -1), "light_texid": ("ntex", None, -1),
    "flex_matid": ("nmat", None, -1), "flex_vertadr": ("nflexvert", "flex_vertnum", 0), "flex_edgeadr": ("nflexedge", "flex_edgenum", 0),
    "flex_elemadr": ("nflexelem", "flex_elemnum", 0), "flex_vertbodyid": ("nbody", None, -1), "flex_nodebodyid": ("nbody", None, -1),
    "mesh_vertadr": ("nmeshvert", "mesh_vertnum", 0), "mesh_faceadr": ("nmeshface", "mesh_facenum", 0),
    "mesh_normaladr": ("nmeshnormal", "mesh_normalnum", 0), "mesh_texcoordadr": ("nmeshtexcoord", "mesh_texcoordnum", -1),
    "mesh_graphadr": ("nmeshgraph", None, -1), "mesh_pathadr": ("npaths", None, -1),
    "skin_matid": ("nmat", None, -1), "skin_vertadr": ("nskinvert", "skin_vertnum", 0), "skin_faceadr": ("nskinface", "skin_facenum", 0),
    "skin_boneadr": ("nskinbone", "skin_bonenum", 0), "skin_bonevertadr": ("nskinbonevert", "skin_bonevertnum", 0),
    "skin_bonebodyid": ("nbody", None, 0), "skin_bonevertid": ("nskinvert", None, 0), "skin_pathadr": ("npaths", None, -1),
    "hfield_pathadr": ("npaths", None, -1), "tex_pathadr": ("npaths", None, -1), "mat_texid": ("ntex", None, -1),
    "pair_geom1": ("ngeom", None, 0), "pair_geom2": ("ngeom", None, 0),
    "tendon_adr": ("nwrap", "tendon_num", 0), "tendon_matid": ("nmat", None, -1), "tendon_actuatorid": ("nactuator", None, -1),
    "tendon_treeid": ("ntree", None, -1),
    "actuator_ctrladr": ("nu", None, -1), "actuator_actadr": ("na", "actuator_actnum", -1), "actuator_plugin": ("nplugin", None, -1),
    "actuator_historyadr": ("nhistory", None, -1),
    "sensor_adr": ("nsensordata", "sensor_dim", 0), "sensor_plugin": ("nplugin", None, -1), "sensor_historyadr": ("nhistory", None, -1),
    "plugin_stateadr": ("npluginstate", "plugin_statenum", 0), "plugin_attradr": ("npluginattr", None, 0),
    "body_bvhadr": ("nbvh", "body_bvhnum", -1), "mesh_bvhadr": ("nbvh", "mesh_bvhnum", -1), "flex_bvhadr": ("nbvh", "flex_bvhnum", -1),
    "bvh_child": ("nbvh", None, -1), "dof_Madr": ("nM", None, 0),
    "B_rowadr": ("nB", "B_rownnz", 0), "B_colind": ("nv", None, 0),
    "M_rowadr": ("nC", "M_rownnz", 0), "M_colind": ("nv", None, 0), "mapM2M": ("nM", None, 0),
    "D_rowadr": ("nD", "D_rownnz", 0), "D_colind": ("nv", None, 0), "D_diag": ("nD", None, 0), "mapM2D": ("nC", None, -1), "mapD2M": ("nD", None, 0),
    "ten_J_rowadr": ("nJten", "ten_J_rownnz", 0), "ten_J_colind": ("nv", None, 0),
    "numeric_adr": ("nnumericdata", "numeric_size", 0), "text_adr": ("ntextdata", "text_size", 0), "tuple_adr": ("ntupledata", "tuple_size", 0),
}
NAME_ADRS = ["body", "jnt", "geom", "site", "cam", "light", "flex", "mesh", "skin", "hfield", "tex", "mat", "pair", "exclude",
             "eq", "tendon", "actuator", "sensor", "numeric", "text", "tuple", "key", "plugin"]


def _objcount(m, objtype):
    t = {E.mjOBJ_BODY: "nbody", E.mjOBJ_XBODY: "nbody", E.mjOBJ_JOINT: "njnt", E.mjOBJ_DOF: "nv", E.mjOBJ_GEOM: "ngeom",
         E.mjOBJ_SITE: "nsite", E.mjOBJ_CAMERA: "ncam", E.mjOBJ_LIGHT: "nlight", E.mjOBJ_FLEX: "nflex", E.mjOBJ_MESH: "nmesh",
         E.mjOBJ_SKIN: "nskin", E.mjOBJ_HFIELD: "nhfield", E.mjOBJ_TEXTURE: "ntex", E.mjOBJ_MATERIAL: "nmat",
         E.mjOBJ_PAIR: "npair", E.mjOBJ_EXCLUDE: "nexclude", E.mjOBJ_EQUALITY: "neq", E.mjOBJ_TENDON: "ntendon",
         E.mjOBJ_ACTUATOR: "nactuator", E.mjOBJ_SENSOR: "nsensor", E.mjOBJ_NUMERIC: "nnumeric", E.mjOBJ_TEXT: "ntext",
         E.mjOBJ_TUPLE: "ntuple", E.mjOBJ_KEY: "nkey", E.mjOBJ_PLUGIN: "nplugin"}.get(int(objtype))
    return m.n(t) if t else None


def validate(m, limit=20):
    bad = []

    def chk(name, arr, hi, lo, cnt=None):
        a = np.asarray(arr).ravel().astype(np.int64)
        if a.size == 0:
            return
        if cnt is None:
            mask = (a < lo) | (a >= hi)
        else:
            c = np.asarray(cnt).ravel().astype(np.int64)
            mask = (c < 0) | ((c > 0) & ((a < 0) | (a + c > hi))) | ((c == 0) & ((a < lo) | (a > hi)))
        for i in np.flatnonzero(mask)[:3]:
            if len(bad) < limit:
                bad.append((name, int(i), int(a[i]), int(hi)))

    fields = m.fields()
    for name, (size, cnt, lo) in SIMPLE.items():
        if name not in fields or (cnt and cnt not in fields):
            continue
        try:
            hi = m.n(size)
        except KeyError:
            continue
        chk(name, m[name], hi, lo, m[cnt] if cnt else None)
    nn = m.n("nnames")
    for t in NAME_ADRS:
        k = "name_%sadr" % t
        if k in fields:
            chk(k, m[k], nn, 0)
    # type dependent
    if m.n("ngeom"):
        gt, gd = m["geom_type"], m["geom_dataid"]
        for i in range(m.n("ngeom")):
            hi = m.n("nmesh") if gt[i] in (E.mjGEOM_MESH, E.mjGEOM_SDF) else m.n("nhfield") if gt[i] == E.mjGEOM_HFIELD else None
            v = int(gd[i])
            if v < -1 or (hi is not None and v >= hi) or (hi is not None and gt[i] != E.mjGEOM_SDF and v < 0 and gt[i] == E.mjGEOM_HFIELD):
                if len(bad) < limit:
                    bad.append(("geom_dataid", i, v, hi if hi is not None else -1))
        if ((gt < 0) | (gt >= E.mjNGEOMTYPES)).any():
            bad.append(("geom_type", int(np.flatnonzero((gt < 0) | (gt >= E.mjNGEOMTYPES))[0]), -999, int(E.mjNGEOMTYPES)))
    if m.n("nwrap"):
        wt, wo = m["wrap_type"], m["wrap_objid"]
        for i in range(m.n("nwrap")):
            hi = {E.mjWRAP_JOINT: m.n("njnt"), E.mjWRAP_SITE: m.n("nsite"), E.mjWRAP_SPHERE: m.n("ngeom"), E.mjWRAP_CYLINDER: m.n("ngeom")}.get(int(wt[i]))
            if hi is not None and not (0 <= wo[i] < hi) and len(bad) < limit:
                bad.append(("wrap_objid", i, int(wo[i]), hi))
    if m.n("nu") and "actuator_trntype" in fields:
        tt, ti = m["actuator_trntype"], m["actuator_trnid"]
        for i in range(len(tt)):
            t = int(tt[i])
            hi0 = {E.mjTRN_JOINT: m.n("njnt"), E.mjTRN_JOINTINPARENT: m.n("njnt"), E.mjTRN_TENDON: m.n("ntendon"), E.mjTRN_SITE: m.n("nsite"),
                   E.mjTRN_SLIDERCRANK: m.n("nsite"), E.mjTRN_BODY: m.n("nbody")}.get(t)
            if hi0 is not None and not (0 <= ti[i, 0] < hi0) and len(bad) < limit:
                bad.append(("actuator_trnid[0]", i, int(ti[i, 0]), hi0))
            if t == E.mjTRN_SLIDERCRANK and not (0 <= ti[i, 1] < m.n("nsite")) and len(bad) < limit:
                bad.append(("actuator_trnid[1]", i, int(ti[i, 1]), m.n("nsite")))
            if t == E.mjTRN_SITE and not (-1 <= ti[i, 1] < m.n("nsite")) and len(bad) < limit:
                bad.append(("actuator_trnid[1]", i, int(ti[i, 1]), m.n("nsite")))
    if m.n("nsensor"):
        ot, oi, rt, ri = m["sensor_objtype"], m["sensor_objid"], m["sensor_reftype"], m["sensor_refid"]
        for i in range(m.n("nsensor")):
            hi = _objcount(m, ot[i])
            if hi is not None and not (-1 <= oi[i] < hi) and len(bad) < limit:
                bad.append(("sensor_objid", i, int(oi[i]), hi))
            hr = _objcount(m, rt[i])
            if hr is not None and not (-1 <= ri[i] < hr) and len(bad) < limit:
                bad.append(("sensor_refid", i, int(ri[i]), hr))
    if m.n("neq"):
        et, o1, o2 = m["eq_type"], m["eq_obj1id"], m["eq_obj2id"]
        ot = m["eq_objtype"] if "eq_objtype" in fields else None
        for i in range(m.n("neq")):
            t = int(et[i])
            if t in (E.mjEQ_CONNECT, E.mjEQ_WELD):
                hi = _objcount(m, ot[i]) if ot is not None else m.n("nbody")
            elif t == E.mjEQ_JOINT:
                hi = m.n("njnt")
            elif t == E.mjEQ_TENDON:
                hi = m.n("ntendon")
            else:
                hi = m.n("nflex")
            if hi is not None and not (0 <= o1[i] < hi) and len(bad) < limit:
                bad.append(("eq_obj1id", i, int(o1[i]), hi))
            if hi is not None and not (-1 <= o2[i] < hi) and len(bad) < limit:
                bad.append(("eq_obj2id", i, int(o2[i]), hi))
    if m.n("ntupledata"):
        tt, ti = m["tuple_objtype"], m["tuple_objid"]
        for i in range(m.n("ntupledata")):
            hi = _objcount(m, tt[i])
            if hi is not None and not (0 <= ti[i] < hi) and len(bad) < limit:
                bad.append(("tuple_objid", i, int(ti[i]), hi))
    return bad


def selftest():
    return True
