"""Reference PID recurrence written from /repo/plugin/actuator/README.md (independent of pid.cc).

    f(t) = Kp e(t) + Ki * integral(e) + Kd de/dt,       e = u - l   (u: control/setpoint, l: actuator length)

* `imax`:    "the force produced by the I term will be clipped to the range [-imax, imax]"  -> the I state is kept in
             force units and clipped after every accumulation (a saturated integrator does not wind up).
* `slewmax`: "The maximum rate at which the setpoint for the PID controller can change. If a bigger change is requested
             between two timesteps, it will be clipped to [ctrl - slewmax*dt, ctrl + slewmax*dt]" where ctrl is the
             previous value of the (limited) setpoint; there is no previous value at the first step.
* ctrlrange: the generic MuJoCo control clamp (ctrllimited) is applied to u first.

The recurrence is stepped alongside the simulation: length and velocity are *observed* from the engine at every step,
only the controller states (I term, previous setpoint) are integrated here.
"""


def _clip(x, lo, hi):
    return lo if x < lo else (hi if x > hi else x)


class RefPID:
    def __init__(self, kp=0.0, ki=0.0, kd=0.0, imax=None, slewmax=None, ctrlrange=None):
        self.kp, self.ki, self.kd = float(kp), float(ki), float(kd)
        self.imax = None if imax is None else float(imax)
        self.slewmax = None if slewmax is None else float(slewmax)
        self.ctrlrange = ctrlrange
        self.reset()

    def reset(self):
        self.I = 0.0           # I term, force units
        self.prev = None       # previous (slew-limited) setpoint

    def setpoint(self, ctrl, dt):
        u = float(ctrl)
        if self.ctrlrange is not None:
            u = _clip(u, self.ctrlrange[0], self.ctrlrange[1])
        if self.slewmax is not None and self.prev is not None:
            u = _clip(u, self.prev - self.slewmax * dt, self.prev + self.slewmax * dt)
        return u

    def step(self, ctrl, length, velocity, dt, setpoint=None, setpoint_rate=0.0):
        """one control period. returns dict(force_new, force_old, terms) and advances the controller state.
        force_new uses the I term including the current period's error (backward rectangle), force_old the I term
        accumulated before it (forward rectangle): both are Euler discretisations of the README integral."""
        u = self.setpoint(ctrl, dt) if setpoint is None else float(setpoint)
        e = u - float(length)
        edot = float(setpoint_rate) - float(velocity)
        I_old = self.I
        I_new = I_old
        if self.ki:
            I_new = I_old + self.ki * e * dt
            if self.imax is not None:
                I_new = _clip(I_new, -self.imax, self.imax)
        p, dterm = self.kp * e, self.kd * edot
        out = dict(force_new=p + I_new + dterm, force_old=p + I_old + dterm, e=e, edot=edot, u=u, I_new=I_new, I_old=I_old,
                   scale=abs(p) + abs(I_new) + abs(I_old) + abs(dterm))
        self.I = I_new
        self.prev = u
        return out


def selftest():
    # P only
    r = RefPID(kp=2.0)
    o = r.step(1.0, 0.25, 0.0, 0.01)
    assert abs(o["force_new"] - 1.5) < 1e-15
    # integral accumulates and clips in force units
    r = RefPID(ki=10.0, imax=0.25)
    fs = [r.step(1.0, 0.0, 0.0, 0.01)["force_new"] for _ in range(5)]
    assert abs(fs[0] - 0.1) < 1e-15 and abs(fs[1] - 0.2) < 1e-15 and fs[2] == 0.25 and fs[4] == 0.25
    # leaves saturation immediately when the error changes sign (no wind-up)
    assert abs(r.step(-1.0, 0.0, 0.0, 0.01)["force_new"] - 0.15) < 1e-15
    # slew: first step unlimited, then +-slewmax*dt around the previous setpoint
    r = RefPID(kp=1.0, slewmax=2.0)
    assert r.step(5.0, 0.0, 0.0, 0.1)["u"] == 5.0
    assert abs(r.step(0.0, 0.0, 0.0, 0.1)["u"] - 4.8) < 1e-15
    assert abs(r.step(0.0, 0.0, 0.0, 0.1)["u"] - 4.6) < 1e-15
    assert abs(r.step(9.0, 0.0, 0.0, 0.1)["u"] - 4.8) < 1e-15
    # derivative on measurement
    r = RefPID(kd=3.0)
    assert abs(r.step(0.0, 0.0, 2.0, 0.01)["force_new"] + 6.0) < 1e-15
    # ctrlrange first
    r = RefPID(kp=1.0, ctrlrange=(0.0, 0.5))
    assert r.step(3.0, 0.0, 0.0, 0.01)["u"] == 0.5
    return True


if __name__ == "__main__":
    print(selftest())
