"""Confirmation tests for the *listed* collision defects (known findings of C13 / C15).

A violation found by a check keeps its generic signature unless one of these tests CONFIRMS, from what the engine itself
returned for that pose (or from a counterfactual engine run), that the violation is an instance of a listed mechanism.
Nothing here takes part in a verdict: the functions only decide the label of a violation that the oracle has already
established.  Two kinds of test:

* formula tests: the engine's output equals the output of the (re-implemented) defective formula / of the feature the
  defective routine is known to fall back to, and that differs from the truth (capsule-capsule parallel branch, capsule-box
  "sphere on an axis point", box-box largest separating-axis gap, (1,0,0) tangent fallback of mju_makeFrame);
* structural tests: the pose meets the engine's own branch condition, evaluated with the engine's constants
  (|det| < mjMINVAL, squared distance against a length, centres closer than the GJK tolerance) and the engine returned the
  value that branch yields (nothing found / distance 0).
"""
import math

import numpy as np

from . import primdist
from .convex import BOX, CAPSULE, SPHERE, Shape

MINVAL = 1e-15          # mjMINVAL


def _unit_or_x(v):
    """mju_normalize3: (1,0,0) when the norm is below mjMINVAL"""
    n = math.sqrt(float(v @ v))
    if n < MINVAL:
        return np.array([1.0, 0, 0]), n
    return v / n, n


# ---- capsule : capsule, "parallel axes" branch of mjraw_CapsuleCapsule ------------------------------------------------------
def capsule_det(a1, a2):
    """det of the 2x2 nearest-point system exactly as the engine forms it (a1, a2: half axes scaled by the half lengths)"""
    ma, mb, mc = float(a1 @ a1), -float(a1 @ a2), float(a2 @ a2)
    return ma * mc - mb * mb


def capsule_parallel_branch(p1, a1, r1, p2, a2, r2, margin, z1, z2):
    """what the parallel-axes branch returns for capsule 1 (centre p1, scaled half axis a1, radius r1) against capsule 2 and the
    given margin: list of (dist, normal, pos, distance of the two sphere centres) in the engine's order, including its early
    returns after two contacts"""
    def ss(c1, c2):
        dif = c1 - c2
        cd2 = float(dif @ dif)
        md = margin + r1 + r2
        if cd2 > md * md:
            return None
        dist = math.sqrt(cd2) - r1 - r2
        n, ln = _unit_or_x(c2 - c1)
        if ln < MINVAL:
            n, _ = _unit_or_x(np.cross(z1, z2))
        return dist, n, c1 + n * (r1 + dist / 2), ln

    dif = p1 - p2
    ma, mb, mc = float(a1 @ a1), -float(a1 @ a2), float(a2 @ a2)
    u, v = -float(a1 @ dif), float(a2 @ dif)
    clip = lambda x: min(max(x, -1.0), 1.0)
    out = []
    for c in (ss(p1 + a1, p2 + a2 * clip((v - mb) / mc)), ss(p1 - a1, p2 + a2 * clip((v + mb) / mc))):
        if c is not None:
            out.append(c)
    if len(out) >= 2:
        return out
    c = ss(p1 + a1 * clip((u - mb) / ma), p2 + a2)
    if c is not None:
        out.append(c)
    if len(out) >= 2:
        return out
    c = ss(p1 + a1 * clip((u + mb) / ma), p2 - a2)
    if c is not None:
        out.append(c)
    return out


def contacts_equal(con, pred, tol_len, scale, r1, tol_dir=1e-9):
    """engine contacts (dicts with dist/frame/pos) equal the predicted (dist, normal, pos, centre distance) list, in order; the
    normal (c2-c1)/|c2-c1| carries the rounding of the centres divided by their distance (conditioning, scaled to the operands)"""
    if len(con) != len(pred):
        return False
    for k, (dist, n, pos, ln) in zip(con, pred):
        td = tol_dir + 8e-16 * scale / max(ln, 1e-300)
        if abs(k["dist"] - dist) > tol_len or float(np.abs(k["frame"][0] - n).max()) > td or float(np.abs(k["pos"] - pos).max()) > tol_len + r1 * td:
            return False
    return True


def geomdist_equal(gd, pred, distmax, tol_len, fromto=None, scale=1.0, r1=0.0):
    """mj_geomDistance's value equals min(distmax, smallest predicted contact distance); with `fromto` also its witness segment
    equals pos -/+ normal*dist/2 of that contact (first strictly smallest, as mj_geomDistance selects it)"""
    best = None
    for p in pred:
        if p[0] < (distmax if best is None else best[0]):
            best = p
    want = distmax if best is None else best[0]
    if abs(gd - want) > tol_len:
        return False
    if fromto is None or best is None:
        return True
    dist, n, pos, ln = best
    td = 1e-9 + 8e-16 * scale / max(ln, 1e-300)
    tl = tol_len + (r1 + abs(dist)) * td
    return float(np.abs(fromto[:3] - (pos - n * dist / 2)).max()) <= tl and float(np.abs(fromto[3:] - (pos + n * dist / 2)).max()) <= tl


# ---- capsule : box (mjraw_CapsuleBox ends in mjraw_SphereBox at one or two points of the capsule axis) ------------------------
def axis_sphere_contact(A, B, dist, n, pos, tol_len):
    """is (dist, n, pos) the exact sphere-box contact of a sphere of the capsule's radius centred on the capsule's axis
    segment?  i.e. the collider only chose the wrong axis point.  A capsule, B box; n from A to B"""
    r, hl = float(A.size[0]), float(A.size[1])
    c = pos - n * (r + dist / 2)
    t = float((c - A.pos) @ A.axis)
    off = float(np.linalg.norm(c - A.pos - t * A.axis))
    if off > tol_len or abs(t) > hl + tol_len:
        return False
    ref = primdist.sphere_box(Shape(SPHERE, [r, 0, 0], c, np.eye(3)), B)
    if abs(ref["dist"] - dist) > tol_len:
        return False
    ext = A.extent() + B.extent()
    if ref["n"] is not None and ref["ncond"] > 1e-5 * ext and float(np.linalg.norm(ref["n"] - n)) * ref["ncond"] > 1e-6 * ext:
        return False
    return True


def endpoint_sphere_dists(A, B):
    """signed distances of the two end-cap spheres of capsule A to box B"""
    r = float(A.size[0])
    return [primdist.sphere_box(Shape(SPHERE, [r, 0, 0], A.pos + sg * A.axis * A.size[1], np.eye(3)), B)["dist"] for sg in (1.0, -1.0)]


def capsule_box_initial_bestdist(A, B, margin):
    """the length mjraw_CapsuleBox initialises its best *squared* distance with"""
    return margin + 2 * float(A.size[0] + A.size[1] + B.size[:3].sum())


def capsule_box_edge_dets(A, B):
    """det of the three segment/edge systems as the engine forms them: size_j^2 * halflength^2 - (size_j * halfaxis_j)^2"""
    ha = (A.axis * A.size[1]) @ B.R
    s = B.size[:3]
    return np.array([s[j] ** 2 * float(A.size[1]) ** 2 - (s[j] * ha[j]) ** 2 for j in range(3)]), np.array([1 - float(A.axis @ B.R[:, j]) ** 2 for j in range(3)])


# ---- box : box (mjc_BoxBox is a separating-axis routine) --------------------------------------------------------------------
def box_sat_axes(A, B):
    axes = [A.R[:, i] for i in range(3)] + [B.R[:, i] for i in range(3)]
    for i in range(3):
        for j in range(3):
            x = np.cross(A.R[:, i], B.R[:, j])
            nx = float(np.linalg.norm(x))
            if nx > 1e-9:
                axes.append(x / nx)
    return np.array(axes)


def box_contact_is_sat_gap(A, B, dist, n, pos, sat_sep, tol_len, tol_dir=1e-6):
    """what a separating-axis routine reports for separated boxes: the contact normal is one of the 15 candidate axes, the gap
    along it is the LARGEST separating-axis gap `sat_sep`, and the contact distance is measured along that axis: either the gap
    itself or the distance along the axis between the two surfaces at the (clipped) contact point, pos -/+ n*dist/2 being surface
    points of A and B (>= the gap; the nearest vertex can be clipped away by the reference face's side planes)"""
    N = box_sat_axes(A, B)
    if float(np.abs(N @ n).max()) < 1 - tol_dir:
        return False
    gap = -(A.h(n) + B.h(-n))
    if abs(gap - sat_sep) > tol_len:
        return False
    if abs(gap - dist) <= tol_len:
        return True
    return dist >= gap and abs(A.sd_point(pos - n * dist / 2)) <= tol_len and abs(B.sd_point(pos + n * dist / 2)) <= tol_len


def box_face_axis_preferred(A, B, dist, n, pos, tol_len, tol_dir=1e-6):
    """mjc_BoxBox's face substitution (engine_collision_box.c: `if (face_dot > 0.99 && sep_best < sep_face + 0.05*|sep_face| +
    mjMINVAL) code = code_face`): the best of the 15 axes is an edge-cross axis, but a FACE axis within ~8 degrees of it whose gap is
    within 5 % of the best gap is reported instead.  True iff: the contact normal n is one of the 6 face axes; the largest gap over
    the 15 axes belongs to an edge-cross axis e with |<e,n>| > 0.99; gap(n) < gap(e) < gap(n) + 0.05*|gap(n)| + mjMINVAL; and the
    contact distance is measured along n: the gap itself or the surface-to-surface distance along n at the contact point.
    returns (ok, gap along n, largest gap)"""
    N = box_sat_axes(A, B)
    faces = N[:6]
    if float(np.abs(faces @ n).max()) < 1 - tol_dir:
        return False, None, None
    NN = np.concatenate([N, -N])
    gaps = -(A.h_many(NN) + B.h_many(-NN))
    i = int(np.argmax(gaps))
    best, e = float(gaps[i]), NN[i]
    if i % len(N) < 6:                       # the best axis is itself a face axis: no substitution
        return False, None, best
    gap = -(A.h(n) + B.h(-n))
    if not (abs(float(e @ n)) > 0.99 and gap < best - tol_len and best < gap + 0.05 * abs(gap) + MINVAL):
        return False, gap, best
    if abs(gap - dist) <= tol_len:
        return True, gap, best
    ok = dist >= gap and abs(A.sd_point(pos - n * dist / 2)) <= tol_len and abs(B.sd_point(pos + n * dist / 2)) <= tol_len
    return ok, gap, best


# ---- mju_makeFrame fallback ------------------------------------------------------------------------------------------------
def frame_is_x_fallback(F, normal, tol=1e-12):
    """rows of F: normal (unit, = plane normal), exactly (1,0,0) (mju_normalize3's substitute for a vanished tangent), and
    their cross product - nothing else is wrong with the frame"""
    if float(np.abs(F[0] - normal).max()) > tol or abs(float(F[0] @ F[0]) - 1) > tol:
        return False
    if not np.array_equal(F[1], np.array([1.0, 0, 0])):
        return False
    return float(np.abs(F[2] - np.cross(F[0], F[1])).max()) <= tol


def frame_is_projected_near_parallel_tangent(F, normal, tangent, tol=1e-12):
    """second facet of the same mju_makeFrame defect: the tangent handed in is almost parallel to the normal (angle theta), its
    projection t - n<n,t> keeps the rounding of the operands (~1e-16) and is normalised without re-orthogonalisation, so <n,y> is up
    to ~1e-16/theta.  Confirmed when: theta is small enough for that to exceed the tolerance that flagged the frame, rows 0 and 1 are
    unit, row 2 = cross(row 0, row 1), row 0 = plane normal, and the ONLY defect is <row0,row1> != 0, bounded by 1e-15/theta"""
    theta = float(np.linalg.norm(np.cross(normal, tangent)))
    if not (0 < theta < 1e-6):
        return False
    if float(np.abs(F[0] - normal).max()) > tol or abs(float(F[0] @ F[0]) - 1) > tol or abs(float(F[1] @ F[1]) - 1) > tol:
        return False
    if float(np.abs(F[2] - np.cross(F[0], F[1])).max()) > tol:
        return False
    return abs(float(F[0] @ F[1])) <= 1e-15 / theta


def self_test():
    """parallel capsules r .1, half lengths .3/.2, 0.15 apart: the branch formula must give the documented wrong value
    -0.0197224 in order (a,b) and the right one (-0.05) in order (b,a)"""
    z = np.array([0, 0, 1.0])
    pa, pb = np.zeros(3), np.array([0.15, 0, 0])
    ab = capsule_parallel_branch(pa, z * 0.3, 0.1, pb, z * 0.2, 0.1, 10.0, z, z)
    ba = capsule_parallel_branch(pb, z * 0.2, 0.1, pa, z * 0.3, 0.1, 10.0, z, z)
    e1 = abs(min(c[0] for c in ab) - (math.hypot(0.15, 0.1) - 0.2))
    e2 = abs(min(c[0] for c in ba) + 0.05)
    A = Shape(CAPSULE, [0.05, 0.456, 0], [0, 0, 0], np.eye(3))
    B = Shape(BOX, [0.257, 0.234, 0.266], [0, 0, 0], np.eye(3))
    e3 = abs(min(endpoint_sphere_dists(A, B)) - 0.14)
    return {"parallel_branch_ab": e1, "parallel_branch_ba": e2, "endpoint_sphere": e3}
