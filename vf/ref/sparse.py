"""Reference helpers for C23: sparse-format generators/readers written from the documented layouts.

CSR as used by the engine: row r occupies vals[rowadr[r] : rowadr[r]+rownnz[r]] with column indices
colind[same range], sorted ascending and duplicate free.  "compressed": rowadr[r+1] = rowadr[r]+rownnz[r],
rowadr[0] = 0.  "uncompressed": every row owns a capacity >= rownnz (rowadr[r] = r*cap or random gaps); the
unused slots are POISONED here (values NaN, indices 2**30) so that a routine which touches them is exposed.
"""
import numpy as np

POISON_IND = 1 << 30


def rand_mask(rng, nr, nc, density, flavour=None):
    """Random sparsity pattern with the features listed in the property: empty rows, single-entry rows,
    full rows, identical consecutive rows (supernodes), empty columns."""
    m = rng.random((nr, nc)) < density
    if nr == 0 or nc == 0:
        return m
    k = flavour if flavour is not None else int(rng.integers(0, 8))
    if k == 1:                                   # some empty rows
        m[rng.random(nr) < 0.3, :] = False
    elif k == 2:                                 # single-entry rows
        for r in np.flatnonzero(rng.random(nr) < 0.4):
            m[r, :] = False
            m[r, int(rng.integers(0, nc))] = True
    elif k == 3:                                 # runs of identical rows (row supernodes)
        r = 0
        while r < nr - 1:
            run = int(rng.integers(1, 6))
            m[r + 1:r + run, :] = m[r, :]
            r += run
    elif k == 4:                                 # runs of identical columns (supernodes of the transpose)
        c = 0
        while c < nc - 1:
            run = int(rng.integers(1, 12))
            m[:, c + 1:c + run] = m[:, c:c + 1]
            c += run
    elif k == 5:                                 # empty columns and a full row
        m[:, rng.random(nc) < 0.3] = False
        m[int(rng.integers(0, nr)), :] = True
    elif k == 6:                                 # first and last row empty
        m[0, :] = False
        m[-1, :] = False
    return m


def to_csr(D, mask, rng=None, layout="compressed", pad=0):
    """-> vals, rownnz, rowadr, colind (float64/int32, C-contiguous). `pad` extra poisoned slots at the end."""
    nr, nc = mask.shape
    rownnz = mask.sum(axis=1).astype(np.int32)
    if layout == "compressed":
        rowadr = np.zeros(nr, dtype=np.int32)
        if nr:
            rowadr[1:] = np.cumsum(rownnz)[:-1]
        total = int(rownnz.sum())
    elif layout == "uniform":                    # rowadr[r] = r*cap, cap >= max nnz (the engine's nv-per-row layout)
        cap = int(rownnz.max()) if nr else 0
        cap += int(rng.integers(0, 4)) if rng is not None else 1
        cap = max(cap, 1)
        rowadr = (np.arange(nr) * cap).astype(np.int32)
        total = nr * cap
    elif layout == "gaps":                       # random extra capacity per row, still increasing addresses
        extra = rng.integers(0, 4, size=nr)
        caps = rownnz + extra
        rowadr = np.zeros(nr, dtype=np.int32)
        if nr:
            rowadr[1:] = np.cumsum(caps)[:-1]
        total = int(caps.sum())
    else:
        raise ValueError(layout)
    total += pad
    vals = np.full(total, np.nan)
    colind = np.full(total, POISON_IND, dtype=np.int32)
    for r in range(nr):
        c = np.flatnonzero(mask[r])
        a = rowadr[r]
        vals[a:a + len(c)] = D[r, c]
        colind[a:a + len(c)] = c
    return vals, rownnz, rowadr, colind


def from_csr(vals, rownnz, rowadr, colind, nr, nc):
    """Dense matrix of a CSR triple, plus structural checks. Returns (D, problems:list[str])."""
    D = np.zeros((nr, nc))
    bad = []
    for r in range(nr):
        n, a = int(rownnz[r]), int(rowadr[r])
        if n < 0 or a < 0 or a + n > len(vals):
            bad.append("row %d out of range (adr %d nnz %d size %d)" % (r, a, n, len(vals)))
            continue
        c = colind[a:a + n]
        if n and (c.min() < 0 or c.max() >= nc):
            bad.append("row %d column index out of range" % r)
            continue
        if n > 1 and not np.all(np.diff(c) > 0):
            bad.append("row %d colind not sorted/unique" % r)
        D[r, c] = vals[a:a + n]
    return D, bad


def pattern_from_csr(rownnz, rowadr, colind, nr, nc):
    M = np.zeros((nr, nc), dtype=bool)
    for r in range(nr):
        n, a = int(rownnz[r]), int(rowadr[r])
        M[r, colind[a:a + n]] = True
    return M


def is_compressed(rownnz, rowadr):
    nr = len(rownnz)
    if nr == 0:
        return True
    exp = np.zeros(nr, dtype=np.int64)
    exp[1:] = np.cumsum(rownnz)[:-1]
    return bool(np.array_equal(exp, rowadr))


def rowsuper_ref(mask):
    """rowsuper[r] = number of rows immediately after r with the identical sparsity pattern."""
    nr = mask.shape[0]
    rs = np.zeros(nr, dtype=np.int32)
    for r in range(nr - 2, -1, -1):
        if np.array_equal(mask[r], mask[r + 1]):
            rs[r] = rs[r + 1] + 1
    return rs


def spd(rng, n, cond):
    """Dense SPD matrix with 2-norm condition number `cond` (eigenvalues log-spaced in [1/cond, 1])."""
    if n == 0:
        return np.zeros((0, 0))
    Q, _ = np.linalg.qr(rng.normal(size=(n, n)))
    lam = np.logspace(0, -np.log10(cond), n) if n > 1 else np.ones(1)
    A = (Q * lam) @ Q.T
    return 0.5 * (A + A.T)


def general(rng, n, cond):
    if n == 0:
        return np.zeros((0, 0))
    U, _ = np.linalg.qr(rng.normal(size=(n, n)))
    V, _ = np.linalg.qr(rng.normal(size=(n, n)))
    s = np.logspace(0, -np.log10(cond), n) if n > 1 else np.ones(1)
    return (U * s) @ V.T


def spd_with_pattern(rng, mask_sym, cond):
    """SPD matrix whose off-diagonal pattern is `mask_sym` (symmetric bool, diagonal ignored): S + shift*I."""
    n = mask_sym.shape[0]
    S = rng.normal(size=(n, n))
    S = 0.5 * (S + S.T) * mask_sym
    np.fill_diagonal(S, rng.normal(size=n))
    w = np.linalg.eigvalsh(S) if n else np.zeros(0)
    if n == 0:
        return S
    spread = max(w.max() - w.min(), 1e-3)
    shift = -w.min() + spread / max(cond - 1.0, 1e-3)
    return S + shift * np.eye(n)


def selftest():
    rng = np.random.default_rng(1)
    for layout in ("compressed", "uniform", "gaps"):
        for _ in range(20):
            nr, nc = int(rng.integers(0, 9)), int(rng.integers(1, 9))
            m = rand_mask(rng, nr, nc, rng.random())
            D = rng.normal(size=(nr, nc)) * m
            v, nnz, adr, ci = to_csr(D, m, rng, layout)
            D2, bad = from_csr(v, nnz, adr, ci, nr, nc)
            assert not bad and np.array_equal(D, D2)
            assert np.array_equal(pattern_from_csr(nnz, adr, ci, nr, nc), m)
            if layout == "compressed":
                assert is_compressed(nnz, adr)
    m = np.array([[1, 0], [1, 0], [1, 0], [0, 1]], dtype=bool)
    assert rowsuper_ref(m).tolist() == [2, 1, 0, 0]
    A = spd(rng, 7, 1e6)
    assert abs(np.linalg.cond(A) / 1e6 - 1) < 1e-3
    return True


if __name__ == "__main__":
    print(selftest())
