"""Independent model of the MJCF schema definition language (doc/generate/mjcf_schema.py docstring and the
syntax reference at the top of src/xml/mjcf.schema).  Shared by C41 and C42.

* gen_model(rng, ...)      grammar-derived *valid* schema models (plain dicts/lists, JSON-able)
* render(model, rng)       model -> (text, expect) where expect is what a correct parser must return
* revalidate(schema)       re-validator over the dataclasses returned by the parser under test: list of broken rules
* lex(text)                tiny independent tokenizer (token mutations, top-level declaration count)
* MUTATORS                 one mutator per documented rule: model -> model' breaking that rule (or None if n/a)

Nothing here imports the code under test.
"""
import copy
import re

SCALARS = ("double", "float", "int", "bool", "string", "file", "chars")
NUMERIC = ("double", "float", "int")
ATTR_FACETS = ("field", "required", "nodefault", "pattern", "reading", "writing", "min", "max", "positive")
ELEM_FACETS = ("xml", "alias", "field")
CARDS = ("?", "!", "*", "R")
VERBS = ("exclusive", "together", "requires", "oneof")
RESERVED = ("use", "child", "set") + VERBS
SYMBOLIC_DIMS = ("mjNREF", "mjNIMP", "mjNEQDATA", "mjNFLUID", "mjNBIAS", "mjNGAIN", "mjNDYN")

# ----------------------------------------------------------------------------------------------- lexer

_TOK = re.compile(r'(?P<ws>[ \t]+)|(?P<comment>#[^\n]*)|(?P<nl>\n)|(?P<string>"[^"\n]*")'
                  r'|(?P<number>-?(?:[0-9]+(?:\.(?!\.)[0-9]*)?|\.[0-9]+)(?:[eE][+-]?[0-9]+)?)'
                  r'|(?P<dotdot>\.\.)|(?P<ident>[A-Za-z_][A-Za-z0-9_]*)|(?P<punct>[{}()\[\]<>:=,?!*+])')


def lex(text):
    """-> list of (kind, value, line) incl. ws/comment/nl tokens, or None when the text has an illegal character."""
    out, pos, line = [], 0, 1
    while pos < len(text):
        m = _TOK.match(text, pos)
        if not m:
            return None
        out.append((m.lastgroup, m.group(), line))
        if m.lastgroup == "nl":
            line += 1
        pos = m.end()
    return out


def count_top_level_decls(text):
    """Number of '{' that open from brace depth 0 (= number of declarations in an accepted text)."""
    toks = lex(text)
    if toks is None:
        return None
    depth = n = 0
    for kind, val, _ in toks:
        if kind != "punct":
            continue
        if val == "{":
            if depth == 0:
                n += 1
            depth += 1
        elif val == "}":
            depth -= 1
    return n


# ----------------------------------------------------------------------------------------------- generator

def _ident(rng, prefix, i):
    tails = ("", "_x", "X", "_0", "_", "name", "Type")
    return "%s%d%s" % (prefix, i, tails[int(rng.integers(len(tails)))])


def _num_value(rng, integral):
    c = int(rng.integers(8))
    if integral or c < 3:
        return float(int(rng.integers(-20, 100)))
    if c == 3:
        return float(rng.choice([0.005, 0.0001, 0.25, 1e-3, 0.5, 1e-10, 2.5e8]))
    if c == 4:
        return -float(rng.integers(1, 1000)) / 8.0
    return round(float(rng.uniform(-10, 10)), int(rng.integers(1, 6)))


def _gen_arity(rng, typ):
    """arity forms: None (scalar) | ["n", n] | ["r", lo, hi] | ["s", lo, SYMBOL] | ["u"]"""
    if typ in ("bool", "file"):
        return ["n", 1] if rng.random() < 0.05 else None
    if typ == "chars":
        if rng.random() < 0.5:
            return ["n", int(rng.integers(1, 13))]
        lo = int(rng.integers(0, 4))
        return ["r", lo, lo + int(rng.integers(1, 12))]
    if typ == "string":
        c = rng.random()
        return None if c < 0.85 else (["u"] if c < 0.93 else ["n", int(rng.integers(1, 4))])
    c = rng.random()
    if c < 0.45:
        return None
    if c < 0.65:
        return ["n", int(rng.integers(0, 10))]
    if c < 0.8:
        lo = int(rng.integers(0, 4))
        return ["r", lo, lo + int(rng.integers(1, 6))]
    if c < 0.9:
        return ["s", int(rng.integers(0, 2)), str(rng.choice(SYMBOLIC_DIMS))]
    return ["u"]


def arity_bounds(ar):
    if ar is None:
        return 1, 1
    if ar[0] == "n":
        return ar[1], ar[1]
    if ar[0] in ("r", "s"):
        return ar[1], ar[2]
    return 0, None


def _gen_attr(rng, name, enums, namespaces, variant=False, allow_id=None):
    kinds = list(SCALARS) * 2 + (["enum", "enum", "flags"] if enums else []) + (["ref"] if namespaces else [])
    typ = str(rng.choice(kinds))
    a = {"m": "attr", "name": name, "type": typ, "target": None, "arity": None, "default": None, "facets": [],
         "doc": None}
    if allow_id is not None:
        a["type"], a["target"] = "id", allow_id
        typ = "id"
    if typ in ("enum", "flags"):
        a["target"] = str(rng.choice(sorted(enums)))
    elif typ == "ref":
        a["target"] = str(rng.choice(sorted(namespaces)))
    elif typ in SCALARS:
        a["arity"] = _gen_arity(rng, typ)
    lo, hi = arity_bounds(a["arity"])
    facets = []
    # default
    if rng.random() < 0.45:
        if typ == "enum":
            a["default"] = str(rng.choice([k for k, _ in enums[a["target"]]]))
        elif typ == "bool":
            a["default"] = str(rng.choice(["true", "false"]))
        elif typ in ("string", "file"):
            a["default"] = str(rng.choice(["xyz", "", "a b", "m/n.png", "#x", "1.5", "it's"]))
        elif typ in NUMERIC:
            integral = typ == "int"
            if (lo, hi) == (1, 1):
                a["default"] = _num_value(rng, integral)
            else:
                top = hi if isinstance(hi, int) else lo + 4
                top = min(top, 8)
                if top >= max(lo, 1):
                    n = int(rng.integers(max(lo, 1), top + 1))
                    if n == 1 and rng.random() < 0.5:
                        a["default"] = _num_value(rng, integral)          # scalar spelling of a 1-vector
                    else:
                        a["default"] = [_num_value(rng, integral) for _ in range(n)]
    # facets
    if rng.random() < 0.25:
        facets.append(["field", _ident(rng, "f", int(rng.integers(50)))])
    if a["default"] is None and not variant and rng.random() < 0.2:
        facets.append(["required", True])
    if rng.random() < 0.1:
        facets.append(["nodefault", True])
    if typ in ("string", "chars") and rng.random() < 0.3:
        facets.append(["pattern", str(rng.choice(["[xyzXYZ]{3}", "[a-z]+", ".*", "a|b"]))])
    if typ in NUMERIC and rng.random() < 0.25:
        lo_v = float(int(rng.integers(-5, 5)))
        c = rng.random()
        if c < 0.4:
            facets.append(["min", lo_v])
        elif c < 0.6:
            facets.append(["max", lo_v])
        elif c < 0.8:
            facets += [["min", lo_v], ["max", lo_v + float(int(rng.integers(0, 6)))]]
        else:
            facets.append(["positive", True])
    if rng.random() < 0.08:
        facets.append([str(rng.choice(["reading", "writing"])), "custom"])
    order = rng.permutation(len(facets))
    a["facets"] = [facets[i] for i in order]
    if rng.random() < 0.4:
        a["doc"] = str(rng.choice(["doc", "slide, roll, spin", "(x, y, z)", "a # b", "\"q\"", "x = {1}", "e"]))
    return a


def gen_model(rng, max_decls=40, rich=True, tree=False):
    """A valid schema model with at most max_decls declarations."""
    n_total = int(rng.integers(1, max_decls + 1))
    n_enum = int(rng.integers(0, max(1, n_total // 3) + 1))
    n_group = int(rng.integers(0, max(1, n_total // 3) + 1))
    n_elem = max(1, n_total - n_enum - n_group)
    enums, decl_enums = {}, []
    for i in range(n_enum):
        name = _ident(rng, "en", i) if rng.random() > 0.03 else ("enum", "group", "element")[i % 3] + "_kw%d" % i
        items, seen = [], set()
        for j in range(int(rng.integers(1, 7))):
            key = str(rng.choice(["k%d" % j, "2d", "true", "false", "none", "a b%d" % j, "K%d" % j, "k-%d" % j, "auto"]))
            if key in seen:
                continue
            seen.add(key)
            val = ("mjC_%s_%d" % (name.upper(), j)) if rng.random() < 0.6 else str(int(rng.integers(-2, 40)))
            items.append([key, val])
        enums[name] = items
        decl_enums.append({"k": "enum", "name": name, "ctype": ("mjt%s" % name.capitalize()) if rng.random() < 0.5 else None,
                           "items": items, "doc": "enum doc" if rng.random() < 0.3 else None})
    namespaces = ["ns%d" % i for i in range(int(rng.integers(0, 4)))]
    declared_ns = set()
    # groups: group i may only use groups j < i; closure[i] = attr names it expands to
    groups, closure = [], {}
    for i in range(n_group):
        name = _ident(rng, "g", i)
        variant = rng.random() < 0.25
        members, names = [], []
        for j in range(int(rng.integers(1, 6))):
            an = "%s_a%d" % (name, j) if rng.random() > 0.04 else "%s_%s" % (str(rng.choice(RESERVED)), name)
            if an in names:
                continue
            members.append(_gen_attr(rng, an, enums, [n for n in namespaces if n in declared_ns], variant=variant))
            names.append(an)
        own = list(names)
        clos = set(names)
        if not variant and groups:
            for _ in range(int(rng.integers(0, 3))):
                g = groups[int(rng.integers(len(groups)))]
                if closure[g["name"]] & clos:
                    continue
                clos |= closure[g["name"]]
                members.insert(int(rng.integers(len(members) + 1)), {"m": "use", "group": g["name"]})
        if len(own) >= 2 and rng.random() < 0.6:
            # most groups carry a constraint of their own: an element that reaches several groups (directly or through nested use)
            # then collects several group-carried constraints, whose order in the generated tables must not depend on anything
            members.append(_gen_constraint(rng, own, in_element=False))
        closure[name] = clos
        groups.append({"k": "group", "name": name, "variant": bool(variant), "members": members,
                       "doc": "group doc" if rng.random() < 0.3 else None})
    # elements
    elem_names = ["mujoco" if (i == 0 and rich) else _ident(rng, "el", i) for i in range(n_elem)]
    elements = []
    for i, name in enumerate(elem_names):
        members, names = [], set()
        if namespaces and rng.random() < 0.6:
            ns = str(rng.choice(namespaces))
            idn = "name" if rng.random() < 0.7 else "class"
            members.append(_gen_attr(rng, idn, enums, [], allow_id=ns))
            names.add(idn)
            declared_ns.add(ns)
        for j in range(int(rng.integers(0, 8))):
            an = str(rng.choice(["pos", "size", "type", "a%d" % j, "b%d" % j, "class", "name_", "oneof", "user"]))
            if an in names:
                continue
            members.append(_gen_attr(rng, an, enums, sorted(declared_ns)))
            names.add(an)
        for _ in range(int(rng.integers(0, 5))):
            if not groups:
                break
            g = groups[int(rng.integers(len(groups)))]
            if closure[g["name"]] & names:
                continue
            names |= closure[g["name"]]
            members.insert(int(rng.integers(len(members) + 1)), {"m": "use", "group": g["name"]})
        if rng.random() < 0.2:
            members.insert(0, {"m": "set", "field": "type", "value": "mjSENS_%d" % i,
                               "doc": "identity" if rng.random() < 0.5 else None})
        if len(names) >= 2 and rng.random() < 0.3:
            members.append(_gen_constraint(rng, sorted(names), in_element=True))
        facets = []
        if rng.random() < 0.15:
            facets.append(["xml", str(rng.choice(["joint", "geom", "tag%d" % i]))])
        if rng.random() < 0.1:
            facets.append(["field", "sub%d" % i])
        elements.append({"k": "element", "name": name, "spec": ("mjs%s" % name.capitalize()) if rng.random() < 0.5 else None,
                         "facets": facets, "members": members, "doc": "element doc" if rng.random() < 0.3 else None})
    # children: every element i>0 is a child of some element j<i (all reachable from element 0), plus extras
    for i in range(1, n_elem):
        par = elements[int(rng.integers(0, i))]
        par["members"].append({"m": "child", "name": elem_names[i], "card": str(rng.choice(CARDS)),
                               "doc": "child doc" if rng.random() < 0.2 else None})
    for el in elements:
        have = {m["name"] for m in el["members"] if m["m"] == "child"}
        for _ in range(int(rng.integers(0, 2))):
            c = elem_names[int(rng.integers(n_elem))]
            if c in have or c == elem_names[0] or (tree and c != el["name"]):
                continue
            have.add(c)
            el["members"].append({"m": "child", "name": c, "card": "R" if c == el["name"] else str(rng.choice(CARDS)),
                                  "doc": None})
    if n_elem > 2 and rng.random() < 0.3:
        elements[-1]["facets"].append(["alias", elem_names[1]])
    decls = decl_enums + groups + elements
    order = rng.permutation(len(decls)) if rng.random() < 0.5 else range(len(decls))   # declaration order is free
    return {"decls": [decls[i] for i in order]}


def _gen_constraint(rng, names, in_element):
    kind = str(rng.choice(VERBS))
    names = [n for n in names]
    rng.shuffle(names)
    if kind == "requires":
        return {"m": "con", "kind": kind, "bundles": [[names[0]], [names[1]]], "doc": None}
    bundles, i = [], 0
    while i < len(names) and len(bundles) < 4:
        k = 1 + int(rng.random() < 0.3)
        bundles.append(names[i:i + k])
        i += k
    if len(bundles) < 2:
        bundles = [[names[0]], [names[1]]]
    return {"m": "con", "kind": kind, "bundles": bundles, "doc": "semantics" if rng.random() < 0.3 else None}


# ----------------------------------------------------------------------------------------------- renderer

def _fmt_num(rng, v):
    if v == int(v) and abs(v) < 1e15:
        i = int(v)
        c = int(rng.integers(6)) if rng is not None else 0
        return ("%d" % i, "%d." % i, "%d.0" % i, "%de0" % i, "%d" % i, "%d" % i)[c]
    r = repr(float(v))
    if rng is not None and r.startswith("0.") and rng.random() < 0.5:
        return r[1:]
    if rng is not None and r.startswith("-0.") and rng.random() < 0.5:
        return "-" + r[2:]
    return r


def _fmt_word(rng, s, allow_ident=True):
    if allow_ident and re.fullmatch(r"[A-Za-z_][A-Za-z0-9_]*", s) and (rng is None or rng.random() < 0.7):
        return s
    return '"%s"' % s


def _fmt_facets(rng, facets):
    parts = []
    for k, v in facets:
        if v is True:
            parts.append(k)
        elif isinstance(v, float):
            parts.append("%s=%s" % (k, _fmt_num(rng, v)))
        else:
            parts.append("%s=%s" % (k, _fmt_word(rng, v)))
    return "(" + ", ".join(parts) + ")"


def _fmt_arity(ar):
    if ar is None:
        return ""
    if ar[0] == "raw":
        return ar[1]
    if ar[0] == "n":
        return "[%d]" % ar[1]
    if ar[0] in ("r", "s"):
        return "[%d..%s]" % (ar[1], ar[2])
    return "[]"


def render_member(rng, m):
    """-> list of physical lines (first line carries the member's doc comment)."""
    if m["m"] == "use":
        return ["use %s" % m["group"]]
    if m["m"] == "child":
        return ["child %s %s" % (m["name"], m["card"])]
    if m["m"] == "set":
        return ["set %s = %s" % (m["field"], m["value"])]
    if m["m"] == "con":
        return ["%s %s" % (m["kind"], " ".join("+".join(b) for b in m["bundles"]))]
    if m["type"] in ("enum", "flags", "id", "ref"):
        t = "%s<%s>" % (m["type"], m["target"])
    else:
        t = m["type"] + _fmt_arity(m["arity"])
    sep = " " * int(rng.integers(1, 4)) if rng is not None else " "
    head = "%s%s:%s%s" % (m["name"], sep, sep, t)
    tail = ""
    d = m["default"]
    if d is not None:
        if isinstance(d, list):
            tail += " = {%s}" % ", ".join(_fmt_num(rng, v) for v in d)
        elif isinstance(d, float):
            tail += " = " + _fmt_num(rng, d)
        elif m["type"] == "bool":
            tail += " = " + d
        else:
            tail += " = " + _fmt_word(rng, d)
    if m["facets"]:
        tail += " " + _fmt_facets(rng, m["facets"])
    if tail and rng is not None and rng.random() < 0.05:
        return [head, "    " + tail.strip()]              # members may span lines
    return [head + tail]


def render(model, rng=None):
    """-> (text, line_of) ; line_of[(decl_index, member_index or None)] = 1-based line of its first token."""
    lines, line_of = [], {}

    def put(s, doc):
        if doc is not None:
            s = s + "   # " + doc
        lines.append(s)
        return len(lines)

    if rng is not None and rng.random() < 0.3:
        put("# leading comment", None)
        put("", None)
    for di, d in enumerate(model["decls"]):
        if d["k"] == "enum":
            head = "enum %s%s {" % (d["name"], (" : %s" % d["ctype"]) if d["ctype"] else "")
            line_of[(di, None)] = put(head, d.get("doc"))
            for ii, (k, v) in enumerate(d["items"]):
                line_of[(di, ii)] = put("  %s = %s" % (_fmt_word(rng, k), v), None)
            put("}", None)
        else:
            head = "%s %s" % (d["k"], d["name"])
            if d["k"] == "group" and d["variant"]:
                head += " variant"
            if d["k"] == "element":
                if d["spec"]:
                    head += " : " + d["spec"]
                if d["facets"]:
                    head += " " + _fmt_facets(rng, d["facets"])
            line_of[(di, None)] = put(head + " {", d.get("doc"))
            for mi, m in enumerate(d["members"]):
                ls = render_member(rng, m)
                line_of[(di, mi)] = put("  " + ls[0], m.get("doc"))
                for extra in ls[1:]:
                    put(extra, None)
            put("}", None)
        if rng is None or rng.random() < 0.7:
            put("", None)
    return "\n".join(lines) + ("\n" if rng is None or rng.random() < 0.8 else ""), line_of


def expected_default(m):
    d = m["default"]
    if isinstance(d, list):
        return tuple(float(v) for v in d)
    return d


def compare_parsed(model, line_of, schema):
    """Differences between the source model and the parser's returned dataclasses (list of strings)."""
    diffs = []
    tables = {"enum": schema.enums, "group": schema.groups, "element": schema.elements}
    want_names = {"enum": [], "group": [], "element": []}
    for di, d in enumerate(model["decls"]):
        want_names[d["k"]].append(d["name"])
        got = tables[d["k"]].get(d["name"])
        if got is None:
            diffs.append("missing %s %s" % (d["k"], d["name"]))
            continue
        if got.line != line_of[(di, None)]:
            diffs.append("%s %s: line %r != %r" % (d["k"], d["name"], got.line, line_of[(di, None)]))
        if got.doc != d.get("doc"):
            diffs.append("%s %s: doc %r != %r" % (d["k"], d["name"], got.doc, d.get("doc")))
        if d["k"] == "enum":
            if got.ctype != d["ctype"]:
                diffs.append("enum %s: ctype %r" % (d["name"], got.ctype))
            if [list(x) for x in got.items] != [list(x) for x in d["items"]]:
                diffs.append("enum %s: items %r != %r" % (d["name"], got.items, d["items"]))
            continue
        if d["k"] == "group" and bool(got.variant) != d["variant"]:
            diffs.append("group %s: variant flag" % d["name"])
        if d["k"] == "element":
            if got.spec != d["spec"]:
                diffs.append("element %s: spec %r" % (d["name"], got.spec))
            if got.facets != {k: v for k, v in d["facets"]}:
                diffs.append("element %s: facets %r" % (d["name"], got.facets))
        if len(got.members) != len(d["members"]):
            diffs.append("%s %s: %d members != %d" % (d["k"], d["name"], len(got.members), len(d["members"])))
            continue
        for mi, (m, g) in enumerate(zip(d["members"], got.members)):
            where = "%s.%d" % (d["name"], mi)
            cls = type(g).__name__
            want_cls = {"attr": "Attr", "use": "Use", "child": "Child", "set": "Const", "con": "Constraint"}[m["m"]]
            if cls != want_cls:
                diffs.append("%s: member kind %s != %s" % (where, cls, want_cls))
                continue
            if g.line != line_of[(di, mi)]:
                diffs.append("%s: line %r != %r" % (where, g.line, line_of[(di, mi)]))
            if m["m"] != "use" and g.doc != m.get("doc"):
                diffs.append("%s: doc %r != %r" % (where, g.doc, m.get("doc")))
            if m["m"] == "use" and g.group != m["group"]:
                diffs.append("%s: use %r" % (where, g.group))
            elif m["m"] == "child" and (g.name, g.card) != (m["name"], m["card"]):
                diffs.append("%s: child %r %r" % (where, g.name, g.card))
            elif m["m"] == "set" and (g.field, g.value) != (m["field"], m["value"]):
                diffs.append("%s: set %r %r" % (where, g.field, g.value))
            elif m["m"] == "con" and (g.kind, [list(b) for b in g.bundles]) != (m["kind"], m["bundles"]):
                diffs.append("%s: constraint %r %r" % (where, g.kind, g.bundles))
            elif m["m"] == "attr":
                lo, hi = arity_bounds(m["arity"])
                got_t = (g.name, g.type, g.target, g.arity.lo, g.arity.hi, g.default, g.facets)
                want_t = (m["name"], m["type"], m["target"], lo, hi, expected_default(m), {k: v for k, v in m["facets"]})
                if got_t != want_t:
                    diffs.append("%s: attr %r != %r" % (where, got_t, want_t))
    for k in tables:
        if list(tables[k]) != want_names[k]:
            diffs.append("%s table order/content %r != %r" % (k, list(tables[k]), want_names[k]))
    return diffs


# ----------------------------------------------------------------------------------------------- re-validator

def _cls(x):
    return type(x).__name__


def expand_attrs(schema, members):
    """Own iterative group expansion: list of Attr in declaration order (caller guarantees the use graph is acyclic)."""
    out = []
    stack = [iter(members)]
    while stack:
        m = next(stack[-1], None)
        if m is None:
            stack.pop()
        elif _cls(m) == "Attr":
            out.append(m)
        elif _cls(m) == "Use":
            g = schema.groups.get(m.group)
            if g is not None:
                if len(stack) > len(schema.groups) + 1:
                    raise ValueError("cycle")
                stack.append(iter(g.members))
    return out


def revalidate(schema):
    """-> list of (rule, message) for every documented rule the returned schema breaks."""
    bad = []
    groups, elements, enums = schema.groups, schema.elements, schema.enums
    # use graph: targets declared, acyclic (iterative colouring)
    edges = {}
    for g in groups.values():
        edges[g.name] = [m.group for m in g.members if _cls(m) == "Use"]
    for cont in list(groups.values()) + list(elements.values()):
        for m in cont.members:
            if _cls(m) == "Use" and m.group not in groups:
                bad.append(("dangling-use", "%s uses undeclared group %s" % (cont.name, m.group)))
    colour = {}
    cyclic = False
    for start in edges:
        if colour.get(start):
            continue
        stack = [(start, iter(edges[start]))]
        colour[start] = 1
        while stack:
            node, it = stack[-1]
            nxt = next(it, None)
            if nxt is None:
                colour[node] = 2
                stack.pop()
            elif nxt in edges:
                if colour.get(nxt) == 1:
                    cyclic = True
                elif not colour.get(nxt):
                    colour[nxt] = 1
                    stack.append((nxt, iter(edges[nxt])))
    if cyclic:
        bad.append(("use-cycle", "group use graph is cyclic"))
    namespaces = set()
    for cont in list(groups.values()) + list(elements.values()):
        for m in cont.members:
            if _cls(m) == "Attr" and m.type == "id":
                namespaces.add(m.target)
    for e in enums.values():
        keys = [k for k, _ in e.items]
        if not keys:
            bad.append(("empty-enum", e.name))
        if len(set(keys)) != len(keys):
            bad.append(("duplicate-enum-keyword", e.name))
    for g in groups.values():
        direct = {m.name for m in g.members if _cls(m) == "Attr"}
        for m in g.members:
            if _cls(m) in ("Child", "Const"):
                bad.append(("child-or-set-in-group", g.name))
            if g.variant and _cls(m) == "Use":
                bad.append(("variant-with-use", g.name))
            if g.variant and _cls(m) == "Attr" and m.facets.get("required"):
                bad.append(("variant-with-required", "%s.%s" % (g.name, m.name)))
            if _cls(m) == "Constraint":
                bad += _check_constraint(m, direct, g.name, element=False)
    for el in elements.values():
        for f in el.facets:
            if f not in ELEM_FACETS:
                bad.append(("unknown-element-facet", "%s(%s)" % (el.name, f)))
        for f in ("xml", "alias"):
            if f in el.facets and not isinstance(el.facets[f], str):
                bad.append(("element-facet-needs-name", "%s(%s)" % (el.name, f)))
        if isinstance(el.facets.get("alias"), str) and el.facets["alias"] not in elements:
            bad.append(("dangling-alias", el.name))
        seen = set()
        for m in el.members:
            if _cls(m) == "Child":
                if m.name not in elements:
                    bad.append(("dangling-child", "%s -> %s" % (el.name, m.name)))
                if m.name in seen:
                    bad.append(("duplicate-child", "%s -> %s" % (el.name, m.name)))
                seen.add(m.name)
                if m.card not in CARDS:
                    bad.append(("bad-cardinality", "%s -> %s %r" % (el.name, m.name, m.card)))
        if not cyclic:
            names = [a.name for a in expand_attrs(schema, el.members)]
            if len(set(names)) != len(names):
                dup = sorted({n for n in names if names.count(n) > 1})
                bad.append(("duplicate-attribute", "%s: %s" % (el.name, dup)))
            for m in el.members:
                if _cls(m) == "Constraint":
                    bad += _check_constraint(m, set(names), el.name, element=True)
    for cont in list(groups.values()) + list(elements.values()):
        for a in cont.members:
            if _cls(a) == "Attr":
                bad += [(r, "%s.%s: %s" % (cont.name, a.name, msg)) for r, msg in _check_attr(a, enums, namespaces)]
    return bad


def _check_constraint(c, names, where, element):
    bad = []
    if c.kind not in VERBS:
        bad.append(("bad-constraint-verb", where))
    if len(c.bundles) < 2:
        bad.append(("constraint-needs-two-bundles", where))
    for b in c.bundles:
        for n in b:
            if n not in names:
                bad.append(("constraint-unknown-attribute", "%s: %s" % (where, n)))
    if element and c.kind == "requires" and (len(c.bundles) != 2 or any(len(b) != 1 for b in c.bundles)):
        bad.append(("requires-arity", where))
    return bad


def _is_num(v):
    return isinstance(v, (int, float)) and not isinstance(v, bool)


def _check_attr(a, enums, namespaces):
    bad = []
    t = a.type
    if t not in SCALARS + ("enum", "flags", "id", "ref"):
        return [("unknown-type", repr(t))]
    if t in ("enum", "flags") and a.target not in enums:
        bad.append(("dangling-enum", str(a.target)))
    if t == "ref" and a.target not in namespaces:
        bad.append(("dangling-ref", str(a.target)))
    lo, hi = a.arity.lo, a.arity.hi
    if not (isinstance(lo, int) and lo >= 0):
        bad.append(("arity-lo", repr(lo)))
    if not (hi is None or isinstance(hi, str) or (isinstance(hi, int) and hi >= 0)):
        bad.append(("arity-hi", repr(hi)))
    if isinstance(hi, int) and isinstance(lo, int) and lo > hi:
        bad.append(("arity-decreasing", "%r..%r" % (lo, hi)))
    scalar = (lo, hi) == (1, 1)
    if t in ("bool", "file") and not scalar:
        bad.append(("bool-or-file-vector", ""))
    if t == "chars" and not isinstance(hi, int):
        bad.append(("chars-unbounded", ""))
    f = a.facets
    for k in f:
        if k not in ATTR_FACETS:
            bad.append(("unknown-facet", k))
    if "pattern" in f and t not in ("string", "chars"):
        bad.append(("pattern-on-non-text", ""))
    for k in ("min", "max"):
        if k in f and t not in NUMERIC:
            bad.append(("min-max-on-non-numeric", k))
        elif k in f and not _is_num(f[k]):
            bad.append(("min-max-facet-without-numeric-value", "%s=%r" % (k, f[k])))
    if "min" in f and "max" in f and _is_num(f["min"]) and _is_num(f["max"]) and f["min"] > f["max"]:
        bad.append(("min-greater-than-max", ""))
    if f.get("positive") and t not in NUMERIC:
        bad.append(("positive-on-non-numeric", ""))
    d = a.default
    if f.get("required") and d is not None:
        bad.append(("required-with-default", ""))
    if d is None:
        return bad
    if t == "enum":
        if a.target in enums and not (isinstance(d, str) and d in [k for k, _ in enums[a.target].items]):
            bad.append(("enum-default-not-keyword", repr(d)))
    elif t in ("ref", "id", "chars"):
        bad.append(("default-on-id-ref-chars", t))
    elif t == "bool":
        if d not in ("true", "false"):
            bad.append(("bool-default", repr(d)))
    elif t in ("string", "file"):
        if not isinstance(d, str):
            bad.append(("text-default-not-string", repr(d)))
    elif t in NUMERIC:
        vals = d if isinstance(d, tuple) else (d,)
        if not all(_is_num(v) for v in vals):
            bad.append(("numeric-default-not-numeric", repr(d)))
        else:
            if isinstance(d, tuple) and scalar:
                bad.append(("vector-default-on-scalar", repr(d)))
            if isinstance(lo, int) and len(vals) < lo:
                bad.append(("default-too-short", "%d < %d" % (len(vals), lo)))
            if isinstance(hi, int) and len(vals) > hi:
                bad.append(("default-too-long", "%d > %d" % (len(vals), hi)))
            if t == "int" and any(v != int(v) for v in vals if v == v and abs(v) != float("inf")):
                bad.append(("int-default-not-integral", repr(d)))
    return bad


# ----------------------------------------------------------------------------------------------- rule mutators
# each: (model, rng) -> mutated deep copy, or None when the model has no site for the rule

def _decls(model, kind):
    return [d for d in model["decls"] if d["k"] == kind]


def _attrs(d):
    return [m for m in d["members"] if m["m"] == "attr"]


def _pick(rng, seq):
    seq = list(seq)
    return seq[int(rng.integers(len(seq)))] if seq else None


def _all_attrs(model, pred=lambda a, d: True):
    return [(d, a) for d in model["decls"] if d["k"] != "enum" for a in _attrs(d) if pred(a, d)]


def _mut_attr(pred, change):
    def f(model, rng):
        model = copy.deepcopy(model)
        site = _pick(rng, _all_attrs(model, pred))
        if site is None:
            return None
        d, a = site
        return model if change(a, d, rng, model) is not False else None
    return f


def _clear(a):
    a["default"] = None
    a["facets"] = [x for x in a["facets"] if x[0] not in ("required",)]


def _dup_decl(kind):
    def f(model, rng):
        model = copy.deepcopy(model)
        d = _pick(rng, _decls(model, kind))
        if d is None:
            return None
        c = copy.deepcopy(d)
        if kind != "enum":
            c["members"] = c["members"][:1]
        model["decls"].insert(int(rng.integers(len(model["decls"]) + 1)), c)
        return model
    return f


def _m_dup_enum_keyword(model, rng):
    model = copy.deepcopy(model)
    d = _pick(rng, _decls(model, "enum"))
    if d is None:
        return None
    k = _pick(rng, d["items"])
    d["items"].insert(int(rng.integers(len(d["items"]) + 1)), [k[0], "7"])
    return model


def _m_empty_enum(model, rng):
    model = copy.deepcopy(model)
    used = {a["target"] for _, a in _all_attrs(model, lambda a, d: a["type"] in ("enum", "flags"))}
    d = _pick(rng, [e for e in _decls(model, "enum") if e["name"] not in used])
    if d is None:
        return None
    d["items"] = []
    return model


def _m_empty_group(model, rng):
    model = copy.deepcopy(model)
    used = {m["group"] for d in model["decls"] if d["k"] != "enum" for m in d["members"] if m["m"] == "use"}
    d = _pick(rng, [g for g in _decls(model, "group") if g["name"] not in used])
    if d is None:
        return None
    d["members"] = []
    return model


def _m_dangling_use(model, rng):
    model = copy.deepcopy(model)
    d = _pick(rng, [d for d in model["decls"] if d["k"] == "element" or (d["k"] == "group" and not d["variant"])])
    if d is None:
        return None
    d["members"].insert(int(rng.integers(len(d["members"]) + 1)), {"m": "use", "group": "nosuch_group"})
    return model


def _m_use_cycle(model, rng):
    model = copy.deepcopy(model)
    gs = [g for g in _decls(model, "group") if not g["variant"]]
    g = _pick(rng, gs)
    if g is None:
        return None
    c = rng.random()
    if c < 0.34:
        g["members"].append({"m": "use", "group": g["name"]})          # self cycle
    else:
        # close a cycle through fresh, otherwise unused, groups (length 2 or 3)
        names = ["cyc_a", "cyc_b"] if c < 0.67 else ["cyc_a", "cyc_b", "cyc_c"]
        g["members"].append({"m": "use", "group": names[0]})
        for i, n in enumerate(names):
            nxt = names[i + 1] if i + 1 < len(names) else g["name"]
            model["decls"].append({"k": "group", "name": n, "variant": False, "doc": None,
                                   "members": [{"m": "use", "group": nxt}]})
    return model


def _m_dangling_child(model, rng):
    model = copy.deepcopy(model)
    d = _pick(rng, _decls(model, "element"))
    d["members"].append({"m": "child", "name": "nosuch_element", "card": "*", "doc": None})
    return model


def _m_duplicate_child(model, rng):
    model = copy.deepcopy(model)
    d = _pick(rng, [e for e in _decls(model, "element") if any(m["m"] == "child" for m in e["members"])])
    if d is None:
        return None
    c = _pick(rng, [m for m in d["members"] if m["m"] == "child"])
    d["members"].append({"m": "child", "name": c["name"], "card": str(rng.choice(CARDS)), "doc": None})
    return model


def _m_bad_card(model, rng):
    model = copy.deepcopy(model)
    d = _pick(rng, [e for e in _decls(model, "element") if any(m["m"] == "child" for m in e["members"])])
    if d is None:
        return None
    c = _pick(rng, [m for m in d["members"] if m["m"] == "child"])
    c["card"] = str(rng.choice(["+", "x", "1", "="]))
    return model


def _m_dup_attr_direct(model, rng):
    model = copy.deepcopy(model)
    site = _pick(rng, _all_attrs(model, lambda a, d: d["k"] == "element"))
    if site is None:
        return None
    d, a = site
    c = copy.deepcopy(a)
    c["type"], c["target"], c["arity"], c["default"], c["facets"] = "double", None, None, None, []
    d["members"].insert(int(rng.integers(len(d["members"]) + 1)), c)
    return model


def _closure_names(model, gname, depth=0):
    g = next((x for x in _decls(model, "group") if x["name"] == gname), None)
    if g is None or depth > 60:
        return []
    out = []
    for m in g["members"]:
        if m["m"] == "attr":
            out.append(m["name"])
        elif m["m"] == "use":
            out += _closure_names(model, m["group"], depth + 1)
    return out


def _m_dup_attr_via_use(model, rng):
    model = copy.deepcopy(model)
    sites = [(d, m) for d in _decls(model, "element") for m in d["members"] if m["m"] == "use"]
    site = _pick(rng, sites)
    if site is None:
        return None
    d, u = site
    names = _closure_names(model, u["group"])          # includes nested groups
    if not names:
        return None
    n = names[-1] if rng.random() < 0.5 else _pick(rng, names)
    if rng.random() < 0.5:
        d["members"].append({"m": "attr", "name": n, "type": "int", "target": None, "arity": None, "default": None,
                             "facets": [], "doc": None})
    else:
        d["members"].append({"m": "use", "group": u["group"]})          # same group spliced twice
    return model


def _set_arity_text(txt):
    def ch(a, d, rng, model):
        _clear(a)
        a["arity"] = ["raw", txt if not callable(txt) else txt(rng)]
    return ch


def _m_unknown_facet(model, rng):
    model = copy.deepcopy(model)
    site = _pick(rng, _all_attrs(model))
    if site is None:
        return None
    site[1]["facets"].append([str(rng.choice(["frobnicate", "xml", "alias", "default", "Required"])), True])
    return model


def _m_unknown_element_facet(model, rng):
    model = copy.deepcopy(model)
    d = _pick(rng, _decls(model, "element"))
    d["facets"].append([str(rng.choice(["required", "nodefault", "pattern", "tag"])), True])
    return model


def _m_duplicate_facet(model, rng):
    model = copy.deepcopy(model)
    site = _pick(rng, _all_attrs(model, lambda a, d: a["facets"]))
    if site is None:
        return None
    site[1]["facets"].append(copy.deepcopy(site[1]["facets"][0]))
    return model


def _m_alias_dangling(model, rng):
    model = copy.deepcopy(model)
    d = _pick(rng, _decls(model, "element"))
    d["facets"] = [f for f in d["facets"] if f[0] != "alias"] + [["alias", "nosuch_element"]]
    return model


def _m_element_facet_without_name(model, rng):
    model = copy.deepcopy(model)
    d = _pick(rng, _decls(model, "element"))
    k = str(rng.choice(["xml", "alias"]))
    d["facets"] = [f for f in d["facets"] if f[0] != k] + [[k, True if rng.random() < 0.5 else 3.0]]
    return model


def _m_variant_with_use(model, rng):
    model = copy.deepcopy(model)
    v = _pick(rng, [g for g in _decls(model, "group") if g["variant"]])
    if v is None:
        return None
    model["decls"].append({"k": "group", "name": "vu_inner", "variant": False, "doc": None,
                           "members": [{"m": "attr", "name": "vu_inner_a", "type": "int", "target": None,
                                        "arity": None, "default": None, "facets": [], "doc": None}]})
    v["members"].append({"m": "use", "group": "vu_inner"})
    return model


def _m_member_in_group(kind):
    def f(model, rng):
        model = copy.deepcopy(model)
        g = _pick(rng, _decls(model, "group"))
        e = _pick(rng, _decls(model, "element"))
        if g is None:
            return None
        if kind == "child":
            g["members"].append({"m": "child", "name": e["name"], "card": "*", "doc": None})
        else:
            g["members"].append({"m": "set", "field": "type", "value": "mjSENS_TOUCH", "doc": None})
        return model
    return f


def _m_constraint_unknown_attr(model, rng):
    model = copy.deepcopy(model)
    d = _pick(rng, [d for d in model["decls"] if d["k"] != "enum" and _attrs(d)])
    if d is None:
        return None
    d["members"].append({"m": "con", "kind": str(rng.choice(["exclusive", "together", "oneof"])),
                         "bundles": [[_attrs(d)[0]["name"]], ["nosuch_attr"]], "doc": None})
    return model


def _m_requires_arity(model, rng):
    model = copy.deepcopy(model)
    d = _pick(rng, [d for d in _decls(model, "element") if len(_attrs(d)) >= 3])
    if d is None:
        return None
    n = [a["name"] for a in _attrs(d)]
    b = [[n[0]], [n[1], n[2]]] if rng.random() < 0.5 else [[n[0]], [n[1]], [n[2]]]
    d["members"].append({"m": "con", "kind": "requires", "bundles": b, "doc": None})
    return model


def _m_constraint_single_bundle(model, rng):
    model = copy.deepcopy(model)
    d = _pick(rng, [d for d in model["decls"] if d["k"] != "enum" and len(_attrs(d)) >= 2])
    if d is None:
        return None
    n = [a["name"] for a in _attrs(d)]
    d["members"].append({"m": "con", "kind": str(rng.choice(VERBS)), "bundles": [[n[0], n[1]]], "doc": None})
    return model


def _numeric_vec(a, d):
    return a["type"] in NUMERIC and a["arity"] is not None and a["arity"][0] in ("n", "r") and arity_bounds(a["arity"])[1] <= 7


def _ch_default_too_long(a, d, rng, model):
    _clear(a)
    a["default"] = [1.0] * (arity_bounds(a["arity"])[1] + 1 + int(rng.integers(0, 2)))


def _ch_default_too_short(a, d, rng, model):
    lo = arity_bounds(a["arity"])[0]
    if lo < 2:
        a["arity"] = ["n", 3]
        lo = 3
    _clear(a)
    n = int(rng.integers(1, lo))
    a["default"] = [2.0] * n if n > 1 or rng.random() < 0.5 else 2.0


def _ch(fn):
    def ch(a, d, rng, model):
        return fn(a, d, rng, model)
    return ch


def _enum_names(model):
    return [e["name"] for e in _decls(model, "enum")]


def _ch_enum_default_bad(a, d, rng, model):
    _clear(a)
    a["default"] = "nosuch_keyword" if rng.random() < 0.6 else 1.0


def _ch_retarget(kind, target):
    def ch(a, d, rng, model):
        _clear(a)
        a["type"], a["target"], a["arity"] = kind, target, None
        a["facets"] = [f for f in a["facets"] if f[0] in ("field", "nodefault")]
    return ch


def _ch_type_default(typ, default, arity=None):
    def ch(a, d, rng, model):
        a["type"], a["target"], a["arity"] = typ, None, arity
        a["facets"] = [f for f in a["facets"] if f[0] in ("field", "nodefault")]
        a["default"] = default(rng) if callable(default) else default
    return ch


def _ch_id_default(a, d, rng, model):
    a["default"] = "x"
    a["facets"] = [f for f in a["facets"] if f[0] != "required"]


def _ch_required_with_default(a, d, rng, model):
    if d["k"] == "group" and d["variant"]:
        return False
    a["facets"] = [f for f in a["facets"] if f[0] != "required"] + [["required", True]]


def _ch_variant_required(a, d, rng, model):
    _clear(a)
    a["facets"].append(["required", True])


def _ch_facet(name, value, keep=lambda a: True):
    def ch(a, d, rng, model):
        a["facets"] = [f for f in a["facets"] if f[0] not in (name, "min", "max")] + [[name, value]]
    return ch


def _ch_min_gt_max(a, d, rng, model):
    a["facets"] = [f for f in a["facets"] if f[0] not in ("min", "max")] + [["min", 10.0], ["max", 5.0]]


MUTATORS = {
    "duplicate-enum": _dup_decl("enum"),
    "duplicate-group": _dup_decl("group"),
    "duplicate-element": _dup_decl("element"),
    "duplicate-enum-keyword": _m_dup_enum_keyword,
    "empty-enum": _m_empty_enum,
    "dangling-use": _m_dangling_use,
    "use-cycle": _m_use_cycle,
    "dangling-child": _m_dangling_child,
    "duplicate-child": _m_duplicate_child,
    "bad-cardinality": _m_bad_card,
    "dangling-enum": _mut_attr(lambda a, d: True, lambda a, d, rng, m: _ch_retarget(str(rng.choice(["enum", "flags"])), "nosuch_enum")(a, d, rng, m)),
    "dangling-ref": _mut_attr(lambda a, d: True, _ch_retarget("ref", "nosuch_ns")),
    "duplicate-attribute-direct": _m_dup_attr_direct,
    "duplicate-attribute-via-use": _m_dup_attr_via_use,
    "arity-not-increasing": _mut_attr(lambda a, d: a["type"] in NUMERIC, _set_arity_text(
        lambda rng: str(rng.choice(["[3..2]", "[10..9]", "[5..0]", "[1..0]"])))),
    "arity-negative": _mut_attr(lambda a, d: a["type"] in NUMERIC, _set_arity_text(
        lambda rng: str(rng.choice(["[-1]", "[-2..3]", "[0..-1]"])))),
    "arity-not-integer": _mut_attr(lambda a, d: a["type"] in NUMERIC, _set_arity_text(
        lambda rng: str(rng.choice(["[1.5]", "[1e2]", "[2.]", "[0..2.5]", "[x]"])))),
    "default-too-long": _mut_attr(_numeric_vec, _ch_default_too_long),
    "default-too-short": _mut_attr(_numeric_vec, _ch_default_too_short),
    "vector-default-on-scalar": _mut_attr(lambda a, d: a["type"] in NUMERIC and a["arity"] is None,
                                          lambda a, d, rng, m: (_clear(a), a.__setitem__("default", [1.0, 2.0]))[0]),
    "enum-default-not-keyword": _mut_attr(lambda a, d: a["type"] == "enum", _ch_enum_default_bad),
    "text-default-not-string": _mut_attr(lambda a, d: True, _ch_type_default(
        "string", lambda rng: 5.0 if rng.random() < 0.5 else [1.0, 2.0])),
    "numeric-default-not-numeric": _mut_attr(lambda a, d: True, _ch_type_default("double", "abc")),
    "bool-default": _mut_attr(lambda a, d: True, _ch_type_default(
        "bool", lambda rng: (["maybe", "True", "yes"][int(rng.integers(3))] if rng.random() < 0.7 else 1.0))),
    "default-on-id": _mut_attr(lambda a, d: a["type"] in ("id", "ref"), _ch_id_default),
    "default-on-chars": _mut_attr(lambda a, d: True, _ch_type_default(
        "chars", lambda rng: ["xyz", 5.0, [1.0, 2.0, 3.0]][int(rng.integers(3))], ["n", 3])),
    "bool-or-file-vector": _mut_attr(lambda a, d: True, lambda a, d, rng, m: _ch_type_default(
        str(rng.choice(["bool", "file"])), None, [["n", 2], ["r", 0, 1], ["u"], ["n", 0]][int(rng.integers(4))])(a, d, rng, m)),
    "chars-unbounded": _mut_attr(lambda a, d: True, lambda a, d, rng, m: _ch_type_default(
        "chars", None, [["u"], ["s", 1, "mjNREF"], None][int(rng.integers(2))])(a, d, rng, m)),
    "unknown-type": _mut_attr(lambda a, d: a["type"] in SCALARS, lambda a, d, rng, m: a.__setitem__(
        "type", str(rng.choice(["real", "Double", "vec3", "str", "integer"])))),
    "unknown-facet": _m_unknown_facet,
    "unknown-element-facet": _m_unknown_element_facet,
    "duplicate-facet": _m_duplicate_facet,
    "required-with-default": _mut_attr(lambda a, d: a["default"] is not None, _ch_required_with_default),
    "variant-with-use": _m_variant_with_use,
    "variant-with-required": _mut_attr(lambda a, d: d["k"] == "group" and d["variant"], _ch_variant_required),
    "pattern-on-non-text": _mut_attr(lambda a, d: a["type"] not in ("string", "chars"), _ch_facet("pattern", "[a-z]")),
    "min-max-on-non-numeric": _mut_attr(lambda a, d: a["type"] not in NUMERIC, lambda a, d, rng, m: _ch_facet(
        str(rng.choice(["min", "max"])), 0.0)(a, d, rng, m)),
    "min-max-value-not-number": _mut_attr(lambda a, d: a["type"] in NUMERIC, lambda a, d, rng, m: _ch_facet(
        str(rng.choice(["min", "max"])), str(rng.choice(["abc", "1"])))(a, d, rng, m)),
    "min-greater-than-max": _mut_attr(lambda a, d: a["type"] in NUMERIC, _ch_min_gt_max),
    "positive-on-non-numeric": _mut_attr(lambda a, d: a["type"] not in NUMERIC, _ch_facet("positive", True)),
    "child-in-group": _m_member_in_group("child"),
    "set-in-group": _m_member_in_group("set"),
    "constraint-unknown-attribute": _m_constraint_unknown_attr,
    "requires-arity": _m_requires_arity,
    "constraint-single-bundle": _m_constraint_single_bundle,
    "dangling-alias": _m_alias_dangling,
    "element-facet-without-name": _m_element_facet_without_name,
    # the two rules below are broken by the unchanged tree (see out/findings/C41-*.md); kept as separate labels
    "int-default-not-integral": _mut_attr(lambda a, d: a["type"] == "int" and (a["arity"] is None or a["arity"][0] == "u"),
                                          lambda a, d, rng, m: (_clear(a), a.__setitem__("default", 1.5))[0]),
    "min-max-facet-without-numeric-value": _mut_attr(lambda a, d: a["type"] in NUMERIC, lambda a, d, rng, m: _ch_facet(
        str(rng.choice(["min", "max"])), True)(a, d, rng, m)),
}

def self_test():
    import numpy as np
    rng = np.random.default_rng(1)
    for _ in range(50):
        m = gen_model(rng)
        text, line_of = render(m, rng)
        assert lex(text) is not None
        assert count_top_level_decls(text) == len(m["decls"])
        for name, mut in MUTATORS.items():
            mm = mut(m, rng)
            if mm is not None:
                render(mm, rng)
    return True
