"""Reference passive forces (numpy only), written from the documentation:

  doc/computation/index.rst  "Passive forces", "Polynomial forces"
  doc/XMLreference.rst       joint/stiffness, springref, damping; tendon/stiffness, springlength (dead-band), damping;
                             body/gravcomp; joint/actuatorgravcomp; actuator/general/damping; option/flag spring, damper, gravity

Kinematics / Jacobians come from vf/ref/rbd.py.
"""
import numpy as np

from . import rbd

FREE, BALL, SLIDE, HINGE = rbd.FREE, rbd.BALL, rbd.SLIDE, rbd.HINGE


def spring_poly(coef, x):
    """stiffness polynomial f(x) = a x + b x^2 + c x^3 (standard form); the applied force is -f"""
    a, b, c = coef
    return a * x + b * x * x + c * x * x * x


def spring_poly_potential(coef, x):
    a, b, c = coef
    return a * x * x / 2 + b * x ** 3 / 3 + c * x ** 4 / 4


def damper_poly(coef, v):
    """damping polynomial f(v) = a v + b v|v| + c v^3 (anti-symmetrised); the applied force is -f"""
    a, b, c = coef
    return a * v + b * v * abs(v) + c * v * v * v


def sign_preserving(coef, odd):
    """documented analytical condition for z*f(z) >= 0"""
    a, b, c = coef
    if a < 0 or c < 0:
        return False
    if odd:
        return b >= 0 or b * b <= 4 * a * c
    return b * b <= 4 * a * c


def deadband(length, lo, hi):
    """tendon displacement: zero inside [lo, hi], distance to the nearest springlength value outside"""
    if length > hi:
        return length - hi
    if length < lo:
        return length - lo
    return 0.0


def joint_spring(T, qpos, qpos_spring, stiffness):
    """qfrc of the joint springs. stiffness: (njnt, 3) coefficients (ball/free joints use the linear coefficient only)"""
    out = np.zeros(T.nv)
    pot = 0.0
    for j in range(T.njnt):
        k = stiffness[j]
        if not np.any(k):
            continue
        t = T.jnt_type[j]
        pa, va = T.jnt_qposadr[j], T.jnt_dofadr[j]
        if t in (SLIDE, HINGE):
            x = qpos[pa] - qpos_spring[pa]
            out[va] += -spring_poly(k, x)
            pot += spring_poly_potential(k, x)
            continue
        if t == FREE:
            dx = qpos[pa:pa + 3] - qpos_spring[pa:pa + 3]
            out[va:va + 3] += -k[0] * dx
            pot += 0.5 * k[0] * float(dx @ dx)
            pa += 3
            va += 3
        # rotational displacement from the spring reference, as a rotation vector in the joint (child) frame
        dq = rbd.qmul(rbd.qconj(rbd.qnorm(qpos_spring[pa:pa + 4])), rbd.qnorm(qpos[pa:pa + 4]))
        r = rbd.q2rotvec(rbd.qnorm(dq))
        out[va:va + 3] += -k[0] * r
        pot += 0.5 * k[0] * float(r @ r)
    return out, pot


def tendon_spring(ten_length, tenJ, stiffness, lengthspring):
    """stiffness (ntendon, 3); lengthspring (ntendon, 2)"""
    out = np.zeros(tenJ.shape[1])
    pot = 0.0
    frc = np.zeros(len(ten_length))
    for t in range(len(ten_length)):
        if not np.any(stiffness[t]):
            continue
        x = deadband(ten_length[t], lengthspring[t, 0], lengthspring[t, 1])
        frc[t] = -spring_poly(stiffness[t], x)
        pot += spring_poly_potential(stiffness[t], x)
        out += tenJ[t] * frc[t]
    return out, pot, frc


def dof_damper(qvel, damping):
    """damping (nv, 3)"""
    return np.array([-damper_poly(damping[i], qvel[i]) for i in range(len(qvel))])


def tendon_damper(tenJ, qvel, damping):
    out = np.zeros(tenJ.shape[1])
    frc = np.zeros(tenJ.shape[0])
    for t in range(tenJ.shape[0]):
        if not np.any(damping[t]):
            continue
        v = float(tenJ[t] @ qvel)
        frc[t] = -damper_poly(damping[t], v)
        out += tenJ[t] * frc[t]
    return out, frc


def gravcomp(T, K, gravity, body_gravcomp):
    """upward force gravcomp * m * (-g) applied at each body's centre of mass; returns (total, per-body list)"""
    out = np.zeros(T.nv)
    per = {}
    for b in range(1, T.nbody):
        if body_gravcomp[b] == 0:
            continue
        jp, _ = T.point_jac(K, b, K.xipos[b])
        q = jp.T @ (-np.asarray(gravity) * T.body_mass[b] * body_gravcomp[b])
        per[b] = q
        out += q
    return out, per


def gravity_force_on_body(T, K, gravity, b):
    """generalized force of gravity acting on body b alone"""
    jp, _ = T.point_jac(K, b, K.xipos[b])
    return jp.T @ (np.asarray(gravity) * T.body_mass[b])


def self_test():
    out = {}
    # polynomial force is minus the gradient of its potential
    k = np.array([3.0, -1.0, 2.0])
    x, e = 0.37, 1e-6
    fd = (spring_poly_potential(k, x + e) - spring_poly_potential(k, x - e)) / (2 * e)
    out["poly_grad"] = abs(fd - spring_poly(k, x))
    assert out["poly_grad"] < 1e-8
    assert sign_preserving((1, -1.9, 1), False) and not sign_preserving((1, -2.1, 1), False) and sign_preserving((1, 5, 0), True)
    assert damper_poly((1, 2, 3), -0.5) == -damper_poly((1, 2, 3), 0.5)
    assert deadband(0.5, 0.2, 0.4) == 0.5 - 0.4 and deadband(0.1, 0.2, 0.4) == 0.1 - 0.2 and deadband(0.3, 0.2, 0.4) == 0
    # ball / free joint spring torque is minus the gradient of 0.5 k |log|^2 along integrate_pos
    T, rng = rbd._demo_tree()
    qs = T.integrate_pos(T.qpos0, rng.normal(size=T.nv), 0.3)
    q = T.integrate_pos(T.qpos0, rng.normal(size=T.nv), 0.8)
    K3 = np.zeros((T.njnt, 3))
    K3[:, 0] = [2.0, 1.5, 0.7, 3.0]
    K3[1] = [1.5, 0.4, 0.9]
    f, pot = joint_spring(T, q, qs, K3)
    err = 0
    for i in range(T.nv):
        ev = np.zeros(T.nv)
        ev[i] = 1
        p1 = joint_spring(T, T.integrate_pos(q, ev, 1e-6), qs, K3)[1]
        p0 = joint_spring(T, T.integrate_pos(q, ev, -1e-6), qs, K3)[1]
        err = max(err, abs(-(p1 - p0) / 2e-6 - f[i]))
    out["joint_spring_grad"] = err
    assert err < 1e-6, err
    # full gravity compensation cancels the gravity term of the inverse dynamics
    g = np.array([0.5, -1.0, -9.0])
    K = T.fk(q)
    gc, per = gravcomp(T, K, g, np.ones(T.nbody))
    bias = T.rne(K, np.zeros(T.nv), np.zeros(T.nv), g)
    out["gravcomp_cancels"] = np.abs(gc - bias).max()
    assert out["gravcomp_cancels"] < 1e-10
    return out


if __name__ == "__main__":
    print(self_test())
