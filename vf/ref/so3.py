"""Independent SO(3)/SE(3) reference used by C24.

Everything is expressed through rotation MATRICES obtained from the matrix exponential
(scipy.linalg.expm of the skew matrix), never through the engine's quaternion polynomials, so a
sign/transposition/convention error in the engine cannot be mirrored here.  Quaternions are
(w, x, y, z); q acts on vectors as v -> R(q) v; the product qa*qb composes like R(qa) R(qb).
"""
import math

import numpy as np
from scipy.linalg import expm


def hat(v):
    return np.array([[0.0, -v[2], v[1]], [v[2], 0.0, -v[0]], [-v[1], v[0], 0.0]])


def exp_so3(v):
    """Rotation matrix of the rotation vector v (axis*angle)."""
    return expm(hat(np.asarray(v, dtype=float)))


def quat_to_mat(q):
    """Rotation matrix of the (normalised) quaternion, through its axis-angle and expm."""
    q = np.asarray(q, dtype=float)
    q = q / math.sqrt(float(q @ q))
    s = math.sqrt(float(q[1:] @ q[1:]))
    if s == 0.0:
        return np.eye(3)
    ang = 2.0 * math.atan2(s, q[0])
    return exp_so3(q[1:] / s * ang)


def qmul(a, b):
    """Hamilton product by the scalar/vector formula."""
    a = np.asarray(a, dtype=float)
    b = np.asarray(b, dtype=float)
    w = a[0] * b[0] - float(a[1:] @ b[1:])
    v = a[0] * b[1:] + b[0] * a[1:] + np.cross(a[1:], b[1:])
    return np.array([w, v[0], v[1], v[2]])


def qexp(v):
    """Unit quaternion of the rotation vector v (safe for tiny v)."""
    v = np.asarray(v, dtype=float)
    ang = math.sqrt(float(v @ v))
    # sin(a/2)/a via sinc: np.sinc(x) = sin(pi x)/(pi x)
    k = 0.5 * np.sinc(0.5 * ang / math.pi)
    return np.array([math.cos(0.5 * ang), k * v[0], k * v[1], k * v[2]])


def pose_mat(p, q):
    T = np.eye(4)
    T[:3, :3] = quat_to_mat(q)
    T[:3, 3] = p
    return T


_AX = {"x": 0, "y": 1, "z": 2}


def euler_mat(e, seq):
    """Rotation matrix of an Euler sequence; lower case = intrinsic (moving axes: post-multiply),
    upper case = extrinsic (fixed axes: pre-multiply), element by element, as documented."""
    R = np.eye(3)
    for i in range(3):
        ax = np.zeros(3)
        ax[_AX[seq[i].lower()]] = 1.0
        Ri = exp_so3(ax * e[i])
        R = R @ Ri if seq[i].islower() else Ri @ R
    return R


def rot_angle_between(Ra, Rb):
    """Geodesic angle between two rotation matrices (robust for small angles)."""
    D = Ra.T @ Rb
    s = 0.5 * math.sqrt((D[2, 1] - D[1, 2]) ** 2 + (D[0, 2] - D[2, 0]) ** 2 + (D[1, 0] - D[0, 1]) ** 2)
    c = 0.5 * (np.trace(D) - 1.0)
    return math.atan2(s, c)


def polar_rotation(M):
    U, S, Vt = np.linalg.svd(M)
    R = U @ Vt
    if np.linalg.det(R) < 0:
        U[:, -1] *= -1
        R = U @ Vt
    return R


def selftest():
    rng = np.random.default_rng(0)
    for _ in range(50):
        v = rng.normal(size=3) * rng.choice([1e-9, 1e-3, 1.0, 3.0])
        R = exp_so3(v)
        assert abs(np.linalg.det(R) - 1) < 1e-12 and np.abs(R @ R.T - np.eye(3)).max() < 1e-12
        assert np.abs(quat_to_mat(qexp(v)) - R).max() < 1e-12
        w = rng.normal(size=3)
        assert np.abs(quat_to_mat(qmul(qexp(v), qexp(w))) - R @ exp_so3(w)).max() < 1e-12
        x = rng.normal(size=3)
        # rotation about z by +90deg maps x to y
    Rz = exp_so3([0, 0, math.pi / 2])
    assert np.abs(Rz @ np.array([1.0, 0, 0]) - np.array([0, 1.0, 0])).max() < 1e-15
    assert np.abs(euler_mat([0.3, 0.2, 0.1], "xyz") - exp_so3([0.3, 0, 0]) @ exp_so3([0, 0.2, 0]) @ exp_so3([0, 0, 0.1])).max() < 1e-15
    assert np.abs(euler_mat([0.3, 0.2, 0.1], "XYZ") - exp_so3([0, 0, 0.1]) @ exp_so3([0, 0.2, 0]) @ exp_so3([0.3, 0, 0])).max() < 1e-15
    return True


if __name__ == "__main__":
    print(selftest())
