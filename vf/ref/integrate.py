"""Reference time integrators written from doc/computation/index.rst ("Numerical integration", "Integrators",
"Stateful actuators") with dense numpy linear algebra.  Nothing here calls the engine: the callers feed the engine's
post-forward quantities (dense M, forces, accelerations, activation derivatives) and a derivative callback.

    a  = euler_acc(M, f, D, h)             (M + h D) a = f        D = -d(joint damper force)/dv   (eq_implicit_update,
                                                                   "D only includes derivatives of joint damping")
    a  = implicit_acc(M, f, dfdv, h)       (M - h dfdv) a = f     dfdv = d(smooth force)/dv        (eq_implicit_update)
    Ds = symmetrize(D)                     (D + D')/2             (implicitfast)
    J  = fd_jacobian(fun, v, eps)          centred finite differences, column j = d fun / d v_j
    q+, v+, w_dot_bar, stages = rk4(q, v, w, t, h, deriv, oplus)   classical tableau 0 | 1/2 | 1/2 | 1 ; 1/6 1/3 1/3 1/6
    w+ = next_activation(kind, w, w_dot, h, tau, limited, lo, hi)  integrator / filter / muscle: w + h w_dot;
                                                                   filterexact: w + w_dot tau (1 - exp(-h/tau)); clamp
    q+ = oplus(tree)(q, v, h)              manifold position update (exp map for ball / free quaternions)
"""
import math

import numpy as np

from . import rbd


def euler_acc(M, f, D, h):
    return np.linalg.solve(M + h * D, f)


def implicit_acc(M, f, dfdv, h):
    return np.linalg.solve(M - h * dfdv, f)


def symmetrize(D):
    return 0.5 * (D + D.T)


def fd_jacobian(fun, v, eps):
    """centred finite differences of fun: R^n -> R^m (or a tuple of such vectors) with per-coordinate step eps"""
    v = np.asarray(v, dtype=float)
    n = len(v)
    cols = None
    for j in range(n):
        vp, vm = v.copy(), v.copy()
        vp[j] += eps
        vm[j] -= eps
        step = vp[j] - vm[j]              # the step actually representable
        fp, fm = fun(vp), fun(vm)
        if not isinstance(fp, tuple):
            fp, fm = (fp,), (fm,)
        if cols is None:
            cols = [np.zeros((len(x), n)) for x in fp]
        for k in range(len(fp)):
            cols[k][:, j] = (np.asarray(fp[k]) - np.asarray(fm[k])) / step
    if cols is None:
        return None
    return cols[0] if len(cols) == 1 else tuple(cols)


def make_oplus(tree):
    """q (+) h v on the joint manifold, from the independent kinematic model (vf/ref/rbd.py)"""
    return lambda q, v, h: tree.integrate_pos(q, v, h)


# classical fourth-order Runge-Kutta tableau (Kutta 1901)
RK4_C = (0.0, 0.5, 0.5, 1.0)
RK4_A = ((), (0.5,), (0.0, 0.5), (0.0, 0.0, 1.0))
RK4_B = (1.0 / 6.0, 1.0 / 3.0, 1.0 / 3.0, 1.0 / 6.0)


def rk4(q, v, w, t, h, deriv, oplus, first=None):
    """One RK4 step of  d/dt (q, v, w) = (v, a(q,v,w,t), w_dot(q,v,w,t))  with q on a manifold.
    deriv(q, v, w, t) -> (a, w_dot); `first` optionally supplies deriv at the initial point.
    Stage states are X_i = X_0 (+) h * sum_j A_ij K_j where K_j = (v_j, a_j, w_dot_j).
    Returns (q_new, v_new, w_dot_bar, stages): the activation is advanced by the caller (it may be clamped or
    integrated in closed form) with the B-weighted derivative w_dot_bar."""
    q, v, w = np.asarray(q, float), np.asarray(v, float), np.asarray(w, float)
    K = []
    stages = []
    for i in range(4):
        if i == 0:
            qi, vi, wi = q, v, w
            a, wd = first if first is not None else deriv(q, v, w, t)
        else:
            dq = sum(RK4_A[i][j] * K[j][0] for j in range(i))
            dv = sum(RK4_A[i][j] * K[j][1] for j in range(i))
            dw = sum(RK4_A[i][j] * K[j][2] for j in range(i))
            qi, vi, wi = oplus(q, dq, h), v + h * dv, w + h * dw
            a, wd = deriv(qi, vi, wi, t + RK4_C[i] * h)
        K.append((np.array(vi, float), np.array(a, float), np.array(wd, float)))
        stages.append((qi, vi, wi))
    dq = sum(RK4_B[j] * K[j][0] for j in range(4))
    dv = sum(RK4_B[j] * K[j][1] for j in range(4))
    dw = sum(RK4_B[j] * K[j][2] for j in range(4))
    return oplus(q, dq, h), v + h * dv, dw, stages


def next_activation(kind, w, w_dot, h, tau=None, limited=False, lo=0.0, hi=0.0, minval=1e-15):
    """documented activation update for one scalar state.  kind: 'integrator' | 'filter' | 'muscle' | 'user' (Euler) or
    'filterexact' (closed form, time constant tau)"""
    if kind == "filterexact":
        tau = max(minval, tau)
        out = w + w_dot * tau * (1.0 - math.exp(-h / tau))
    else:
        out = w + h * w_dot
    if limited:
        out = min(max(out, lo), hi)
    return out


# ---- self test ----------------------------------------------------------------------------------------------------
def self_test():
    out = {}
    rng = np.random.default_rng(0)
    # (1) RK4 on a harmonic oscillator: global error order ~4
    errs = []
    for h in (0.1, 0.05, 0.025):
        q, v = np.array([1.0]), np.array([0.0])
        n = int(round(1.0 / h))
        for k in range(n):
            q, v, _, _ = rk4(q, v, np.zeros(0), k * h, h, lambda q, v, w, t: (-4.0 * q, np.zeros(0)), lambda q, dq, h: q + h * dq)
        errs.append(abs(q[0] - math.cos(2.0)))
    out["rk4_order"] = math.log2(errs[0] / errs[1])
    assert 3.7 < out["rk4_order"] < 4.5 and 3.7 < math.log2(errs[1] / errs[2]) < 4.5, errs
    # (2) implicit-in-velocity update of a linearly damped mass equals the backward-Euler closed form
    m_, b, h, v0, f0 = 2.0, 3.0, 0.01, 1.5, 0.7
    a = implicit_acc(np.array([[m_]]), np.array([f0 - b * v0]), np.array([[-b]]), h)[0]
    v1 = v0 + h * a
    out["implicit_backward_euler"] = abs(v1 - (m_ * v0 + h * f0) / (m_ + h * b))
    a2 = euler_acc(np.array([[m_]]), np.array([f0 - b * v0]), np.array([[b]]), h)[0]
    assert out["implicit_backward_euler"] < 1e-14 and abs(a - a2) < 1e-14
    # (3) filterexact closed form is the exact solution of w' = (u - w)/tau with constant u
    w0, u, tau, h = 0.2, 0.9, 0.05, 0.03
    w1 = next_activation("filterexact", w0, (u - w0) / tau, h, tau)
    out["filterexact"] = abs(w1 - (u + (w0 - u) * math.exp(-h / tau)))
    assert out["filterexact"] < 1e-15
    assert next_activation("integrator", 0.9, 10.0, 0.1, limited=True, lo=-1, hi=1) == 1.0
    # (4) FD Jacobian of a quadratic map is exact up to rounding
    A = rng.normal(size=(3, 3))
    J = fd_jacobian(lambda x: A @ x + np.array([x[0] * x[1], 0, x[2] ** 2]), np.array([0.3, -0.2, 0.5]), 1e-5)
    Jx = A + np.array([[-0.2, 0.3, 0], [0, 0, 0], [0, 0, 1.0]])
    out["fd_quadratic"] = np.abs(J - Jx).max()
    assert out["fd_quadratic"] < 1e-9
    # (5) manifold update: constant body-frame angular velocity integrates to the rotation exp(h [w]) exactly
    T, _ = rbd._demo_tree()
    q = T.qpos0.copy()
    v = np.zeros(T.nv)
    v[3:6] = [0.3, -0.4, 1.2]
    q1 = T.integrate_pos(q, v, 0.5)
    R = rbd.q2mat(q1[3:7])
    W = rbd.skew(v[3:6] * 0.5)
    th = np.linalg.norm(v[3:6] * 0.5)
    Rx = np.eye(3) + math.sin(th) / th * W + (1 - math.cos(th)) / th ** 2 * W @ W
    out["expmap"] = np.abs(R - rbd.q2mat(q[3:7]) @ Rx).max()
    assert out["expmap"] < 1e-14
    return out


if __name__ == "__main__":
    print(self_test())
