"""Documented geom-pair selection rules (doc computation/index.rst, "Collision detection / Selection"), evaluated by brute
force over ALL geom pairs - no spatial pruning of any kind.

A pair of geoms is a *candidate* for the detailed (narrow-phase) check iff

  explicit <pair>:  always (filters 3 and 4 are bypassed, excludes act on body pairs of the body mechanism only); uses the
                    pair's own margin / gap;
  otherwise (body-pair mechanism), all of:
    3a. the geoms belong to different weld groups (bodies without joints between them are one body; mocap bodies and their
        dof-less descendants form their own group, distinct from the world's);
    3b. not both weld groups dof-less ("geom pairs where neither body can move ... are skipped");
    3c. the weld groups are not parent and child, unless the parent is the world group, unless mjDSBL_FILTERPARENT;
    --  the (body, body) pair is not listed in an <exclude>;
    4.  (contype1 & conaffinity2) || (contype2 & conaffinity1);
  and in both cases
    1.  a collision function exists for the type pair (caller supplies the predicate);
    --  contacts are not disabled (mjDSBL_CONTACT, mjDSBL_CONSTRAINT).

Detection distance of a candidate = margin + gap, margins and gaps of the two geoms summed (doc "margin and gap"), or the
pair's; with contact override enabled the margin is o_margin ("The related gap parameter does not have a global
override").  Filter 2 (bounding-sphere / plane-sphere test with the contact margin) needs the geom poses and is applied by
the caller (vf/props/c14.py sphere_slack) before the detailed check; it is not outcome-neutral because the box-box collider
reports corner proximity generously.
"""
import numpy as np


def weld_groups(body_parentid, body_dofnum, body_mocapid):
    n = len(body_parentid)
    w = np.zeros(n, dtype=np.int64)
    for b in range(1, n):
        w[b] = b if (body_dofnum[b] > 0 or body_mocapid[b] >= 0) else w[body_parentid[b]]
    return w


def candidates(A):
    """A: dict with geom_bodyid, geom_type, geom_contype, geom_conaffinity, geom_margin, geom_gap, body_parentid, body_dofnum,
    body_mocapid, pairs=[(g1, g2, margin, gap)], excludes=set of (b1, b2) with b1 < b2, has_func(t1, t2), contact_disabled,
    filterparent_disabled, override (None or o_margin).
    Returns dict {(ga, gb) with ga < gb: (ipair or -1, margin, gap, why)} of candidate pairs and a function reason(ga, gb)
    naming the rule that rejects a non-candidate."""
    gb = np.asarray(A["geom_bodyid"])
    ng = len(gb)
    out = {}
    if A["contact_disabled"] or ng < 2:
        return out, (lambda a, b: "contacts-disabled")
    weld = weld_groups(A["body_parentid"], A["body_dofnum"], A["body_mocapid"])
    wdof = np.asarray(A["body_dofnum"])[weld]              # a weld group's dofs are those of its root body
    wpar = weld[np.asarray(A["body_parentid"])[weld]]      # weld group of the parent of the group's root
    gw = weld[gb]
    ct, ca = np.asarray(A["geom_contype"]), np.asarray(A["geom_conaffinity"])
    typ = np.asarray(A["geom_type"])
    override = A.get("override")
    explicit = {}
    for k, (g1, g2, mg, gp) in enumerate(A["pairs"]):
        key = (min(g1, g2), max(g1, g2))
        if key not in explicit:
            explicit[key] = k
    for key, k in explicit.items():
        g1, g2, mg, gp = A["pairs"][k]
        if A["has_func"](int(typ[g1]), int(typ[g2])):
            out[key] = (k, float(override if override is not None else mg), float(gp), "explicit")
    i, j = np.triu_indices(ng, 1)
    ok = gw[i] != gw[j]
    ok &= ~((wdof[gw[i]] == 0) & (wdof[gw[j]] == 0))
    if not A["filterparent_disabled"]:
        pc = ((wpar[gw[i]] == gw[j]) | (wpar[gw[j]] == gw[i])) & (gw[i] != 0) & (gw[j] != 0)
        ok &= ~pc
    ok &= ((ct[i] & ca[j]) != 0) | ((ct[j] & ca[i]) != 0)
    ex = A["excludes"]
    mgn, gap = np.asarray(A["geom_margin"]), np.asarray(A["geom_gap"])
    for a, b in zip(i[ok].tolist(), j[ok].tolist()):
        if (a, b) in explicit:
            continue
        b1, b2 = int(gb[a]), int(gb[b])
        if ex and (min(b1, b2), max(b1, b2)) in ex:
            continue
        if not A["has_func"](int(typ[a]), int(typ[b])):
            continue
        out[(a, b)] = (-1, float(override if override is not None else mgn[a] + mgn[b]), float(gap[a] + gap[b]), "body")

    def reason(a, b):
        a, b = min(a, b), max(a, b)
        if (a, b) in out:
            return "candidate"
        if not A["has_func"](int(typ[a]), int(typ[b])):
            return "no-collision-function-for-type-pair"
        if gw[a] == gw[b]:
            return "same-body-or-welded"
        if wdof[gw[a]] == 0 and wdof[gw[b]] == 0:
            return "neither-body-can-move"
        if not A["filterparent_disabled"] and gw[a] != 0 and gw[b] != 0 and (wpar[gw[a]] == gw[b] or wpar[gw[b]] == gw[a]):
            return "parent-child"
        if (min(int(gb[a]), int(gb[b])), max(int(gb[a]), int(gb[b]))) in ex:
            return "excluded-body-pair"
        if not ((ct[a] & ca[b]) or (ct[b] & ca[a])):
            return "contype-conaffinity-incompatible"
        return "unknown"
    return out, reason


def rule_stats(A):
    """how many of the ng(ng-1)/2 geom pairs each documented rule removes (first applicable rule, in the order of the text)"""
    gb = np.asarray(A["geom_bodyid"])
    ng = len(gb)
    if ng < 2:
        return {}
    weld = weld_groups(A["body_parentid"], A["body_dofnum"], A["body_mocapid"])
    wdof = np.asarray(A["body_dofnum"])[weld]
    wpar = weld[np.asarray(A["body_parentid"])[weld]]
    gw = weld[gb]
    ct, ca = np.asarray(A["geom_contype"]), np.asarray(A["geom_conaffinity"])
    i, j = np.triu_indices(ng, 1)
    same = gw[i] == gw[j]
    static = ~same & (wdof[gw[i]] == 0) & (wdof[gw[j]] == 0)
    pc = ~same & ~static & ((wpar[gw[i]] == gw[j]) | (wpar[gw[j]] == gw[i])) & (gw[i] != 0) & (gw[j] != 0)
    world_child = ~same & ~static & ((wpar[gw[i]] == gw[j]) | (wpar[gw[j]] == gw[i])) & ((gw[i] == 0) | (gw[j] == 0))
    bits = ~same & ~static & ~(pc & (not A["filterparent_disabled"])) & ~(((ct[i] & ca[j]) != 0) | ((ct[j] & ca[i]) != 0))
    return {"pairs_all": int(len(i)), "pairs_same_or_welded_body": int(same.sum()), "pairs_neither_body_can_move": int(static.sum()),
            "pairs_parent_child": int(pc.sum()), "pairs_child_of_world_group(exception)": int(world_child.sum()),
            "pairs_bitmask_incompatible": int(bits.sum())}


def self_test():
    # world(0) - A(1, hinge) - B(2, hinge) - C(3, welded to B); D(4) mocap; E(5) free
    A = dict(geom_bodyid=[0, 1, 2, 3, 4, 5, 5], geom_type=[2] * 7, geom_contype=[1, 1, 1, 1, 1, 2, 1], geom_conaffinity=[1, 1, 1, 1, 1, 4, 1],
             geom_margin=[0.0] * 7, geom_gap=[0.0] * 7, body_parentid=[0, 0, 1, 2, 0, 0], body_dofnum=[0, 1, 1, 0, 0, 6], body_mocapid=[-1, -1, -1, -1, 0, -1],
             pairs=[(2, 3, 0.1, 0.0)], excludes={(1, 5)}, has_func=lambda a, b: True, contact_disabled=False, filterparent_disabled=False, override=None)
    c, why = candidates(A)
    want = {(0, 1), (0, 2), (0, 3), (0, 6), (1, 4), (2, 4), (3, 4), (2, 6), (3, 6), (4, 6), (2, 3)}
    # (0,4) world-mocap: neither can move; (1,2),(1,3): parent-child (C welded to B); (2,3) same weld body but explicit; (1,5),(1,6) excluded;
    # geom 5 has bits that match nobody
    assert set(c) == want, (sorted(set(c) ^ want))
    assert c[(2, 3)][0] == 0 and c[(2, 3)][1] == 0.1
    assert why(0, 4) == "neither-body-can-move" and why(1, 2) == "parent-child" and why(1, 6) == "excluded-body-pair" and why(5, 6) == "same-body-or-welded"
    A["filterparent_disabled"] = True
    c2, _ = candidates(A)
    assert set(c2) == want | {(1, 2), (1, 3)}
    return {"pairs": len(c), "pairs_filterparent_disabled": len(c2)}


if __name__ == "__main__":
    print(self_test())
