"""Reference constraint-island computation (independent of engine_island.c).

Documentation basis (doc/computation/index.rst "Constraint islands", doc/programming/simulation.rst):
an island is a maximal set of kinematic trees connected through shared constraint rows; trees without
any constraint row are in no island; island ids ascend with the smallest tree of each island.
"""
import numpy as np


class DSU:
    """Plain union-find over 0..n-1 (no ranks, no tricks)."""

    def __init__(self, n):
        self.p = list(range(n))

    def find(self, a):
        while self.p[a] != a:
            self.p[a] = self.p[self.p[a]]
            a = self.p[a]
        return a

    def union(self, a, b):
        ra, rb = self.find(a), self.find(b)
        if ra != rb:
            self.p[max(ra, rb)] = min(ra, rb)


def dense_J(d, m, L):
    """(nefc, nv) dense Jacobian whatever the storage format; also returns the structural incidence mask."""
    nefc, nv = d.s("nefc"), m.n("nv")
    if nefc == 0:
        return np.zeros((0, nv)), np.zeros((0, nv), dtype=bool)
    if L.call("mj_isSparse", m):
        J = np.zeros((nefc, nv))
        S = np.zeros((nefc, nv), dtype=bool)
        nnz, adr = d.arena("efc_J_rownnz")[:nefc], d.arena("efc_J_rowadr")[:nefc]
        col, val = d.arena("efc_J_colind").ravel(), d.arena("efc_J").ravel()
        for r in range(nefc):
            c = col[adr[r]:adr[r] + nnz[r]]
            J[r, c] = val[adr[r]:adr[r] + nnz[r]]
            S[r, c] = True
        return J, S
    J = d.arena("efc_J").ravel()[:nefc * nv].reshape(nefc, nv).copy()
    return J, J != 0


def row_trees(J, dof_treeid):
    """list (per row) of sorted tree ids having a non-zero in that row."""
    out = []
    for r in range(J.shape[0]):
        out.append(np.unique(dof_treeid[np.flatnonzero(J[r])]))
    return out


def components(ntree, groups):
    """groups: iterable of tree-id collections that are each mutually coupled (a singleton activates its tree).

    Returns tree_island (ntree,) with -1 for trees in no group, ids ascending with the smallest member tree."""
    dsu = DSU(ntree)
    active = np.zeros(ntree, dtype=bool)
    for g in groups:
        g = [int(x) for x in g]
        for t in g:
            active[t] = True
        for a, b in zip(g[:-1], g[1:]):
            dsu.union(a, b)
    isl = -np.ones(ntree, dtype=np.int64)
    ids = {}
    for t in range(ntree):          # ascending: first time a root is seen its smallest tree is t
        if active[t]:
            r = dsu.find(t)
            if r not in ids:
                ids[r] = len(ids)
            isl[t] = ids[r]
    return isl


def same_partition(a, b):
    """True if two labelings (with -1 = none) induce the same partition and the same unlabeled set."""
    a, b = np.asarray(a), np.asarray(b)
    if ((a < 0) != (b < 0)).any():
        return False
    fwd, bwd = {}, {}
    for x, y in zip(a, b):
        if x < 0:
            continue
        if fwd.setdefault(int(x), int(y)) != y or bwd.setdefault(int(y), int(x)) != x:
            return False
    return True


def refines(fine, coarse):
    """every class of `fine` lies inside one class of `coarse` (labels -1 = unlabeled, ignored in fine)."""
    m = {}
    for x, y in zip(fine, coarse):
        if x < 0:
            continue
        if y < 0 or m.setdefault(int(x), int(y)) != y:
            return False
    return True


def selftest():
    isl = components(6, [[4, 2], [5], [2, 3], [0]])
    assert isl.tolist() == [0, -1, 1, 1, 1, 2], isl
    assert same_partition([0, 0, 1, -1], [3, 3, 2, -1]) and not same_partition([0, 0, 1], [0, 1, 1])
    assert refines([0, 1, 2, -1], [0, 0, 1, -1]) and not refines([0, 0], [0, 1])
    rng = np.random.default_rng(0)
    for _ in range(200):   # against brute-force transitive closure
        n = int(rng.integers(1, 8))
        groups = [rng.choice(n, size=int(rng.integers(1, min(n, 3) + 1)), replace=False) for _ in range(int(rng.integers(0, 6)))]
        A = np.eye(n, dtype=bool)
        act = np.zeros(n, dtype=bool)
        for g in groups:
            act[g] = True
            for a in g:
                for b in g:
                    A[a, b] = True
        for _k in range(n):
            A = (A.astype(int) @ A.astype(int)) > 0
        isl = components(n, groups)
        for a in range(n):
            assert (isl[a] >= 0) == act[a]
            for b in range(n):
                if act[a] and act[b]:
                    assert (isl[a] == isl[b]) == A[a, b]
    return True


if __name__ == "__main__":
    print(selftest())
