"""Reference constraint-island computation (independent of engine_island.c).

Documentation basis (doc/computation/index.rst "Constraint islands", doc/programming/simulation.rst):
an island is a maximal set of kinematic trees connected through shared constraint rows; trees without
any constraint row are in no island; island ids ascend with the smallest tree of each island.
"""
import numpy as np


class DSU:
    """Plain union-find over 0..n-1 (no ranks, no tricks)."""

    def __init__(self, n):
        self.p = list(range(n))

    def find(self, a):
        while self.p[a] != a:
            self.p[a] = self.p[self.p[a]]
            a = self.p[a]
        return a

    def union(self, a, b):
        ra, rb = self.find(a), self.find(b)
        if ra != rb:
            self.p[max(ra, rb)] = min(ra, rb)


def dense_J(d, m, L):
    """(nefc, nv) dense Jacobian whatever the storage format; also returns the structural incidence mask."""
    nefc, nv = d.s("nefc"), m.n("nv")
    if nefc == 0:
        return np.zeros((0, nv)), np.zeros((0, nv), dtype=bool)
    if L.call("mj_isSparse", m):
        J = np.zeros((nefc, nv))
        S = np.zeros((nefc, nv), dtype=bool)
        nnz, adr = d.arena("efc_J_rownnz")[:nefc], d.arena("efc_J_rowadr")[:nefc]
        col, val = d.arena("efc_J_colind").ravel(), d.arena("efc_J").ravel()
        for r in range(nefc):
            c = col[adr[r]:adr[r] + nnz[r]]
            J[r, c] = val[adr[r]:adr[r] + nnz[r]]
            S[r, c] = True
        return J, S
    J = d.arena("efc_J").ravel()[:nefc * nv].reshape(nefc, nv).copy()
    return J, J != 0


def row_trees(J, dof_treeid):
    """list (per row) of sorted tree ids having a non-zero in that row."""
    out = []
    for r in range(J.shape[0]):
        out.append(np.unique(dof_treeid[np.flatnonzero(J[r])]))
    return out


def may_groups(m, d, S, E):
    """Structural incidence per constraint row (upper bound of the coupling): trees with a structurally present
    Jacobian entry plus, for geom-geom contacts and connect/weld equalities, the trees of the two bodies, and for
    dof friction / joint limits the tree of the dof (documentation: "an edge is a constraint ... between two bodies
    belonging to different trees"). Entries may be numerically zero in degenerate configurations."""
    nefc = d.s("nefc")
    dof_tree = m["dof_treeid"].astype(np.int64)
    body_tree = m["body_treeid"].astype(np.int64)
    rt_str = row_trees(S, dof_tree)
    if nefc == 0:
        return []
    efc_type = d.arena("efc_type")[:nefc].astype(np.int64)
    efc_id = d.arena("efc_id")[:nefc].astype(np.int64)
    con = d.contacts()
    contact_types = (E.mjCNSTR_CONTACT_FRICTIONLESS, E.mjCNSTR_CONTACT_PYRAMIDAL, E.mjCNSTR_CONTACT_ELLIPTIC)
    out = []
    for r in range(nefc):
        s = set(int(x) for x in rt_str[r])
        t, i = efc_type[r], efc_id[r]
        if t in contact_types:
            g = con["geom"][i]
            if g[0] >= 0 and g[1] >= 0:
                for gg in g:
                    tb = body_tree[m["geom_bodyid"][gg]]
                    if tb >= 0:
                        s.add(int(tb))
        elif t == E.mjCNSTR_EQUALITY and m["eq_type"][i] in (E.mjEQ_CONNECT, E.mjEQ_WELD):
            b1, b2 = int(m["eq_obj1id"][i]), int(m["eq_obj2id"][i])
            if m["eq_objtype"][i] == E.mjOBJ_SITE:
                b1, b2 = int(m["site_bodyid"][b1]), int(m["site_bodyid"][b2])
            for b in (b1, b2):
                if body_tree[b] >= 0:
                    s.add(int(body_tree[b]))
        elif t == E.mjCNSTR_FRICTION_DOF:
            s.add(int(dof_tree[i]))
        elif t == E.mjCNSTR_LIMIT_JOINT:
            s.add(int(dof_tree[m["jnt_dofadr"][i]]))
        out.append(sorted(s))
    return out


def components(ntree, groups):
    """groups: iterable of tree-id collections that are each mutually coupled (a singleton activates its tree).

    Returns tree_island (ntree,) with -1 for trees in no group, ids ascending with the smallest member tree."""
    dsu = DSU(ntree)
    active = np.zeros(ntree, dtype=bool)
    for g in groups:
        g = [int(x) for x in g]
        for t in g:
            active[t] = True
        for a, b in zip(g[:-1], g[1:]):
            dsu.union(a, b)
    isl = -np.ones(ntree, dtype=np.int64)
    ids = {}
    for t in range(ntree):          # ascending: first time a root is seen its smallest tree is t
        if active[t]:
            r = dsu.find(t)
            if r not in ids:
                ids[r] = len(ids)
            isl[t] = ids[r]
    return isl


def same_partition(a, b):
    """True if two labelings (with -1 = none) induce the same partition and the same unlabeled set."""
    a, b = np.asarray(a), np.asarray(b)
    if ((a < 0) != (b < 0)).any():
        return False
    fwd, bwd = {}, {}
    for x, y in zip(a, b):
        if x < 0:
            continue
        if fwd.setdefault(int(x), int(y)) != y or bwd.setdefault(int(y), int(x)) != x:
            return False
    return True


def refines(fine, coarse):
    """every class of `fine` lies inside one class of `coarse` (labels -1 = unlabeled, ignored in fine)."""
    m = {}
    for x, y in zip(fine, coarse):
        if x < 0:
            continue
        if y < 0 or m.setdefault(int(x), int(y)) != y:
            return False
    return True


def selftest():
    isl = components(6, [[4, 2], [5], [2, 3], [0]])
    assert isl.tolist() == [0, -1, 1, 1, 1, 2], isl
    assert same_partition([0, 0, 1, -1], [3, 3, 2, -1]) and not same_partition([0, 0, 1], [0, 1, 1])
    assert refines([0, 1, 2, -1], [0, 0, 1, -1]) and not refines([0, 0], [0, 1])
    rng = np.random.default_rng(0)
    for _ in range(200):   # against brute-force transitive closure
        n = int(rng.integers(1, 8))
        groups = [rng.choice(n, size=int(rng.integers(1, min(n, 3) + 1)), replace=False) for _ in range(int(rng.integers(0, 6)))]
        A = np.eye(n, dtype=bool)
        act = np.zeros(n, dtype=bool)
        for g in groups:
            act[g] = True
            for a in g:
                for b in g:
                    A[a, b] = True
        for _k in range(n):
            A = (A.astype(int) @ A.astype(int)) > 0
        isl = components(n, groups)
        for a in range(n):
            assert (isl[a] >= 0) == act[a]
            for b in range(n):
                if act[a] and act[b]:
                    assert (isl[a] == isl[b]) == A[a, b]
    return True


if __name__ == "__main__":
    print(selftest())
