"""Per-property registration data used by tools/gen_manifest.py.

READY lists the properties whose check has been validated on the unchanged tree (several seeds, both tiers)
and against deliberate mutants; only those are claimed in MANIFEST.json, the rest are listed under
not_applicable with the reason they are not claimed yet.
"""

READY = {}
HOOK_COMMITS = ["b167d7763"]


def reg(pid, level, text, note, technique, design_ref=None):
    READY[pid] = dict(level=level, text=text, note=note, technique=technique, design_ref=design_ref or ("DESIGN.md §3 " + pid))


reg("C01", "exploration",
    "Runtime twin-data history checker over the real engine: thousands of (model, option vector, twin construction, call) "
    "cases on shipped and generated models; every deterministic output of mjData is compared bit for bit between a source "
    "and a twin made by mj_copyData / mj_setState / mj_copyState into fresh, reset and dirty data, or by replaying the call "
    "history. Exploration is the right level: the property quantifies over all models, states and histories, and only "
    "executions of the real code can expose stale-memory reads; evidence counts the distinct cases observed.",
    "Trusts: the X-macro field tables of the tree; the canonicalisation of engine-undefined memory (documented in vf/common.py); "
    "with sleeping enabled only copyData/replay twins are compared (documented latent state).",
    "runtime monitoring: twin-execution bitwise differential oracle over recorded call histories")

reg("C22", "exploration",
    "Native harness instantiating the tree's own sort macros under ASan+UBSan with exact-size heap buffers, checked against a "
    "trivial stable reference: exhaustive over all arrays on 3 keys up to length 8 (10 thorough) for every k, with the macro "
    "bodies also expanded at run sizes 2 and 3 so that the enumerated arrays reach the merge/ping-pong logic, plus seeded "
    "random/structured arrays at every run/merge boundary up to 2^14+1.",
    "Trusts the 10-line reference insertion sort and ASan red zones for overrun detection; comparison callbacks are strict weak orders.",
    "sanitizer-hosted native harness with reference-model oracle (exhaustive small space + seeded random)")

reg("C03", "exploration",
    "The unmodified engine_thread.cc is executed under a controlled scheduler (instrumented std::atomic/std::thread "
    "stand-ins, token passing, every atomic op / thread start / join a scheduling point): depth-first enumeration with a "
    "preemption bound (exhaustive under the bound on the listed tiny create/resize/dispatch/destroy histories), PCT and "
    "random walks on longer histories, plus real OS threads under rel and TSan with the repo's task hook logging every "
    "invocation and injecting delays. The oracle is the sequential specification: executed ids == {0..n-1} exactly once, "
    "all ends before Dispatch returns, thread ids within the pool, stack pointer restored, no live worker after destroy; "
    "a state with every thread blocked is a deadlock. Evidence counts distinct schedules and scheduling points.",
    "Trusts the scheduler shim (sequentially consistent interleavings only; busy-wait parking is sound only for loops that "
    "wait for a write) and TSan's happens-before model on x86-64. Not a proof over all schedules.",
    "controlled-scheduler execution of real code (DFS with preemption bound, PCT, random) + TSan on real threads, sequential-spec oracle")

reg("C40", "exploration",
    "One registration/lookup history per fresh process against the real process-global tables: sequential histories are "
    "checked against a reference map (dense stable slots, case-insensitive keys, identical vs conflicting "
    "re-registration, by-name/by-slot agreement, negative lookups) for plugins, resource providers, decoders and encoders; "
    "concurrent histories (1-4 writers registering self-verifying objects in different orders, 1-4 readers doing by-slot "
    "scans, by-name lookups and unknown-key scans across the 15/16 block boundary) run under ThreadSanitizer at -O1 and -O0 "
    "and under ASan, and every object a reader obtains is verified field by field against the deterministic function of its key.",
    "Trusts TSan's interception of std::mutex/std::atomic; explores only the interleavings the OS produced (counted); "
    "x86-64 hides weak-memory reorderings.",
    "TSan/ASan-hosted concurrent histories with self-verifying objects + sequential reference-model oracle")

reg("C49", "other",
    "Every struct, field, enum, enumerator, function and parameter in python/mujoco/introspect is compared with what clang "
    "reports for include/mujoco/mujoco.h by generating C11 probe programs from the metadata (offsetof, sizeof, _Alignof, "
    "__builtin_types_compatible_p, twin structs, enumerator values, function-pointer prototypes, declared parameter texts), "
    "compiling them against the real headers and running them; conversely every record/enum/function in clang's JSON AST "
    "that the generator's documented rules export must appear in the metadata with the same member list, order and extents; "
    "parse_type/decl() are round-tripped on all metadata and header type strings plus hypothesis-generated declarators with "
    "the compiler deciding equivalence. The API surface is finite and enumerated completely (exhaustive: true).",
    "Trusts clang 14 (plus gcc in thorough) on x86-64 as the definition of 'as the C compiler sees it', clang's JSON AST dump, "
    "the harness's own typedef-chain emitter, and the documented exclusion list of codegen/ (variadic ellipsis not representable).",
    "executed compiler probes generated from the metadata, exhaustive over the finite API, plus property-based declarator round trip")

reg("C02", "exploration",
    "For each scene and option vector one mjData per engine thread-pool size (0 and a random subset of 1,2,3,5,8) is put in the "
    "same state and driven through the same forward/inverse/step sequence; every deterministic output (contacts, efc arrays, "
    "islands, sensordata, accelerations, next state, solver statistics) is compared bit for bit with the pool-0 run while the "
    "repo's task hook injects seeded yields, spins and sleeps before each task. The same scenes run in a native harness under "
    "ThreadSanitizer and ASan with pools of 1-8 workers (any report is a violation) and state digests are compared across pool "
    "sizes. Scenes are built to reach the parallel sites: heaps in 6-16 separate clusters (many islands) and dense clouds "
    "(hundreds of narrow-phase pairs, several collision chunks), plus multi-island corpus models.",
    "Evidence counts the tasks that actually ran on worker threads; a run in which none did is inconclusive. The tactile-sensor "
    "parallel site is not reached in this build (needs mesh/SDF assets). TSan sees only the interleavings that occurred.",
    "twin execution across pool sizes with hook-injected schedule noise (bitwise oracle) + TSan/ASan-hosted native runs")

reg("C04", "exploration",
    "Split and skipped pipeline calls are compared bit for bit with the monolithic calls on mj_copyData twins under random option "
    "vectors: step1+[set ctrl/qfrc_applied/xfrc_applied]+step2 vs the same inputs before mj_step (Euler, implicit, implicitfast); "
    "mj_forwardSkip/mj_inverseSkip(POS|VEL, skipsensor) after a full call, with the inputs the skipped stage must not read "
    "perturbed in both twins, vs the same function at mjSTAGE_NONE; mjSTATE_INTEGRATION before/after mj_forward; idempotence of "
    "mj_forward with warm-starting disabled. Half of the generated models carry sensors that force the lazily evaluated quantities.",
    "Trusts mj_copyData and the output canonicalisation of vf/common.py. RK4 excluded from the split-step clause and sleeping "
    "disabled (both documented); callbacks unset.",
    "twin-execution metamorphic oracle (bitwise) over generated and shipped models")

reg("C06", "exploration",
    "The engine's sparse joint-space inertia, its L'DL factorisation and solves, the bias force and mj_rne are compared against an "
    "independent dense numpy rigid-body model (own forward kinematics, sum of J'IJ plus joint/actuator/tendon armature, world-frame "
    "Newton-Euler) over generated trees (all joint types, branching, nv up to 76) and the loadable corpus (nv up to 340), on the "
    "rel flavour and a scalar subsample: symmetry, positive definiteness, M == reference, L'DL == M, mulM/solveM/solveM2/mulM2 "
    "against dense algebra, qfrc_bias == RNE(0) + tendon bias, RNE(a) == M a - armature a + bias.",
    "Trusts vf/ref/rbd.py (self-tested), numpy eigvalsh/solve, the engine's ten_J. One open known finding (tendon armature "
    "coupling dofs of different branches is dropped from M) is reported as KNOWN-FINDING.",
    "reference-model differential oracle on executions of the real engine")

reg("C07", "exploration",
    "Frames, all Jacobian variants (mj_jac at random points, jacBody/BodyCom/Geom/Site/SubtreeCom/PointAxis, sparse variants, "
    "jacDifPair), spatial velocities, mj_jacDot, integratePos/differentiatePos and tendon/constraint rows (ten_J, efc_J for "
    "connect/weld/joint/tendon equalities, limits and contact normals) are checked against centred finite differences of the "
    "engine's own positions along mj_integratePos (two step sizes, kink and discontinuity guards) and against the same "
    "independent numpy reference as C06.",
    "Trusts vf/ref/rbd.py and the finite-difference guards; compiler 'sameframe' shortcuts are compared at the compiler's own "
    "1e-6 frame tolerance.",
    "finite-difference derivative oracle + reference-model differential oracle")

reg("C19", "exploration",
    "A shadow allocator fed by the repo's allocator hook observes every stack/arena allocation, mark and free of an mjData and "
    "checks alignment, containment in the stack/arena regions, overlap with live blocks (including blocks reserved concurrently "
    "under the thread lock) and that each free restores the pstack/pbase recorded at its mark. Workloads: a direct native harness "
    "issuing random well-nested mark/alloc/free/arena sequences on arenas of 1K-1M with sizes 0, 1, primes, near and beyond the "
    "remaining space and alignments 1-4096, per-block byte patterns re-verified before death, exhaustion required to be mju_error "
    "(stack) or NULL (arena), concurrent reservations from real mju_dispatch tasks under rel/TSan/ASan; and in situ real "
    "step/forward/inverse/derivative/ray calls on corpus and generated models with pools of 0 and 4 workers where pstack/pbase "
    "are compared before and after every public call (plus an ASan subsample where the repo's own red zones are active).",
    "Arena blocks above a new block's start are treated as released in situ, because the engine rewinds parena itself; "
    "ASan cannot see overlaps inside the single arena allocation, which is why the shadow allocator exists.",
    "hook-fed shadow-state monitor + pattern-verified direct harness under ASan/TSan")

reg("C23", "exploration",
    "Every exported dense, band and sparse linear-algebra routine, mju_eig3 and the QP helpers are run on seeded random inputs "
    "over sizes 0-70 (every residue mod 8), sparsity patterns and layouts (compressed, uniform-capacity and gapped rows with "
    "poisoned unused slots), conditioning and bounds, on the AVX ('rel') and scalar builds in separate processes and on ASan with "
    "exact-size operands; results are compared with dense numpy/LAPACK definitions (KKT conditions for boxQP/QCQP) and with each other.",
    "Trusts numpy/LAPACK and the CSR reader/generator in vf/ref/sparse.py. One open known finding (mju_sqrMatTDSparse vs its "
    "documented precount) is reported as KNOWN-FINDING.",
    "reference-model differential oracle + cross-build twin execution + sanitizer with poisoned layouts")

reg("C24", "exploration",
    "Every mju_ quaternion / rotation / Euler (all 216 sequence strings) / pose routine and both quaternion Jacobians are executed "
    "on angle grids (0, 1e-12 ... pi +- 1e-8, pi, 2pi) and random inputs, unit / non-unit / near-zero quaternions, and compared in "
    "rotation-matrix space against an expm-based reference (so quaternion sign and the axis ambiguity at pi never matter) and "
    "against centred finite differences of the engine's own mju_subQuat / mju_quatIntegrate.",
    "Trusts scipy expm and the right-perturbation Jacobian convention. One open known finding (mjd_quatIntegrate Dvel is the "
    "derivative w.r.t. scale*vel) is reported as KNOWN-FINDING.",
    "reference-model differential oracle + finite-difference Jacobian oracle")

reg("C26", "exploration",
    "For every model the state API is checked against a field-by-field reference: mj_stateSize and the canary-guarded mj_getState "
    "output vs a Python concatenation of the mjData fields in mjtState bit order for all single bits, pairs, named composites and "
    "random signatures (all 2^14 signatures per model in thorough); mj_setState/mj_copyState into a differently-filled mjData vs "
    "the expected byte image of the whole mjData (selected components restored, everything else untouched); mj_extractState on "
    "sub-signature pairs; invalid signatures must raise without writing; mj_resetData vs a fresh mj_makeData; "
    "mj_resetDataKeyframe vs key_* arrays plus reset defaults. A test plugin with state makes every component non-empty.",
    "Trusts the X-macro field table and ctypes driver; struct padding and arena contents beyond parena are not compared.",
    "exhaustive signature enumeration with byte-image twin and canary/ASan exact buffers")

reg("C34", "exploration",
    "Name/id inversion is checked per object type against a linear scan of the model's own name table on models generated with "
    "adversarial name sets (shared prefixes, case variants, same name across types, constructed mj_hashString bucket and full "
    "collisions that fill probe chains and wrap around) and on the corpus: every id round-trips, out-of-range ids (-1, n, n+1, "
    "INT_MAX, INT_MIN) give NULL, and ~400 negative queries per model (other-type names, prefixes, suffixes, concatenations, "
    "empty and 1 kB strings, colliding non-names) give -1; an ASan subsample covers the probing.",
    "The hash is re-implemented only to FIND colliding names, never as the oracle. Types that must be named in MJCF are not "
    "exercised unnamed.",
    "generator-driven differential oracle with constructed hash collisions")

reg("C41", "exploration",
    "icontract post-conditions are attached from the harness to the repo's parse_string (the returned schema satisfies every "
    "documented rule according to an independent re-validator; no declaration lost or duplicated) and to an attempt wrapper "
    "(outcome is a schema or a SchemaError whose line lies in 1..lines; nothing else escapes). Workload: grammar-derived valid "
    "schemas (must be accepted and equal the source model), one dedicated mutator per documented rule (must be rejected), "
    "token-level mutations, hypothesis token streams and unicode text, deep nesting, the real mjcf.schema and mutations of it, "
    "and the repo's own 57 schema tests run under the contracts. Contract evaluation counts are recorded; zero is inconclusive.",
    "Trusts vf/ref/mjcfschema.py (re-validator and generator). Three open known findings are reported as KNOWN-FINDING.",
    "design-by-contract runtime monitoring + grammar-based and rule-mutation fuzzing")

reg("C42", "exploration",
    "Each of the seven generators is run on the real schema and on validity-preserving perturbations of it (15 kinds; synthetic "
    "schemas for the anchor-light generators) with its paths redirected to scratch files; one independent back-parser per output "
    "format (XSD via etree, C initialiser tokenizer for the tables, mjcf_map.h, read/default tables, dm_control XML, rst) "
    "reconstructs {element -> attribute -> type, arity, default} and {enum -> keyword -> constant} and compares it with the schema; "
    "every output is regenerated in separate processes under different PYTHONHASHSEED values and compared by hash.",
    "'Any valid schema' is explored as the neighbourhood the generators are written for (they hard-code anchors of the real "
    "schema). Trusts the back-parsers and the generators' documented constant tables. One open known finding.",
    "round trip through independent back-parsers + cross-process hash-seed twin runs")

reg("C46", "exploration",
    "A recording proxy around the user's residual checks every column of every call (finite-difference probes included) against "
    "the box; icontract post-conditions on least_squares check x inside the bounds, obj(x) <= obj(clip(x0)), a non-increasing "
    "trace, and for full-rank linear residuals with converged status a gap of at most 1e-8 to scipy lsq_linear (KKT re-checked). "
    "Hypothesis generates dimensions 1-8, linear (incl. rank-deficient), quadratic, Rosenbrock-like and exp-sum residuals, starts "
    "inside/outside/on the bounds, tight and wide boxes, and every x_scale form.",
    "The repo's minimize.py is loaded in place of the wheel's copy; mju_boxQP comes from the installed 3.13.0 wheel (a dependency "
    "of the module, not the code under test). One open known finding (far-start linear problems).",
    "recording proxy at the residual boundary + icontract post-conditions on hypothesis-generated problems")

reg("C47", "exploration",
    "deal post-conditions on pi_from_theta (positive mass, positive-definite pseudo-inertia, triangle inequalities, match with a "
    "cancellation-free closed form), pseudoinertia_from_pi, theta_from_pseudoinertia, the composed round trip, and "
    "apply_body_theta_inertia (the spec must compile and the compiled mass, COM and full inertia tensor must equal the "
    "parameters), driven by hypothesis over boxes of half-width 3 (6 in thorough) plus corners and axes.",
    "Round-trip tolerance scales with cond(J); compilation goes through the installed wheel's MjSpec (a dependency of the module).",
    "deal runtime contracts against a closed-form log-Cholesky reference + compilation through MjSpec")

reg("C48", "exploration",
    "icontract snapshot/ensure monitors on every modifier and on TimeSeries.interpolate/resample: inputs (times, data, mappings, "
    "parameter values) must be bitwise unchanged and the result must be a new object; grouped-delay resampling must equal the "
    "column-by-column result bit for bit; resampling at the original timestamps must return the data; interpolated values must "
    "lie within their neighbouring samples. Hypothesis generates series of 1-200 samples x 1-6 columns with non-uniform times, "
    "signal mappings, delays (0, negative, beyond range), gains and biases.",
    "Memory sharing between output and input is counted, not flagged (the statement forbids modifying the input, not sharing it).",
    "icontract snapshot/ensure purity monitor + bitwise column-wise metamorphic relation")

reg("C27", "exploration",
    "A numpy reference written from the documentation (computation chapter, XML reference, modeling.rst, FLV.m) models every "
    "transmission (joint, jointinparent, tendon, site with/without refsite, slider-crank, body/adhesion), gain/bias/dynamics "
    "family, actearly, the clamp chain (ctrlrange, forcerange, tendon and joint actuator-force ranges) and activation "
    "integration; on generated actuator/transmission lattices it is compared with actuator_length/velocity/moment/force, "
    "qfrc_actuator == moment' force (+ actuator gravcomp), group disabling, and the activations after mj_step (inside actrange, "
    "frozen for disabled groups); moment arms are cross-checked by finite differences of actuator_length along mj_integratePos.",
    "Trusts vf/ref/actuator.py, vf/ref/rbd.py kinematics and the engine's ten_length/ten_J (C07). Families without a formula in "
    "/repo/doc (dcmotor, pid with slewmax, orientation on sites) get the range/moment/group clauses only. Five open known findings.",
    "reference-model oracle over a generated actuator/transmission lattice + finite-difference moment check + one-step activation monitor")

reg("C29", "exploration",
    "qfrc_spring, qfrc_damper, qfrc_gravcomp and qfrc_passive are compared with the documented formulas (polynomial stiffness and "
    "damping on scalar joints and tendons, ball/free springs through the rotation vector from springref, tendon dead-band, "
    "actuator-contributed damping, per-body gravity compensation at the COM with the actuatorgravcomp exclusion, disable flags); "
    "qfrc_spring is also compared with the negative finite-difference gradient of the reported potential energy[0], damping power "
    "must be non-positive, and the passive force at rest at the spring reference must vanish.",
    "Trusts vf/ref/passive.py and rbd.py; fluid forces belong to C25; states within 1e-4 of a dead-band edge are skipped and counted.",
    "reference-model oracle + energy-gradient metamorphic clause + dissipation-sign monitor")

reg("C05", "exploration",
    "After mj_forward, mj_step is executed on a twin mjData and the resulting state is compared with dense numpy reference updates "
    "fed with the engine's own post-forward quantities (mj_fullM, qfrc_smooth, qfrc_constraint, qacc, act_dot): semi-implicit Euler "
    "with (M+hD)^-1 where D comes from finite differences of the damper force, implicit and implicitfast with M - h df/dv from "
    "centred finite differences (implicitfast symmetrised without the RNE term), RK4 from the classical tableau re-implemented from "
    "scratch; exactly checked: time += timestep (bitwise), q+ = q (+) h v+ on the joint manifold, unit quaternions, activations by "
    "the documented rule with actrange clamping.",
    "Trusts numpy linear algebra, the exponential map of vf/ref/rbd.py and the engine's forward outputs (validated by C06/C09). "
    "Two open known findings (implicit derivative ignores ctrl and joint-force clamps).",
    "reference-model oracle with finite-difference derivatives + twin execution")

reg("C08", "exploration",
    "Static clauses: energy[1] against 0.5 v'Mv (dense M) and an independent kinetic energy, finite-difference gradient of energy[0] "
    "against -qfrc_spring. Dynamic clauses: an RK4 refinement study at h, h/2, h/4 (h chosen from the local frequency) in which the "
    "drift of total energy, and of total linear/angular momentum for gravity-free floating trees (independent reference), must be at "
    "round-off or shrink by at least 11x per halving; subtree_linvel/angmom of tree roots are compared with the reference.",
    "Trusts vf/ref/rbd.py, finite-difference step sizes and mj_fullM. No tendon armature is generated (open C06 finding). One open "
    "known finding: RK4 is second order on rotating ball/free joints.",
    "invariant monitors over a step-size refinement study + reference-model oracle for momenta and energies")

reg("C14", "exploration",
    "A reference applies the documented selection rules to ALL geom pairs (explicit pair bypass, exclude, same/welded body, "
    "parent-child with the world exception, filterparent flag, contype/conaffinity, disable flags, override margin, bounding-sphere "
    "filter) and decides proximity of each candidate by calling the engine's own narrow-phase function for the type pair directly; "
    "the resulting pair set is compared with mjData.contact after mj_collision with the mid-phase on and off, includemargin and pair "
    "condim are checked, and the contact list is compared bit for bit across a repeated call, a second mjData and a recompiled model. "
    "Scenes of 20-300 geoms: clustered and spread, multi-geom bodies, planes, long thin rotated geoms, large margins, mocap/static bodies.",
    "Trusts the narrow-phase colliders (C13/C15's subject) and geom_rbound; pairs within 1e-9 of the detection distance are 'either'. "
    "Primitives only (no meshes/flexes/hfields in this build). Three open known findings.",
    "brute-force reference-model oracle + metamorphic mid-phase toggle + twin determinism")

reg("C16", "exploration",
    "Closed-form ray/shape intersections (plane, sphere, capsule, ellipsoid, cylinder, box; all roots of the constituent quadrics "
    "and planes, accepted when the exact signed distance vanishes) with re-implemented filters (geomgroup, flg_static through weld "
    "groups, bodyexclude, transparent geoms) give the expected nearest distance and geom id for mj_ray; mj_multiRay is compared per "
    "ray with mj_ray (unbounded and with a finite cutoff) and mju_rayGeom per primitive. Degenerate rays (tangent, through edges) "
    "get an acceptance interval from 24 reference evaluations of the ray displaced or tilted by 1e-9.",
    "Trusts geom_xpos/xmat/size from the engine and numpy. Primitives only. Planes hit from the back are accepted either way (docs "
    "silent). Four open known findings (multiRay culling, patch seams).",
    "reference-model oracle with degeneracy intervals + metamorphic multiRay==ray relation")

reg("C38", "exploration",
    "A ~40-line reference model inside the native harness (held map, access count, insertion number, per-asset model set, trim in "
    "(access, insertion) order) is driven by the same seeded history as the real mjCCache and after every operation Size, Capacity, "
    "HasAsset, PopulateData hit/miss, which insert's payload is stored, and the three private containers are compared (the harness "
    "TU reads them through an access-specifier override of user_cache.h only). Concurrent histories with 2-8 threads on 1-4 ids are "
    "checked per key for linearizability (Wing-Gong search, <= 41 ops per key, budget never exceeded) and at quiescence for "
    "structural invariants, under TSan, ASan and rel; payloads carry unique ids and checksums.",
    "Insertion refused rather than evicting when full, and Reset(model) wiping shared assets, are the documented behaviour. "
    "Trusts the reference model and TSan's observed interleavings. One open known finding (HasAsset pointer outlives the lock).",
    "reference-model history checking + per-key linearizability search under sanitizers")

reg("C39", "exploration",
    "Seeded operation histories over a 35-name universe in five equivalence classes (identical, case-only, separator-only, "
    "directory-only, ./..) are checked against a reference dict keyed by the documented normalisation for every return code "
    "(0, 2, -1), presence after every operation (sweep with both contains functions) and the exact bytes read through the resource "
    "API; source buffers are scribbled after each add, resources are kept open across later operations, and every history ends with a "
    "read-back of all entries; under rel and ASan+LSan.",
    "Name-normalisation rules are taken from the header comments and upstream unit tests. Three open known findings.",
    "sequential reference-model history checking with sanitizers")

reg("C17", "exploration",
    "After every mj_forward/mj_step of real step histories (contact piles, chains linked by equalities and tendons across trees, "
    "toggled eq_active, dense and sparse Jacobians, both cones) an independent union-find over the dense efc_J (plus the flex "
    "stiffness coupling rule) gives the reference components: tree_island must equal them, dof_island/efc_island must follow their "
    "trees, island ids must ascend with the smallest tree, and all map_* / island_* arrays must be mutually inverse permutations or "
    "partitions. The exported union-find and flood-fill helpers are driven directly by an ASan native harness over every ordered "
    "merge sequence (incl. static endpoints) on small forests and every graph on <= 4-5 vertices, against a label-propagation reference.",
    "When value-based and structure-based coupling differ the engine partition must lie between the two. One open known finding "
    "(island discovery aborts on a constraint between two static bodies).",
    "reference-model oracle on real histories + bounded-exhaustive differential harness under ASan")

reg("C18", "exploration",
    "An online trace checker observes every step of histories with injected user writes (qpos, qvel, qfrc_applied, xfrc_applied, "
    "incl. -0.0), mocap pushes, drops onto sleeping piles and equality toggles: tree_asleep must encode closed cycles (independent "
    "walker, cross-checked with mj_sleepCycle), sleeping trees keep bit-identical qpos and zero qvel, every documented wake event "
    "wakes the whole former cycle by the next position stage (coupling decided by a sleep-disabled twin model at the same state), "
    "the documented awake countdown is respected, and a sleep-enabled run equals a sleep-disabled run bit for bit until the first "
    "tree sleeps (flex-free models).",
    "RK4 excluded and sleep enabled before mj_makeData (both documented); waking more than required is allowed; wake-on-ctrl is "
    "not demanded (documented). One open known finding (flex vertices sleeping separately, then an engine abort).",
    "online trace checker with reference automaton + twin-model coupling oracle + bitwise twin execution")

reg("C20", "fault_enumeration",
    "Fault plan over arena sizes: for a (model, state) the arena actually needed (A) is measured, then mjModel.narena is set to each "
    "size of a grid that is dense near A (0, 256, 1K, 4K, 40-120 fractions of A concentrated in [0.7, 1.02], A(1-2^-k), A-8..A-4096, "
    "A, A+64), a fresh mjData is made, the same state loaded and forward/step executed under the error trap with the shadow "
    "allocator on (rel flavour plus an ASan subsample). Per size: no crash or sanitizer report; the outcome is success, a "
    "CONTACTFULL/CNSTRFULL warning or a trapped mju_error; after success the truncated constraint set must be structurally "
    "consistent (efc_address < nefc, efc_type/efc_id in range, island maps in-range permutations, parena <= narena - pstack); fewer "
    "contacts/constraints than the ample run require a warning; equal counts require bit-identical accelerations.",
    "Stack exhaustion raising mju_error is documented behaviour; the arena size is varied through mjModel.narena before "
    "mj_makeData. Sizes are a dense grid, not every byte.",
    "fault enumeration over arena sizes with structural validator + shadow allocator + ASan")

reg("C21", "fault_enumeration",
    "For each (scenario, model) the number N of allocations through mju_malloc is counted, then the k-th allocation fails for "
    "k = 1..N (every k in thorough when N <= 400, a stride in quick) plus seeded multi-fault runs; scenarios: parse, loadXML, "
    "compile, makeData, copyData, copyModel, save+loadModelBuffer, copySpec, recompile, step/forward/inverse, makeScene, print, "
    "reset+keyframe. The native harness runs under ASan+UBSan with an interposed allocator whose shadow table detects double or "
    "foreign frees and blocks still live after all objects are deleted (with the function that allocated them); the failure must "
    "surface as a trapped mju_error or an error/NULL return with a message.",
    "Only allocations routed through mju_malloc are faulted (the statement's scope). Leaks caused by mju_malloc raising before the "
    "callers' clean-up are open known findings keyed by allocating function; any new leak site, crash, double free or sanitizer "
    "report is a violation.",
    "fault enumeration of allocation failures under ASan with a shadow allocation table")

reg("C33", "exploration",
    "Serialized images and all arrays are compared between: two compiles of fresh parses under different allocator fill patterns "
    "(0x00/0xA5 vs 0x3C: uninitialised bytes would differ), a second mj_compile of the same spec, the compile of mj_copySpec, "
    "mj_copyModel, and compiles with the threaded asset compiler on and off, repeated; mj_recompile must keep the physics state of "
    "the mjData it is given. Models carry 8-40 visual inline-vertex meshes and builtin textures so the asset pool has real tasks; a "
    "native harness repeats threaded compiles under TSan and ASan and compares digests.",
    "Collision meshes (qhull) and file-based assets are out of reach in this build; TSan sees the interleavings that occurred.",
    "twin-compilation bitwise oracle with allocator fill patterns + TSan/ASan-hosted threaded compiles")

reg("C31", "fault_enumeration",
    "(1) Round trip: mj_saveModel into a buffer of exactly mj_sizeModel bytes and into a file, reload, and compare every size, "
    "every array (X-macro field table), mjOption, mjVisual and mjStatistic byte for byte; second-generation image identical; a "
    "buffer one byte short must fail cleanly. (2) Crash points: the image is truncated at EVERY length for images up to 9 kB "
    "(60 kB thorough) and at a stride plus every length around the header for larger ones. (3) Corruption: 4-byte words of the "
    "header/size/option region and sampled entries of every int array that can be located in the image are overwritten with "
    "{0, -1, INT_MAX, INT_MIN, value+-1, max+1, 2^20}; random multi-byte corruptions. Each mutated image must be rejected with a "
    "NULL result or yield a model that passes an independent cross-reference validator written from the mjmodel.h comments "
    "(vf/ref/model_refs.py); an ASan subsample uses exact-size heap copies so reads beyond the truncated length are reported.",
    "The verdict stops at in-bounds references (the statement does not promise that a semantically inconsistent image can be "
    "simulated). The loader's own validator has many gaps: each array it fails to validate is an explicit open known finding "
    "(calibrated list), so a newly unvalidated array is still reported. libFuzzer is not used.",
    "fault enumeration (truncation at every length, field corruption) with an independent reference validator + ASan")

reg("C09", "exploration",
    "Twin-data forward/inverse comparison: forward dynamics on d1 with tolerance 0 and many iterations, convergence decided by the "
    "harness itself (|M a - qfrc_smooth - qfrc_constraint| below 1e-9 of the summed magnitudes); a fresh d2 gets the integration "
    "state and qacc, mj_inverse runs, and qfrc_inverse is compared with qfrc_applied + qfrc_actuator + sum J_b' xfrc_applied (J_b "
    "from the independent kinematics model), efc_force/qfrc_constraint with the forward ones; mj_compareFwdInv must stay below "
    "tolerance; with mjENBL_INVDISCRETE the same comparison uses (v+ - v)/h from real Euler/implicit steps. Scenes mix "
    "equalities, dof and tendon frictionloss, limits and contacts of every condim in both cones.",
    "Non-converged cases are skipped and counted; near-hard constraints are skipped (documented: the inverse is undefined as R->0); "
    "noslip off, RK4 excluded from the discrete part. One open known finding (discrete inverse reads stale actuator_force).",
    "twin execution with a harness-decided convergence precondition + reference-model Jacobian term")

reg("C11", "exploration",
    "A runtime monitor over forward solves across all solvers, both cones, noslip on/off and deliberately unconverged iteration "
    "budgets: a row classifier written from the documentation (cross-checked with ne/nf/nl, contact.efc_address and block lengths) "
    "decides the admissible set of every block (frictionloss box, non-negative limits / frictionless / pyramid edges, elliptic cone "
    "with friction-weighted tangential norm bounded by the normal force); qfrc_constraint is recomputed as J' efc_force from the "
    "arena Jacobian (CSR or dense) and mj_contactForce is compared with an independent decoding of efc_force.",
    "Equality rows are sign-free; mj_contactForce reports the net interface force (adhesion subtracted); flex models skipped. One "
    "open known finding (mju_QCQP returns 'unconstrained' with a point far outside the ellipsoid after noslip).",
    "reference-model runtime monitoring over randomised solver configurations")

reg("C28", "exploration",
    "After mj_forward every sensordata slice is compared with an independent numpy model built on vf/ref/rbd.py: frame "
    "pos/quat/axes/linvel/angvel in any reference frame, accelerations from J qacc + Jdot qvel, gyro, velocimeter, accelerometer, "
    "magnetometer, subtree COM/linvel/angmom, energies, limit distances, force/torque from Newton-Euler over the child subtree, touch "
    "and rangefinder through the ray reference, and the 'copied from mjData.X' sensors; cutoff semantics per datatype; slice "
    "isolation by canary-filled sensordata with all sensors but one disabled and by single-sensor recompiled twins (bitwise).",
    "Sensors with nsample/interval/delay, plugin/user/contact/tactile sensors are left out; quaternions compared up to sign; grazing "
    "rays accepted within the displaced-ray interval. Two open known findings (static-body acceleration drops gravity; weld torque in cfrc_ext).",
    "reference-model oracle + canary/twin executions")

reg("C25", "exploration",
    "The analytic qDeriv (expanded from the D sparsity arrays) is compared with centred finite differences, at two step sizes, of "
    "qfrc_passive - qfrc_bias + qfrc_actuator w.r.t. qvel taken from mj_forward on a mj_copyData twin, per documented integrator "
    "semantics (implicit: all terms; implicitfast: RNE term dropped and symmetrised except standalone free-body blocks, where "
    "mjd_freeMhat is checked against M - h FD); mjd_transitionFD A,B,C,D (forward/centred, two eps, NULL subsets) and all seven "
    "mjd_inverseFD outputs are compared with the same differences formed from mj_step / mj_inverse on a twin restored with "
    "mj_setState; the caller's integration state (and qacc for inverseFD) is compared bitwise before and after.",
    "Entries outside the sparsity pattern of M, RK4 and delay models are outside the documented claim and skipped; diverging states "
    "are skipped and counted; tendon armature is not generated. Five open known findings (raw-ctrl gain_vel, actuatorfrcrange clamp, "
    "viscous-drag mjMINVAL guard, stale factorisation in ctrl/act columns, clampedDiff sign with flg_centered).",
    "twin-execution finite-difference oracle with two-step-size smoothness screening")

reg("C30", "fault_enumeration",
    "Fault injection with twin-derived expected outcomes: 14 bad/boundary values x index classes of qpos, qvel, ctrl, qfrc_applied, "
    "xfrc_applied, mocap_pos, mocap_quat x autoreset on/off x 4 integrators, plus organic blow-ups (timestep 0.2-5, velocities up to "
    "1e4). An independent bad-value predicate applied to the injected state and to qacc of a forward-only twin gives the exact "
    "expected warning set; after a triggered reset the state must equal mj_resetData + mj_step on a twin bitwise; a bad-ctrl step "
    "must equal a zero-control twin; with autoreset off the counters rise and time advances with no reset; the state is finite after "
    "every step with autoreset on. A subsample runs under ASan+UBSan.",
    "|x| == mjMAXVAL is not bad; act injection is outside the statement; models whose reset state itself yields NaN qacc are skipped "
    "and counted. Five open known findings (raw bad ctrl through implicit qDeriv, RK4 substages unchecked, non-finite qDeriv via mocap, "
    "mj_transmission overrun with NaN site frame, mju_round(NaN)).",
    "fault injection at the API boundary with twin-execution oracle + sanitizer subsample")

reg("C32", "exploration",
    "Metamorphic round trip on the real parser/compiler/writer: m1 = compile(spec); text = mj_saveXMLString (with and without "
    "mj_copyBack); m2 = compile(parse(text)); every size and every field-table array plus mjOption/mjVisual/mjStatistic is compared "
    "under per-class tolerances (integers, names, sizes identical; pass-through floats bit-equal; unit-norm 1e-11; compiler-derived "
    "normwise 1e-9; printed-precision mode scaled to the digits written), and save(m2) must equal save(m1) (generation fixpoint). "
    "Workload: 257 shipped models, targeted XMLs, generated models decorated with nested defaults, frames, replicate, keyframes, "
    "custom data, inline assets and random option/compiler settings, and models built only through mjs_add*/mjs_set*.",
    "Reader-side defects are invisible by construction (both sides pass the reader). The writer's integer snapping (|x-round(x)|<1e-12) "
    "and -0 sign loss are accepted in exactly that form and counted. Twelve open known findings (frame child order, default keyframe "
    "dropped, energy sensor element names, settotalmass/inertiagrouprange not written, 6-digit data vectors, fusestatic+frames, ...).",
    "metamorphic round-trip twin comparison with field-table diff")

reg("C50", "exploration",
    "Every capacity 0..N+2 of every sampled (model, state, visualisation option vector) is executed by mjv_updateScene on a fresh "
    "scene whose geoms buffer is followed by a canary zone (rel) or is the exact-size allocation of mjv_makeScene (ASan redzone): "
    "ngeom <= capacity, guard intact, N > capacity implies status != 0 and exactly one 'buffer is full' warning, the truncated scene is "
    "byte for byte a prefix of the full scene, repeated calls on a fresh and on the same scene are byte-identical, and in the geoms-only "
    "configuration the mjOBJ_GEOM elements are compared with an independent expectation built from mjModel/mjData (group mask, static "
    "flag, category mask, effective alpha, type/size mapping, float32 pose, category, segid).",
    "Alpha-0 geoms are absent by documentation; the category of geoms on jointless children of the world is left open (doc and source "
    "disagree); plugin visualize callbacks and slider-crank decor are tolerated; infinite planes may be re-centred along in-plane axes. "
    "mjWARN_VGEOMFULL no longer exists in this tree, the overflow report is status + mju_warning.",
    "exhaustive capacity sweep with guard-zone / ASan bounds monitoring + reference-model oracle")

reg("C51", "exploration",
    "The README PID recurrence (kp e + I + kd de/dt, integral clipped to +-imax in force units, setpoint slew-limited around the previous "
    "limited setpoint, ctrlrange first) is stepped alongside the simulation on observed length/velocity and compared with actuator_force at "
    "every step; the cable plugin's contribution to qfrc_passive, isolated with a twin model without the plugin at the same state, must "
    "vanish in the stress-free pose (qpos0, or the straightened pose when flat=true); twin runs with each plugin removed must agree on every "
    "qpos/qvel/act/plugin_state/qfrc_passive/actuator_force entry outside that plugin's own trees; a subsample runs under ASan.",
    "Either Euler convention for the integral term is accepted (only one is ever observed, counted); the first step is not slew-limited; "
    "runs stop at an engine auto-reset. No linked first-party plugin has nstate>0, so the plugin_state comparison is vacuous (said in evidence).",
    "reference-model oracle stepped alongside the real plugin + twin execution + sanitizer subsample")

reg("C10", "exploration",
    "Reference-model oracle: the documented reduced objective is rebuilt densely from efc_J/efc_aref/efc_R/M (row cost classes derived "
    "from the documentation, never from the engine's cost code) and minimised by scipy from two starts; mj_forward runs at tolerance 0 "
    "for Newton, CG and PGS x dense/sparse x islands on/off x warmstart {disabled, previous, garbage, optimum}; every run that carries a "
    "convergence certificate computed from the engine's own outputs (1/2 g' M^-1 g below 1e-12 of the cost scale) is compared with the "
    "reference optimum on qacc (M-norm), objective and forces within the strong-convexity bounds; islanded and monolithic solves are "
    "compared pairwise; efc_force = -grad s and qfrc_constraint = J' f at the engine's qacc; truncated iteration budgets never end above "
    "the better documented start.",
    "noslip off (documented: no longer a single optimisation problem); flex excluded; non-converged runs are skipped and counted (CG 1%, "
    "PGS 12%); PGS held to 1e-4. One open known finding (PGS with elliptic cones is bit-stationary at non-optimal points).",
    "reference-model oracle with an engine-output convergence certificate over randomised solver configurations")

reg("C12", "exploration",
    "mj_constraintUpdate is run on real constraint rows with harness-chosen residuals (dense Gaussian at 5 scales, single-block support, "
    "boundary-targeted points hit exactly and at +-1e-9, +-1e-14); the verdict uses engine outputs only: force = -grad cost by central "
    "finite differences at two step sizes with stencils kept inside one zone, qfrc_constraint = J' force, midpoint/tangent convexity and "
    "gradient monotonicity, force and cost continuity across every targeted zone boundary, contact.H = -d force / d jar in the middle zone.",
    "An independent closed-form reference (self-tested against numerical projection and KKT) is used only to aim at boundaries and scale "
    "tolerances; stencils crossing a zone boundary are skipped and counted.",
    "metamorphic / finite-difference relations on the real function with analytic boundary targeting")

reg("C13", "exploration",
    "Two-geom scenes (free/free, static/free, mocap/free, explicit pair; sizes over 3 decades; margin/gap) across 7 pose classes and 5 "
    "orientation classes: every contact is checked for a unit normal, an orthonormal frame, dist <= margin+gap, geom ids and includemargin; "
    "for the 12 analytic primitive pairs the deepest contact is compared with a closed-form signed distance and its normal must realise "
    "that distance; the contact position must lie between the two surfaces; mj_geomDistance is called in both argument orders and compared "
    "with itself, the contact and the reference.",
    "dist <= margin+gap (documented detection distance); in multi-contact manifolds only the deepest contact is compared; degenerate "
    "axis-aligned sphere centres skipped and counted; pairs without a closed form get the universal invariants only. Open known findings "
    "(capsule-capsule parallel branch, capsule-box interior/threshold/bestdist, plane-capsule frame, box-box SAT axis within margin, CCD "
    "coincident centres / touching) are relabelled only after a per-violation confirmation of the mechanism (vf/ref/mechanisms.py); explicit signatures.",
    "reference-model oracle (closed-form geometry, self-tested) over the real collision functions")

reg("C15", "exploration",
    "For the 15 native GJK/EPA pairs (sphere, capsule, ellipsoid, cylinder, box, inline convex meshes) over sizes spanning 2 decades, aspect "
    "ratios to 50, margins, multiccd on/off and ccd_tolerance 1e-6..1e-4: the contact distance and mj_geomDistance in both argument orders "
    "must lie in a certified reference bracket (lower/upper bounds from support-function certificates when separated, exact minimum-translation "
    "depth for polytope cores) within max(10 ccd_tolerance, 1e-6 size), the two orders must agree, and the reported direction must realise "
    "the reported distance.",
    "The libccd comparison clause is not decidable in this build (library absent; native CCD is the only path). A mismatch that disappears "
    "at 10x ccd_iterations is skipped and counted (<2%). For penetrating curved or margin-rounded pairs the direction test is evidence only "
    "(the statement covers distance and swap symmetry). Open known findings (coincident centres, EPA started from a touching simplex, cylinder "
    "cap exactly parallel to a facet) are relabelled only after a per-violation counterfactual confirmation; explicit signatures.",
    "certified convex-optimisation reference with primal/dual bounds over the real narrow phase")

reg("C35", "exploration",
    "Generated bodies over all primitive types (solid and shell), poses, orientation spellings, density/mass, groups and the compiler's "
    "inertia rules (inertiafromgeom, inertiagrouprange, explicit inertial incl. fullinertia, boundmass/boundinertia, balanceinertia, "
    "settotalmass), plus tessellated inline meshes (exact, legacy, shell), are compiled by the real compiler and body_mass, body_ipos and "
    "the reconstructed tensor R(iquat) diag(inertia) R' are compared with an independent analytic model (closed forms, quadrature for the "
    "ellipsoid shell, exact polyhedron integrals of the float32 vertices, parallel-axis composition); mesh results must converge to the "
    "primitive at ~4x per resolution doubling; invalid inertials (A+B<C, indefinite fullinertia, negative mass) must be rejected.",
    "Tensor tolerance 5e-6 relative (2e-5 meshes) = the compiler's Jacobi stopping rule. The convex-hull inertia path is out of reach "
    "(qhull absent). Two open known findings (ellipsoid shell inertia not a uniform surface density; absolute eigen-solver threshold on small meshes).",
    "analytic reference model + exact polyhedron integrals + convergence-rate test on the real compiler")

reg("C36", "exploration",
    "Metamorphic XML rewrites executed on the real parser/compiler: orientation spellings (5), eulerseq (intrinsic/extrinsic/mixed), "
    "degree<->radian, default-class chains with decoys, frames (plain, nested), replicate vs unrolled, mjs_attach vs inline, fusestatic, "
    "discardvisual. Each pair is compiled both ways and compared on compiled arrays matched by object name (quaternions up to sign, inertia "
    "as a tensor), on the names that tendon-wrap/transmission/sensor ids resolve to, and on 200-step world poses and named sensor data from "
    "identical named velocities and controls. mj_setConst clause: masses, inertias, positions, gears and tendon coefficients are edited at run "
    "time, mj_setConst is called and the result is compared with recompiling the equally edited saved XML, plus an independent sum-of-masses "
    "check of body_subtreemass. A rewrite kind with zero applications makes the run inconclusive.",
    "Trajectory tolerance is scaled by the system's own amplification (twin with initial velocity scaled by 1+1e-13), so chaotic models "
    "pass almost vacuously; trajectories run with constraints disabled. Open known findings: fusestatic stale site ids, fusestatic "
    "camera/light pose reset, fusestatic with differing gravcomp, replicate with multi-axis euler.",
    "metamorphic rewrites + name-matched twin compilation + perturbation-normalised trajectory comparison")

reg("C43", "exploration",
    "Differential testing of the repository's MJX (loaded on top of the installed binding, every mjx module asserted to come from /repo) "
    "against the C engine on the identical MjModel: random models straddling MJX's documented feature lattice, one jit of forward + step, "
    "field-by-field comparison with contacts and constraint rows compared as sets; closed-form quantities to 1e-6 and solver-dependent ones "
    "to 1e-4 in float64 (2e-3 / 3e-2 in float32). Any unexplained difference is re-run on the library built from the tree (rel flavour): "
    "if the tree's engine agrees with MJX the case is version skew of the 3.13.0 wheel and is counted, not judged.",
    "The verdict oracle is the installed binding's engine (MJX only accepts its MjModel); the tree's engine is the tie-breaker. put_model's "
    "NotImplementedError (documented feature parity) is counted; contact-set equality is judged only for the pair types MJX implements "
    "analytically; tangent frames are not specified by the documentation. Open known findings are listed in known_findings.json (13 mechanisms).",
    "differential testing against a reference engine with version-skew triage")

reg("C44", "exploration",
    "API twin execution and metamorphic relations on the repository's MJX: state_size/get_state/set_state vs mj_stateSize/mj_getState/"
    "mj_setState for the 14 single bits, the named composites and random signatures, with a set-state twin and a get-after-set identity; "
    "make_data (from MjModel and from mjx.Model) vs put_data of a fresh MjData leaf by leaf (shape, dtype, value); get_data(put_data(d)) vs "
    "d (sparse fields through their dense form, contacts/rows as sets); jit vs un-jitted evaluation and jit(vmap) over batches of 1, 2, 7 vs "
    "per-sample results at 1e-9.",
    "Un-jitted step (op-by-op dispatch, ~100 s per model) is in the thorough tier only. Two open known findings (contact.geom dtype under x64; "
    "get_data writes ten_J compacted instead of in the model's sparsity layout).",
    "API twin execution + metamorphic jit/vmap relations")

reg("C45", "exploration",
    "Derivative checking of the repository's MJX: six linear functionals (one per output group of step) are differentiated w.r.t. a tangent "
    "displacement of qpos, qvel, ctrl, act, ten model parameters and gravity by jax.jvp (one random direction per variable class) and, for "
    "models without constraint rows, one reverse pass; the oracle is the central finite difference of the same jitted function in float64 at "
    "two step sizes; a direction is judged only if the two step sizes and the one-sided differences agree (otherwise skipped and counted).",
    "The tangent map is the harness's own quaternion map. The solver's while_loop is forward-only (documented JAX limitation). Three open known "
    "findings (norm where-trick zero gradient at rest, tendon deadband strict comparisons, NaN reverse gradient through sphere/cylinder wraps).",
    "derivative checking against finite differences of the same compiled function")

reg("C37", "exploration",
    "Seeded mutation fuzzing (byte, token, tree and numeric mutations over ~360 repository XML/URDF documents plus generated models; input #i is "
    "a pure function of seed and i, failing bytes are saved) of mj_parseXMLString / mj_compile / mj_loadXML (+ mj_makeData and one mj_step for "
    "small models) under ASan+UBSan and the release build, with exact-size buffers, error-buffer sizes 0..1000 and a harness-owned error hook, "
    "so that escaped errors, uncaught C++ exceptions, exit() from the library, signals, sanitizer reports, NULL with empty error text and non-NULL "
    "with error text are attributed per input; combined with a schema oracle: documents generated from src/xml/mjcf.schema (parsed by the tree's "
    "own mjcf_schema.py) AND doc/XMLreference.rst (a document is conforming only if both accept it, a violation is labelled only if both reject "
    "it) - conforming hosts, conforming variants and single-violation mutants of 15 rule kinds over 166 element kinds plus 258 kinds hosted "
    "inside frame/replicate chains, each labelled by an independent reference validator - and the reader's accept/reject verdict is compared "
    "with the label. A load that does not return within the CPU cap on a document that requests no large sizes is re-run alone and reported as "
    "a runaway loop with the loop owner found by stack sampling.",
    "Tokenizer-level decisions belong to the stand-in XML tokenizer (trusted base). Out-of-memory class events are tolerated only for documents "
    "whose VALUE tokens ask for resources (number >= 1000, size suffix, inf/nan). The 'requires' rule is never exercised (no instance in the "
    "schema). libFuzzer was not used. Open known findings (process-terminating inputs, memory-safety defects while loading, schema not enforced "
    "inside frame/replicate, a non-terminating length-range computation) are relabelled only after a per-case counterfactual load.",
    "sanitizer-instrumented seeded mutation fuzzing with replayable inputs + schema/documentation-derived conformance/violation generation with a reference validator")
