"""Per-property registration data used by tools/gen_manifest.py.

READY lists the properties whose check has been validated on the unchanged tree (several seeds, both tiers)
and against deliberate mutants; only those are claimed in MANIFEST.json, the rest are listed under
not_applicable with the reason they are not claimed yet.
"""

READY = {}
HOOK_COMMITS = ["b167d7763"]


def reg(pid, level, text, note, technique, design_ref=None):
    READY[pid] = dict(level=level, text=text, note=note, technique=technique, design_ref=design_ref or ("DESIGN.md §3 " + pid))


reg("C01", "exploration",
    "Runtime twin-data history checker over the real engine: thousands of (model, option vector, twin construction, call) "
    "cases on shipped and generated models; every deterministic output of mjData is compared bit for bit between a source "
    "and a twin made by mj_copyData / mj_setState / mj_copyState into fresh, reset and dirty data, or by replaying the call "
    "history. Exploration is the right level: the property quantifies over all models, states and histories, and only "
    "executions of the real code can expose stale-memory reads; evidence counts the distinct cases observed.",
    "Trusts: the X-macro field tables of the tree; the canonicalisation of engine-undefined memory (documented in vf/common.py); "
    "with sleeping enabled only copyData/replay twins are compared (documented latent state).",
    "runtime monitoring: twin-execution bitwise differential oracle over recorded call histories")

reg("C22", "exploration",
    "Native harness instantiating the tree's own sort macros under ASan+UBSan with exact-size heap buffers, checked against a "
    "trivial stable reference: exhaustive over all arrays on 3 keys up to length 8 (10 thorough) for every k, with the macro "
    "bodies also expanded at run sizes 2 and 3 so that the enumerated arrays reach the merge/ping-pong logic, plus seeded "
    "random/structured arrays at every run/merge boundary up to 2^14+1.",
    "Trusts the 10-line reference insertion sort and ASan red zones for overrun detection; comparison callbacks are strict weak orders.",
    "sanitizer-hosted native harness with reference-model oracle (exhaustive small space + seeded random)")
