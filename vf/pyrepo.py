"""Load the repository's pure-Python modules IN PLACE of the copies inside the prebuilt `mujoco` wheel.

/venv holds a binary `mujoco` wheel that is not built from the tree under test.  The compiled extension
(`mujoco._functions`, `MjSpec`, ...) is a *dependency* of the Python modules we monitor, never the code under test.
The modules under test (`mujoco.minimize`, `mujoco.sysid._src.*`) are plain .py files; they are imported from
`build.REPO / "python" / "mujoco"` by prepending that directory to `mujoco.__path__`, and the heavy package
`__init__` files of `mujoco.sysid` (which pull in plotting, yaml, ...) are skipped by registering empty package
objects whose `__path__` points into the repository.  Every module returned by `load()` is asserted to originate
from the repository (honours VERIF_REPO, so mutated scratch worktrees are what gets executed).

    from vf import pyrepo
    minimize = pyrepo.load("mujoco.minimize")
    mm = pyrepo.load("mujoco.sysid._src.model_modifier")
"""
import importlib
import sys
import types
from pathlib import Path

from . import build

STUBS = Path(__file__).resolve().parent / "stubs"
PYROOT = build.REPO / "python" / "mujoco"

_ready = False


def _stubpkg(name, path):
    old = sys.modules.get(name)
    if old is not None and list(getattr(old, "__path__", [])) == [str(path)]:
        return old
    if old is not None:
        raise RuntimeError("%s was imported before vf.pyrepo.setup() (from %r)" % (name, getattr(old, "__file__", None)))
    m = types.ModuleType(name)
    m.__path__ = [str(path)]
    m.__package__ = name
    sys.modules[name] = m
    return m


def setup():
    """Idempotent.  Returns the wheel's `mujoco` package with its search path redirected to the repository."""
    global _ready
    import mujoco  # the wheel: binary dependency
    if _ready:
        return mujoco
    if not (PYROOT / "minimize.py").is_file():
        raise RuntimeError("no python/mujoco under %s" % build.REPO)
    if str(STUBS) not in sys.path:
        sys.path.append(str(STUBS))  # colorama / tabulate / yaml stand-ins; appended so real ones would win
    for name in list(sys.modules):
        if name == "mujoco.minimize" or name.startswith("mujoco.sysid"):
            f = getattr(sys.modules[name], "__file__", None)
            if f is not None and not _under_repo(f):
                raise RuntimeError("%s already imported from the wheel (%s)" % (name, f))
    if str(PYROOT) not in mujoco.__path__:
        mujoco.__path__.insert(0, str(PYROOT))
    p = _stubpkg("mujoco.sysid", PYROOT / "sysid")
    s = _stubpkg("mujoco.sysid._src", PYROOT / "sysid" / "_src")
    mujoco.sysid = p
    p._src = s
    _ready = True
    return mujoco


def _under_repo(f):
    try:
        Path(f).resolve().relative_to(build.REPO)
        return True
    except ValueError:
        return False


def load(name):
    """Import `name` (e.g. "mujoco.minimize") from the repository tree and assert where it came from."""
    setup()
    m = importlib.import_module(name)
    f = getattr(m, "__file__", None)
    assert f is not None and _under_repo(f), "%s loaded from %r, not from %s" % (name, f, build.REPO)
    return m


def wheel_version():
    import mujoco
    return getattr(mujoco, "__version__", "?")


def selftest():
    mods = ["mujoco.minimize", "mujoco.sysid._src.parameter", "mujoco.sysid._src.model_modifier",
            "mujoco.sysid._src.timeseries", "mujoco.sysid._src.signal_modifier", "mujoco.sysid._src.signal_transform"]
    for n in mods:
        print("OK", n, load(n).__file__)
    print("wheel", wheel_version(), "repo", build.REPO)


if __name__ == "__main__":
    selftest()
