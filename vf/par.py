"""Process-isolated parallel case runner.

run(module, func, cases, ...) starts up to `nproc` worker subprocesses
(`python -m vf.par <module> <func> <casefile>`), each handling a slice of the cases and
streaming one JSON line per case.  A worker that dies (signal, sanitizer abort, timeout)
is attributed to the case it had announced, which is reported as {"crash": ...}; the
remaining cases of that slice are resumed in a fresh worker.  Never multiprocessing.Pool.
"""
import importlib
import json
import os
import subprocess
import sys
import tempfile
import time
from pathlib import Path

VERIF = Path(__file__).resolve().parent.parent
PY = sys.executable


def child_env(extra=None, asan=False):
    env = dict(os.environ)
    env["PYTHONHASHSEED"] = "0"
    env["PYTHONPATH"] = str(VERIF) + os.pathsep + str(VERIF / ".deps") + os.pathsep + env.get("PYTHONPATH", "")
    env.setdefault("OMP_NUM_THREADS", "1")
    env.setdefault("OPENBLAS_NUM_THREADS", "1")
    env.setdefault("MKL_NUM_THREADS", "1")
    env.setdefault("XLA_FLAGS", "--xla_cpu_multi_thread_eigen=false intra_op_parallelism_threads=1")
    env.setdefault("JAX_PLATFORMS", "cpu")
    if asan:
        from . import build
        env["LD_PRELOAD"] = build.asan_rt()
        env["ASAN_OPTIONS"] = ("detect_leaks=0:symbolize=0:abort_on_error=1:halt_on_error=1:"
                               "allocator_may_return_null=1:handle_segv=1:detect_stack_use_after_return=0")
        env["UBSAN_OPTIONS"] = "halt_on_error=1:abort_on_error=1:print_stacktrace=0:symbolize=0"
        env["VF_ASAN_CHILD"] = "1"
    if extra:
        env.update(extra)
    return env


class _Worker:
    def __init__(self, module, func, cases, idxs, env, workdir):
        self.module, self.func = module, func
        self.idxs = list(idxs)
        self.cases = cases
        self.f = tempfile.NamedTemporaryFile("w", suffix=".jsonl", dir=workdir, delete=False)
        for i in self.idxs:
            self.f.write(json.dumps({"i": i, "case": cases[i]}) + "\n")
        self.f.close()
        self.errf = tempfile.NamedTemporaryFile("w+b", suffix=".err", dir=workdir, delete=False)
        self.p = subprocess.Popen([PY, "-m", "vf.par", module, func, self.f.name], stdout=subprocess.PIPE,
                                  stderr=self.errf, env=env, cwd=str(VERIF))
        os.set_blocking(self.p.stdout.fileno(), False)
        self.buf = b""
        self.current = None
        self.current_t = time.time()
        self.done = set()

    def poll(self):
        out = []
        try:
            chunk = self.p.stdout.read()
        except (BlockingIOError, ValueError):
            chunk = None
        if chunk:
            self.buf += chunk
            while b"\n" in self.buf:
                line, self.buf = self.buf.split(b"\n", 1)
                if line.startswith(b"@@START "):
                    self.current = int(line[8:])
                    self.current_t = time.time()
                elif line.startswith(b"@@RESULT "):
                    i, js = line[9:].split(b" ", 1)
                    i = int(i)
                    self.done.add(i)
                    self.current = None
                    self.current_t = time.time()
                    try:
                        out.append((i, json.loads(js)))
                    except Exception as e:
                        out.append((i, {"crash": "bad result json: %r" % e}))
        return out

    def stderr_tail(self, n=30000):
        try:
            self.errf.flush()
            with open(self.errf.name, "rb") as f:
                b = f.read()
            return b[-n:].decode(errors="replace")
        except Exception:
            return ""

    def cleanup(self):
        for f in (self.f.name, self.errf.name):
            try:
                os.unlink(f)
            except OSError:
                pass


def run(module, func, cases, nproc=16, timeout=300, env=None, asan=False, chunk=None, on_result=None):
    """Returns list of results aligned with cases. A crashed case -> {"crash": str, "rc": int}."""
    n = len(cases)
    results = [None] * n
    if n == 0:
        return results
    workdir = tempfile.mkdtemp(prefix="vfpar-", dir=str(VERIF / "out"))
    env = child_env(env, asan=asan)
    nproc = max(1, min(nproc, n))
    if chunk is None:
        chunk = max(1, min(64, (n + nproc * 4 - 1) // (nproc * 4)))
    queue = [list(range(i, min(n, i + chunk))) for i in range(0, n, chunk)]
    queue.reverse()
    workers = []
    try:
        while queue or workers:
            while queue and len(workers) < nproc:
                workers.append(_Worker(module, func, cases, queue.pop(), env, workdir))
            alive = []
            for w in workers:
                for i, r in w.poll():
                    results[i] = r
                    if on_result:
                        on_result(i, r)
                rc = w.p.poll()
                timed_out = (time.time() - w.current_t) > timeout
                if rc is None and not timed_out:
                    alive.append(w)
                    continue
                if rc is None and timed_out:
                    w.p.kill()
                    w.p.wait()
                    rc = "timeout"
                for i, r in w.poll():
                    results[i] = r
                    if on_result:
                        on_result(i, r)
                rest = [i for i in w.idxs if i not in w.done]
                if rest:
                    bad = w.current if w.current is not None else rest[0]
                    if bad in rest:
                        results[bad] = {"crash": w.stderr_tail(), "rc": rc}
                        if on_result:
                            on_result(bad, results[bad])
                        rest = [i for i in rest if i != bad]
                    if rest:
                        queue.append(rest)
                w.cleanup()
            workers = alive
            if workers:
                time.sleep(0.01)
    finally:
        for w in workers:
            try:
                w.p.kill()
            except Exception:
                pass
            w.cleanup()
        try:
            os.rmdir(workdir)
        except OSError:
            pass
    return results


def _child_main():
    module, func, casefile = sys.argv[1:4]
    if os.environ.get("VF_ASAN_CHILD"):
        # the symbolizer child must not inherit the preload (it hangs otherwise)
        os.environ.pop("LD_PRELOAD", None)
    mod = importlib.import_module(module)
    fn = getattr(mod, func)
    out = sys.stdout
    with open(casefile) as f:
        for line in f:
            rec = json.loads(line)
            out.write("@@START %d\n" % rec["i"])
            out.flush()
            try:
                r = fn(rec["case"])
            except Exception as e:  # harness-level exception: reported, not a crash of the target
                import traceback
                r = {"exception": "%s: %s" % (type(e).__name__, e), "trace": traceback.format_exc()[-2000:]}
            out.write("@@RESULT %d %s\n" % (rec["i"], json.dumps(r)))
            out.flush()


if __name__ == "__main__":
    _child_main()
