"""C32 Saved MJCF recompiles to the same model.

m1 = compile(spec); text = mj_saveXMLString(spec) (optionally after mj_copyBack(spec, m1), which is what
mj_saveLastXML does); m2 = compile(parse(text)); every size, every array of the tree's own field table, mjOption,
mjVisual and mjStatistic are compared under a per-field class (see CLASSES below).
"""
import ctypes as C
import json
import os
import re
import xml.etree.ElementTree as ET

import numpy as np

from .. import build, core, drv, par
from ..gen import corpus, mjcf_cond, model
from ..mjconst import E

LEVEL = "exploration"
RULE = ("cases = shipped corpus models (both with and without mj_copyBack before saving) + tri-state models (vf/gen/mjcf_cond.py "
        "gen_tristate: explicit true/false/absent limited, actuatorfrclimited, ctrllimited, forcelimited, actlimited with and without "
        "the range, agreeing and disagreeing with what the reader would infer, on the element and through nested default classes that "
        "the element inherits or overrides, autolimits true/false, angle radian/degree) + type-conditional models (gen_typecond: every "
        "joint/geom/site/camera/light/actuator/transmission/equality/tendon kind with the attributes the writer emits per TYPE, on both "
        "sides of each condition) + generated 'rich' models "
        "decorated with nested default classes/childclass, named and unnamed <frame>, <replicate>, keyframes sized from "
        "a first compile, custom numeric/text/tuple, contact pairs/excludes, builtin textures/materials, inline-vertex "
        "meshes, hfields with inline elevation, random <option>/<visual>/<statistic>/<compiler> settings + models built "
        "purely through the mjSpec C API (native/h_spec.c replaying a generated op-list of mjs_add*/mjs_set*). Each case "
        "is saved at full precision (17 digits; pass-through arrays must be bit-equal) and some also at a printed "
        "precision of 6..12 digits (rtol 10^-(digits-1)). Second generation: save(m2) must equal save(m1) up to the order "
        "of lines, and save(m3)==save(m2) exactly. distinct = (source, save path, precision class, feature tags)")
ASSUMPTIONS = [
    "the writer deliberately prints any value within 1e-12 of an integer as that integer (xml_util.cc isint/Round), also "
    "dropping the sign of -0: a pass-through value may therefore come back as the exact integer it was within 1e-12 of; "
    "this is counted (int_snap) and tolerated only in that exact form",
    "arrays downstream of a unit-norm re-normalisation (quaternions, axes, directions) are compared with an absolute bound "
    "of 1e-11 because an integer-snapped component is renormalised; arrays computed by the compiler from the written "
    "values (inertia, *0 constants, invweight0, acc0, aabb/rbound, statistics, flex/mesh processing) with a normwise "
    "relative bound of 1e-9; body_iquat additionally through the rotated inertia tensor when principal moments are "
    "nearly degenerate (the eigenvector problem is ill-conditioned there)",
    "XMLreference (freejoint/align): 'the align attribute is never saved to XML. Instead, the pose of simple free bodies "
    "and their children will be modified' - with alignfree the positions are recomputed on reload and compared in the "
    "derived class",
    "mesh/texture FILE assets other than STL are out of reach in this build (no OBJ/PNG decoders); builtin textures, inline "
    "meshes and inline hfields are covered",
    "in printed-precision mode only the relative error of written values is bounded (rtol 10^-(digits-1)); quantities the "
    "compiler derives from them are compared with 1e3 x rtol normwise",
    "recomputed, not written: geom_pos AND geom_size of mesh geoms (the size of a mesh geom is the half-extent of the mesh's box, "
    "never an attribute) are compared in the derived class; hfield_data is the elevation re-normalised to [0,1] by the compiler, so in "
    "printed-precision mode its ABSOLUTE error is bounded (4 x rtol at scale 1), bit-equality is still required at full precision",
    "the verdict is about compiled arrays only (statement: 'identical ... in every compiled array'): m1 == m2 and m2 == m3. A "
    "difference between the TEXTS of two generations is an observation; the one known pattern (saveinertial: geom mass printed "
    "as 0 by the second save while the explicit inertial wins) is counted, not flagged (audit B3: false alarm)",
    "a difference is filed under a listed finding only after the mechanism has been confirmed for that case (counterfactual "
    "recompile of a repaired text/source, or a structural test on the arrays - see the 'classification' section); otherwise it "
    "keeps the generic signature roundtrip-differs:<class>:<field> and fails the run",
]

FLOATS = ("mjtNum", "float", "double")
UNIT = {"body_quat", "geom_quat", "site_quat", "cam_quat", "jnt_axis", "light_dir", "mesh_quat", "skin_bonebindquat",
        "key_mquat", "body_iquat"}
DERIVED = {"body_mass", "body_subtreemass", "body_inertia", "body_ipos", "body_invweight0", "dof_invweight0", "dof_M0",
           "dof_length", "bvh_aabb", "oct_aabb", "oct_coeff", "geom_aabb", "geom_rbound", "cam_poscom0", "cam_pos0", "cam_mat0",
           "light_poscom0", "light_pos0", "light_dir0", "flexedge_length0", "flexedge_invweight0", "flex_vertmetric",
           "flex_stiffness", "flex_bending", "efm0_L", "flex_vert", "flex_vert0", "flex_node", "flex_node0", "flex_radius", "flex_size",
           "tendon_lengthspring", "tendon_length0", "tendon_invweight0", "actuator_acc0", "actuator_length0",
           "actuator_lengthrange", "mesh_vert", "mesh_normal", "mesh_pos", "mesh_polynormal", "mesh_scale",
           # computed at compile time from other quantities in some configurations
           "actuator_biasprm", "actuator_gainprm", "eq_data", "geom_fluid", "skin_bonevertweight", "skin_bonebindpos"}
# positions that alignfree / <freejoint align> recompute on every compile
ALIGN = {"body_pos", "geom_pos", "site_pos", "cam_pos", "light_pos", "jnt_pos", "qpos0", "qpos_spring", "key_qpos", "body_quat"}
SNAP = 1e-12
TOL_UNIT = 1e-11
TOL_DER = 1e-9


def _classify(k, align):
    if k in UNIT:
        return "unit"
    if k in DERIVED or (align and k in ALIGN):
        return "derived"
    return "pass"


def _inertia_tensors(m):
    q = m["body_iquat"].astype(np.float64)
    I = m["body_inertia"].astype(np.float64)
    w, x, y, z = q[:, 0], q[:, 1], q[:, 2], q[:, 3]
    R = np.empty((len(q), 3, 3))
    R[:, 0, 0] = 1 - 2 * (y * y + z * z); R[:, 0, 1] = 2 * (x * y - w * z); R[:, 0, 2] = 2 * (x * z + w * y)
    R[:, 1, 0] = 2 * (x * y + w * z); R[:, 1, 1] = 1 - 2 * (x * x + z * z); R[:, 1, 2] = 2 * (y * z - w * x)
    R[:, 2, 0] = 2 * (x * z - w * y); R[:, 2, 1] = 2 * (y * z + w * x); R[:, 2, 2] = 1 - 2 * (x * x + y * y)
    return np.einsum("bij,bj,bkj->bik", R, I, R)


def compare(m1, m2, digits=17, align=False, ignore_sizes=()):
    """-> list of (kind, field, message, magnitude). kind in exact|size|pass|unit|derived|opt|vis|stat
    ignore_sizes: size fields the caller has already dealt with (the fusestatic BVH over-allocation: nbvh*, nbuffer); they are
    not compared and the bvh_* arrays, whose shapes then differ, are left to the caller"""
    out = []
    info = {"int_snap": 0, "max_unit": 0.0, "max_derived": 0.0, "iquat_degenerate": 0}
    full = digits >= 17
    rtol = 0.0 if full else 10.0 ** (-(digits - 1))
    s1, s2 = m1.sizes(), m2.sizes()
    if not full:
        # printed precision: the sparsity of the inertia structures depends on exact-zero tests (a body is 'simple' iff its inertial
        # frame coincides EXACTLY with the body frame), which values printed with fewer digits flip legitimately; these counts and the
        # index arrays sized by them are meaningful at full precision only
        ignore_sizes = set(ignore_sizes) | {"nC", "nD", "nB", "nbuffer"}
    for k in s1:
        if s1[k] != s2.get(k) and k not in ignore_sizes:
            out.append(("size", k, "%s != %s" % (s1[k], s2.get(k)), 0))
    if out:
        return out, info
    f1 = m1.fields()
    extent = float(np.frombuffer(m1.stat_bytes(), dtype=np.float64)[3]) if len(m1.stat_bytes()) >= 32 else 1.0
    for k, (ptr, ct, shape) in f1.items():
        if not full and k.startswith(("bvh_", "oct_")):
            continue  # the tree topology depends discontinuously on coordinates; only meaningful at full precision
        if not full and (k in ("body_simple", "body_sameframe", "geom_sameframe", "site_sameframe", "dof_simplenum", "M_rownnz", "M_rowadr",
                               "B_rownnz", "B_rowadr", "D_rownnz", "D_rowadr", "D_diag")
                         or k in ("B_colind", "M_colind", "mapM2M", "D_colind", "mapM2D", "mapD2M")):
            continue  # exact-zero dependent flags and the sparsity layouts that follow from them (see ignore_sizes above)
        a, b = m1[k], m2[k]
        if a.shape != b.shape:
            if not (ignore_sizes and k.startswith("bvh_")):
                out.append(("exact", k, "shape %s != %s" % (a.shape, b.shape), 0))
            continue
        if a.tobytes() == b.tobytes():
            continue
        if ct not in FLOATS:
            if not full and k == "tex_data" and np.abs(a.astype(np.int32) - b.astype(np.int32)).max() <= 1:
                continue  # builtin texture pixels are computed from rgb1/rgb2/markrgb, which were printed with `digits` digits
            i = int(np.flatnonzero(a.ravel() != b.ravel())[0])
            out.append(("exact", k, "[%d] %s != %s (%d entries differ)" % (i, a.ravel()[i], b.ravel()[i], int((a.ravel() != b.ravel()).sum())), 0))
            continue
        a64, b64 = a.astype(np.float64).ravel(), b.astype(np.float64).ravel()
        if np.isnan(a64).any() or np.isnan(b64).any():
            if not np.array_equal(np.isnan(a64), np.isnan(b64)):
                if k in ("body_invweight0", "dof_invweight0", "tendon_invweight0", "actuator_acc0", "dof_M0", "cam_pos0", "cam_poscom0") or k.endswith("0"):
                    # a singular inertia matrix: mj_setConst's factorisation divides by (rounded) zero, NaN or not is decided by the
                    # last bit; the model is degenerate, these derived arrays carry no information
                    info["degenerate_nan_derived"] = info.get("degenerate_nan_derived", 0) + 1
                    continue
                out.append(("pass", k, "NaN pattern differs", np.inf))
                continue
            a64, b64 = np.nan_to_num(a64), np.nan_to_num(b64)
        ad = np.abs(a64 - b64)
        cls = _classify(k, align)
        if cls == "pass":
            # the writer prints values within 1e-12 of an integer as the integer
            snap = (ad < SNAP) & (b64 == np.round(b64)) & (np.abs(b64) < 2 ** 31)
            if full:
                bad = (ad > 0) & ~snap
                # sign of zero only: -0 is printed as 0
                info["int_snap"] += int((snap & ((ad > 0) | (np.signbit(a64) != np.signbit(b64)))).sum())
            else:
                eps = 6e-8 if a.dtype == np.float32 else 0.0
                bad = (ad > (rtol + eps) * np.abs(a64)) & ~snap
            if k == "hfield_data" and not full and bad.any():
                # elevation data are re-normalised to [0, 1] by the compiler ((e - min) / (max - min)), so the printed rounding
                # of the elevation values bounds the ABSOLUTE error of hfield_data (scale 1), not the relative error of an entry
                bad = bad & (ad > 4 * (rtol + eps))
            if k in ("geom_pos", "geom_size") and bad.any():
                # mesh geoms: the writer recovers the user pose by undoing the mesh frame (mjuu_frameaccuminv) and the
                # compiler re-applies it, so these rows are recomputed values; the size of a mesh geom is never written at
                # all (it is the half-extent of the mesh's bounding box, recomputed from the vertices)
                meshrow = np.repeat(np.isin(m1["geom_type"], (E.mjGEOM_MESH, E.mjGEOM_SDF)), 3)
                bad = bad & ~(meshrow & (ad <= (TOL_DER if full else 1e3 * rtol) * max(extent, 1e-3)))
            if bad.any():
                i = int(np.flatnonzero(bad)[np.argmax(ad[bad])])
                out.append(("pass", k, "[%d] %r -> %r" % (i, a64[i], b64[i]), float(ad[i] / max(abs(a64[i]), 1e-300))))
        elif cls == "unit":
            tol = TOL_UNIT if full else 4 * rtol
            A, B = a64.reshape(a.shape), b64.reshape(a.shape)
            if k == "body_iquat":
                # q and -q are the same frame; ill-conditioned when principal moments nearly coincide
                I = m1["body_inertia"].astype(np.float64)
                Is = np.sort(I, axis=1)
                gap = np.minimum(Is[:, 1] - Is[:, 0], Is[:, 2] - Is[:, 1]) / np.maximum(Is[:, 2], 1e-300)
                dq = np.minimum(np.abs(A - B).max(axis=1), np.abs(A + B).max(axis=1))
                well = gap > 1e-6
                info["iquat_degenerate"] += int((~well & (dq > tol)).sum())
                lim = np.where(well, tol + (1e-13 if full else 10 * rtol) / np.maximum(gap, 1e-300), np.inf)
                bad = dq > lim
                if bad.any():
                    i = int(np.flatnonzero(bad)[0])
                    out.append(("unit", k, "body %d %s -> %s (gap %.2g)" % (i, A[i], B[i], gap[i]), float(dq[i])))
                # well-conditioned invariant: the inertia tensor in the body frame
                T1, T2 = _inertia_tensors(m1), _inertia_tensors(m2)
                sc = np.abs(T1).max(axis=(1, 2)) + 1e-300
                dT = np.abs(T1 - T2).max(axis=(1, 2)) / sc
                lim = TOL_DER if full else 1e3 * rtol
                if (dT > lim).any():
                    i = int(np.argmax(dT))
                    out.append(("derived", "body_inertia_tensor", "body %d rel diff %.3g" % (i, dT[i]), float(dT[i])))
                info["max_unit"] = max(info["max_unit"], float(dq[well].max()) if well.any() else 0.0)
                continue
            info["max_unit"] = max(info["max_unit"], float(ad.max()))
            if (ad > tol).any():
                i = int(np.argmax(ad))
                out.append(("unit", k, "[%d] %r -> %r" % (i, a64[i], b64[i]), float(ad[i])))
        else:
            tol = TOL_DER if full else 1e3 * rtol
            if a.dtype == np.float32:
                tol = max(tol, 5e-7)
            S = max(float(np.abs(a64).max()), float(np.abs(b64).max()))
            if re.search(r"pos|aabb|rbound|vert|node|length", k):
                S = max(S, extent)  # lengths: an absolute floor scaled by the model extent
            lim = tol * np.maximum(np.abs(a64), np.abs(b64)) + tol * S + 1e-25  # the floor: a numerically-zero quantity (1e-33) is rounding noise
            r = float((ad / (S + 1e-300)).max())
            info["max_derived"] = max(info["max_derived"], r)
            if (ad > lim).any():
                i = int(np.argmax(ad - lim))
                out.append(("derived", k, "[%d] %r -> %r (array scale %.3g)" % (i, a64[i], b64[i], S), r))
    # embedded structs
    if m1.opt_bytes() != m2.opt_bytes():
        for nm in m1.opt.names():
            va, vb = np.atleast_1d(m1.opt[nm]), np.atleast_1d(m2.opt[nm])
            if va.tobytes() != vb.tobytes():
                if va.dtype.kind == "f":
                    d = np.abs(va.astype(float) - vb.astype(float))
                    snap = (d < SNAP) & (vb == np.round(vb))
                    if full and snap.all():
                        info["int_snap"] += 1
                        continue
                    if not full and (d <= rtol * np.abs(va) + 1e-300).all():
                        continue
                out.append(("opt", "opt." + nm, "%s -> %s" % (va, vb), 0))
    if m1.vis_bytes() != m2.vis_bytes():
        va = np.frombuffer(m1.vis_bytes(), dtype=np.float32)
        vb = np.frombuffer(m2.vis_bytes(), dtype=np.float32)
        # mjVisual mixes int and float members; a float view is only used to bound the difference in printed-precision mode
        ia, ib = np.frombuffer(m1.vis_bytes(), dtype=np.int32), np.frombuffer(m2.vis_bytes(), dtype=np.int32)
        bad = ia != ib
        if not full:
            with np.errstate(all="ignore"):
                close = np.abs(va.astype(float) - vb.astype(float)) <= (rtol + 6e-8) * np.abs(va.astype(float))
            bad = bad & ~np.nan_to_num(close, nan=False).astype(bool)
        if bad.any():
            i = int(np.flatnonzero(bad)[0])
            out.append(("vis", "vis", "word %d: %r -> %r" % (i, float(va[i]), float(vb[i])), 0))
    if m1.stat_bytes() != m2.stat_bytes():
        va, vb = np.frombuffer(m1.stat_bytes(), dtype=np.float64), np.frombuffer(m2.stat_bytes(), dtype=np.float64)
        tol = TOL_DER if full else 1e3 * rtol
        S = float(np.abs(va).max())
        d = np.abs(va - vb)
        info["max_derived"] = max(info["max_derived"], float(d.max() / (S + 1e-300)))
        if (d > tol * (np.abs(va) + S)).any():
            out.append(("derived", "stat", "%s -> %s" % (va, vb), float(d.max())))
    return out, info


FAMILIES = {  # family -> (count, mjtObj, fingerprint arrays)
    "body": ("nbody", 1, ("body_parentid", "body_jntnum", "body_geomnum")),
    "joint": ("njnt", 3, ("jnt_type", "jnt_bodyid", "jnt_range", "jnt_axis")),
    "geom": ("ngeom", 5, ("geom_type", "geom_bodyid", "geom_size", "geom_rgba")),
    "site": ("nsite", 6, ("site_type", "site_bodyid", "site_size", "site_rgba")),
    "camera": ("ncam", 7, ("cam_bodyid", "cam_fovy")),
    "light": ("nlight", 8, ("light_bodyid", "light_diffuse")),
    "tendon": ("ntendon", 18, ("tendon_num", "tendon_width")),
    "actuator": ("nu", 19, ("actuator_trntype", "actuator_gaintype", "actuator_gear")),
    "sensor": ("nsensor", 20, ("sensor_type", "sensor_objtype")),
    "equality": ("neq", 17, ("eq_type", "eq_objtype")),
    "pair": ("npair", 15, ("pair_dim",)),
    "exclude": ("nexclude", 16, ()),
    "key": ("nkey", 24, ("key_time", "key_qpos", "key_qvel", "key_ctrl", "key_act", "key_mpos")),
    "material": ("nmat", 13, ("mat_rgba",)),
    "texture": ("ntex", 12, ("tex_type", "tex_height")),
    "mesh": ("nmesh", 10, ("mesh_vertnum",)),
    "numeric": ("nnumeric", 21, ("numeric_size",)),
    "tuple": ("ntuple", 23, ("tuple_size",)),
}


def order_change(m1, m2, digits=17):
    """families whose elements are the same multiset but in a different order."""
    out = []
    for fam, (cnt, obj, arrs) in FAMILIES.items():
        n = m1.n(cnt)
        if n < 2 or n != m2.n(cnt):
            continue

        def rows(m):
            r = []
            for i in range(n):
                key = [m.name(obj, i) or ""]
                for a in arrs:
                    key.append((np.round(np.atleast_1d(m[a][i]).astype(np.float64), min(9, digits - 3)) + 0.0).tobytes())
                r.append(tuple(key))
            return r
        r1, r2 = rows(m1), rows(m2)
        # body/joint ids inside fingerprints shift when bodies reorder; names are authoritative when present
        if r1 != r2:
            n1, n2 = [x[0] for x in r1], [x[0] for x in r2]
            if sorted(n1) == sorted(n2) and n1 != n2:
                out.append(fam)
            elif n1 == n2 and sorted(r1) == sorted(r2):
                out.append(fam)
    return out


# ------------------------------------------------------------------------------------------- decoration

def _f(x):
    return model.f(x)


def decorate(xml, rng, feats):
    """add the MJCF features C32 is about to a generated model; feats is a dict of booleans; returns xml, tags"""
    root = ET.fromstring(xml)
    tags = set()
    wb = root.find("worldbody")
    bodies = [b for b in wb.iter("body")]
    comp = root.find("compiler")
    U = lambda lo, hi: float(rng.uniform(lo, hi))
    P = lambda p: bool(rng.random() < p)

    def pick(seq):
        return seq[int(rng.integers(0, len(seq)))]

    # ---- compiler / option / visual / statistic / size
    if feats.get("compiler"):
        if P(0.3):
            comp.set("angle", "radian")
            # the generator wrote degrees: convert nothing, angles simply mean something else (still a valid model)
            for j in root.iter("joint"):
                if j.get("range") and j.get("type") in ("hinge", "ball"):
                    lo, hi = [float(v) for v in j.get("range").split()]
                    j.set("range", _f([lo / 60.0, hi / 60.0]))
            tags.add("angle_radian")
        if P(0.3):
            comp.set("eulerseq", pick(["xyz", "zyx", "XYZ", "zxz", "yXz"]))
            tags.add("eulerseq")
        if P(0.2):
            comp.set("boundmass", _f(U(0.01, 0.2)))
            comp.set("boundinertia", _f(U(1e-4, 1e-2)))
            tags.add("boundmass")
        if P(0.2) and not feats.get("no_mass_attrs"):
            comp.set("settotalmass", _f(U(1, 20)))
            tags.add("settotalmass")
        if P(0.2):
            comp.set("balanceinertia", "true")
        if P(0.25):
            comp.set("inertiafromgeom", pick(["true", "auto", "false"]) if not any(True for _ in root.iter("inertial")) else pick(["true", "auto"]))
            if comp.get("inertiafromgeom") == "false":
                comp.set("inertiafromgeom", "auto")
            tags.add("inertiafromgeom_" + comp.get("inertiafromgeom"))
        if P(0.15):
            comp.set("saveinertial", "true")
            tags.add("saveinertial")
        if feats.get("alignfree") and P(0.5):
            comp.set("alignfree", "true")
            tags.add("alignfree")
        # fusestatic and the two mass-changing compiler attributes that the writer omits each trigger a (separately confirmed)
        # known finding; their combination changes masses AND sizes at once, which the per-mechanism counterfactuals cannot separate:
        # not generated together (the random draws are consumed either way)
        want_fuse, want_igr = P(0.08), P(0.15)
        if want_fuse and comp.get("settotalmass") is None and os.environ.get("VF_C32_RANDOM_FUSESTATIC"):
            # random fusestatic models are OFF by default: they combine several separately recorded fusestatic defects (BVH
            # over-allocation, frame children dropped, references resolved through stale ids, and - observed but not isolated in the
            # time available - mass properties of fused bodies that carry explicit inertials differing after the reload), which the
            # per-mechanism confirmations cannot separate; fusestatic is exercised by the targeted witness models (TARGETED) instead
            comp.set("fusestatic", "true")
            tags.add("fusestatic")
        if want_igr and comp.get("fusestatic") is None and not feats.get("no_mass_attrs"):
            comp.set("inertiagrouprange", "0 4")
            tags.add("inertiagrouprange")
    if feats.get("option"):
        o = root.find("option")
        if P(0.5):
            o.set("timestep", _f(U(0.0005, 0.01)))
        if P(0.4):
            o.set("gravity", _f([U(-1, 1), U(-1, 1), U(-12, -2)]))
        if P(0.3):
            o.set("wind", _f(rng.normal(size=3)))
            o.set("density", _f(U(0.5, 1500)))
            o.set("viscosity", _f(U(0, 0.1)))
        if P(0.3):
            o.set("magnetic", _f(rng.normal(size=3)))
        if P(0.4):
            o.set("integrator", pick(["Euler", "RK4", "implicit", "implicitfast"]))
        if P(0.4):
            o.set("cone", pick(["pyramidal", "elliptic"]))
            o.set("jacobian", pick(["dense", "sparse", "auto"]))
            o.set("solver", pick(["PGS", "CG", "Newton"]))
        if P(0.4):
            o.set("iterations", str(int(rng.integers(1, 200))))
            o.set("ls_iterations", str(int(rng.integers(1, 100))))
            o.set("tolerance", _f(10 ** U(-12, -4)))
            o.set("ls_tolerance", _f(10 ** U(-4, -1)))
        if P(0.3):
            o.set("noslip_iterations", str(int(rng.integers(0, 10))))
            o.set("noslip_tolerance", _f(10 ** U(-8, -4)))
            o.set("ccd_iterations", str(int(rng.integers(1, 60))))
            o.set("ccd_tolerance", _f(10 ** U(-8, -4)))
        if P(0.3):
            o.set("impratio", _f(U(0.5, 20)))
            o.set("o_margin", _f(U(0, 0.01)))
            o.set("o_solref", _f([U(0.005, 0.05), U(0.5, 1.5)]))
            o.set("o_solimp", _f([U(0.8, 0.9), U(0.9, 0.99), U(1e-4, 1e-2), U(0.3, 0.7), U(1, 3)]))
            o.set("o_friction", _f([U(0.1, 2), U(0.1, 2), U(1e-3, 1e-2), U(1e-5, 1e-3), U(1e-5, 1e-3)]))
        if P(0.4):
            fl = o.find("flag")
            if fl is None:
                fl = ET.SubElement(o, "flag")
            for nm in ("constraint", "equality", "frictionloss", "limit", "contact", "spring", "damper", "gravity", "clampctrl", "warmstart",
                       "filterparent", "actuation", "refsafe", "sensor", "midphase", "eulerdamp", "autoreset", "island", "multiccd"):
                if P(0.15):
                    fl.set(nm, "disable")
            for nm in ("override", "energy", "fwdinv", "invdiscrete", "sleep"):
                if P(0.2):
                    fl.set(nm, "enable")
        if P(0.2):
            o.set("actuatorgroupdisable", " ".join(str(int(v)) for v in sorted(set(rng.integers(0, 6, size=2).tolist()))))
        tags.add("option")
    if feats.get("visual"):
        v = ET.SubElement(root, "visual")
        if P(0.5):
            ET.SubElement(v, "global", {"fovy": _f(U(20, 80)), "azimuth": _f(U(0, 360)), "elevation": _f(U(-80, 0)), "offwidth": str(int(rng.integers(100, 2000))), "ellipsoidinertia": pick(["true", "false"])})
        if P(0.5):
            ET.SubElement(v, "quality", {"shadowsize": str(int(rng.integers(128, 4096))), "offsamples": str(int(rng.integers(0, 8)))})
        if P(0.5):
            ET.SubElement(v, "headlight", {"ambient": _f(rng.random(3)), "diffuse": _f(rng.random(3)), "active": str(int(rng.integers(0, 2)))})
        if P(0.5):
            ET.SubElement(v, "map", {"stiffness": _f(U(10, 500)), "znear": _f(U(0.001, 0.1)), "zfar": _f(U(10, 100)), "force": _f(U(0.001, 0.1)), "alpha": _f(U(0.1, 0.9))})
        if P(0.5):
            ET.SubElement(v, "scale", {"forcewidth": _f(U(0.01, 0.5)), "com": _f(U(0.1, 0.9)), "jointlength": _f(U(0.5, 2)), "frustum": _f(U(1, 20))})
        if P(0.5):
            ET.SubElement(v, "rgba", {"fog": _f(rng.random(4)), "joint": _f(rng.random(4)), "contactpoint": _f(rng.random(4)), "bv": _f(rng.random(4))})
        tags.add("visual")
    if feats.get("statistic") and P(0.6):
        st = ET.SubElement(root, "statistic")
        if P(0.6):
            st.set("extent", _f(U(0.5, 10)))
        if P(0.5):
            st.set("center", _f(rng.normal(size=3)))
        if P(0.4):
            st.set("meansize", _f(U(0.01, 1)))
        if P(0.3):
            st.set("meanmass", _f(U(0.1, 10)))
        if P(0.3):
            st.set("meaninertia", _f(U(0.01, 10)))
        tags.add("statistic")

    # ---- assets: builtin textures, materials, inline mesh, hfield
    mats = []
    if feats.get("assets"):
        a = ET.SubElement(root, "asset")
        for i in range(int(rng.integers(1, 4))):
            ty = pick(["2d", "cube", "skybox"])
            t = {"name": "tex%d" % i, "type": ty, "builtin": pick(["gradient", "checker", "flat"]), "rgb1": _f(rng.random(3)), "rgb2": _f(rng.random(3)),
                 "width": str(int(rng.integers(2, 20))), "height": str(int(rng.integers(2, 20)))}
            if ty != "2d":
                t["height"] = str(int(t["width"]) * (1 if P(0.5) else 6))
            if P(0.4):
                t["mark"] = pick(["edge", "cross", "random"])
                t["markrgb"] = _f(rng.random(3))
                t["random"] = _f(U(0.01, 0.2))
            if P(0.3):
                t["colorspace"] = pick(["linear", "sRGB"])
            ET.SubElement(a, "texture", t)
            if ty != "skybox":
                m = {"name": "mat%d" % i, "texture": t["name"], "texrepeat": _f([U(1, 4), U(1, 4)]), "texuniform": pick(["true", "false"]),
                     "emission": _f(U(0, 1)), "specular": _f(U(0, 1)), "shininess": _f(U(0, 1)), "reflectance": _f(U(0, 1)), "rgba": _f(rng.random(4))}
                if P(0.4):
                    m["metallic"] = _f(U(0, 1))
                    m["roughness"] = _f(U(0, 1))
                ET.SubElement(a, "material", m)
                mats.append(m["name"])
        ET.SubElement(a, "material", {"name": "matplain", "rgba": _f(rng.random(4))})
        mats.append("matplain")
        tags.add("texture_material")
        if feats.get("mesh"):
            V = np.array([[0, 0, 0], [1, 0, 0], [0, 1, 0], [0, 0, 1]], dtype=float) * U(0.05, 0.3) + rng.normal(size=(4, 3)) * 0.01
            if not feats.get("rough_vectors"):
                V = np.round(V, 3)  # exactly reproduced by 6 significant digits
            me = {"name": "tetra", "vertex": _f(V.ravel()), "face": "0 2 1 0 1 3 0 3 2 1 2 3"}
            if P(0.4):
                me["scale"] = _f([U(0.5, 2), U(0.5, 2), U(0.5, 2)])
            if P(0.3):
                me["inertia"] = pick(["exact", "legacy", "shell"])
            ET.SubElement(a, "mesh", me)
            b = pick(bodies)
            g = {"name": "g_mesh", "type": "mesh", "mesh": "tetra", "contype": "0", "conaffinity": "0", "pos": _f(rng.normal(size=3) * 0.1)}
            if P(0.5):
                g["quat"] = _f(model.rquat(rng))
            ET.SubElement(b, "geom", g)
            tags.add("inline_mesh")
        if feats.get("hfield"):
            nr, nc = int(rng.integers(2, 6)), int(rng.integers(2, 6))
            ET.SubElement(a, "hfield", {"name": "hf", "nrow": str(nr), "ncol": str(nc), "size": _f([U(0.5, 2), U(0.5, 2), U(0.1, 0.5), U(0.05, 0.2)]),
                                        "elevation": _f(rng.random(nr * nc) if feats.get("rough_vectors") else np.round(rng.random(nr * nc), 3))})
            ET.SubElement(wb, "geom", {"name": "g_hf", "type": "hfield", "hfield": "hf", "pos": _f([U(-3, 3), U(-3, 3), -2.0]), "contype": "0", "conaffinity": "0"})
            tags.add("hfield_inline")
        for g in list(wb.iter("geom")):
            if mats and P(0.3):
                g.set("material", pick(mats))
        for s in list(wb.iter("site")):
            if mats and P(0.2):
                s.set("material", pick(mats))

    # ---- user data
    if feats.get("user"):
        sz = root.find("size")
        if sz is None:
            sz = ET.SubElement(root, "size")
        ng, nj, nb_ = int(rng.integers(1, 4)), int(rng.integers(1, 3)), int(rng.integers(1, 3))
        sz.set("nuser_geom", str(ng)); sz.set("nuser_jnt", str(nj)); sz.set("nuser_body", str(nb_))
        if P(0.5):
            sz.set("nuserdata", str(int(rng.integers(1, 9))))
        for g in wb.iter("geom"):
            if P(0.4):
                g.set("user", _f(rng.normal(size=int(rng.integers(1, ng + 1)))))
        for j in wb.iter("joint"):
            if P(0.4):
                j.set("user", _f(rng.normal(size=int(rng.integers(1, nj + 1)))))
        for b in bodies:
            if P(0.3):
                b.set("user", _f(rng.normal(size=nb_)))
        tags.add("userdata")

    # ---- defaults: main + nested classes, class= and childclass=
    if feats.get("defaults"):
        d = ET.Element("default")
        root.insert(1, d)
        deg = comp.get("angle", "degree") == "degree"
        if P(0.6):
            ET.SubElement(d, "geom", {"rgba": _f(rng.random(4)), "friction": _f([U(0.2, 1.5), U(0.001, 0.02), U(1e-4, 1e-3)])})
        if P(0.6):
            ja = {"damping": _f(U(0.01, 1)), "armature": _f(U(0.001, 0.1))}
            if P(0.5):
                ja["range"] = _f([-40.0, 50.0]) if deg else _f([-0.7, 0.9])
                tags.add("default_joint_range")
                for j in wb.iter("joint"):
                    if j.get("type") == "ball" and not j.get("range"):
                        j.set("range", "0 0")
            ET.SubElement(d, "joint", ja)
        if P(0.4):
            ET.SubElement(d, "site", {"size": _f([U(0.01, 0.05)]), "rgba": _f(rng.random(4)), "group": str(int(rng.integers(0, 5)))})
        if P(0.3):
            ET.SubElement(d, "general", {"ctrlrange": _f([-U(0.5, 2), U(0.5, 2)]), "gear": _f([U(0.5, 3)])})
        if P(0.3):
            ET.SubElement(d, "tendon", {"width": _f(U(0.001, 0.02)), "rgba": _f(rng.random(4))})
        if P(0.3):
            ET.SubElement(d, "pair", {"margin": _f(U(0, 0.02)), "condim": pick(["1", "3", "4", "6"]), "solref": _f([U(0.005, 0.05), U(0.5, 1.5)])})
        if P(0.3):
            ET.SubElement(d, "equality", {"solref": _f([U(0.005, 0.05), U(0.5, 1.5)]), "solimp": _f([U(0.8, 0.9), U(0.9, 0.99), U(1e-4, 1e-2)])})
        if P(0.3):
            ET.SubElement(d, "camera", {"fovy": _f(U(20, 90))})
        if P(0.3):
            ET.SubElement(d, "light", {"diffuse": _f(rng.random(3)), "castshadow": "false"})
        if P(0.3) and feats.get("assets"):
            ET.SubElement(d, "material", {"specular": _f(U(0, 1)), "shininess": _f(U(0, 1))})
        if P(0.3) and feats.get("mesh"):
            ET.SubElement(d, "mesh", {"scale": _f([U(0.5, 2), U(0.5, 2), U(0.5, 2)])})
        ca = ET.SubElement(d, "default", {"class": "ca"})
        ga = {"rgba": _f(rng.random(4)), "condim": pick(["1", "3", "4", "6"]), "solimp": _f([U(0.8, 0.9), U(0.9, 0.99), U(1e-4, 1e-2)])}
        if P(0.5):
            ga["margin"] = _f(U(0.001, 0.03))
            if P(0.5):
                ga["gap"] = _f(U(0.0001, 0.001))
        if P(0.4):
            ga["density"] = _f(U(200, 3000))
        ET.SubElement(ca, "geom", ga)
        ja = {"stiffness": _f(U(0.1, 10)), "frictionloss": _f(U(0.01, 0.5))}
        if P(0.5):
            ja["springref"] = _f(U(-20, 20) if deg else U(-0.3, 0.3))
        ET.SubElement(ca, "joint", ja)
        if P(0.5):
            ET.SubElement(ca, "site", {"type": pick(["sphere", "box", "capsule"]), "size": _f([U(0.01, 0.05), U(0.01, 0.05), U(0.01, 0.05)])})
        cb = ET.SubElement(ca, "default", {"class": "cb"})
        ET.SubElement(cb, "geom", {"friction": _f([U(0.2, 1.5)]), "solref": _f([U(0.005, 0.05), U(0.5, 1.5)]), "group": str(int(rng.integers(0, 5)))})
        ET.SubElement(cb, "joint", {"damping": _f(U(0.01, 1)), "solreflimit": _f([U(0.005, 0.05), U(0.5, 1.5)])})
        if P(0.5):
            ET.SubElement(cb, "general", {"gainprm": _f([U(0.5, 5)]), "biastype": "affine", "biasprm": _f([0, -U(0.5, 5), -U(0.05, 0.5)])})
        cc = ET.SubElement(d, "default", {"class": "cc"})
        ET.SubElement(cc, "geom", {"priority": str(int(rng.integers(0, 3))), "solmix": _f(U(0.2, 5))})
        if P(0.5):
            ET.SubElement(cc, "camera", {"ipd": _f(U(0.04, 0.1))})
        cls = ["ca", "cb", "cc"]
        for b in bodies:
            if P(0.3):
                b.set("childclass", pick(cls))
        for tag in ("geom", "joint", "site", "camera"):
            for e in wb.iter(tag):
                if P(0.3):
                    e.set("class", pick(cls))
        for sec, kinds in (("actuator", None), ("tendon", None), ("equality", None)):
            s = root.find(sec)
            if s is not None:
                for e in list(s):
                    if P(0.3) and e.tag != "muscle" and e.tag != "adhesion":
                        e.set("class", pick(cls))
        tags.add("defaults_nested")

    # ---- explicit tri-state attributes that contradict (or merely repeat) what the reader infers from the range
    if feats.get("tristate"):
        trng = np.random.default_rng(int(feats["tristate"]))     # own stream: the rest of the decoration does not depend on this block
        P = lambda p: bool(trng.random() < p)
        pick = lambda seq: seq[int(trng.integers(0, len(seq)))]
        pinned_j = {e.get("joint") for sec in root.iter("sensor") for e in sec if e.tag.startswith("jointlimit")}
        pinned_t = {e.get("tendon") for sec in root.iter("sensor") for e in sec if e.tag.startswith("tendonlimit")}
        n = 0
        for j in wb.iter("joint"):
            if j.get("type") == "free" or j.get("name") in pinned_j:
                continue
            if j.get("limited") == "true" and j.get("range") and P(0.35):
                j.set("limited", "false")            # range stays: explicit false against an inferred true
                n += 1
            elif j.get("limited") is None and P(0.3):
                j.set("limited", "false")            # repeats the inference unless a default class supplies a range
                n += 1
            if j.get("type") in ("hinge", "slide", None) and j.get("actuatorfrcrange") and P(0.4):
                j.set("actuatorfrclimited", pick(["true", "false"]))
                n += 1
        ten = root.find("tendon")
        for t in (list(ten) if ten is not None else []):
            if t.get("name") in pinned_t:
                continue
            if t.get("limited") == "true" and t.get("range") and P(0.35):
                t.set("limited", "false")
                n += 1
            elif t.get("limited") is None and P(0.3):
                t.set("limited", "false")
                n += 1
        act = root.find("actuator")
        for a in (list(act) if act is not None else []):
            for lim, rg in (("ctrllimited", "ctrlrange"), ("forcelimited", "forcerange"), ("actlimited", "actrange")):
                if a.tag in ("muscle", "adhesion", "damper") and lim == "ctrllimited":
                    continue             # these shortcuts set ctrllimited themselves
                if a.get(lim) == "true" and a.get(rg) and P(0.35):
                    a.set(lim, "false")
                    n += 1
        if n:
            tags.add("tristate_flipped")
        P = lambda p: bool(rng.random() < p)

        def pick(seq):
            return seq[int(rng.integers(0, len(seq)))]

    # ---- frames (named / unnamed / childclass) and replicate
    if feats.get("frames"):
        interleave = bool(feats.get("frame_interleave"))
        nfr = 0
        for b in [wb] + bodies:
            if not P(0.5):
                continue
            kids = [e for e in list(b) if e.tag in ("geom", "site", "camera", "light", "body") or (e.tag == "joint" and interleave and e.get("type") != "free")]
            if not kids:
                continue
            k = int(rng.integers(1, min(3, len(kids)) + 1))
            if interleave:
                chosen = [kids[int(i)] for i in sorted(rng.choice(len(kids), size=k, replace=False))]
            else:
                # order-safe layout: for every kind, the wrapped elements are the LAST ones of that kind in the body
                e = pick(kids)
                same = [x for x in list(b) if x.tag == e.tag]
                chosen = same[same.index(e):]
            fa = {"pos": _f(rng.normal(size=3) * 0.2)}
            r = rng.random()
            if r < 0.4:
                fa["quat"] = _f(model.rquat(rng))
            elif r < 0.7:
                fa["euler"] = _f(rng.uniform(-3, 3, size=3) * (57.0 if comp.get("angle", "degree") == "degree" else 1.0))
            if P(0.4):
                fa["name"] = "fr%d" % nfr
                tags.add("frame_named")
            else:
                tags.add("frame_unnamed")
            if feats.get("defaults") and P(0.3):
                fa["childclass"] = pick(["ca", "cb", "cc"])
                tags.add("frame_childclass")
            fr = ET.Element("frame", fa)
            pos = list(b).index(chosen[0]) if interleave else len(list(b))
            for e in chosen:
                b.remove(e)
                fr.append(e)
            b.insert(min(pos, len(list(b))), fr)
            if not interleave:
                # keep bodies last so that direct children of other kinds stay before the frame
                pass
            nfr += 1
            if P(0.3):
                # nested frame
                inner = ET.Element("frame", {"pos": _f(rng.normal(size=3) * 0.1), "quat": _f(model.rquat(rng))})
                sub = [x for x in list(fr) if x.tag in ("geom", "site")][-1:]
                for e in sub:
                    fr.remove(e)
                    inner.append(e)
                if len(inner):
                    fr.append(inner)
                    tags.add("frame_nested")
        tags.add("frame_interleaved" if interleave else "frame_ordersafe")
    if feats.get("replicate"):
        b = pick([wb] + bodies)
        rp = ET.SubElement(b, "replicate", {"count": str(int(rng.integers(2, 5))), "offset": _f(rng.normal(size=3) * 0.1), "euler": _f([0, 0, U(5, 60) * (1.0 if comp.get("angle", "degree") == "degree" else 0.0174)])})
        if P(0.5):
            rp.set("sep", "_")
        ET.SubElement(rp, "geom", {"name": "rg", "type": "sphere", "size": _f(U(0.02, 0.08)), "pos": _f([U(0.2, 0.5), 0, 0]), "contype": "0", "conaffinity": "0"})
        if P(0.5):
            ET.SubElement(rp, "site", {"name": "rs", "pos": _f([U(0.2, 0.5), 0, 0.1])})
        if P(0.5):
            rb = ET.SubElement(rp, "body", {"name": "rb", "pos": _f([0, U(0.2, 0.5), 0.3])})
            ET.SubElement(rb, "joint", {"name": "rj", "type": "hinge", "axis": "0 1 0"})
            ET.SubElement(rb, "geom", {"name": "rbg", "type": "capsule", "size": _f([0.03, 0.1]), "contype": "0", "conaffinity": "0"})
            tags.add("replicate_body")
        tags.add("replicate")

    # ---- custom
    if feats.get("custom"):
        c = ET.SubElement(root, "custom")
        for i in range(int(rng.integers(1, 4))):
            n = int(rng.integers(1, 6))
            a = {"name": "num%d" % i, "data": _f(rng.normal(size=n) * 10 ** U(-3, 3))}
            if P(0.4):
                a["size"] = str(n + int(rng.integers(0, 3)))
            ET.SubElement(c, "numeric", a)
        for i in range(int(rng.integers(0, 3))):
            ET.SubElement(c, "text", {"name": "txt%d" % i, "data": pick(["hello world", "a<b & c>d \"q\"", "x", "tab\tsep", "  padded  "])})
        gs = [g.get("name") for g in wb.iter("geom") if g.get("name") and g.get("name") not in ("rg", "rbg")]
        bs = [b.get("name") for b in bodies if b.get("name")]
        if gs and bs and P(0.7):
            t = ET.SubElement(c, "tuple", {"name": "tup0"})
            for _ in range(int(rng.integers(1, 4))):
                if P(0.5):
                    ET.SubElement(t, "element", {"objtype": "geom", "objname": pick(gs), "prm": _f(U(-2, 2))})
                else:
                    ET.SubElement(t, "element", {"objtype": "body", "objname": pick(bs)})
            tags.add("tuple")
        tags.add("custom")
    return ET.tostring(root, encoding="unicode"), tags


def add_keyframes(xml, m, rng, with_default_key=False):
    root = ET.fromstring(xml)
    nq, nv, na, nu, nm = m.n("nq"), m.n("nv"), m.n("na"), m.n("nu"), m.n("nmocap")
    k = ET.SubElement(root, "keyframe")
    nk = int(rng.integers(1, 4))
    for i in range(nk):
        a = {}
        if rng.random() < 0.7:
            a["name"] = "key%d" % i
        if rng.random() < 0.5:
            a["time"] = _f(rng.uniform(0, 5))
        if nq and rng.random() < 0.8:
            a["qpos"] = _f(m["qpos0"] + rng.normal(size=nq) * 0.1)
        if nv and rng.random() < 0.6:
            a["qvel"] = _f(rng.normal(size=nv))
        if na and rng.random() < 0.6:
            a["act"] = _f(rng.uniform(0, 0.5, size=na))
        if nu and rng.random() < 0.6:
            a["ctrl"] = _f(rng.uniform(-0.2, 0.2, size=nu))
        if nm and rng.random() < 0.6:
            a["mpos"] = _f(rng.normal(size=3 * nm))
            a["mquat"] = _f(np.concatenate([model.rquat(rng) for _ in range(nm)]))
        if with_default_key and i == 0:
            a = {}
        ET.SubElement(k, "key", a)
    return ET.tostring(root, encoding="unicode")


# ------------------------------------------------------------------------------------------- spec-API models

def spec_ops(rng):
    """op-list for native/h_spec.c: a small tree built only through mjs_add*/mjs_set* calls."""
    ops = []
    U = lambda lo, hi: float(rng.uniform(lo, hi))
    q = lambda: " ".join(repr(float(v)) for v in model.rquat(rng))
    v3 = lambda s=1.0: " ".join(repr(float(v)) for v in rng.normal(size=3) * s)
    ops.append("option %r %r %r %r %d %d" % (U(0.001, 0.01), U(-1, 1), U(-1, 1), U(-11, -5), int(rng.integers(0, 4)), int(rng.integers(0, 2))))
    ops.append("default dmain - %r %r %r %r" % (U(0, 1), U(0, 1), U(0, 1), U(0.1, 2)))
    ops.append("default dsub dmain %r %r %r %r" % (U(0, 1), U(0, 1), U(0, 1), U(0.1, 2)))
    if rng.random() < 0.7:
        ops.append("texture tex0 %d %d %d %r %r %r" % (int(rng.integers(0, 2)) * 0, int(rng.integers(1, 4)), int(rng.integers(2, 12)), U(0, 1), U(0, 1), U(0, 1)))
        ops.append("material mat0 tex0 %r %r %r %r" % (U(0, 1), U(0, 1), U(0, 1), U(0, 1)))
    nb = int(rng.integers(1, 6))
    names = ["world"]
    nj = 0
    sites = []
    geoms = []
    hinges = []
    for i in range(nb):
        par_ = names[int(rng.integers(0, len(names)))]
        nm = "sb%d" % i
        frame = "-"
        if rng.random() < 0.3:
            frame = "sf%d" % i
            ops.append("frame %s %s %s %s" % (par_, frame if rng.random() < 0.5 else "_", v3(0.3), q()))
            if ops[-1].split()[2] == "_":
                frame = "_last"
        ops.append("body %s %s %s %s %s %r" % (par_, nm, frame, v3(0.4), q(), U(0, 1) if rng.random() < 0.2 else 0.0))
        names.append(nm)
        jt = int(rng.choice([0, 1, 2, 3, 3, 3, -1])) if par_ == "world" else int(rng.choice([1, 2, 3, 3, 3, -1]))
        if jt >= 0:
            lim = rng.random() < 0.4 and jt in (2, 3)
            ops.append("joint %s sj%d %d %s %s %r %r %d %r %r" % (nm, nj, jt, v3(0.05), v3(), U(0, 1), U(0, 0.1), int(lim), -U(0.1, 1), U(0.1, 1)))
            if jt in (2, 3):
                hinges.append("sj%d" % nj)
            nj += 1
        for g in range(int(rng.integers(1, 3))):
            gt = int(rng.choice([2, 3, 4, 5, 6]))
            gn = "sg%d_%d" % (i, g)
            cls = ["-", "dmain", "dsub"][int(rng.integers(0, 3))]
            nsz = {2: 1, 3: 2, 4: 3, 5: 2, 6: 3}[gt]  # size components the type does not use are left at 0 (they are not written)
            sz = [U(0.03, 0.2) if k < nsz else 0.0 for k in range(3)]
            ops.append("geom %s %s %s %d %r %r %r %s %s %r %r %s" % (nm, gn, cls, gt, sz[0], sz[1], sz[2], v3(0.1), q(), U(0, 0.02), U(100, 2000),
                                                                   "mat0" if ("material mat0" in " ".join(ops) and rng.random() < 0.4) else "-"))
            geoms.append((gn, nm))
        if rng.random() < 0.7:
            ops.append("site %s ss%d %s %s %r" % (nm, i, v3(0.1), q(), U(0.005, 0.05)))
            sites.append("ss%d" % i)
        if rng.random() < 0.3:
            ops.append("camera %s sc%d %s %s %r" % (nm, i, v3(0.3), q(), U(20, 90)))
        if rng.random() < 0.2:
            ops.append("light %s sl%d %s %s" % (nm, i, v3(0.3), v3()))
    for k, jn in enumerate(hinges):
        r = rng.random()
        if r < 0.3:
            ops.append("motor sa%d %s %r" % (k, jn, U(0.5, 3)))
        elif r < 0.6:
            ops.append("position sa%d %s %r %r" % (k, jn, U(1, 50), U(0.1, 2)))
    if len(sites) >= 2 and rng.random() < 0.6:
        ops.append("tendon st0 %s %s %r %r" % (sites[0], sites[1], U(0, 5), U(0, 1)))
    if len(hinges) >= 2 and rng.random() < 0.6:
        ops.append("fixedtendon st1 %s %r %s %r" % (hinges[0], U(-2, 2), hinges[1], U(-2, 2)))
    if len(names) >= 3 and rng.random() < 0.5:
        ops.append("weld se0 %s %s %r" % (names[1], names[2], U(0.1, 2)))
    if len(names) >= 3 and rng.random() < 0.4:
        ops.append("exclude sx0 %s %s" % (names[1], names[2]))
    prs = [(a, b) for (a, ba) in geoms for (b, bb) in geoms if a < b and ba != bb]
    if prs and rng.random() < 0.5:
        a, b = prs[int(rng.integers(0, len(prs)))]
        ops.append("pair sp0 %s %s %d %r" % (a, b, int(rng.choice([1, 3, 4, 6])), U(0, 0.05)))
    if sites and rng.random() < 0.6:
        ops.append("sensor sx_acc %d 6 %s %r" % (E.mjSENS_ACCELEROMETER, sites[0], U(0, 5)))
    if hinges and rng.random() < 0.6:
        ops.append("sensor sx_jp %d 3 %s %r" % (E.mjSENS_JOINTPOS, hinges[0], 0.0))
    if rng.random() < 0.6:
        n = int(rng.integers(1, 5))
        ops.append("numeric sn0 %d %s" % (n, " ".join(repr(float(v)) for v in rng.normal(size=n))))
    if rng.random() < 0.4:
        ops.append("text stx0 spec_built_text")
    if geoms and rng.random() < 0.4:
        ops.append("tuple stu0 %s %r" % (geoms[0][0], U(-1, 1)))
    if rng.random() < 0.5:
        ops.append("key sk0 %r" % U(0, 3))
    return ops


_HSPEC = {}


def _hspec(flavour="rel"):
    if flavour not in _HSPEC:
        _HSPEC[flavour] = build.exe(flavour, "h_spec", ["h_spec.c"])
    return _HSPEC[flavour]


# ------------------------------------------------------------------------------------------- worker

def _parse_file(L, path):
    err = C.create_string_buffer(2000)
    sp = L.call("mj_parseXML", path, None, err, 2000, ret="ptr")
    if not sp:
        raise drv.MjError(err.value.decode(errors="replace"))
    return drv.Handle(L, sp, "mj_deleteSpec")


def build_case(L, c):
    """-> (spec|None, m1, text_by_digits|None, name, tags, srcinfo)"""
    if c["kind"] == "corpus":
        path = str(build.REPO / c["path"])
        os.chdir(os.path.dirname(path))
        src = open(path, errors="replace").read()
        spec = _parse_file(L, path)
        return spec, L.compile(spec), c["path"], {"corpus"}, src
    if c["kind"] == "xml":
        spec = L.parse_xml_string(c["xml"])
        return spec, L.compile(spec), "xml:" + c.get("label", ""), set(c.get("tags", ())), c["xml"]
    if c["kind"] == "gen":
        rng = np.random.default_rng(c["mseed"])
        xml, tags = model.gen_profile(rng, c.get("profile", "rich"), keyframes=0, explicit_inertial=0.3)
        xml, t2 = decorate(xml, rng, c["feats"])
        tags = set(t for t in tags if t.startswith(("act_", "eq_", "tendon_", "orient_", "mocap", "pair", "exclude", "fullinertia", "trn_"))) | t2
        spec = L.parse_xml_string(xml)
        m = L.compile(spec)
        if c["feats"].get("keyframes") and not c["feats"].get("replicate"):  # <replicate> re-validates keyframes against the replicated sub-model
            xml = add_keyframes(xml, m, rng, with_default_key=c["feats"].get("default_key", False))
            m.free()
            spec.free()
            spec = L.parse_xml_string(xml)
            m = L.compile(spec)
            tags.add("keyframes")
            if c["feats"].get("default_key"):
                tags.add("keyframe_all_default")
        return spec, m, "gen:%d" % c["mseed"], tags, xml
    if c["kind"] in ("tri", "tcond"):
        rng = np.random.default_rng(c["mseed"])
        xml, tags, counts = (mjcf_cond.gen_tristate if c["kind"] == "tri" else mjcf_cond.gen_typecond)(rng)
        c["_gen_counts"] = counts
        spec = L.parse_xml_string(xml)
        return spec, L.compile(spec), "%s:%d" % (c["kind"], c["mseed"]), set(tags), xml
    raise ValueError(c["kind"])


_NUM = re.compile(r"(?<![\w.])-?\d+\.?\d*(?:[eE][-+]?\d+)?(?![\w.])")


def _canon(t):
    """numbers rounded to 11 significant digits: an integer-snapped quaternion component is re-normalised on every
    generation, which moves the small components by ~1e-21 each time"""
    return _NUM.sub(lambda mo: "%.11g" % float(mo.group(0)), t)


def _lines(t):
    return sorted(l.strip() for l in _canon(t).splitlines() if l.strip())


# ------------------------------------------------------------------------------------------- classification
# A violation is relabelled with the signature of a listed finding ONLY when the mechanism is confirmed for the case at
# hand by a counterfactual (repair the saved text / the source and recompile) or by a structural test on the arrays;
# everything that is not confirmed keeps the generic signature roundtrip-differs:<class>:<field>.

_VEC_ATTR = re.compile(r'\b(vertex|normal|texcoord|elevation|vertweight|nodecoord)="([^"]*)"')


def six_digit_vectors(text):
    """True if the saved text carries a data vector (mesh/flex/skin/hfield) - these go through VectorToString /
    Vector2String, which print with the stream default of 6 significant digits whatever the precision setting"""
    return bool(_VEC_ATTR.search(text))


def src_flags(src):
    """compiler attributes of the source that the writer is known not to emit, with their EFFECTIVE values only:
    settotalmass <= 0 (disabled, the default -1) and inertiagrouprange = "0 mjNGROUP-1" (the default) change nothing"""
    out = {}
    for mo in re.finditer(r'\bsettotalmass\s*=\s*"([^"]*)"', src):
        try:
            if float(mo.group(1)) > 0:
                out["settotalmass"] = mo.group(1).strip()
            else:
                out.pop("settotalmass", None)
        except ValueError:
            pass
    for mo in re.finditer(r'\binertiagrouprange\s*=\s*"([^"]*)"', src):
        try:
            v = [int(float(x)) for x in mo.group(1).split()]
        except ValueError:
            continue
        if len(v) == 2 and v != [0, E.mjNGROUP - 1]:
            out["inertiagrouprange"] = "%d %d" % tuple(v)
        else:
            out.pop("inertiagrouprange", None)
    if re.search(r'\bfusestatic\s*=\s*"true"', src):
        out["fusestatic"] = "true"
    return out


def insert_compiler_attrs(text, attrs):
    """saved text with the given attributes added to its <compiler> element (created if absent)"""
    add = "".join(' %s="%s"' % kv for kv in attrs.items())
    mo = re.search(r"<compiler\b[^>]*?(/?)>", text)
    if mo:
        cut = mo.end() - len(mo.group(1)) - 1
        return text[:cut] + add + text[cut:]
    mo = re.search(r"<mujoco\b[^>]*>", text)
    return text[:mo.end()] + "\n  <compiler%s/>" % add + text[mo.end():]


_TAG2FAM = {"body": "body", "joint": "joint", "freejoint": "joint", "geom": "geom", "site": "site", "camera": "camera", "light": "light"}
NESTABLE = ("body", "joint", "geom", "site", "camera", "light")


def nesting(src, depth=0):
    """(families, names): families of which the SOURCE really has an element below a <frame>/<replicate>/<attach> (what is
    inside a nested body is nested too) and the names of those elements; <include>d files are followed (relative to the
    cwd = directory of the main file). (None, None) if the source cannot be parsed."""
    try:
        root = ET.fromstring(src)
    except (ET.ParseError, ValueError):
        return None, None
    fams, names = set(), set()

    def walk(e, inside, depth):
        for ch in e:
            if ch.tag == "include" and depth < 4 and ch.get("file"):
                try:
                    walk(ET.fromstring(open(ch.get("file"), errors="replace").read()), inside, depth + 1)
                except (OSError, ET.ParseError, ValueError):
                    pass
                continue
            if ch.tag == "attach":
                fams.update(NESTABLE)  # the attached sub-tree comes from another model; all of it sits under the attachment frame
            if inside and ch.tag in _TAG2FAM:
                fams.add(_TAG2FAM[ch.tag])
                if ch.get("name"):
                    names.add(ch.get("name"))
            walk(ch, inside or ch.tag in ("frame", "replicate"), depth)
    walk(root, False, 0)
    return fams, names


# ---- element permutations

_PREFIX = {"body": "body_", "joint": "jnt_", "geom": "geom_", "site": "site_", "camera": "cam_", "light": "light_"}
_OBJ2FAM = {1: "body", 2: "body", 3: "joint", 5: "geom", 6: "site", 7: "camera", 8: "light"}
_WRAP2FAM = {1: "joint", 3: "site", 4: "geom", 5: "geom"}
_TRN2FAM = {0: "joint", 1: "joint", 2: "site", 4: "site", 5: "body"}
_REF_SIMPLE = {"geom_bodyid": "body", "jnt_bodyid": "body", "site_bodyid": "body", "cam_bodyid": "body", "light_bodyid": "body",
               "dof_bodyid": "body", "body_parentid": "body", "body_rootid": "body", "body_weldid": "body",
               "cam_targetbodyid": "body", "light_targetbodyid": "body", "dof_jntid": "joint", "pair_geom1": "geom", "pair_geom2": "geom"}
_REF_TYPED = {"sensor_objid": ("sensor_objtype", _OBJ2FAM), "sensor_refid": ("sensor_reftype", _OBJ2FAM),
              "eq_obj1id": ("eq_objtype", _OBJ2FAM), "eq_obj2id": ("eq_objtype", _OBJ2FAM), "tuple_objid": ("tuple_objtype", _OBJ2FAM),
              "wrap_objid": ("wrap_type", _WRAP2FAM), "actuator_trnid": ("actuator_trntype", _TRN2FAM)}
# arrays that only describe the memory layout (addresses, tree numbering): they follow from the element order
_LAYOUT = re.compile(r"adr$|^body_(treeid|mocapid)$|^names$|^names_map$")
_OBJ_COUNT = {"mjOBJ_BODY": "nbody", "mjOBJ_JOINT": "njnt", "mjOBJ_GEOM": "ngeom", "mjOBJ_SITE": "nsite", "mjOBJ_CAMERA": "ncam",
              "mjOBJ_LIGHT": "nlight", "mjOBJ_FLEX": "nflex", "mjOBJ_MESH": "nmesh", "mjOBJ_SKIN": "nskin", "mjOBJ_HFIELD": "nhfield",
              "mjOBJ_TEXTURE": "ntex", "mjOBJ_MATERIAL": "nmat", "mjOBJ_PAIR": "npair", "mjOBJ_EXCLUDE": "nexclude",
              "mjOBJ_EQUALITY": "neq", "mjOBJ_TENDON": "ntendon", "mjOBJ_ACTUATOR": "nu", "mjOBJ_SENSOR": "nsensor",
              "mjOBJ_NUMERIC": "nnumeric", "mjOBJ_TEXT": "ntext", "mjOBJ_TUPLE": "ntuple", "mjOBJ_KEY": "nkey", "mjOBJ_PLUGIN": "nplugin"}


class Permuted:
    """m1 renumbered the way m2 numbers its elements: perms[fam][i] = id in m1 of the element that has id i in m2.
    Arrays of a permuted family are re-indexed; id columns that point into a permuted family are translated."""

    def __init__(self, m, perms):
        self.m = m
        self.perms = {f: np.asarray(p, dtype=np.int64) for f, p in perms.items()}
        self.inv = {f: np.argsort(p) for f, p in self.perms.items()}  # inv[id in m1] = id in m2
        self.opt = m.opt

    def sizes(self):
        return self.m.sizes()

    def fields(self):
        return self.m.fields()

    def n(self, k):
        return self.m.n(k)

    def stat_bytes(self):
        return self.m.stat_bytes()

    def opt_bytes(self):
        return self.m.opt_bytes()

    def vis_bytes(self):
        return self.m.vis_bytes()

    def name(self, obj, i):
        fam = _OBJ2FAM.get(obj)
        if fam in self.perms and obj != 2:
            i = int(self.perms[fam][i])
        return self.m.name(obj, i)

    def _tr(self, fam, v):
        v = np.array(v, copy=True)
        if fam in self.inv:
            ok = (v >= 0) & (v < len(self.inv[fam]))
            v[ok] = self.inv[fam][v[ok]]
        return v

    def __getitem__(self, k):
        a = self.m[k]
        for fam, pre in _PREFIX.items():
            if fam in self.perms and k.startswith(pre) and a.shape[0] == len(self.perms[fam]):
                a = a[self.perms[fam]]
                break
        if k in _REF_SIMPLE:
            a = self._tr(_REF_SIMPLE[k], a)
        elif k in _REF_TYPED:
            tarr, table = _REF_TYPED[k]
            t = self.m[tarr]
            a = np.array(a, copy=True)
            for code, fam in table.items():
                if fam in self.inv:
                    rows = t == code
                    if rows.any():
                        a[rows] = self._tr(fam, a[rows])
        elif k == "bvh_nodeid" and "geom" in self.inv and "body" not in self.inv:
            a = np.array(a, copy=True)
            adr, num = self.m["body_bvhadr"], self.m["body_bvhnum"]
            for b in range(len(adr)):
                if adr[b] >= 0 and num[b] > 0:
                    a[adr[b]:adr[b] + num[b]] = self._tr("geom", a[adr[b]:adr[b] + num[b]])
        return a


def _fp_rows(m, fam, digits, tr=None):
    cnt, obj, arrs = FAMILIES[fam]
    rows = []
    for i in range(m.n(cnt)):
        key = [m.name(obj, i) or ""]
        for a in arrs:
            v = np.atleast_1d(m[a][i])
            if tr is not None and a in _REF_SIMPLE:
                v = tr(_REF_SIMPLE[a], v)
            key.append((np.round(v.astype(np.float64), min(9, digits - 3)) + 0.0).tobytes())
        rows.append(tuple(key))
    return rows


def infer_perm(m1, m2, fam, digits, perms):
    """p with: element i of m2 is element p[i] of m1 (matched on name + fingerprint, body ids translated through the
    body permutation found before); None if the two are not a permutation of each other"""
    tr = Permuted(m1, {k: v for k, v in perms.items() if k == "body"})._tr if "body" in perms else None
    if fam == "body":
        n1 = [m1.name(1, i) or "" for i in range(m1.n("nbody"))]
        n2 = [m2.name(1, i) or "" for i in range(m2.n("nbody"))]
        if len(set(n1)) == len(n1) and sorted(n1) == sorted(n2) and all(n1[1:]):
            pos = {nm: i for i, nm in enumerate(n1)}
            return [pos[nm] for nm in n2]
        return None  # unnamed bodies: parent ids cannot be translated without the permutation itself
    r1, r2 = _fp_rows(m1, fam, digits, tr), _fp_rows(m2, fam, digits)
    for mode in ("name+fingerprint", "name"):
        if mode == "name":
            k1, k2 = [r[0] for r in r1], [r[0] for r in r2]
            if not all(k1):
                break  # name-only matching needs every element named
        else:
            k1, k2 = r1, r2
        if sorted(k1) != sorted(k2):
            continue
        slots = {}
        for i, k in enumerate(k1):
            slots.setdefault(k, []).append(i)
        return [slots[k].pop(0) for k in k2]
    return None


def _names_equal(pm1, m2):
    for en, cnt in _OBJ_COUNT.items():
        obj = getattr(E, en, None)
        if obj is None or cnt not in m2.sizes():
            continue
        for i in range(m2.n(cnt)):
            if pm1.name(obj, i) != m2.name(obj, i):
                return False
    return True


def confirm_order(m1, m2, orders, digits, align, nested, t1="", ign=()):
    """-> (confirmed families, unconfirmed families, diffs that remain once m1 is renumbered like m2 | None, renumbered m1).
    A family is confirmed when (a) the source nests an element of it in a frame/replicate/attach and (b) every array of
    the family is equal in m1 and m2 once m1's elements are renumbered by the inferred permutation."""
    perms = {}
    bad = []
    for fam in sorted(orders, key=lambda f: (f != "body", f)):
        p = infer_perm(m1, m2, fam, digits, perms) if (fam in NESTABLE and nested and fam in nested) else None
        if p is None:
            bad.append(fam)
        else:
            perms[fam] = p
    if not perms:
        return [], bad, None, None
    pm1 = Permuted(m1, perms)
    d, _ = compare(pm1, m2, digits, align=align, ignore_sizes=ign)
    names_ok = _names_equal(pm1, m2)
    _, v6 = confirm_vec6(pm1, m2, t1, d, digits, align, ign)  # differences of the renumbered model that are 6-digit data vector effects
    heavy = "body" in perms or "joint" in perms   # the dof/qpos/tree layout follows the body and joint order
    rest, ok = [], []
    for fam in perms:
        pre = _PREFIX[fam]
        own = [x for x in d if x[1].startswith(pre) and not _LAYOUT.search(x[1]) and x not in v6]
        (bad if (own or not names_ok) else ok).append(fam)
    for x in d:
        k = x[1]
        if any(k.startswith(_PREFIX[f]) for f in ok) and not any(k.startswith(_PREFIX[f]) for f in bad):
            continue  # layout arrays of a confirmed family
        if names_ok and re.search(r"^names$|^names_map$|^name_\w+adr$", k):
            continue
        rest.append(x)
    return ok, bad, (None if heavy else rest), pm1


# ---- 6-digit data vectors

VEC6_ROOTS = {"mesh": ("mesh_vert", "mesh_normal", "mesh_texcoord"), "hfield": ("hfield_data",),
              "flex": ("flex_vert", "flex_vert0", "flex_texcoord"), "skin": ("skin_vert", "skin_texcoord", "skin_bonevertweight")}
_VEC6_TEXT = {"mesh": r'<mesh\b[^>]*\b(vertex|normal|texcoord)="', "hfield": r'<hfield\b[^>]*\belevation="',
              "flex": r'<flex\b[^>]*\b(vertex|texcoord)="', "skin": r'<skin\b[^>]*\b(vertex|texcoord)="|<bone\b[^>]*\bvertweight="'}
# arrays the compiler computes from those vectors. rows: geom_* only for geoms that use a mesh/hfield asset, body_* only for
# bodies that carry such a geom or a flex vertex; the others are model-wide quantities downstream of the body inertias
VEC6_ASSET = {"mesh_pos", "mesh_quat", "mesh_scale", "mesh_polynormal", "bvh_aabb", "bvh_nodeid", "bvh_child", "bvh_depth",
              "flexedge_length0", "flexedge_invweight0", "flex_vertmetric", "flex_stiffness", "flex_bending", "flex_node", "flex_node0",
              "flex_radius", "flex_size", "efm0_L"}
VEC6_GEOMROWS = {"geom_pos", "geom_quat", "geom_size", "geom_aabb", "geom_rbound"}
VEC6_BODYROWS = {"body_mass", "body_inertia", "body_ipos", "body_iquat"}
VEC6_GLOBAL = {"body_inertia_tensor", "body_subtreemass", "body_invweight0", "dof_invweight0", "dof_M0", "dof_length", "tendon_invweight0", "actuator_acc0", "stat",
               "cam_pos0", "cam_poscom0", "cam_mat0", "light_pos0", "light_poscom0", "light_dir0"}


VEC6_CAP = 1e-3  # 6-digit rounding is 5e-6 relative per value; the largest amplification seen in derived arrays is ~15x (7e-5)


def _rows_flagged(k, a, b, digits, extent):
    """rows of array k in which compare() would flag an entry (same per-class rules, evaluated row by row)"""
    full = digits >= 17
    rtol = 0.0 if full else 10.0 ** (-(digits - 1))
    a2, b2 = a.reshape(a.shape[0], -1).astype(np.float64), b.reshape(b.shape[0], -1).astype(np.float64)
    ad = np.abs(a2 - b2)
    if k in UNIT:
        bad = ad > (TOL_UNIT if full else 4 * rtol)
    elif k in DERIVED:
        tol = TOL_DER if full else 1e3 * rtol
        if a.dtype == np.float32:
            tol = max(tol, 5e-7)
        S = max(float(np.abs(a2).max()) if a2.size else 0.0, float(np.abs(b2).max()) if b2.size else 0.0)
        if re.search(r"pos|aabb|rbound|vert|node|length", k):
            S = max(S, extent)
        bad = ad > tol * np.maximum(np.abs(a2), np.abs(b2)) + tol * S + 1e-25
    else:
        snap = (ad < SNAP) & (b2 == np.round(b2)) & (np.abs(b2) < 2 ** 31)
        eps = 6e-8 if a.dtype == np.float32 else 0.0
        bad = ((ad > 0) if full else (ad > (rtol + eps) * np.abs(a2))) & ~snap
    return bad.any(axis=1)


def confirm_vec6(m1, m2, t1, diffs, digits, align, ign=()):
    """-> (roots, confirmed diffs). A diff is attributed to the 6-digit data vectors only if
    (1) the saved text carries such a vector for an asset kind whose own arrays differ bit-wise between m1 and m2,
    (2) the differing array is one of those arrays or is computed from them (explicit list; geom/body rows must be rows
        of geoms/bodies that use such an asset),
    (3) the difference vanishes when the same two models are compared under the 6-digit printed-precision rules AND its
        magnitude (normwise relative for derived arrays, element-wise relative for written ones, absolute for unit vectors)
        is at most VEC6_CAP, i.e. it is bounded by 6-digit rounding of the written values."""
    if digits <= 6:
        return [], []
    roots = []
    for kind, arrs in VEC6_ROOTS.items():
        if not re.search(_VEC6_TEXT[kind], t1):
            continue
        for a in arrs:
            if a in m1.fields() and m1[a].shape == m2[a].shape and m1[a].tobytes() != m2[a].tobytes():
                roots.append(kind)
                break
    if not roots:
        return [], []
    d6, _ = compare(m1, m2, 6, align=align, ignore_sizes=ign)
    f6 = {x[1] for x in d6}
    primary = {a for k in roots for a in VEC6_ROOTS[k]}
    gt = m1["geom_type"]
    assetgeom = np.isin(gt, (E.mjGEOM_MESH, E.mjGEOM_SDF, E.mjGEOM_HFIELD))
    assetbody = np.zeros(m1.n("nbody"), dtype=bool)
    assetbody[m1["geom_bodyid"][assetgeom]] = True
    if "flex" in roots and "flex_vertbodyid" in m1.fields():
        vb = m1["flex_vertbodyid"]
        assetbody[vb[vb >= 0]] = True
    sb = m1.stat_bytes()
    extent = float(np.frombuffer(sb, dtype=np.float64)[3]) if len(sb) >= 32 else 1.0
    ok = []
    for x in diffs:
        k = x[1]
        if k in f6 or x[0] in ("size", "opt", "vis"):
            continue
        if x[0] != "exact" and not (np.isfinite(x[3]) and x[3] <= VEC6_CAP):
            continue  # larger than 6-digit rounding of the source values can explain
        if k in primary or k in VEC6_ASSET or k in VEC6_GLOBAL:
            ok.append(x)
        elif k in VEC6_GEOMROWS or k in VEC6_BODYROWS:
            linked = assetgeom if k in VEC6_GEOMROWS else assetbody
            # every row that compare() flags must be a row of a geom/body that uses the asset
            if m1[k].shape == m2[k].shape and not (_rows_flagged(k, m1[k], m2[k], digits, extent) & ~linked).any():
                ok.append(x)
    return (roots, ok) if ok else ([], [])


# ---- fusestatic counterfactual

def fusestatic_counterfactual(L, src, digits):
    """the same source with fusestatic switched off, saved and recompiled -> (sizes of first compile, sizes of the reload)
    or a string (error message of the reload) / None (the source itself does not compile that way)"""
    alt = re.sub(r'\bfusestatic\s*=\s*"true"', 'fusestatic="false"', src)
    try:
        sp = L.parse_xml_string(alt)
        ma = L.compile(sp)
    except drv.MjError:
        return None
    try:
        ta = L.save_xml_string(sp, precision=digits)
        sp2 = L.parse_xml_string(ta)
        mb = L.compile(sp2)
    except drv.MjError as e:
        ma.free()
        return str(e)
    r = (dict(ma.sizes()), dict(mb.sizes()))
    ma.free()
    mb.free()
    return r


# ---- fusestatic: reference ids resolved through the name->id maps that FuseStatic leaves stale

_STALE_FIELDS = {"pair": ("pair_geom1", "pair_geom2", "pair_signature"), "tuple": ("tuple_objid",), "sensor": ("sensor_objid", "sensor_refid")}
_OBJTYPE_TAGNAMES = {"body": 1, "xbody": 2, "joint": 3, "geom": 5, "site": 6, "camera": 7, "light": 8}


def _src_references(src):
    """what the SOURCE says: contact pairs as a sorted list of {geom1, geom2} name sets, tuple elements and sensor objects/references
    as ordered lists of (objtype code, name); None if the source cannot be parsed"""
    try:
        root = ET.fromstring(src)
    except (ET.ParseError, ValueError):
        return None
    pairs = sorted(tuple(sorted((e.get("geom1", ""), e.get("geom2", "")))) for c in root.iter("contact") for e in c if e.tag == "pair")
    tup = [(_OBJTYPE_TAGNAMES.get(e.get("objtype"), -1), e.get("objname")) for c in root.iter("custom") for t in c if t.tag == "tuple" for e in t]
    return {"pair": pairs, "tuple": tup}


def _model_references(m):
    g = lambda i: m.name(5, int(i)) or "#%d" % int(i)
    pairs = sorted(tuple(sorted((g(a), g(b)))) for a, b in zip(m["pair_geom1"], m["pair_geom2"]))
    tup = [(int(t), m.name(int(t), int(i)) if int(t) in _OBJTYPE_TAGNAMES.values() else None) for t, i in zip(m["tuple_objtype"], m["tuple_objid"])] \
        if m.n("ntuple") else []
    sens = [(int(t), m.name(int(t), int(i)) if int(t) in _OBJTYPE_TAGNAMES.values() and int(i) >= 0 else None, int(rt),
             m.name(int(rt), int(ri)) if int(rt) in _OBJTYPE_TAGNAMES.values() and int(ri) >= 0 else None)
            for t, i, rt, ri in zip(m["sensor_objtype"], m["sensor_objid"], m["sensor_reftype"], m["sensor_refid"])] if m.n("nsensor") else []
    return {"pair": pairs, "tuple": tup, "sensor": sens}


def confirm_fusestatic_stale_ids(L, src, m1, m2, diffs, digits, path, align, own, ign=()):
    """findings/C32-fusestatic-stale-reference-ids.md. -> {family: evidence} for the families (pair / tuple / sensor) whose id columns differ
    between the first compile and the reload and for which ALL of this holds on the case at hand:
    (1) the element names of every family are the same in m1 and m2 (same elements, same numbering), so the ids are comparable;
    (2) the names the reloaded model's ids point at are the ones the SOURCE names (pairs, tuples; for sensors: the names m2 points at are
        the names the same source points at when compiled WITHOUT fusestatic), while the first compile points at other elements;
    (3) counterfactual: the same source with fusestatic="false", saved the same way, round-trips without any difference in these columns."""
    fields = {d[1] for d in diffs}
    fams = [f for f, cols in _STALE_FIELDS.items() if fields & set(cols)]
    if not fams or src is None or not _names_equal(m1, m2):
        return {}
    ref = _src_references(src)
    if ref is None:
        return {}
    alt = re.sub(r'\bfusestatic\s*=\s*"true"', 'fusestatic="false"', src)
    r = _roundtrip_models(L, alt, digits, path)
    if r is None:
        return {}
    own.extend(r[:2])
    dn, _ = compare(r[0], r[1], digits, align=align, ignore_sizes=ign)
    if {d[1] for d in dn} & {c for cols in _STALE_FIELDS.values() for c in cols}:
        return {}
    ref["sensor"] = _model_references(r[0])["sensor"]      # sensor targets as resolved without fusestatic (ids differ there, names do not)
    r1, r2 = _model_references(m1), _model_references(m2)
    out = {}
    for f in fams:
        if r2[f] == ref[f] and r1[f] != ref[f]:
            wrong = [(a, b) for a, b in zip(r1[f], r2[f]) if a != b][:4]
            out[f] = {"first_compile_points_at": [str(a) for a, _ in wrong], "source_and_reload_name": [str(b) for _, b in wrong],
                      "same_source_without_fusestatic_round_trips": True}
    return out


_MASS_FIELDS = {"body_mass", "body_inertia", "body_inertia_tensor"}


def _mass_gone(before, after):
    """the mass differences of `before` are absent from `after` or at least 1000 times smaller (what may remain is the
    trace of another mechanism, which is then judged on its own), and `after` has no field that `before` did not have"""
    fb, fa = {d[1]: d[3] for d in before}, {d[1]: d[3] for d in after}
    if not set(fa) <= set(fb):
        return False
    for k in _MASS_FIELDS & set(fb):
        if k in fa and not (np.isfinite(fb[k]) and fa[k] <= 1e-3 * fb[k]):
            return False
    return True


def _strip_attrs(src, names):
    for a in names:
        src = re.sub(r'\s*\b%s\s*=\s*"[^"]*"' % a, "", src)
    return src


def _roundtrip_models(L, src, digits, path):
    """compile src, save it the same way as the case under test, recompile -> (m1, m2, text) | None"""
    try:
        sp = L.parse_xml_string(src)
        ma = L.compile(sp)
    except drv.MjError:
        return None
    try:
        if path == "copyback":
            L.call("mj_copyBack", sp, ma)
        ta = L.save_xml_string(sp, precision=digits)
        mb = L.compile(L.parse_xml_string(ta))
    except drv.MjError:
        ma.free()
        return None
    return ma, mb, ta


def confirm_compiler_attrs(L, src, t1, m1, m2, diffs, attrs, digits, path, align, own, ign=()):
    """Is the omission of settotalmass / inertiagrouprange from the saved text the cause of the mass differences?
    (R) text repair: the attribute(s), with the source's value, re-inserted into the saved <compiler> element; the recompiled
        model must show no mass difference against m1 any more and nothing new.
    (S) source counterfactual, tried when (R) does not settle it (after mj_copyBack the explicit <inertial>s are saved already
        scaled while geom-inferred ones are not, so re-scaling the saved text cannot reproduce m1): the same source WITHOUT the
        attribute(s), saved the same way, must round-trip without the mass differences (absent or 1000 times smaller: a trace
        of another mechanism, e.g. a 6-digit mesh, is a genuine difference of that round trip and is judged there) and with
        nothing new.
    -> (attributes that matter, how, m1', m2', text', remaining diffs) with the pair of models on which everything else is
    judged (as if only this defect had been repaired), or None if neither confirms."""
    def keep_only(a_keep, mode):
        """does attribute a_keep alone still produce the mass differences?"""
        try:
            if mode == "R":
                ma = L.compile(L.parse_xml_string(insert_compiler_attrs(t1, {k: v for k, v in attrs.items() if k != a_keep})))
                da, _ = compare(m1, ma, digits, align=align, ignore_sizes=ign)
                ma.free()
            else:
                r = _roundtrip_models(L, _strip_attrs(src, [k for k in attrs if k != a_keep]), digits, path)
                if r is None:
                    return True
                da, _ = compare(r[0], r[1], digits, align=align, ignore_sizes=ign)
                r[0].free()
                r[1].free()
        except drv.MjError:
            return True
        return not _mass_gone(diffs, da)

    t1r = insert_compiler_attrs(t1, attrs)
    try:
        m2r = L.compile(L.parse_xml_string(t1r))
    except drv.MjError:
        m2r = None
    if m2r is not None:
        own.append(m2r)
        dr, _ = compare(m1, m2r, digits, align=align, ignore_sizes=ign)
        # strict: no mass difference at all may be left (a partial repair can leave artefacts of its own, e.g. explicit
        # inertials scaled twice, which must not be judged as if they were round-trip differences)
        if _mass_gone(diffs, dr) and not ({d[1] for d in dr} & _MASS_FIELDS):
            which = list(attrs) if len(attrs) == 1 else [a for a in attrs if keep_only(a, "R")]
            return which or list(attrs), "saved text with the attribute re-inserted recompiles to m1", m1, m2r, t1r, dr
    if src is not None:
        r = _roundtrip_models(L, _strip_attrs(src, attrs), digits, path)
        if r is not None:
            own.extend(r[:2])
            dn, _ = compare(r[0], r[1], digits, align=align, ignore_sizes=ign)
            if _mass_gone(diffs, dn):
                which = list(attrs) if len(attrs) == 1 else [a for a in attrs if keep_only(a, "S")]
                return which or list(attrs), "same source without the attribute round-trips without the mass differences", r[0], r[1], r[2], dn
    return None


_COUNT2FAM = {"ngeom": "geom", "nsite": "site", "ncam": "camera", "nlight": "light"}


def _report(P, L, c, name, tags, m1, m2, t1, diffs, src, nested, digits, path, align, extra):
    """classify the differences of one round trip; may compile counterfactual texts (freed here)"""
    small = {k: c[k] for k in c if k != "xml" and not k.startswith("_")}
    base = dict(extra, case=small, model=name, tags=sorted(tags), all=[list(map(str, d)) for d in diffs[:12]])
    flags = c.get("_src_flags", {})
    gen2 = "second-generation:" if c.get("_gen2") else ""
    own = []  # models compiled here
    ign = set()  # BVH size fields once the fusestatic over-allocation has been confirmed and reported
    try:
        # ---- sizes differ: only the two fusestatic mechanisms are known, both need the counterfactual
        sized = [d for d in diffs if d[0] == "size"]
        if sized and "fusestatic" in flags and src is not None:
            cf = fusestatic_counterfactual(L, src, digits)
            # the counterfactual (same source, fusestatic off) must round-trip in the sizes THIS mechanism is about; other, separately
            # classified findings of the same case (a dropped default keyframe changes nkey and nbuffer, ...) must not veto it
            def cf_agrees(keys):
                return isinstance(cf, tuple) and all(cf[0].get(k) == cf[1].get(k) for k in keys)
            counts = [d[1] for d in sized if d[1] in _COUNT2FAM]
            if os.environ.get("VF_C32_DEBUG"):
                print("C32-DEBUG sized", sized, "cf", cf if not isinstance(cf, tuple) else {k: (cf[0].get(k), cf[1].get(k)) for k in ("nbvh", "nbvhstatic", "nbody", "ngeom", "nkey")}, "flags", flags, flush=True)
            cf_same = cf_agrees(list(_COUNT2FAM) + ["nbody", "njnt"]) if counts else cf_agrees(["nbvh", "nbvhstatic", "nbvhdynamic", "nbody", "ngeom"])
            if counts and cf_same and nested and all(_COUNT2FAM[k] in nested for k in counts) and all(m2.n(k) < m1.n(k) for k in counts):
                # elements are missing after the reload, the source nests elements of exactly those kinds in a frame, and
                # without fusestatic the very same source round-trips with all its elements
                P.violation("fusestatic-elements-inside-frames-dropped-from-saved-xml", dict(base, missing={k: m1.n(k) - m2.n(k) for k in counts}))
                return
            if not counts and cf_same and all(d[1].startswith(("nbvh", "nbuffer")) for d in sized) and m1.n("nbvh") > m2.n("nbvh"):
                bsz = {d[1] for d in sized}
                d2, _ = compare(m1, m2, digits, align=align, ignore_sizes=bsz)
                shp = [x for x in d2 if x[0] == "exact" and x[1].startswith("bvh_") and x[2].startswith("shape")]
                n2 = m2.n("nbvh")
                ch1, ch2 = m1["bvh_child"][:n2], m2["bvh_child"]
                ab1, ab2 = m1["bvh_aabb"][:n2].astype(np.float64), m2["bvh_aabb"].astype(np.float64)
                same_tree = (ch1.tobytes() == ch2.tobytes() and m1["bvh_depth"][:n2].tobytes() == m2["bvh_depth"].tobytes()
                             and bool((np.abs(ab1 - ab2) <= (TOL_DER if digits >= 17 else 1e3 * 10.0 ** (-(digits - 1))) * (np.abs(ab1) + 1.0)).all()))
                adr_same = m1["body_bvhadr"].tobytes() == m2["body_bvhadr"].tobytes() and m1["body_bvhnum"].tobytes() == m2["body_bvhnum"].tobytes()
                id1, id2 = m1["bvh_nodeid"][:n2], m2["bvh_nodeid"]
                neq = id1 != id2
                internal = (ch2 >= 0).any(axis=1)
                stale = bool(neq.any()) and bool((internal[neq]).all() and (id2[neq] == -1).all() and (id1[neq] >= 0).all())
                if os.environ.get("VF_C32_DEBUG"):
                    print("C32-DEBUG bvh", dict(same_tree=same_tree, adr_same=adr_same, stale=stale, neq=int(neq.any()), n1=m1.n("nbvh"), n2=n2), flush=True)
                # (node ids that differ in another way - e.g. leaves renumbered because the writer re-ordered geoms - stay in the diff
                # list and are left to the element-order classification below)
                # the SIZE finding is confirmed by: counterfactual without fusestatic keeps the node count, the first compile has more
                # nodes than the reload, and every body addresses the same number of nodes at the same address (the surplus is unused);
                # the CONTENTS of the trees are compared like any other array (differences stay in the list for the classifiers below)
                if same_tree and adr_same:  # (bvh_* are not compared at all in printed-precision mode)
                    # the extra nodes are allocated but unused: every body addresses the same nodes, whose tree is identical
                    P.violation("fusestatic-first-compile-keeps-bvh-nodes-that-a-recompile-does-not-have", dict(base, nbvh=[m1.n("nbvh"), n2]))
                    if stale and same_tree:
                        # second, separate leftover of the re-computed tree: INTERNAL nodes of the fused parent carry a geom id
                        # (m1) where a freshly built tree has -1 (m2); leaves agree
                        P.violation("fusestatic-recomputed-bvh-internal-nodes-keep-stale-geom-ids", dict(base, nodes=np.flatnonzero(neq).tolist()[:20], m1_ids=id1[neq].tolist()[:20]))
                    diffs, ign = [x for x in d2 if x not in shp], bsz
                    if not diffs:
                        return
        # ---- compiler attributes the writer does not emit
        attrs = {a: flags[a] for a in ("settotalmass", "inertiagrouprange") if a in flags}
        # (sizes that merely count the non-zeros of mass-dependent sparse structures - a body that loses all its mass becomes
        # 'simple' - follow the masses; the counterfactual below has to reproduce them together with the arrays)
        _MASS_SIZES = ("nC", "nD", "nB", "nM", "nbuffer")
        msz = {d[1] for d in diffs if d[0] == "size" and d[1] in _MASS_SIZES}
        if attrs and msz and not any(d[0] == "size" and d[1] not in _MASS_SIZES for d in diffs):
            # compare() stops at differing sizes: look at the arrays with these dependent sizes set aside (the counterfactual in
            # confirm_compiler_attrs compares WITH them, so it has to reproduce them too)
            d2, _ = compare(m1, m2, digits, align=align, ignore_sizes=msz | set(ign))
            diffs = [x for x in d2 if not (x[0] == "exact" and str(x[2]).startswith("shape"))]
        if attrs and not any(d[0] == "size" and d[1] not in _MASS_SIZES for d in diffs) and ("<compiler" not in t1 or not any(a in t1.split("<compiler", 1)[1].split(">", 1)[0] for a in attrs)):
            if {d[1] for d in diffs} & _MASS_FIELDS:
                r = confirm_compiler_attrs(L, src, t1, m1, m2, diffs, attrs, digits, path, align, own, ign)
                if r is not None:
                    which, how, m1, m2, t1, left = r
                    for a in which:
                        P.violation(gen2 + "compiler-%s-not-written-to-saved-xml-masses-recomputed-without-it" % a,
                                    dict(base, value=attrs[a], confirmed_by=how, fields_explained=sorted({d[1] for d in diffs} - {d[1] for d in left}),
                                         fields_left=sorted({d[1] for d in left})))
                    diffs = left
                    if not diffs:
                        return
        # ---- element order
        orders = order_change(m1, m2, digits) if any(d[0] in ("exact", "pass") for d in diffs) else []
        if orders == ["key"] and len(re.findall(r"<key[ />]", t1)) < m1.n("nkey"):
            P.violation("keyframe-equal-to-defaults-dropped-from-saved-xml-shifts-later-keys",
                        dict(base, nkey=m1.n("nkey"), keys_written=len(re.findall(r"<key[ />]", t1))))
            return
        if orders:
            ok, bad, rest, pm1 = confirm_order(m1, m2, orders, digits, align, nested, t1, ign)
            for fam in sorted(ok):  # one signature per family: the listed findings name the families explicitly
                P.violation("element-order-changed:source-has-frame-before-sibling:" + fam, dict(base, families=sorted(ok), nested_in_source=sorted(nested or ())))
            if bad:
                why = "no-frames-involved" if not (nested and set(bad) & set(nested)) else "not-a-permutation-of-frame-children"
                P.violation("element-order-changed:%s:%s" % (why, "+".join(sorted(bad))), dict(base, families=sorted(bad), nested_in_source=sorted(nested or ())))
            if bad or rest is None:
                return  # ids no longer correspond (or body/joint order changed: the whole dof/tree layout follows)
            diffs, m1 = rest, pm1  # from here on m1 is addressed with m2's element numbering
        # ---- fusestatic: stale name->id maps (pairs / tuples / sensors of the FIRST compile point at the wrong elements)
        if "fusestatic" in flags and not any(d[0] == "size" for d in diffs):
            st = confirm_fusestatic_stale_ids(L, src, m1, m2, diffs, digits, path, align, own, ign)
            for fam, ev in sorted(st.items()):
                P.violation(gen2 + "fusestatic-first-compile-resolves-references-through-stale-ids:" + fam, dict(base, mechanism_evidence=ev))
            gone = {c for fam in st for c in _STALE_FIELDS[fam]}
            diffs = [x for x in diffs if x[1] not in gone]
            if st and not diffs:
                return
        # ---- per-field mechanisms
        roots, v6 = confirm_vec6(m1, m2, t1, diffs, digits, align, ign)
        if v6:
            for kind in roots:
                P.violation(gen2 + "data-vector-written-with-6-digits-at-full-precision:" + kind + (":printed-precision" if digits < 17 else ""),
                            dict(base, fields=sorted({x[1] for x in v6}), worst=max([float(x[3]) for x in v6 if np.isfinite(x[3])], default=0.0)))
            diffs = [x for x in diffs if x not in v6]
        seen = set()
        for kind, field, msg, mag in diffs:
            sig = "roundtrip-differs:%s:%s" % (kind, field)
            if field == "geom_dataid":
                g1, g2 = m1["geom_dataid"], m2["geom_dataid"]
                bad = g1 != g2
                if (m1["geom_type"][bad] != E.mjGEOM_MESH).all() and (m1["geom_type"][bad] != E.mjGEOM_HFIELD).all() and (g2[bad] == -1).all() and (m1["geom_type"][bad] != E.mjGEOM_SDF).all():
                    sig = "primitive-fitted-to-mesh-keeps-geom_dataid-in-first-compile"
            elif field == "actuator_lengthrange" and path == "spec" and "lengthrange" not in t1:
                sig = "computed-lengthrange-and-compiler-lengthrange-not-saved-without-copyback"
            if sig.startswith("roundtrip-differs") and digits < 17:
                sig += ":printed-precision"
            if sig in seen:
                continue
            seen.add(sig)
            P.violation(gen2 + sig, dict(base, field=field, **{"class": kind}, message=msg, magnitude=mag))
    finally:
        for m in own:
            m.free()


def roundtrip(P, L, c, spec, m1, name, tags, src):
    c = dict(c, _src_flags=src_flags(src))
    nested, nested_names = nesting(src)
    digits = c.get("digits", 17)
    path = c.get("path_mode", "spec")
    if path == "copyback":
        L.call("mj_copyBack", spec, m1)
    try:
        t1 = L.save_xml_string(spec, precision=digits)
    except drv.MjError as e:
        msg = str(e)
        if "no support for buffer textures" in msg:
            P.count("skipped_buffer_texture")
            return
        P.violation("save-failed:" + re.sub(r"[0-9]+", "N", msg)[:60], {"case": {k: c[k] for k in c if not k.startswith("_")}, "model": name, "message": msg})
        return
    try:
        spec2 = L.parse_xml_string(t1)
        m2 = L.compile(spec2)
    except drv.MjError as e:
        msg = str(e)
        P.case("%s|%s|saved-text-rejected" % (c["kind"], path), sample=None)
        el = re.search(r"Element '(\w+)'", msg)
        if "fusestatic" in c["_src_flags"] and re.search(r"not found|unrecognized name|unknown element", msg) and nested:
            # confirm: the element the reader misses is one the source nests in a frame, and the same source without
            # fusestatic saves to a text that is accepted
            quoted = set(re.findall(r"'([^']+)'", msg))
            cf = fusestatic_counterfactual(L, src, digits)
            if isinstance(cf, tuple) and (quoted & nested_names if quoted else True):
                P.violation("fusestatic-elements-inside-frames-dropped-from-saved-xml",
                            {"case": {k: c[k] for k in c if k != "xml" and not k.startswith("_")}, "model": name, "message": msg, "missing_nested_elements": sorted(quoted & nested_names)})
                return
        P.violation("saved-text-rejected:" + re.sub(r"'[^']*'", "'..'", re.sub(r"[0-9]+", "N", msg.splitlines()[0]))[:80] + (":element-" + el.group(1) if el else ""),
                    {"case": {k: c[k] for k in c if k != "xml"}, "model": name, "message": msg, "tags": sorted(tags)})
        return
    align = ("alignfree" in src and 'alignfree="false"' not in src) or bool(re.search(r'align\s*=\s*"true"', src))
    diffs, info = compare(m1, m2, digits, align=align)
    P.count("int_snap_values", info["int_snap"])
    P.count("iquat_degenerate_bodies_compared_by_tensor", info["iquat_degenerate"])
    if not diffs:
        P.note_max("unit_class_abs_diff_clean_cases", info["max_unit"])
        P.note_max("derived_class_normwise_diff_clean_cases", info["max_derived"])
    if diffs:
        _report(P, L, c, name, tags, m1, m2, t1, diffs, src, nested, digits, path, align, {})
    else:
        P.count("models_identical_within_classes")
    # ---- second generation
    try:
        t2 = L.save_xml_string(spec2, precision=digits)
        spec3 = L.parse_xml_string(t2)
        m3 = L.compile(spec3)
        t3 = L.save_xml_string(spec3, precision=digits)
    except drv.MjError as e:
        P.violation("second-generation-failed", {"case": c, "model": name, "message": str(e)})
        return
    if digits >= 17 and not diffs:  # with a model-level difference the second text necessarily differs too
        if t2 != t1:
            if _lines(t1) == _lines(t2):
                P.count("gen2_text_lines_reordered_only")
            elif align:
                P.count("gen2_text_differs_alignfree")
            else:
                l1, l2 = _lines(t1), _lines(t2)
                only1 = [l for l in l1 if l not in set(l2)][:3]
                only2 = [l for l in l2 if l not in set(l1)][:3]
                tagn = re.match(r"<(\w+)", only1[0] if only1 else (only2[0] if only2 else "<unknown"))
                vec = six_digit_vectors(t1)
                if vec:
                    P.count("gen2_text_differs_with_6_digit_data_vectors")
                elif only2 and all(' mass="0"' in l and l.startswith("<geom") for l in only2) and re.search(r'saveinertial\s*=\s*"true"', src):
                    # writer quirk, text only: with saveinertial a geom with an explicit mass is printed mass="0" by the
                    # second save (the explicit <inertial> wins, so no compiled array can differ). The statement is about
                    # compiled arrays; m1 == m2 was established above and m2 == m3 is compared below - that is the verdict.
                    P.count("gen2_text_differs_saveinertial_geom_mass_0")
                else:
                    # text only (compiled arrays agree): observed, not judged - the statement is about the compiled model
                    P.count("gen2_text_differs_models_equal:%s" % (tagn.group(1) if tagn else "unknown"))
        else:
            P.count("gen2_text_identical")
        if t3 != t2 and not align and _canon(t3) != _canon(t2) and not six_digit_vectors(t1) and "saveinertial" not in src:
            l2, l3 = _canon(t2).splitlines(), _canon(t3).splitlines()
            j = next((i for i in range(min(len(l2), len(l3))) if l2[i] != l3[i]), -1)
            tagn = re.match(r"\s*<(\w+)", l2[j] if j >= 0 else "")
            P.count("gen3_text_not_a_fixpoint:%s" % (tagn.group(1) if tagn else "length"))   # text only, see above; m2 == m3 is compared below
        if not diffs and not align:
            d23, _ = compare(m2, m3, digits, align=align)
            if d23:
                _report(P, L, dict(c, _gen2=True, _src_flags=src_flags(t1)), name, tags, m2, m3, t2, d23, t1, nesting(t1)[0], digits, path, align, {"generation": "m2 vs m3"})
    m3.free()
    m2.free()
    cls = "full" if digits >= 17 else "printed"
    P.case("%s|%s|%s|%s" % (name if c["kind"] == "corpus" else c["kind"], path, cls, ",".join(sorted(tags))[:200]),
           sample={"model": name, "path": path, "digits": digits, "tags": sorted(tags)[:12], "saved_bytes": len(t1)})
    P.count("roundtrips:%s:%s" % (path, cls))


def worker(c):
    P = core.Part()
    L = drv.Lib("rel")
    if c["kind"] == "spec":
        return _spec_worker(P, L, c)
    try:
        spec, m1, name, tags, src = build_case(L, c)
    except drv.MjError as e:
        P.count("source_model_rejected")
        P.count("rejected:" + re.sub(r"[0-9]+", "N", str(e).splitlines()[0])[:50])
        return P.result()
    for k, v in c.pop("_gen_counts", {}).items():       # what the tri-state / type-conditional generators emitted (accepted models only)
        P.count(k, v)
    if c["kind"] in ("tri", "tcond"):
        P.count("models_generated:" + c["kind"])
    roundtrip(P, L, c, spec, m1, name, tags, src)
    return P.result()


def _spec_worker(P, L, c):
    from .. import nat
    rng = np.random.default_rng(c["mseed"])
    ops = spec_ops(rng)
    d = core.OUT / ("c32spec-%d-%d" % (os.getpid(), c["mseed"]))
    d.mkdir(parents=True, exist_ok=True)
    try:
        (d / "ops.txt").write_text("\n".join(ops) + "\n")
        digits = c.get("digits", 17)
        r = nat.run_exe(_hspec(), [str(d / "ops.txt"), str(d / "m1.mjb"), str(d / "saved.xml"), str(digits), "1" if c.get("path_mode") == "copyback" else "0"], "rel", timeout=120)
        if r["rc"] != 0:
            if r["rc"] == 3:
                P.count("spec_model_rejected")
                return P.result()
            P.violation("spec-api-harness-failed", {"case": c, "rc": r["rc"], "err": r["err"][-800:], "ops": ops})
            return P.result()
        p = L.call("mj_loadModel", str(d / "m1.mjb"), None, ret="ptr")
        m1 = drv.Model(L, p)
        t1 = (d / "saved.xml").read_text()
        tags = {"specapi"} | set(o.split()[0] for o in ops)
        try:
            spec2 = L.parse_xml_string(t1)
            m2 = L.compile(spec2)
        except drv.MjError as e:
            P.violation("saved-text-rejected:spec-api:" + re.sub(r"[0-9]+", "N", str(e).splitlines()[0])[:60], {"case": c, "message": str(e), "ops": ops, "text": t1[:3000]})
            return P.result()
        diffs, info = compare(m1, m2, digits)
        P.count("int_snap_values", info["int_snap"])
        if not diffs:
            P.note_max("unit_class_abs_diff_clean_cases", info["max_unit"])
            P.note_max("derived_class_normwise_diff_clean_cases", info["max_derived"])
        # bodies are the only elements the op-list puts into frames; what they contain moves with them
        nested = set(NESTABLE) if any(o.split()[0] == "body" and o.split()[3] != "-" for o in ops) else set()
        if diffs:
            _report(P, L, c, "specapi", tags, m1, m2, t1, diffs, None, nested, digits, c.get("path_mode"), False, {"ops": ops})
        else:
            P.count("models_identical_within_classes")
        t2 = L.save_xml_string(spec2, precision=digits)
        if digits >= 17 and t2 != t1 and not diffs:
            if _lines(t1) == _lines(t2):
                P.count("gen2_text_lines_reordered_only")
            else:
                only1 = [l for l in _lines(t1) if l not in set(_lines(t2))][:3] + ["---"] + [l for l in _lines(t2) if l not in set(_lines(t1))][:3]
                tagn = re.match(r"<(\w+)", only1[0] if only1 else "<unknown")
                P.count("gen2_text_differs_models_equal:%s" % (tagn.group(1) if tagn else "unknown"))   # text only, not judged
        P.case("spec|%s|%s|%s" % (c.get("path_mode"), "full" if digits >= 17 else "printed", ",".join(sorted(tags))), sample={"ops": ops[:6], "digits": digits})
        P.count("roundtrips:specapi:%s" % ("full" if digits >= 17 else "printed"))
        m1.free()
        m2.free()
    finally:
        for fn in ("ops.txt", "m1.mjb", "saved.xml"):
            try:
                (d / fn).unlink()
            except OSError:
                pass
        try:
            d.rmdir()
        except OSError:
            pass
    return P.result()


# targeted hand-written cases: element combinations that exercised writer branches during triage
TARGETED = [
    ("default-joint-range-degrees", """<mujoco><compiler angle="degree"/><default><joint range="-30 40" damping="0.1"/><default class="k"><joint range="-10 10" springref="15" ref="5"/></default></default>
     <worldbody><body><joint name="a" limited="true"/><geom size=".1"/><body pos="0 0 .3"><joint name="b" class="k" limited="true"/><geom size=".1"/>
     <body pos="0 0 .3" childclass="k"><joint name="c" range="-5 7"/><joint name="s" type="slide" axis="1 0 0" range="-0.2 0.3"/><geom size=".1"/></body></body></body></worldbody></mujoco>"""),
    ("gap-margin-defaults", """<mujoco><default><geom margin="0.01" gap="0.004"/><default class="z"><geom gap="0"/></default></default><worldbody><geom type="plane" size="1 1 .1"/>
     <body pos="0 0 1"><freejoint/><geom name="a" size=".1"/><geom name="b" size=".1" pos=".3 0 0" class="z"/><geom name="c" size=".1" pos="-.3 0 0" gap="0.01" margin="0.01"/><geom name="d" size=".1" pos="0 .3 0" margin="0" gap="0.002"/></body></worldbody>
     <contact><pair geom1="a" geom2="b" margin="0.02" gap="0.01"/></contact></mujoco>"""),
    ("axisangle-degrees", """<mujoco><compiler angle="degree"/><worldbody><body axisangle="0 0 1 30" pos="0 0 1"><joint axis="1 0 0"/><geom size=".1 .2" type="capsule" axisangle="1 1 0 45"/>
     <site name="s" axisangle="0 1 0 60"/><camera name="c" axisangle="1 0 0 10"/><inertial pos="0 0 0" mass="1" diaginertia="0.1 0.2 0.25" axisangle="0 0 1 20"/></body></worldbody></mujoco>"""),
    ("nested-default-parents", """<mujoco><default><geom rgba="1 0 0 1"/><default class="p"><geom size=".11" friction="0.5"/><default class="q"><geom condim="4" rgba="0 1 0 1"/><default class="r"><geom solmix="2"/></default></default></default>
     <default class="other"><geom type="box" size=".1 .2 .3"/></default></default>
     <worldbody><body childclass="q"><joint/><geom name="g1"/><geom name="g2" class="r" pos=".3 0 0"/><geom name="g3" class="other" pos="-.4 0 0"/><body childclass="other" pos="0 0 1"><joint/><geom name="g4"/><geom name="g5" class="p" pos=".5 0 0"/></body></body></worldbody></mujoco>"""),
    ("fusestatic-references-behind-a-fused-body", """<mujoco><compiler fusestatic="true"/><worldbody><body name="A"><joint/><geom name="g1" size=".1"/><site name="s1" pos="0 0 .3"/>
     <body name="X" pos="0 0 .5"><joint/><geom name="g3" size=".1"/><site name="s3" pos="0 0 .3"/></body>
     <body name="Y" pos="0 .5 0"><geom name="g4" size=".1"/><geom name="g5" size=".1" pos=".3 0 0"/><site name="s5"/></body></body></worldbody>
     <sensor><framepos name="fp" objtype="geom" objname="g5"/><framepos name="fs" objtype="site" objname="s5"/></sensor>
     <contact><pair geom1="g5" geom2="g3"/></contact><custom><tuple name="t"><element objtype="geom" objname="g5"/></tuple></custom></mujoco>"""),
    ("all-default-first-key", """<mujoco><worldbody><body><joint name="j"/><geom size=".1"/></body></worldbody><keyframe><key/><key name="k1" qpos="0.5"/><key name="k2" time="2" qvel="1"/></keyframe></mujoco>"""),
]


def _cases(ctx):
    rng = ctx.rng
    cs = []
    # corpus: both save paths at full precision, a printed-precision pass on a subsample
    corp = [c for c in corpus.loadable() if c["ngeom"] < ctx.pick(400, 100000) and c["nv"] < ctx.pick(300, 100000)]
    idx = rng.permutation(len(corp))
    ncorp = ctx.pick(70, len(corp))
    for j, i in enumerate(idx[:ncorp]):
        p = corp[int(i)]["path"]
        cs.append(dict(kind="corpus", path=p, path_mode="spec"))
        if ctx.pick(j % 3 == 0, True):
            cs.append(dict(kind="corpus", path=p, path_mode="copyback"))
        if ctx.pick(j % 5 == 0, j % 2 == 0):
            cs.append(dict(kind="corpus", path=p, path_mode="copyback", digits=int(rng.integers(6, 13))))
    for label, xml in TARGETED:
        for pm in ("spec", "copyback"):
            cs.append(dict(kind="xml", xml=xml, label=label, tags=[label], path_mode=pm))
        cs.append(dict(kind="xml", xml=xml, label=label, tags=[label], path_mode="spec", digits=8))
    ngen = ctx.pick(260, 2600)
    keys = ["compiler", "option", "visual", "statistic", "assets", "mesh", "hfield", "user", "defaults", "frames", "replicate", "custom", "keyframes"]
    trs = ctx.subrng("tristate")   # own stream: the case list of the other features stays what it was before this feature existed
    for i in range(ngen):
        feats = {k: bool(rng.random() < 0.6) for k in keys}
        feats["frame_interleave"] = bool(rng.random() < 0.25)
        feats["alignfree"] = bool(rng.random() < 0.15)
        feats["default_key"] = bool(rng.random() < 0.15)
        feats["rough_vectors"] = bool(rng.random() < 0.25)
        if feats["frame_interleave"]:
            # interleaved frame children trigger the (confirmed per family) element-order finding; combined with keyframes (whose
            # vectors then change meaning), replication or the omitted mass attributes the differences of several findings overlap
            # and no per-mechanism confirmation can separate them: those combinations are not generated
            feats["keyframes"] = False
            feats["replicate"] = False
            feats["no_mass_attrs"] = True
        if feats["alignfree"]:
            feats["no_mass_attrs"] = True     # alignfree re-derives mesh geom poses from the mesh inertia; with the omitted mass attributes the two effects overlap
        if feats["frame_interleave"] and feats["default_key"]:
            # each of the two writer defects (frame children re-ordered; default keyframe dropped) is confirmed per case on its own;
            # their combination re-orders elements AND shifts the keyframes, which the per-mechanism confirmations cannot separate,
            # so the combination is not generated (same draws, the second feature is switched off)
            feats["default_key"] = False
        feats["tristate"] = int(trs.integers(1, 2 ** 31)) if trs.random() < 0.5 else 0      # seed of the tri-state decoration, 0 = off
        c = dict(kind="gen", mseed=int(rng.integers(0, 2 ** 31)), feats=feats, path_mode=["spec", "copyback"][i % 2])
        if i % 6 == 5:
            c["digits"] = int(rng.integers(6, 13))
            feats["default_key"] = False     # the dropped-default-keyframe finding is confirmed at full precision only
        cs.append(c)
    crng = ctx.subrng("conditional-attribute models")      # own stream (see trs above)
    for kind, n in (("tri", ctx.pick(90, 600)), ("tcond", ctx.pick(60, 400))):
        for i in range(n):
            c = dict(kind=kind, mseed=int(crng.integers(0, 2 ** 31)), path_mode=["spec", "copyback"][i % 2])
            if i % 7 == 6:
                c["digits"] = int(crng.integers(8, 13))
            cs.append(c)
    for i in range(ctx.pick(40, 400)):
        c = dict(kind="spec", mseed=int(rng.integers(0, 2 ** 31)), path_mode=["spec", "copyback"][i % 2])
        if i % 5 == 4:
            c["digits"] = int(rng.integers(6, 13))
        cs.append(c)
    return cs


def run(ctx):
    cs = _cases(ctx)
    _hspec()
    res = par.run("vf.props.c32", "worker", cs, nproc=ctx.pick(8, 12), timeout=ctx.pick(300, 900))
    ncrash = 0
    for c, r in zip(cs, res):
        if r is None:
            ctx.inconclusive("worker returned nothing")
        elif "crash" in r:
            ncrash += 1
            ctx.count("worker_crash_or_timeout")
            small = {k: c[k] for k in c if k != "xml"}
            if r.get("rc") == "timeout":
                ctx.count("worker_timeouts")
            else:
                ctx.violation("crash-during-save-or-reload", {"case": small, "rc": r.get("rc"), "stderr": r["crash"][-1500:]})
        elif "exception" in r:
            ctx.inconclusive("harness exception: " + r["exception"] + r.get("trace", "")[-800:])
        else:
            ctx.merge(r)
    if ncrash > len(cs) // 20:
        ctx.inconclusive("%d worker crashes/timeouts" % ncrash)
    if ctx.counters.get("source_model_rejected", 0) > len(cs) // 4:
        ctx.inconclusive("too many generated source models rejected by the compiler")
    for need in ("tristate:joint_ball.limited:explicit_false_DISAGREES_with_range", "tristate:joint_ball.limited:element_OVERRIDES_class_value",
                 "tristate:joint_hinge.limited:explicit_false_DISAGREES_with_range", "tristate:joint_slide.actuatorfrclimited:element_OVERRIDES_class_value",
                 "tristate:tendon_fixed.limited:explicit_false_DISAGREES_with_range", "tristate:tendon_spatial.actuatorfrclimited:explicit_false_DISAGREES_with_range",
                 "tristate:actuator.ctrllimited:element_OVERRIDES_class_value", "tristate:actuator.forcelimited:explicit_false_DISAGREES_with_range",
                 "tristate:actuator.actlimited:explicit_false_DISAGREES_with_range", "tristate_models:autolimits_false", "tristate_models:autolimits_true",
                 "tristate_models:angle_degree", "typecond:joint_ball:attributes_irrelevant_for_type", "typecond:camera:focalpixel",
                 "typecond:geom_box:fromto", "typecond:actuator:gear_len6", "typecond:light:directional"):
        if not ctx.counters.get(need):
            ctx.inconclusive("conditional-attribute class never generated: " + need)
    ctx.min_nontrivial = ctx.pick(200, 1500)


def replay(ctx, path):
    rec = json.load(open(path))
    ctx.merge(worker(rec["detail"]["case"]))
    ctx.min_nontrivial = 1
