"""C25 Analytic derivatives match finite differences (mjd_smooth_vel, mjd_transitionFD, mjd_inverseFD)."""
import json
import os
import re

import numpy as np

from .. import build, common, core, drv, par
from ..gen import model
from ..mjconst import E

LEVEL = "exploration"
RULE = ("generated models (profile 'smooth' with an actuator on every joint/tendon/site: every shortcut and general gain/bias/"
        "dynamics type and transmission, joint + tendon damping, fluid forces via option density/viscosity/wind with inertia-box "
        "and ellipsoid (random fluidcoef) geoms; profile 'rich' with contacts/limits for the FD entry points) at random states "
        "and controls (including controls outside ctrlrange). (a) mjd_smooth_vel: qDeriv, expanded from D_rownnz/D_rowadr/"
        "D_colind, against centred finite differences of qfrc_passive - qfrc_bias + qfrc_actuator w.r.t. qvel computed on a "
        "mj_copyData twin with mj_forward at two step sizes: integrator=implicit all terms; implicitfast without the bias term, "
        "symmetrised except the 6x6 blocks of standalone free bodies; mjd_freeMhat against M - h*FD on those blocks. "
        "(b) mjd_transitionFD A,B,C,D (forward and centred, two eps) against the same differences formed from mj_step on a twin "
        "restored with mj_setState(mjSTATE_INTEGRATION); forward-vs-centred agreement on constraint-free models; (c) "
        "mjd_inverseFD DfDq,DfDv,DfDa,DsD*,DmDq against mj_inverse on a twin, flg_actuation 0/1; (d) mjSTATE_INTEGRATION of the "
        "input mjData (and qacc for inverseFD) bitwise before/after the call. distinct = (model, integrator, check kind, state "
        "index); non-trivial = nv>0 and at least one velocity-dependent force term present (a/b) or nv>0 (c/d)")
ASSUMPTIONS = [
    "qDeriv is restricted to the sparsity pattern of M (computation/index.rst: 'we restrict D to have the same sparsity pattern "
    "as M ... will exclude damping in tendons which connect bodies that are on different branches'): only stored entries are "
    "compared; FD mass outside the pattern is counted",
    "implicitfast: D excludes the RNE term and is symmetrised (index.rst 'Fast implicit-in-velocity'); for standalone free bodies "
    "the gyroscopic derivative is reinstated by a local solve (index.rst 'Gyroscopic derivatives for free bodies'), so their qDeriv "
    "block is compared unsymmetrised and mjd_freeMhat is compared with M - h*(full FD)",
    "non-smooth points (force clamped by forcerange / actuatorfrcrange, muscle curve knots, |v| kinks of the fluid model) are "
    "detected by disagreement of the two FD step sizes and skipped, counted per entry",
    "mjd_transitionFD: RK4 and models with delays are rejected by documented errors and are not generated; controls of "
    "a control on (or within eps of) a bound of its ctrlrange is differentiated on the feasible side only, in the engine and in the twin reference alike (derivative of the clamped map from inside the range; the rst does not describe this case, the source does)",
    "with mjDSBL_WARMSTART qacc_warmstart is not an input (functions_override.rst 'If warm-starts are not disabled, the warm-start "
    "accelerations ... are loaded'): it is excluded from the state-preservation comparison only then",
    "mj_integratePos / mj_differentiatePos (C24's subject) and mj_step / mj_forward / mj_inverse themselves are trusted: the twin "
    "uses them to form the reference differences",
]

INT = E.mjSTATE_INTEGRATION
EPSM = 2.220446049250313e-16
FLUIDS = [None, {"density": 1.2, "viscosity": 0.0}, {"density": 0.0, "viscosity": 0.05}, {"density": 1000.0, "viscosity": 0.9},
          {"density": 50.0, "viscosity": 0.002, "wind": "wind"}]


def gen_model(c):
    rng = np.random.default_rng(c["mseed"])
    over = {}
    prof = c["profile"]
    fl = FLUIDS[c["fluid"] % len(FLUIDS)]
    opt = {}
    if fl:
        opt = {k: v for k, v in fl.items() if k != "wind"}
        if "wind" in fl:
            opt["wind"] = "%g %g %g" % tuple(np.round(rng.normal(size=3) * 2, 3))
    if prof == "smooth":
        over = dict(actuators=1.0, tendons=3, damping=0.7, tendon_damping=0.7, fluidshape=(0.5 if fl else 0.0), nbody=(1, 8),
                    sensors=(6 if c.get("sensors") else 0), actfrcrange=0.05, sites=0.8, tendon_armature=0.0)
    else:
        over = dict(actuators=0.8, fluidshape=(0.3 if fl else 0.0), nbody=(2, 8), mocap=0.0)
    if opt:
        over["option"] = opt
    xml, tags = model.gen_profile(rng, prof, **over)
    # random ellipsoid coefficients (blunt drag, slender drag, angular drag, Kutta lift, Magnus lift)
    def coef(_):
        return 'fluidshape="ellipsoid" fluidcoef="%s"' % " ".join("%.4g" % v for v in rng.uniform(0.1, 2.0, size=5))
    xml = re.sub(r'fluidshape="ellipsoid"', coef, xml)
    return xml, tags


def dense_D(m, vals):
    nv = m.n("nv")
    D = np.zeros((nv, nv))
    mask = np.zeros((nv, nv), dtype=bool)
    nnz, adr, col = m["D_rownnz"], m["D_rowadr"], m["D_colind"]
    for i in range(nv):
        for k in range(int(nnz[i])):
            j = int(col[adr[i] + k])
            D[i, j] = vals[adr[i] + k]
            mask[i, j] = True
    return D, mask


def smooth_force(d, bias):
    f = d["qfrc_passive"] + d["qfrc_actuator"]
    if bias:
        f = f - d["qfrc_bias"]
    return f.copy()


def fd_forces(m, T, qvel, eps):
    """centred FD of (passive+actuator, bias) w.r.t. qvel on twin T: returns (D_noBias, D_bias) with D[i,j] = d f_i / d v_j."""
    nv = len(qvel)
    Dn, Db = np.zeros((nv, nv)), np.zeros((nv, nv))
    for j in range(nv):
        h = eps * max(1.0, abs(qvel[j]))
        out = []
        for sgn in (1.0, -1.0):
            T["qvel"][:] = qvel
            T["qvel"][j] = qvel[j] + sgn * h
            T.forward()
            out.append((smooth_force(T, False), T["qfrc_bias"].copy()))
        hh = (qvel[j] + h) - (qvel[j] - h)
        Dn[:, j] = (out[0][0] - out[1][0]) / hh
        Db[:, j] = (out[0][1] - out[1][1]) / hh
    T["qvel"][:] = qvel
    return Dn, Db


def free_blocks(m):
    """dof address of every standalone free body (documented: free joint whose body has no children; own 6-dof tree)."""
    out = []
    jt, jb, da = m["jnt_type"], m["jnt_bodyid"], m["jnt_dofadr"]
    par_ = m["body_parentid"]
    for j in range(m.n("njnt")):
        if jt[j] != E.mjJNT_FREE:
            continue
        b = int(jb[j])
        if int(m["body_jntnum"][b]) != 1 or (par_ == b).any():
            continue
        out.append((j, int(da[j])))
    return out


def vel_terms_present(m):
    t = []
    if m["dof_damping"].any():
        t.append("jointdamp")
    if m.n("ntendon") and m["tendon_damping"].any():
        t.append("tendondamp")
    if m.opt["density"] > 0 or m.opt["viscosity"] > 0:
        t.append("fluid")
        if m.n("ngeom") and (m["geom_fluid"].reshape(m.n("ngeom"), -1)[:, 0] > 0).any():
            t.append("ellipsoid")
    if m.n("nu"):
        bp, gp = m["actuator_biasprm"], m["actuator_gainprm"]
        if (bp[:, 2] != 0).any():
            t.append("act_bias_kv")
        if ((gp[:, 2] != 0) & (m["actuator_gaintype"] == E.mjGAIN_AFFINE)).any():
            t.append("act_gain_kv")
        if (m["actuator_gaintype"] == E.mjGAIN_MUSCLE).any():
            t.append("muscle")
    return t


def effective_ctrl(m, raw):
    """controls as the actuation stage uses them: clamped to ctrlrange when limited (mjDSBL_CLAMPCTRL off)."""
    eff = np.array(raw, dtype=np.float64)
    if int(m.opt["disableflags"]) & E.mjDSBL_CLAMPCTRL:
        return eff
    lim, rg = m["actuator_ctrllimited"], m["actuator_ctrlrange"]
    for k in range(len(eff)):
        if lim[k]:
            eff[k] = min(max(eff[k], rg[k, 0]), rg[k, 1])
    return eff


def set_random_inputs(rng, m, d, inside=None, wide_ctrl=False):
    common.random_state(rng, m, d, vel_scale=float(rng.choice([0.3, 1.0, 3.0])))
    nu = m.n("nu")
    if nu:
        lim, rg = m["actuator_ctrllimited"], m["actuator_ctrlrange"]
        c = rng.normal(size=nu) * (3.0 if wide_ctrl else 1.0)
        for i in range(nu):
            if lim[i] and (inside is not None or not wide_ctrl or rng.random() < 0.5):
                mg = (inside or 0.0) + 0.05 * (rg[i, 1] - rg[i, 0])
                c[i] = rng.uniform(rg[i, 0] + mg, rg[i, 1] - mg)
        d["ctrl"][:] = c
    if m.n("na"):
        d["act"][:] = rng.uniform(-0.4, 0.8, size=m.n("na"))
        # keep muscle / limited activations inside their range
        al, ar = m["actuator_actlimited"], m["actuator_actrange"]
        for i in range(nu):
            a0, an = int(m["actuator_actadr"][i]), int(m["actuator_actnum"][i])
            if a0 >= 0 and an and al[i]:
                d["act"][a0:a0 + an] = rng.uniform(ar[i, 0] * 0.9, ar[i, 1] * 0.9, size=an)
            if a0 >= 0 and an and m["actuator_dyntype"][i] == E.mjDYN_MUSCLE:
                d["act"][a0:a0 + an] = rng.uniform(0.05, 0.95, size=an)
    if m.n("nv") and rng.random() < 0.5:
        d["qfrc_applied"][:] = rng.normal(size=m.n("nv")) * 0.3


# ------------------------------------------------------------------------------------------ (a) mjd_smooth_vel

def check_smooth(L, m, P, c, wit, rng, si):
    nv = m.n("nv")
    d = m.make_data()
    T = None
    terms = vel_terms_present(m)
    int0 = int(m.opt["integrator"])
    try:
        wide = (si % 4 == 2)
        set_random_inputs(rng, m, d, wide_ctrl=wide)
        if wide:
            P.count("smooth_states_with_ctrl_outside_range")
        m.opt["integrator"] = E.mjINT_IMPLICIT
        d.forward()
        T = d.copy()
        qvel = d["qvel"].copy()
        Dn1, Db1 = fd_forces(m, T, qvel, 1e-4)
        Dn2, Db2 = fd_forces(m, T, qvel, 1e-5)
        fmag = float(np.max(np.abs(smooth_force(d, True)))) if nv else 0.0
        free = free_blocks(m)
        Dan_full = None
        raw_ctrl = d["ctrl"].copy()
        eff_ctrl = effective_ctrl(m, raw_ctrl)
        for integ, bias in ((E.mjINT_IMPLICIT, 1), (E.mjINT_IMPLICITFAST, 0)):
            m.opt["integrator"] = integ
            name = "implicit" if bias else "implicitfast"
            d["ctrl"][:] = raw_ctrl            # each integrator is first compared with the controls as the user wrote them
            if bias:
                F1, F2 = Dn1 - Db1, Dn2 - Db2
            else:
                F1, F2 = 0.5 * (Dn1 + Dn1.T), 0.5 * (Dn2 + Dn2.T)
                for _, a0 in free:
                    F1[a0:a0 + 6, a0:a0 + 6] = Dn1[a0:a0 + 6, a0:a0 + 6]
                    F2[a0:a0 + 6, a0:a0 + 6] = Dn2[a0:a0 + 6, a0:a0 + 6]
            fderr = np.abs(F1 - F2)
            if bias:
                Dan_full = None
            for attempt in (0, 1):
                L.call("mjd_smooth_vel", m, d, bias, ret=None)
                Dan, mask = dense_D(m, d["qDeriv"].copy())
                scale = max(float(np.max(np.abs(F1))), float(np.max(np.abs(Dan))), 1e-3)
                nonsmooth = fderr > 1e-5 * scale
                tol = 2e-6 * scale + 20 * fderr + 50 * EPSM * max(fmag, 1.0) / 1e-5
                err = np.abs(Dan - F2)
                bad = mask & ~nonsmooth & (err > tol)
                if attempt == 0 and bad.any() and (raw_ctrl != eff_ctrl).any():
                    # do mismatches disappear when d->ctrl holds the controls the forces were computed with?
                    d["ctrl"][:] = eff_ctrl
                    L.call("mjd_smooth_vel", m, d, bias, ret=None)
                    D2, _ = dense_D(m, d["qDeriv"].copy())
                    # confirmed per entry: the clamped controls remove the mismatch (or, when another family leaves a residual
                    # of its own on the same entry, more than 95 % of it - the residual is then diagnosed on its own below)
                    err2 = np.abs(D2 - F2)
                    fixed = bad & ((err2 <= tol) | (err2 <= 0.05 * err))
                    if fixed.any():
                        i, j = [int(x) for x in np.argwhere(fixed)[0]]
                        P.violation("qDeriv-differs-from-FD:actuator-term-uses-unclamped-ctrl:%s" % name,
                                    dict(wit, state=si, integrator=name, row=i, col=j, analytic=float(Dan[i, j]), fd=float(F2[i, j]),
                                         with_clamped_ctrl=float(D2[i, j]), nbad=int(bad.sum()), nfixed=int(fixed.sum())))
                        T["ctrl"][:] = eff_ctrl          # same forces (the actuation stage clamps), clean derivative for diagnosis
                        continue          # compare again with the effective controls in d->ctrl
                    d["ctrl"][:] = raw_ctrl
                P.count("entries_compared", int((mask & ~nonsmooth).sum()))
                P.count("entries_skipped_nonsmooth", int((mask & nonsmooth).sum()))
                P.count("fd_mass_outside_pattern", int(((~mask) & (np.abs(F2) > 1e-6 * scale)).sum()))
                P.note_max("max:smooth_relerr", float(np.max(np.where(mask & ~nonsmooth, err / scale, 0.0))) if nv else 0.0)
                if bad.any():
                    i, j = [int(x) for x in np.argwhere(bad)[0]]
                    det = dict(wit, state=si, integrator=name, row=i, col=j, analytic=float(Dan[i, j]), fd=float(F2[i, j]),
                               fd_coarse=float(F1[i, j]), tol=float(tol[i, j]), terms=terms, nbad=int(bad.sum()))
                    for mech in diagnose(L, m, d, T, qvel, bias, i, j, F2, Dan, tol).split("|"):
                        P.violation("qDeriv-differs-from-FD:%s:%s" % (mech, name), det)
                P.count("smooth_checks_" + name)
                if bias:
                    Dan_full = Dan
                break
        # keep the effective controls for the free-body block check (its reference uses the forces' controls)
        d["ctrl"][:] = eff_ctrl
        # standalone free bodies: effective 6x6 matrix of implicitfast
        m.opt["integrator"] = E.mjINT_IMPLICITFAST
        L.call("mjd_smooth_vel", m, d, 0, ret=None)
        for jn, a in free:
            A = np.zeros(36)
            h = float(m.opt["timestep"])
            ok = L.call("mjd_freeMhat", m, d, jn, h, A)
            if ok != 1:
                P.violation("mjd_freeMhat:standalone-free-body-not-recognised", dict(wit, state=si, joint=jn))
                continue
            Mb = mass_block(L, m, d, a)
            want = Mb - h * (Dn2 - Db2)[a:a + 6, a:a + 6]
            sc = max(float(np.max(np.abs(want))), 1e-6)
            e = np.abs(A.reshape(6, 6) - want)
            tl = 1e-6 * sc + h * (20 * np.abs((Dn1 - Db1) - (Dn2 - Db2))[a:a + 6, a:a + 6] + 5e-10 * max(fmag, 1.0))
            P.count("freeMhat_blocks")
            if (e > tl).any() and Dan_full is not None and \
                    (np.abs(A.reshape(6, 6) - (Mb - h * Dan_full[a:a + 6, a:a + 6])) <= 1e-9 * sc + 1e-12).all():
                # A is M - h*qDeriv(implicit) exactly: the difference to FD is the qDeriv mismatch already reported above
                P.count("freeMhat_inherits_reported_qDeriv_mismatch")
            elif (e > tl).any():
                i, j = [int(x) for x in np.argwhere(e > tl)[0]]
                P.violation("mjd_freeMhat-differs-from-M-hD(FD)", dict(wit, state=si, joint=jn, row=i, col=j, got=float(A.reshape(6, 6)[i, j]),
                                                                        want=float(want[i, j])))
        P.case("%s|smooth|%d" % (wit["model"], si), nontrivial=nv > 0 and bool(terms),
               sample={"model": wit["model"], "kind": "smooth", "nv": nv, "terms": terms, "free_blocks": len(free)})
        for t in terms:
            P.count("term_" + t)
    finally:
        m.opt["integrator"] = int0
        d.free()
        if T is not None:
            T.free()


def mass_block(L, m, d, a):
    """6x6 block of M through the public mj_mulM (unit vectors)."""
    nv = m.n("nv")
    B = np.zeros((6, 6))
    for k in range(6):
        e = np.zeros(nv)
        e[a + k] = 1.0
        r = np.zeros(nv)
        L.call("mj_mulM", m, d, r, e, ret=None)
        B[:, k] = r[a:a + 6]
    return B


def _entry(L, m, T, qvel, bias):
    """(analytic qDeriv, FD reference) as dense matrices on twin T under the CURRENT model options (fd step 1e-5)"""
    T["qvel"][:] = qvel
    T.forward()
    L.call("mjd_smooth_vel", m, T, bias, ret=None)
    Dx, _ = dense_D(m, T["qDeriv"].copy())
    Fn, Fb = fd_forces(m, T, qvel, 1e-5)
    Fx = (Fn - Fb) if bias else 0.5 * (Fn + Fn.T)
    if not bias:
        for _, a0 in free_blocks(m):
            Fx[a0:a0 + 6, a0:a0 + 6] = Fn[a0:a0 + 6, a0:a0 + 6]
    return Dx, Fx


def _closed(Dx, Fx, i, j, tol, base):
    """the mismatch of entry (i,j) is gone: more than 95 % of the original error `base` removed and within tolerance"""
    return abs(Dx[i, j] - Fx[i, j]) <= min(tol[i, j], 0.05 * base) + 1e-9 * abs(Fx[i, j])


def _moves_with(m, body, dof):
    """body is the dof's body or one of its descendants"""
    par_, db = m["body_parentid"], int(m["dof_bodyid"][dof])
    b = int(body)
    while b > 0:
        if b == db:
            return True
        b = int(par_[b])
    return False


def guard_geoms(L, m, d, i, j):
    """ellipsoid-fluid geoms on bodies that move with dof i AND dof j for which an absolute mjMINVAL guard of the ellipsoid fluid
    model is active at the current velocity (semi-axes of a few cm at moderate speed). Returns (drag, kutta):
    drag  - sqrt(proj_num^3 * proj_denom) < mjMINVAL: the guard of the projected-area derivative in mjd_viscous_drag
            (engine_derivative.c) dominates, the force code (mj_viscousForces) has no such guard;
    kutta - kutta coefficient != 0 and |v| * proj_denom < mjMINVAL: the guard of cos_alpha in the Kutta-lift FORCE
            (engine_passive.c mj_viscousForces) clamps the force, mjd_kutta_lift differentiates the unclamped expression."""
    ng = m.n("ngeom")
    G = m["geom_fluid"].reshape(ng, -1)
    drag, kutta = [], []
    if not m.opt["density"] > 0:
        return drag, kutta
    for g in range(ng):
        if G[g, 0] <= 0:
            continue
        gb = int(m["geom_bodyid"][g])
        if not (_moves_with(m, gb, i) and _moves_with(m, gb, j)):
            continue
        s = np.zeros(3)
        L.call("mju_geomSemiAxes", s, np.ascontiguousarray(m["geom_size"][g]), int(m["geom_type"][g]), ret=None)
        lv = np.zeros(6)
        L.call("mj_objectVelocity", m, d, int(E.mjOBJ_GEOM), g, lv, 1, ret=None)
        w = d["geom_xmat"][g].reshape(3, 3).T @ np.asarray(m.opt["wind"])
        v = lv[3:] - w
        a, b, c = (s[1] * s[2]) ** 2, (s[2] * s[0]) ** 2, (s[0] * s[1]) ** 2
        num = a * v[0] ** 2 + b * v[1] ** 2 + c * v[2] ** 2
        den = a * a * v[0] ** 2 + b * b * v[1] ** 2 + c * c * v[2] ** 2
        if np.sqrt(num ** 3 * den) < float(E.mjMINVAL):
            drag.append(g)
        if G[g, 4] != 0 and np.linalg.norm(v) * den < float(E.mjMINVAL):
            kutta.append(g)
    return drag, kutta


GUARD = ":ellipsoid-drag-area-derivative-clamped-by-mjMINVAL-guard"
KUTTA = ":ellipsoid-kutta-lift-force-clamped-by-mjMINVAL-guard-derivative-unclamped"


def fluid_mechanisms(L, m, d, T, qvel, bias, i, j, tol, base):
    """mechanism confirmation inside the fluid family (audit B2: the former model-wide predicate relabelled every fluid-family
    mismatch of a model that merely contains one small slow geom). Returns the list of CONFIRMED mechanism suffixes ([] => plain
    'fluid-term', which is not a known finding). Each known mechanism needs (a) a guard-active ellipsoid geom on a body that moves
    with dof i and dof j and (b) a term-removal counterfactual on exactly those geoms:
      GUARD: blunt drag coefficient := slender drag coefficient, so Aproj_coef = density*|v|*(blunt - slender) = 0 removes the
             projected-area derivative term from mjd_viscous_drag and the projected-area dependence from the drag force;
      KUTTA: kutta lift coefficient := 0 removes the Kutta-lift force and its derivative;
    everything else (Magnus, added mass, viscous torque, inertia-box geoms, the other geoms) is unchanged. A mechanism is confirmed if
    its removal alone closes the gap of this entry (> 95 % of the error gone and within tolerance); if neither alone does but both
    together do, both are confirmed (each then carries more than 5 % of the error)."""
    drag, kutta = guard_geoms(L, m, d, i, j)
    if not drag and not kutta:
        return []
    G = m["geom_fluid"].reshape(m.n("ngeom"), -1)
    saved = G.copy()

    def closed_with(rm_drag, rm_kutta):
        try:
            if rm_drag:
                G[drag, 1] = G[drag, 2]
            if rm_kutta:
                G[kutta, 4] = 0.0
            Dx, Fx = _entry(L, m, T, qvel, bias)
            return bool(_closed(Dx, Fx, i, j, tol, base))
        finally:
            G[:] = saved

    if drag and closed_with(True, False):
        return [GUARD]
    if kutta and closed_with(False, True):
        return [KUTTA]
    if drag and kutta and closed_with(True, True):
        return [GUARD, KUTTA]
    return []


def actfrc_clamp_confirmed(L, m, d, T, qvel, bias, i, j, tol, err_signed):
    """mechanism confirmation for '...joint-actuatorfrcrange-clamp-ignored' (audit B2: for the symmetrised implicitfast entry a
    saturated column used to absorb an error originating in an unsaturated row). A = analytic actuator part of qDeriv (with minus
    without mjDSBL_ACTUATION, current other options). A row k is saturated if its scalar joint is jnt_actfrclimited and
    qfrc_actuator[k] sits on a bound: the true derivative of that row is 0 while the engine keeps A[k,:]. Predicted mismatch of entry
    (i,j): implicit A[i,j] if row i saturated; implicitfast (FD symmetrised) A[i,j] - 0.5*(u_i A[i,j] + u_j A[j,i]) with u_k = 0 for a
    saturated row, 1 otherwise. The signature is used only if the observed signed mismatch equals that prediction (5 % + tolerance)."""
    def sat(k):
        jn = int(m["dof_jntid"][k])
        if not m["jnt_actfrclimited"][jn] or int(m["jnt_type"][jn]) not in (int(E.mjJNT_HINGE), int(E.mjJNT_SLIDE)):
            return False
        r = m["jnt_actfrcrange"][jn]
        q = float(d["qfrc_actuator"][k])
        return q <= r[0] or q >= r[1]
    si, sj = sat(i), sat(j)
    if not (si or (sj and not bias)):
        return False
    dis = int(m.opt["disableflags"])
    try:
        T["qvel"][:] = qvel
        T.forward()
        L.call("mjd_smooth_vel", m, T, bias, ret=None)
        D1, _ = dense_D(m, T["qDeriv"].copy())
        m.opt["disableflags"] = dis | E.mjDSBL_ACTUATION
        T.forward()
        L.call("mjd_smooth_vel", m, T, bias, ret=None)
        D0, _ = dense_D(m, T["qDeriv"].copy())
    finally:
        m.opt["disableflags"] = dis
    A = D1 - D0
    if bias:
        pred = A[i, j] if si else 0.0
    else:
        pred = A[i, j] - 0.5 * ((0.0 if si else 1.0) * A[i, j] + (0.0 if sj else 1.0) * A[j, i])
    return bool(pred != 0 and abs(err_signed - pred) <= 0.05 * abs(err_signed) + tol[i, j])


def unclamped_ctrl_confirmed(L, m, T, qvel, bias, i, j, tol, share):
    """per-entry confirmation of the raw-d->ctrl mechanism on the ACTUATOR share of a mismatch (called with the other family switched
    off): with the clamped controls written into the twin's ctrl - the forces are the same, the actuation stage clamps - the share
    `share` of entry (i,j) is gone (within tolerance and more than 95 % removed)"""
    raw = T["ctrl"].copy()
    eff = effective_ctrl(m, raw)
    if not (raw != eff).any():
        return False
    try:
        T["ctrl"][:] = eff
        return bool(_closed(*_entry(L, m, T, qvel, bias), i, j, tol, share))
    finally:
        T["ctrl"][:] = raw


def diagnose(L, m, d, T, qvel, bias, i, j, F2, Dan, tol):
    """name the force family responsible for a mismatch by switching families off on the twin, and - only after a confirmation of
    the specific mechanism on this entry (counterfactual / predicted-value test) - the known mechanism inside the family; without
    confirmation the plain family name is returned (its signature is not a known finding)"""
    dis0 = int(m.opt["disableflags"])
    rho, mu = float(m.opt["density"]), float(m.opt["viscosity"])
    out = "unattributed"
    base = abs(Dan[i, j] - F2[i, j])       # a family is responsible if switching it off removes >95% of the error
    CLAMP = ":joint-actuatorfrcrange-clamp-ignored"

    def fluid_names(b):
        mechs = fluid_mechanisms(L, m, d, T, qvel, bias, i, j, tol, b)
        return "|".join("fluid-term" + x for x in mechs) if mechs else "fluid-term"

    def fluid(on):
        m.opt["density"], m.opt["viscosity"] = (rho, mu) if on else (0.0, 0.0)

    try:
        fluid(False)
        if (rho > 0 or mu > 0) and _closed(*_entry(L, m, T, qvel, bias), i, j, tol, base):
            fluid(True)
            out = fluid_names(base)
        else:
            fluid(True)
            m.opt["disableflags"] = dis0 | E.mjDSBL_ACTUATION
            if _closed(*_entry(L, m, T, qvel, bias), i, j, tol, base):
                out = "actuator-term"
                m.opt["disableflags"] = dis0
                if actfrc_clamp_confirmed(L, m, d, T, qvel, bias, i, j, tol, float(Dan[i, j] - F2[i, j])):
                    out += CLAMP
            else:
                m.opt["disableflags"] = dis0 | E.mjDSBL_DAMPER
                if _closed(*_entry(L, m, T, qvel, bias), i, j, tol, base):
                    out = "damper-term"
                else:
                    out = "bias-or-other-term"
                    # two families at once? (each is then named on its own, each mechanism confirmed with the other family off)
                    m.opt["disableflags"] = dis0 | E.mjDSBL_ACTUATION
                    fluid(False)
                    if (rho > 0 or mu > 0) and _closed(*_entry(L, m, T, qvel, bias), i, j, tol, base):
                        ac = "actuator-term"
                        fluid(True)                                     # actuation off, fluid on: the fluid share of the error
                        Dx, Fx = _entry(L, m, T, qvel, bias)
                        fl = fluid_names(abs(Dx[i, j] - Fx[i, j]))
                        m.opt["disableflags"] = dis0                    # fluid off, actuation on: the actuator share
                        fluid(False)
                        Dx, Fx = _entry(L, m, T, qvel, bias)
                        if actfrc_clamp_confirmed(L, m, d, T, qvel, bias, i, j, tol, float(Dx[i, j] - Fx[i, j])):
                            ac += CLAMP
                        elif unclamped_ctrl_confirmed(L, m, T, qvel, bias, i, j, tol, abs(float(Dx[i, j] - Fx[i, j]))):
                            ac = "actuator-term-uses-unclamped-ctrl"
                        out = fl + "|" + ac
    except drv.MjError:
        pass
    finally:
        m.opt["disableflags"] = dis0
        fluid(True)
        T["qvel"][:] = qvel
        T.forward()
    return out


# ------------------------------------------------------------------------------------------ (b) mjd_transitionFD

def phys(m, d):
    return d.get_state(E.mjSTATE_PHYSICS)


def sdiff(L, m, s1, s2, h):
    """(s2 - s1)/h in tangent space: [dq(nv); dv(nv); da(na)]."""
    nq, nv, na = m.n("nq"), m.n("nv"), m.n("na")
    out = np.zeros(2 * nv + na)
    dq = np.zeros(nv)
    q1, q2 = np.ascontiguousarray(s1[:nq]), np.ascontiguousarray(s2[:nq])
    L.call("mj_differentiatePos", m, dq, float(h), q1, q2, ret=None)
    out[:nv] = dq
    out[nv:] = (s2[nq:] - s1[nq:]) / h
    return out


def twin_transition(L, m, T, s0, eps, centered):
    """reference A,B,C,D by direct perturbation of mj_step on twin T (restored with mj_setState each time)."""
    nq, nv, na, nu, ns = m.n("nq"), m.n("nv"), m.n("na"), m.n("nu"), m.n("nsensordata")
    ndx = 2 * nv + na

    def run(pert):
        T.set_state(s0, INT)
        pert()
        T.step(1)
        return phys(m, T), T["sensordata"].copy()

    y0, z0 = run(lambda: None)
    A, B = np.zeros((ndx, ndx)), np.zeros((ndx, nu))
    Cm, Dm = np.zeros((ns, ndx)), np.zeros((ns, nu))

    def column(pp, pm):
        yp, zp = run(pp)
        if centered:
            ym, zm = run(pm)
            return sdiff(L, m, ym, yp, 2 * eps), (zp - zm) / (2 * eps)
        return sdiff(L, m, y0, yp, eps), (zp - z0) / eps

    def posnudge(i, s):
        def f():
            dp = np.zeros(nv)
            dp[i] = 1.0
            L.call("mj_integratePos", m, T["qpos"], dp, float(s * eps), ret=None)
        return f

    def addto(name, i, s):
        def f():
            T[name][i] += s * eps
        return f

    for i in range(nv):
        A[:, i], Cm[:, i] = column(posnudge(i, 1), posnudge(i, -1))
        A[:, nv + i], Cm[:, nv + i] = column(addto("qvel", i, 1), addto("qvel", i, -1))
    for i in range(na):
        A[:, 2 * nv + i], Cm[:, 2 * nv + i] = column(addto("act", i, 1), addto("act", i, -1))
    # controls of ctrllimited actuators are differentiated inside the feasible set: a nudge that would leave ctrlrange is not taken
    # (the clamped map is flat there) and the difference is formed on the feasible side only - the derivative from inside the range
    lim = m["actuator_ctrllimited"] if nu else np.zeros(0)
    rg = m["actuator_ctrlrange"].reshape(-1, 2) if nu else np.zeros((0, 2))
    clamp_on = not (int(m.opt["disableflags"]) & int(E.mjDSBL_CLAMPCTRL))
    T.set_state(s0, INT)
    u0 = T["ctrl"].copy()
    for i in range(nu):
        limited = bool(lim[i]) and clamp_on if i < len(lim) else False
        fwd_ok = (not limited) or (rg[i, 0] <= u0[i] <= rg[i, 1] and u0[i] + eps <= rg[i, 1])
        bwd_ok = (not limited) or (rg[i, 0] <= u0[i] <= rg[i, 1] and u0[i] - eps >= rg[i, 0])
        if fwd_ok and (bwd_ok or not centered):
            B[:, i], Dm[:, i] = column(addto("ctrl", i, 1), addto("ctrl", i, -1))
        elif fwd_ok:                                    # centred requested, backward side infeasible: forward difference
            yp, zp = run(addto("ctrl", i, 1))
            B[:, i], Dm[:, i] = sdiff(L, m, y0, yp, eps), (zp - z0) / eps
        elif bwd_ok:                                    # forward side infeasible: backward difference
            ym, zm = run(addto("ctrl", i, -1))
            B[:, i], Dm[:, i] = sdiff(L, m, ym, y0, eps), (z0 - zm) / eps
        else:
            B[:, i], Dm[:, i] = 0.0, 0.0              # range narrower than eps or control outside its range: no feasible nudge
    T.set_state(s0, INT)
    return A, B, Cm, Dm, float(np.max(np.abs(y0))) if len(y0) else 0.0, float(np.max(np.abs(z0))) if ns else 0.0


def skipstage_column(L, m, T, s0, eps, centered, name, i, stage=None, side=None):
    """diagnostic only: the same column formed with mj_stepSkip(stage) after an unperturbed step. stage = mjSTAGE_VEL (default, what
    mjd_transitionFD does for ctrl/act columns): mj_implicitSkip runs with skipfactor = 1, i.e. with the factorisation of M - h*qDeriv
    left over from the unperturbed controls/activations. stage = mjSTAGE_POS: the same skipping of the position stage (valid for a
    ctrl/act nudge) but skipfactor = 0 (the velocity stage that is additionally recomputed does not depend on ctrl/act)."""
    stage = int(E.mjSTAGE_VEL) if stage is None else int(stage)
    try:
        def run(sgn):
            T.set_state(s0, INT)
            if sgn:
                T[name][i] += sgn * eps
            L.call("mj_stepSkip", m, T, int(stage if sgn else E.mjSTAGE_NONE), 1, ret=None)
            return phys(m, T)
        y0 = run(0)
        mode = side or ("centred" if centered else "forward")
        if mode == "centred":
            col = sdiff(L, m, run(-1), run(1), 2 * eps)
        elif mode == "backward":
            col = sdiff(L, m, run(-1), y0, eps)
        else:
            col = sdiff(L, m, y0, run(1), eps)
        T.set_state(s0, INT)
        return col
    except (drv.MjError, AttributeError):
        return None


def state_component(L, m, a, b, sig):
    names = ["time", "qpos", "qvel", "act", "history", "qacc_warmstart", "ctrl", "qfrc_applied", "xfrc_applied", "eq_active",
             "mocap_pos", "mocap_quat", "userdata", "plugin_state"]
    if a.tobytes() == b.tobytes():
        return None
    i = int(np.flatnonzero(a.view(np.uint64) != b.view(np.uint64))[0])
    off = 0
    for bit, nm in enumerate(names):
        if not (int(sig) >> bit) & 1:
            continue
        n = L.call("mj_stateSize", m, 1 << bit)
        if off <= i < off + n:
            return nm
        off += n
    return "?"


def state_sig(m):
    sig = int(INT)
    if int(m.opt["disableflags"]) & E.mjDSBL_WARMSTART:
        sig &= ~int(E.mjSTATE_WARMSTART)
    return sig


BADW = ("mjWARN_BADQPOS", "mjWARN_BADQVEL", "mjWARN_BADQACC", "mjWARN_BADCTRL")


def unstable(m, d):
    """True if the state is diverging: a bad-value warning was raised on the way here or is raised by one more step (the
    step then contains an automatic reset and has no derivative)."""
    w = d.sv("warning")["number"]
    if any(int(w[getattr(E, k)]) for k in BADW):
        return True
    t = d.copy()
    try:
        t.step(1)
        w = t.sv("warning")["number"]
        bad = any(int(w[getattr(E, k)]) for k in BADW) or not np.all(np.isfinite(t.get_state(E.mjSTATE_PHYSICS)))
    except drv.MjError:
        bad = True
    t.free()
    return bad


def check_transition(L, m, P, c, wit, rng, si):
    nv, na, nu, ns = m.n("nv"), m.n("na"), m.n("nu"), m.n("nsensordata")
    ndx = 2 * nv + na
    d = m.make_data()
    T = None
    try:
        eps = float(rng.choice([1e-6, 1e-5]))
        set_random_inputs(rng, m, d, inside=2 * eps)
        d.step(int(rng.integers(0, 3)))           # leaves a warm-start and a non-zero time
        # a third of the cases put limited controls exactly on (or within eps/2 of) a bound of their range: the engine has to
        # difference on the feasible side there
        if nu and rng.random() < 0.34:
            lim_, rg_ = m["actuator_ctrllimited"], m["actuator_ctrlrange"].reshape(-1, 2)
            hit = False
            for i in range(min(nu, len(lim_))):
                if lim_[i] and rg_[i, 1] - rg_[i, 0] > 10 * eps and rng.random() < 0.7:
                    side = int(rng.integers(0, 2))
                    d["ctrl"][i] = rg_[i, side] + (0.0 if rng.random() < 0.6 else (-1 if side else 1) * 0.4 * eps)
                    hit = True
            if hit:
                P.count("transition_cases_with_ctrl_on_range_bound")
        bound_cols = []
        if nu:
            lim_, rg_ = m["actuator_ctrllimited"], m["actuator_ctrlrange"].reshape(-1, 2)
            u_ = d["ctrl"]
            bound_cols = [i for i in range(min(nu, len(lim_))) if lim_[i] and (u_[i] + eps > rg_[i, 1] or u_[i] - eps < rg_[i, 0])]
        centered = int(rng.integers(0, 2))
        which = int(rng.integers(0, 4))            # which outputs are requested (NULL for the others)
        if unstable(m, d):
            P.count("skipped_unstable_state")
            P.case(nontrivial=False)
            return
        T = d.copy()
        sig = state_sig(m)
        s_full = d.get_state(INT)
        s0 = d.get_state(sig)
        A, B = np.full((ndx, ndx), np.nan), np.full((ndx, nu), np.nan)
        Cm, Dm = np.full((ns, ndx), np.nan), np.full((ns, nu), np.nan)
        wantC = which in (0, 1) and ns > 0
        wantB = which in (0, 2, 3) and nu > 0
        L.call("mjd_transitionFD", m, d, eps, centered, A, B if wantB else None, Cm if wantC else None,
               Dm if (wantC and wantB) else None, ret=None)
        s1 = d.get_state(sig)
        comp = state_component(L, m, s1, s0, sig)
        det = dict(wit, state=si, eps=eps, centered=centered, which=which, integrator=int(m.opt["integrator"]))
        if comp:
            P.violation("mjd_transitionFD-changes-input-state:%s" % comp, det)
        rA, rB, rC, rD, ymag, zmag = twin_transition(L, m, T, s_full, eps, centered)
        nefc = d.s("nefc")
        pairs = [("A", A, rA, ymag)]
        if wantB:
            pairs.append(("B", B, rB, ymag))
        if wantC:
            pairs.append(("C", Cm, rC, zmag))
        if wantC and wantB:
            pairs.append(("D", Dm, rD, zmag))
        for nm, got, want, mag in pairs:
            if got.size == 0:
                continue
            if not np.all(np.isfinite(got)):
                P.violation("mjd_transitionFD:%s-not-fully-written-or-nonfinite" % nm, det)
                continue
            tol = 1e-9 * max(float(np.max(np.abs(want))), 1.0) + 200 * EPSM * max(mag, 1.0) / eps
            e = np.abs(got - want)
            if nm in ("B", "D") and bound_cols:
                # one-sided columns at a range bound difference the unperturbed step (full pipeline) against a skip-stage step: the solver
                # tolerance no longer cancels between the two terms as it does between two skip-stage steps of an interior column
                e = e.copy()
                e[:, bound_cols] /= 8.0
            P.note_max("max:transition_err_over_tol", float(np.max(e / tol)))
            if (e > tol).any():
                i, j = [int(x) for x in np.argwhere(e > tol)[0]]
                blk = "q" if j < nv else ("v" if j < 2 * nv else "a")
                if nm in ("B", "D"):
                    blk = "u"
                dd = dict(det, row=i, col=j, got=float(got[i, j]), want=float(want[i, j]), tol=tol, nefc=nefc)
                if nm == "D" and centered and np.all(np.abs(got + want) <= tol):
                    P.violation("mjd_transitionFD:D-has-opposite-sign-with-centred-differences", dd)
                    continue
                if nm in ("A", "B") and blk in ("a", "u") and int(m.opt["integrator"]) in (E.mjINT_IMPLICIT, E.mjINT_IMPLICITFAST):
                    # mechanism confirmation: (1) the engine's column is reproduced by mj_stepSkip(mjSTAGE_VEL) (stale factorisation),
                    # and (2) counterfactual: the same skip of the position stage with a fresh factorisation, mj_stepSkip(mjSTAGE_POS),
                    # reproduces the twin's column - so the mismatch is due to skipfactor alone, not to anything else on the skip path
                    arr, k = ("act", j - 2 * nv) if blk == "a" else ("ctrl", j)
                    side = None
                    if blk == "u" and k in bound_cols:
                        # feasible-side differencing at a range bound (same rule as twin_transition)
                        fwd_ok = d["ctrl"][k] + eps <= m["actuator_ctrlrange"].reshape(-1, 2)[k, 1]
                        bwd_ok = d["ctrl"][k] - eps >= m["actuator_ctrlrange"].reshape(-1, 2)[k, 0]
                        side = ("centred" if centered else "forward") if (fwd_ok and (bwd_ok or not centered)) else ("forward" if fwd_ok else "backward")
                    col = skipstage_column(L, m, T, s_full, eps, centered, arr, k, side=side)
                    colp = skipstage_column(L, m, T, s_full, eps, centered, arr, k, stage=E.mjSTAGE_POS, side=side)
                    ctol = tol * (8.0 if (blk == "u" and k in bound_cols) else 1.0)
                    if col is not None and colp is not None and np.all(np.abs(col - got[:, j]) <= ctol) and np.all(np.abs(colp - want[:, j]) <= ctol):
                        P.count("stale_factorization_confirmed")
                        P.violation("mjd_transitionFD:ctrl/act-columns-reuse-stale-implicit-factorization(M-hD-depends-on-ctrl/act)", dd)
                        continue
                P.violation("mjd_transitionFD:%s-differs-from-perturbed-mj_step:d/d%s" % (nm, blk), dd)
        # forward vs centred of the engine itself (constraint-free only: the dynamics are smooth there)
        if nefc == 0 and d.s("ncon") == 0:
            A2 = np.zeros((ndx, ndx))
            L.call("mjd_transitionFD", m, d, eps, 1 - centered, A2, None, None, None, ret=None)
            scale = max(float(np.max(np.abs(A))), 1.0)
            # second-derivative estimate from the twin at a different step: |fwd - cen| ~ eps/2 |f''|
            tA, _, _, _, _, _ = twin_transition(L, m, T, s_full, eps * 4, 0)
            tAc, _, _, _, _, _ = twin_transition(L, m, T, s_full, eps * 4, 1)
            bound = 2.0 * np.abs(tA - tAc) + 1e-6 * scale + 400 * EPSM * max(ymag, 1.0) / eps
            e = np.abs(A - A2)
            P.count("fwd_vs_centred_checked")
            if (e > bound).any():
                i, j = [int(x) for x in np.argwhere(e > bound)[0]]
                P.violation("mjd_transitionFD:forward-and-centred-disagree-beyond-O(eps)",
                            dict(det, row=i, col=j, a=float(A[i, j]), b=float(A2[i, j]), bound=float(bound[i, j])))
        P.count("transition_checks_int%d" % int(m.opt["integrator"]))
        P.count("transition_centered" if centered else "transition_forward")
        if nefc:
            P.count("transition_with_constraints")
        P.case("%s|transition|%d|int%d" % (wit["model"], si, int(m.opt["integrator"])), nontrivial=nv > 0,
               sample={"model": wit["model"], "kind": "transition", "nv": nv, "na": na, "nu": nu, "ns": ns, "nefc": nefc,
                       "eps": eps, "centered": centered})
    finally:
        d.free()
        if T is not None:
            T.free()


# ------------------------------------------------------------------------------------------ (c) mjd_inverseFD

def inverse_sensor_mask(m):
    """sensordata entries that are functions of (qpos, qvel, qacc) under mj_inverse: actuator-force sensors are not (inverse
    dynamics does not run the actuation stage; they report whatever the last actuation call left)."""
    ns = m.n("nsensordata")
    keep = np.ones(ns, dtype=bool)
    stale = [getattr(E, n) for n in ("mjSENS_ACTUATORFRC", "mjSENS_JOINTACTFRC", "mjSENS_TENDONACTFRC") if hasattr(E, n)]
    for i in range(m.n("nsensor")):
        if int(m["sensor_type"][i]) in stale:
            a, n = int(m["sensor_adr"][i]), int(m["sensor_dim"][i])
            keep[a:a + n] = False
    return keep


def check_inverse(L, m, P, c, wit, rng, si):
    nq, nv, ns, nC = m.n("nq"), m.n("nv"), m.n("nsensordata"), m.n("nC")
    d = m.make_data()
    T = None
    try:
        eps = float(rng.choice([1e-6, 1e-5]))
        set_random_inputs(rng, m, d)
        d.step(int(rng.integers(0, 3)))
        d.forward()
        d["qacc"][:] = d["qacc"] + rng.normal(size=nv) * 0.1
        flg = int(rng.integers(0, 2))
        if unstable(m, d) or not np.all(np.isfinite(d["qacc"])):
            P.count("skipped_unstable_state")
            P.case(nontrivial=False)
            return
        T = d.copy()
        sig = state_sig(m)
        s0, a0 = d.get_state(sig), d["qacc"].copy()
        names = ["DfDq", "DfDv", "DfDa", "DsDq", "DsDv", "DsDa", "DmDq"]
        shapes = [(nv, nv)] * 3 + [(nv, ns)] * 3 + [(nv, nC)]
        want_mask = [bool(rng.random() < 0.8) for _ in names]
        if not any(want_mask[:3]):
            want_mask[1] = True
        outs = [np.full(sh, np.nan) if w else None for sh, w in zip(shapes, want_mask)]
        L.call("mjd_inverseFD", m, d, eps, flg, *outs, ret=None)
        det = dict(wit, state=si, eps=eps, flg_actuation=flg, requested=[n for n, w in zip(names, want_mask) if w])
        comp = state_component(L, m, d.get_state(sig), s0, sig)
        if comp:
            P.violation("mjd_inverseFD-changes-input-state:%s" % comp, det)
        if d["qacc"].tobytes() != a0.tobytes():
            P.violation("mjd_inverseFD-changes-input-state:qacc", det)

        def run(pert):
            T.set_state(d.get_state(INT), INT)
            T["qacc"][:] = a0
            pert()
            T.inverse()
            f = T["qfrc_inverse"].copy()
            if flg:
                L.call("mj_fwdActuation", m, T, ret=None)
                f -= T["qfrc_actuator"]
            return f, T["sensordata"].copy(), T["M"].copy()

        f0, z0, M0 = run(lambda: None)
        ref = [np.zeros(sh) for sh in shapes]
        for i in range(nv):
            def pq():
                dp = np.zeros(nv)
                dp[i] = 1.0
                L.call("mj_integratePos", m, T["qpos"], dp, eps, ret=None)

            def pv():
                T["qvel"][i] += eps

            def pa():
                T["qacc"][i] += eps
            for k, pert in ((0, pq), (1, pv), (2, pa)):
                f, z, M = run(pert)
                ref[k][i] = (f - f0) / eps
                ref[3 + k][i] = (z - z0) / eps
                if k == 0:
                    ref[6][i] = (M - M0) / eps
        mags = [float(np.max(np.abs(f0))) if nv else 0.0] * 3 + [float(np.max(np.abs(z0))) if ns else 0.0] * 3 + \
               [float(np.max(np.abs(M0))) if nC else 0.0]
        smask = inverse_sensor_mask(m)
        for nm, got, want, mag in zip(names, outs, ref, mags):
            if got is None or got.size == 0:
                continue
            if nm.startswith("Ds"):
                got, want = got[:, smask], want[:, smask]
                if got.size == 0:
                    continue
            if not np.all(np.isfinite(got)):
                P.violation("mjd_inverseFD:%s-not-fully-written-or-nonfinite" % nm, det)
                continue
            tol = 1e-9 * max(float(np.max(np.abs(want))), 1.0) + 200 * EPSM * max(mag, 1.0) / eps
            e = np.abs(got - want)
            P.note_max("max:inverse_err_over_tol", float(np.max(e / tol)))
            if (e > tol).any():
                i, j = [int(x) for x in np.argwhere(e > tol)[0]]
                P.violation("mjd_inverseFD:%s-differs-from-perturbed-mj_inverse" % nm,
                            dict(det, row=i, col=j, got=float(got[i, j]), want=float(want[i, j]), tol=tol))
        P.count("inverse_checks")
        P.count("inverse_flg_actuation_%d" % flg)
        P.case("%s|inverse|%d" % (wit["model"], si), nontrivial=nv > 0,
               sample={"model": wit["model"], "kind": "inverse", "nv": nv, "ns": ns, "eps": eps, "flg_actuation": flg})
    finally:
        d.free()
        if T is not None:
            T.free()


# ------------------------------------------------------------------------------------------ driver

def worker(c):
    P = core.Part()
    L = drv.Lib("rel")
    xml, tags = gen_model(c)
    try:
        m = L.load_xml_string(xml)
    except drv.MjError:
        P.count("model_rejected")
        return P.result()
    name = "gen:%s:%d:f%d" % (c["profile"], c["mseed"], c["fluid"])
    m.opt["enableflags"] = int(m.opt["enableflags"]) & ~E.mjENBL_SLEEP
    wit = {"model": name, "xml": xml, "case": {k: v for k, v in c.items() if not k.startswith("_")}}
    nv = m.n("nv")
    if nv == 0:
        P.count("model_without_dofs")
        m.free()
        return P.result()
    for t in tags:
        if t.startswith(("act_", "trn_", "dyn_", "gain_", "bias_")) or t in ("fluidshape", "tendon_damping", "joint_damping"):
            P.count("feature_" + t)
    for si in range(c["nstate"]):
        rng = np.random.default_rng([c["seed"], si])
        kind = c.get("only_kind") or c["kinds"][si % len(c["kinds"])]
        if c.get("only_state") is not None and si != c["only_state"]:
            continue
        try:
            if kind == "smooth":
                check_smooth(L, m, P, c, wit, rng, si)
            else:
                m.opt["integrator"] = [E.mjINT_EULER, E.mjINT_IMPLICIT, E.mjINT_IMPLICITFAST][int(rng.integers(0, 3))]
                if rng.random() < 0.2:
                    m.opt["disableflags"] = int(m.opt["disableflags"]) | E.mjDSBL_WARMSTART
                else:
                    m.opt["disableflags"] = int(m.opt["disableflags"]) & ~E.mjDSBL_WARMSTART
                if kind == "transition":
                    check_transition(L, m, P, c, wit, rng, si)
                else:
                    check_inverse(L, m, P, c, wit, rng, si)
        except drv.MjError as e:
            P.count("engine_error_skipped")
            P.count("engine_error:" + str(e)[:50])
            P.case(nontrivial=False)
    m.free()
    return P.result()


def cases(ctx):
    rng = ctx.rng
    cs = []
    n = ctx.pick(220, 1400)
    for i in range(n):
        prof = "smooth" if i % 4 != 3 else "rich"
        kinds = ["smooth", "transition", "smooth", "inverse"] if prof == "smooth" else ["transition", "inverse"]
        cs.append({"profile": prof, "mseed": int(rng.integers(0, 2 ** 31)), "seed": int(rng.integers(0, 2 ** 31)),
                   "fluid": i % 5 if prof == "smooth" else (i // 4) % 5, "sensors": i % 2, "kinds": kinds,
                   "nstate": ctx.pick(4, 6)})
    return cs


def run(ctx):
    build.ensure("rel")
    cs = cases(ctx)
    fast = int(os.environ.get("VERIF_FAST", "0"))      # mutant screening: first 1/fast of the same case list
    if fast:
        cs = cs[:len(cs) // fast]
    res = par.run("vf.props.c25", "worker", cs, nproc=16, timeout=ctx.pick(400, 1200))
    for c, r in zip(cs, res):
        if r is None:
            ctx.inconclusive("worker returned nothing")
        elif "crash" in r:
            ctx.count("worker_crash")
            ctx.inconclusive("worker crashed: rc=%s %s" % (r.get("rc"), r["crash"][-300:]))
        elif "exception" in r:
            ctx.count("harness_exception")
            ctx.inconclusive("harness exception in worker: " + r["exception"])
        else:
            ctx.merge(r)
    n = max(1, ctx.evaluations)
    if ctx.counters.get("skipped_unstable_state", 0) > 0.1 * n:
        ctx.inconclusive("too many diverging states skipped")
    if ctx.counters.get("engine_error_skipped", 0) > 0.1 * n:
        ctx.inconclusive("too many cases skipped because of engine errors")
    cmp_, skp = ctx.counters.get("entries_compared", 0), ctx.counters.get("entries_skipped_nonsmooth", 0)
    if skp > 0.2 * max(1, cmp_ + skp):
        ctx.inconclusive("too many qDeriv entries skipped as non-smooth (%d of %d)" % (skp, cmp_ + skp))
    for need in ("term_jointdamp", "term_tendondamp", "term_fluid", "term_ellipsoid", "term_act_bias_kv", "term_act_gain_kv",
                 "term_muscle", "freeMhat_blocks", "fwd_vs_centred_checked", "inverse_checks", "transition_with_constraints"):
        if not ctx.counters.get(need):
            ctx.inconclusive("workload never exercised: " + need)
    ctx.min_nontrivial = 1 if fast else ctx.pick(500, 4000)


def replay(ctx, path):
    rec = json.load(open(path))
    det = rec["detail"]
    c = dict(det["case"])
    if "state" in det:
        c["only_state"] = det["state"]
    ctx.merge(worker(c))
    ctx.min_nontrivial = 0
