"""C19 Internal stack and arena allocation is memory-safe."""
import ctypes as C
import json
import re

import numpy as np

from .. import build, common, core, drv, nat, par
from ..gen import corpus, model
from ..mjconst import E

LEVEL = "exploration"
RULE = ("shadow allocator fed by the repo's allocator hook (every stack/arena allocation, mark and free of an mjData): "
        "alignment, containment in the stack/arena regions, no overlap with live blocks, mark/free restoring the recorded "
        "pstack/pbase; (1) direct native harness: random well-nested mark/alloc/free/arena sequences on arenas of 1K-1M "
        "with sizes 0, 1, primes, near and beyond the remaining space and alignments 1-4096, per-block byte patterns "
        "re-verified before the block dies, exhaustion must be mju_error (stack) or NULL (arena); concurrent "
        "reservations from real mju_dispatch tasks under rel/TSan/ASan; (2) in situ: real mj_step/forward/inverse/"
        "derivative/ray calls on corpus and generated models with pools of 0 and 4 workers, hook on, and pstack/pbase "
        "compared before and after every public call. distinct = (mode, flavour, seed) histories and (model, call) pairs; "
        "non-trivial = the hook observed allocator events")
ASSUMPTIONS = ["size-0 requests return NULL (documented no-op); mark/free are no-ops under the thread lock",
               "the engine rewinds the arena itself (parena = ncon*sizeof(mjContact) ...): in situ, arena blocks above a new block's start are treated as released",
               "ASan sees only what the repo's own red zones/poisoning expose inside the single arena allocation"]

CALLS = ["mj_step", "mj_forward", "mj_inverse", "mj_step1+2", "mjd_transitionFD", "mj_ray", "mj_fullM", "mj_energy", "mj_printless"]


def _summary(out):
    m = re.search(r"SUMMARY (.*)", out)
    return dict(kv.split("=") for kv in m.group(1).split()) if m else None


def worker(c):
    P = core.Part()
    L = drv.Lib(c.get("flavour", "rel"))
    lib = L.lib
    lib.vf_mem_violation.restype = C.c_char_p
    for fn in ("vf_mem_track", "vf_mem_forget", "vf_mem_arena_reset"):
        getattr(lib, fn).argtypes = [C.c_void_p]
    lib.vf_mem_stats.argtypes = [C.c_void_p, C.POINTER(C.c_longlong)]
    lib.vf_mem_install(0)
    lib.vf_mem_clear()
    try:
        if c["kind"] == "corpus":
            m = L.load_xml(str(build.REPO / c["path"]))
            name = c["path"]
        else:
            xml, tags = model.gen_profile(np.random.default_rng(c["mseed"]), c["profile"])
            m = L.load_xml_string(xml)
            name = "gen:%s:%d" % (c["profile"], c["mseed"])
    except drv.MjError:
        P.count("model_rejected")
        return P.result()
    rng = np.random.default_rng(c["seed"])
    opts = common.random_options(rng, m) if c.get("randopt") else {}
    try:
        d = m.make_data()
    except drv.MjError:
        P.count("makedata_rejected_under_options")
        return P.result()
    lib.vf_mem_track(d.ptr)
    nthread = c.get("nthread", 0)
    if nthread:
        L.call("mju_threadpool", d, nthread, ret=None)
    st = (C.c_longlong * 12)()

    def pointers():
        return (d.s("pstack"), d.s("pbase"))

    nv = m.n("nv")
    dcopy = None
    for k in range(c["ncalls"]):
        call = CALLS[int(rng.integers(0, len(CALLS)))]
        if rng.random() < 0.3:
            common.random_controls(rng, m, d)
        before = pointers()
        lib.vf_mem_stats(None, st)
        ev0 = sum(st[i] for i in range(5))
        nviol0 = int(st[5])
        warn0 = d.sv("warning")["number"].copy()
        if dcopy is not None:
            dcopy.free()
        dcopy = None
        try:
            if call == "mj_step":
                d.step(int(rng.integers(1, 4)))
            elif call == "mj_forward":
                d.forward()
            elif call == "mj_inverse":
                d.inverse()
            elif call == "mj_step1+2":
                L.call("mj_step1", m, d, ret=None)
                after1 = pointers()
                if after1 != before:
                    P.violation("public-call-leaks-stack:mj_step1", {"model": name, "before": before, "after": after1, "case": c})
                L.call("mj_step2", m, d, ret=None)
            elif call == "mjd_transitionFD":
                if nv and nv < 80:
                    dcopy = d.copy()
                    n = 2 * nv + m.n("na")
                    A = np.zeros((n, n))
                    B = np.zeros((n, m.n("nu")))
                    L.call("mjd_transitionFD", m, d, 1e-6, 1, A, B, None, None, ret=None)
            elif call == "mj_ray":
                gid = np.zeros(1, dtype=np.int32)
                L.call("mj_ray", m, d, np.array([0., 0, 2]), np.array([0.1, 0.2, -1.0]), None, 1, -1, gid, None, ret="f64")
            elif call == "mj_fullM":
                if nv and nv < 300:
                    M = np.zeros((nv, nv))
                    L.call("mj_fullM", m, d, M, ret=None)
            elif call == "mj_energy":
                L.call("mj_energyPos", m, d, ret=None)
                L.call("mj_energyVel", m, d, ret=None)
            else:
                L.call("mj_kinematics", m, d, ret=None)
                L.call("mj_comPos", m, d, ret=None)
                L.call("mj_crb" if hasattr(lib, "mj_crb") else "mj_makeM", m, d, ret=None)
        except drv.MjError as e:
            # trapped error: the data is poisoned by contract; forget the shadow, start over on fresh data
            P.count("engine_error:" + str(e).split(":")[0][:30])
            lib.vf_mem_forget(d.ptr)
            if nthread:
                L.call("mju_threadpool", d, 0, ret=None)
            d.free()
            d = m.make_data()
            lib.vf_mem_track(d.ptr)
            if nthread:
                L.call("mju_threadpool", d, nthread, ret=None)
            continue
        after = pointers()
        lib.vf_mem_stats(d.ptr, st)
        ev1 = sum(st[i] for i in range(5))
        if (int(st[5]) > nviol0 or after != before) and call == "mjd_transitionFD" and dcopy is not None:
            # mechanism test: a perturbed step inside mjd_transitionFD tripped a bad-value check and mj_resetData ran (autoreset),
            # which zeroes pstack/pbase UNDER the still open frame of mjd_stepFD: later stack blocks overlap its live arrays
            w = d.sv("warning")["number"] - warn0
            bad = int(w[E.mjWARN_BADQPOS]) + int(w[E.mjWARN_BADQVEL]) + int(w[E.mjWARN_BADQACC])
            msgs = [lib.vf_mem_violation(i).decode() for i in range(nviol0, min(8, int(st[5])))]
            autoreset_on = not (int(m.opt["disableflags"]) & int(E.mjDSBL_AUTORESET))
            # counterfactual: the same call from the same state with autoreset disabled is clean (no shadow violation, stack pointer
            # restored) - then the reset inside the finite-difference loop is what released the frame
            clean_without_autoreset = False
            if autoreset_on and nviol0 == 0:
                lib.vf_mem_clear_violations()
                lib.vf_mem_track(dcopy.ptr)
                m.opt["disableflags"] = int(m.opt["disableflags"]) | int(E.mjDSBL_AUTORESET)
                try:
                    b2 = (dcopy.s("pstack"), dcopy.s("pbase"))
                    n2 = 2 * nv + m.n("na")
                    L.call("mjd_transitionFD", m, dcopy, 1e-6, 1, np.zeros((n2, n2)), np.zeros((n2, m.n("nu"))), None, None, ret=None)
                    lib.vf_mem_stats(dcopy.ptr, st)
                    clean_without_autoreset = int(st[5]) == 0 and (dcopy.s("pstack"), dcopy.s("pbase")) == b2
                except drv.MjError:
                    clean_without_autoreset = False
                finally:
                    m.opt["disableflags"] = int(m.opt["disableflags"]) & ~int(E.mjDSBL_AUTORESET)
                    lib.vf_mem_forget(dcopy.ptr)
                    lib.vf_mem_clear_violations()
                P.count("transitionFD_autoreset_counterfactual_" + ("clean" if clean_without_autoreset else "not_clean"))
            if (bad > 0 or clean_without_autoreset) and clean_without_autoreset and autoreset_on and nviol0 == 0:
                P.violation("autoreset-inside-mjd_transitionFD-resets-the-stack-under-the-open-frame",
                            {"model": name, "messages": msgs[:4], "case": c, "options": opts, "warnings_raised": w.tolist(), "pointers": [before, after]})
                lib.vf_mem_clear_violations()
                lib.vf_mem_forget(d.ptr)
                if nthread:
                    L.call("mju_threadpool", d, 0, ret=None)
                d.free()
                d = m.make_data()
                lib.vf_mem_track(d.ptr)
                if nthread:
                    L.call("mju_threadpool", d, nthread, ret=None)
                continue
        P.case("%s|%s|%s|t%d" % (name, json.dumps(opts, sort_keys=True), call, nthread), nontrivial=ev1 > ev0,
               sample={"model": name, "call": call, "nthread": nthread, "events": int(ev1 - ev0), "options": opts})
        if after != before:
            P.violation("public-call-leaks-stack:" + call, {"model": name, "before": before, "after": after, "case": c, "options": opts})
        if st[10] not in (0, -1):
            P.violation("open-frames-after-public-call:" + call, {"model": name, "open_frames": int(st[10]), "case": c})
    lib.vf_mem_stats(d.ptr, st)
    for k, nm in enumerate(["hook_stack", "hook_threaded", "hook_arena", "hook_mark", "hook_free"]):
        P.count(nm, int(st[k]))
    P.note_max("max_frame_depth", st[6])
    P.note_max("max_live_blocks", st[7])
    for i in range(min(8, int(st[5]))):
        msg = lib.vf_mem_violation(i).decode()
        P.violation("shadow:" + re.sub(r"[0-9a-f]{6,}|\d+", "N", msg)[:70], {"model": name, "message": msg, "case": c, "options": opts})
    if nthread:
        L.call("mju_threadpool", d, 0, ret=None)
    lib.vf_mem_forget(d.ptr)
    d.free()
    m.free()
    lib.vf_mem_uninstall()
    return P.result()


def run(ctx):
    exes = {f: build.exe(f, "h_alloc", ["h_alloc.c"]) for f in ("rel", "asan", "tsan")}
    jobs = []
    for i in range(ctx.pick(24, 300)):
        jobs.append(("seq", "asan" if i % 3 == 0 else "rel", ["seq", str(ctx.seed * 1000 + i + 1), str(ctx.pick(150, 600))]))
    for i in range(ctx.pick(18, 200)):
        fl = ["rel", "tsan", "asan"][i % 3]
        jobs.append(("conc", fl, ["conc", str(ctx.seed * 1000 + i + 1), str(1 + i % 8), str(ctx.pick(60, 300) if fl == "rel" else ctx.pick(25, 80))]))

    def go(j):
        mode, fl, args = j
        # asan+thread pool: the repo's ASan-only mark/free caller-name pairing misfires for the C++ caller mju_dispatch
        # when frames are symbolized (static inline wrappers inside extern "C" get mangled names); run unsymbolized
        return j, nat.run_exe(exes[fl], args, fl, timeout=ctx.pick(300, 1200), leaks=(fl == "asan"), symbolize=not (fl == "asan" and mode == "conc"))

    for (mode, fl, args), res in nat.pmap(go, jobs, nthreads=10):
        detail = {"mode": mode, "flavour": fl, "args": args}
        if res["timed_out"]:
            ctx.inconclusive("watchdog fired for %s" % detail)
            continue
        for k, sig, text in res["reports"]:
            ctx.violation(("data-race:" if "Thread" in k else "sanitizer:") + sig, dict(detail, report=text))
        for l in res["out"].splitlines():
            if l.startswith("FAIL "):
                ctx.violation("direct:" + re.sub(r"0x[0-9a-f]+|\d+", "N", l[5:])[:70], dict(detail, witness=l))
            elif l.startswith("SHADOW-VIOLATION "):
                ctx.violation("shadow:" + re.sub(r"[0-9a-f]{6,}|\d+", "N", l[17:])[:70], dict(detail, witness=l))
        s = _summary(res["out"])
        if s is None:
            if not res["reports"]:
                ctx.violation("harness-crash:" + mode, dict(detail, rc=res["rc"], stderr=res["err"][-1200:]))
            continue
        hooked = int(s["hook_stack"]) + int(s["hook_threaded"]) + int(s["hook_arena"])
        ctx.case("%s|%s|%s" % (mode, fl, args[1]), nontrivial=hooked > 0, sample=dict(detail, summary=s))
        for k in ("allocs", "arena", "arena_null", "overflow_errors", "zero_size", "verified_blocks", "hook_stack", "hook_threaded", "hook_arena", "hook_mark", "hook_free"):
            ctx.count("direct_" + k, int(s[k]))
        ctx.note_max("direct_max_depth", int(s["max_depth"]))
    # in situ
    cs = []
    rng = ctx.rng
    corp = [c for c in corpus.loadable() if c["nv"] < (300 if ctx.quick else 2000)]
    idx = rng.permutation(len(corp))
    for i in range(ctx.pick(120, len(corp) * 2)):
        c = corp[int(idx[i % len(corp)])]
        cs.append({"kind": "corpus", "path": c["path"], "seed": int(rng.integers(0, 2 ** 31)), "randopt": i % 2 == 1,
                   "nthread": 4 if i % 3 == 0 else 0, "ncalls": ctx.pick(12, 30)})
    for i in range(ctx.pick(150, 1500)):
        cs.append({"kind": "gen", "profile": ["rich", "contact"][i % 2], "mseed": int(rng.integers(0, 2 ** 31)),
                   "seed": int(rng.integers(0, 2 ** 31)), "randopt": True, "nthread": 4 if i % 3 == 0 else 0, "ncalls": ctx.pick(12, 30)})
    res = par.run("vf.props.c19", "worker", cs, nproc=16, timeout=ctx.pick(300, 900))
    nasan = ctx.pick(12, 120)
    acs = [dict(c, flavour="asan", ncalls=6) for c in cs[:nasan]]
    ares = par.run("vf.props.c19", "worker", acs, nproc=8, timeout=600, asan=True)
    for c, r in list(zip(cs, res)) + list(zip(acs, ares)):
        if r is None:
            ctx.inconclusive("worker returned nothing")
        elif "crash" in r:
            ctx.violation("crash-or-sanitizer-abort-in-situ:" + c.get("flavour", "rel"), {"case": c, "stderr": r["crash"][-2500:], "rc": r.get("rc")})
        elif "exception" in r:
            ctx.inconclusive("harness exception: " + r["exception"] + r.get("trace", "")[-300:])
        else:
            if c.get("flavour") == "asan":
                ctx.count("insitu_asan_cases")
            ctx.merge(r)
    ctx.min_nontrivial = ctx.pick(1000, 15000)


def replay(ctx, path):
    rec = json.load(open(path))
    d = rec["detail"]
    if "case" in d:
        ctx.merge(worker(d["case"]))
    else:
        exe = build.exe(d["flavour"], "h_alloc", ["h_alloc.c"])
        res = nat.run_exe(exe, d["args"], d["flavour"], timeout=600)
        print(res["out"][-1500:], res["err"][-1500:])
        for l in res["out"].splitlines():
            if l.startswith("FAIL ") or l.startswith("SHADOW-VIOLATION "):
                ctx.violation("direct-or-shadow", dict(d, witness=l))
        for k, sig, text in res["reports"]:
            ctx.violation("sanitizer:" + sig, dict(d, report=text))
        ctx.case("replay", sample=d)
    ctx.min_nontrivial = 1
