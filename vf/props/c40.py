"""C40 Extension registries stay consistent under concurrent use."""
import json
import re

from .. import build, nat

LEVEL = "exploration"
RULE = ("one registration/lookup history per fresh process (the tables are process-global): sequential histories against "
        "a reference map (dense slots, case-insensitive keys, identical vs conflicting re-registration, name/slot "
        "agreement, negative lookups) on plugins, resource providers, decoders and encoders; concurrent histories with "
        "1-4 writers registering the same self-verifying objects in different orders and 1-4 readers doing by-slot "
        "scans, by-name lookups and unknown-key scans across the 15/16 block boundary, under TSan at -O1 and -O0 and "
        "under ASan; every object read is checked field by field against the deterministic function of its key. "
        "distinct = (mode, flavour, writers, readers, names, delay, seed) histories that crossed the block boundary")
ASSUMPTIONS = ["TSan observes only the interleavings that occur; x86-64 hides weak-memory reorderings",
               "decoder/encoder/provider tables share the GlobalTable template exercised concurrently through the plugin table"]


def _summary(out):
    m = re.search(r"SUMMARY (.*)", out)
    if not m:
        return None
    return dict(kv.split("=") for kv in m.group(1).split())


def run(ctx):
    flav_conc = ["tsan", "tsan0", "rel"] + (["asan"] if not ctx.quick else [])
    exes = {f: build.exe(f, "h_registry", ["h_registry.cc"]) for f in set(flav_conc + ["asan", "rel"])}
    jobs = []
    nseq = ctx.pick(40, 400)
    for i in range(nseq):
        jobs.append(("seq", "asan" if i % 4 == 0 else "rel", [str(ctx.seed * 100000 + i), str(ctx.pick(250, 600))]))
    nconc = ctx.pick(60, 600)
    rng = ctx.rng
    for i in range(nconc):
        fl = flav_conc[i % len(flav_conc)]
        nw = int(rng.integers(1, 5))
        nr = int(rng.integers(1, 5))
        nn = int(rng.choice([10, 13, 14, 20, 30, 45]))
        delay = int(rng.choice([0, 0, 5, 50, 300]))
        jobs.append(("conc", fl, [str(ctx.seed * 100000 + i), str(nw), str(nr), str(nn), str(delay)]))

    def go(j):
        mode, fl, args = j
        return j, nat.run_exe(exes[fl], [mode] + args, fl, timeout=300, leaks=False)

    crossed = 0
    for (mode, fl, args), res in nat.pmap(go, jobs, nthreads=8):
        key = "%s|%s|%s" % (mode, fl, ",".join(args))
        detail = {"mode": mode, "flavour": fl, "args": args}
        if res["timed_out"]:
            ctx.violation("hang:" + mode, dict(detail, note="history did not finish in 300 s (possible deadlock)"))
            continue
        for kind, sig, text in res["reports"]:
            ctx.count("sanitizer_reports")
            tag = "data-race" if "ThreadSanitizer" in kind else "sanitizer"
            ctx.violation("%s:%s" % (tag, sig), dict(detail, report=text))
        fails = [l for l in res["out"].splitlines() if l.startswith("FAIL ")]
        for f in fails[:3]:
            what = re.sub(r"[0-9]+", "N", f[5:60])
            ctx.violation("registry-semantics:%s:%s" % (mode, what.split(":")[1].strip().split(" ")[0] if ":" in what else what[:20]),
                          dict(detail, witness=f))
        s = _summary(res["out"])
        if s is None:
            if not res["reports"]:
                ctx.violation("crash:" + mode, dict(detail, rc=res["rc"], stderr=res["err"][-1500:]))
            continue
        nontriv = s.get("crossed_block") == "1"
        crossed += nontriv
        ctx.case(key, nontrivial=nontriv, sample=dict(detail, summary=s))
        ctx.count("histories_" + mode + "_" + fl)
        for k in ("lookups", "unknown_scans", "slot_reads", "checked", "registered", "conflicts", "reregistered", "other_registry_ops"):
            if k in s:
                ctx.count(k, int(s[k]))
    ctx.count("histories_crossing_block_boundary", crossed)
    ctx.min_nontrivial = ctx.pick(40, 400)


def replay(ctx, path):
    rec = json.load(open(path))
    d = rec["detail"]
    exe = build.exe(d["flavour"], "h_registry", ["h_registry.cc"])
    for rep in range(20):
        res = nat.run_exe(exe, [d["mode"]] + d["args"], d["flavour"], timeout=300, leaks=False)
        for kind, sig, text in res["reports"]:
            ctx.violation("data-race:" + sig if "Thread" in kind else "sanitizer:" + sig, dict(d, report=text))
        for f in [l for l in res["out"].splitlines() if l.startswith("FAIL ")][:3]:
            ctx.violation("registry-semantics", dict(d, witness=f))
        ctx.case("replay-%d" % rep, sample=d)
    ctx.min_nontrivial = 1
