"""C08 Conservative systems conserve energy and momentum."""
import json
import xml.etree.ElementTree as ET

import numpy as np

from .. import build, core, drv, par
from ..gen import model
from ..mjconst import E
from ..ref import integrate as ri
from ..ref import rbd
from .c06 import make_tree, armature_terms

LEVEL = "exploration"
RULE = ("invariant monitors on generated conservative models (no damping, friction loss, actuation, contacts, limits; joint and tendon "
        "springs with linear and polynomial stiffness; gravity on/off; fixed-base chains or 1-4 free-floating trees): (a) at random "
        "states energy[1] is compared with 1/2 qvel' M qvel (dense M from mj_fullM) and with the kinetic energy of an independent rigid-"
        "body model, and the centred finite difference of energy[0] along every dof with -qfrc_spring (gravity switched off) and with the "
        "reference gravity force minus qfrc_spring; (b) a refinement study under RK4 at h, h/2, h/4 over the same time span: the maximal "
        "drift of energy[0]+energy[1] (and of the reference's total linear / angular momentum for gravity-free floating systems) must be at "
        "round-off or shrink by a factor >= 11 per halving (observed order >= 3.46); (c) at every checkpoint subtree_linvel / subtree_angmom of each tree root are "
        "compared with the reference momentum. distinct = (model, initial state); non-trivial = nv>0 with non-zero initial velocity")
ASSUMPTIONS = [
    "RK4 is not symplectic: energy and momentum are conserved up to truncation error, so the verdict is the refinement study of the "
    "statement (drift at round-off, <= 1e-11*scale, or observed order >= log2(11) = 3.46 over two halvings); if the base step is not yet in the "
    "asymptotic regime the study is repeated with a 4x smaller base step (at most twice) before a violation is reported",
    "the base step is chosen from the largest local frequency (eigenvalues of M^-1 dF/dq by finite differences, joint velocities) so that "
    "h*omega <= 0.05 (design: fast spinning bodies use h small enough that h*omega < 0.1)",
    "momentum conservation is asserted only when every tree is free-floating, gravity is off, no tendon is attached to the world and free "
    "joints carry no spring or armature (rotor inertia on a free joint is not invariant under rotations); internal joint armature and "
    "springs are invariant and allowed",
    "tendon armature is not generated: the open finding C06 (tendon-armature coupling across branches dropped from M) makes M differ "
    "from the documented inertia there and energy would drift; tendon spring dead bands are not generated in the dynamic study (a C1 "
    "potential lowers the order of RK4 legitimately) but are present in the static gradient check, where points at which two FD step "
    "sizes disagree are skipped and counted",
    "a study whose drift still vanishes with h but at order 0.5..1.7 is counted as a non-smooth event (ball-joint spring crossing the cut "
    "locus |angle| = pi, zero-length tendon segment) and skipped; drift that does not vanish (order < 0.5) is a violation",
    "a study in which a ball/free joint with a rotational spring comes within reach of |angle| = pi (cut locus of the documented spring "
    "angle, where the spring torque flips) is skipped and counted: the straddling step has an O(h) error with an erratic constant",
    "sleeping disabled; mjENBL_ENERGY enabled; energies are read after mj_forward at the checkpoint state",
]

NCHECK = 20
ORDER_MIN = float(np.log2(11.0))     # design: a drift ratio >= 11 per halving is accepted as fourth order


# ---- models -------------------------------------------------------------------------------------------------------
def gen_case_xml(c):
    rng = np.random.default_rng(c["mseed"])
    floating = c["kind"] == "floating"
    over = dict(nbody=(1, 6), ntree=(1, 4) if floating else (1, 2), tendons=2, tendon_armature=0.0, tendon_wrap=0.0, springs=0.6, armature=0.3,
                explicit_inertial=0.3, ball=0.25, slide=0.2, tendon_spring=0.7, cameras=0.0, lights=0.0,
                deadband=0.5 if c.get("deadband") else 0.0)
    if floating:
        over.update(root_kind="free", world_site=0.0)
    else:
        over.update(free=0.15)
    xml, tags = model.gen_profile(rng, "conservative", **over)
    root = ET.fromstring(xml)
    for el in list(root.iter("joint")) + list(root.find("tendon") if root.find("tendon") is not None else []):
        if el.tag == "joint" and el.get("type") == "free" and floating:
            for k in ("stiffness", "springref", "armature"):
                el.attrib.pop(k, None)
            continue
        if "stiffness" in el.attrib and " " not in el.attrib["stiffness"] and rng.random() < 0.4:
            a = float(el.attrib["stiffness"])
            cc = float(rng.uniform(0, 2.0) * a)
            bb = float(rng.uniform(-1, 1) * np.sqrt(4 * a * cc) * 0.9)      # sign-preserving: b^2 <= 4ac (doc: gePolynomial)
            el.set("stiffness", "%r %r %r" % (a, bb, cc))
    return ET.tostring(root, encoding="unicode")


def case_name(c):
    return "gen:conservative:%s:%d" % (c["kind"], c["mseed"])


# ---- reference momentum ----------------------------------------------------------------------------------------------
def _mom(T, K, v, bodies):
    V, _ = T.velocities(K, v)
    hsum = np.zeros(6)
    sc = np.zeros(6)
    for b in bodies:
        I = T.spatial_inertia(K, b)
        hsum += I @ V[b]
        sc += np.abs(I) @ np.abs(V[b])
    return hsum[3:], hsum[:3], sc, K


def ref_momentum(T, q, v):
    """(P, L about the world origin, sum of |terms| [angular; linear], kinematics) of all bodies from the independent rigid-body model"""
    return _mom(T, T.fk(q), v, range(1, T.nbody))


def subtree_reference(T, K, q, v, b):
    """(mass, com, linear velocity of com, angular momentum about com, term magnitudes) of the subtree rooted at body b"""
    P, Lo, sc, _ = _mom(T, K, v, T.subtree[b])
    mass = sum(T.body_mass[i] for i in T.subtree[b])
    com = T.subtree_com(K, b)
    return mass, com, P / mass, Lo - np.cross(com, P), sc


# ---- static identities ----------------------------------------------------------------------------------------------
def energies(d):
    e = d["energy"]
    return float(e[0]), float(e[1])


def fd_potential_gradient(L, m, d2, T, q, eps):
    nv = m.n("nv")
    g = np.zeros(nv)
    for i in range(nv):
        e = np.zeros(nv)
        e[i] = 1.0
        vals = []
        for s in (+1, -1):
            d2["qpos"][:] = T.integrate_pos(q, e, s * eps)
            d2.forward()
            vals.append(energies(d2)[0])
        g[i] = (vals[0] - vals[1]) / (2 * eps)
    return g


def check_static(L, m, T, P, q, v, grav, witness):
    nv = m.n("nv")

    def viol(sig, **kw):
        P.violation(sig, dict(witness, qpos=q.tolist(), qvel=v.tolist(), **{k: (x.tolist() if isinstance(x, np.ndarray) else x) for k, x in kw.items()}))

    d = m.make_data()
    d2 = m.make_data()
    try:
        d["qpos"][:] = q
        d["qvel"][:] = v
        d.forward()
        ep, ek = energies(d)
        # ---- kinetic energy
        M = np.zeros((nv, nv))
        L.call("mj_fullM", m, d, M, ret=None)
        ke_M = 0.5 * v @ M @ v
        sc = 0.5 * np.abs(v) @ np.abs(M) @ np.abs(v) + 1e-300
        P.note_max("relerr_kinetic_vs_half_vMv", abs(ek - ke_M) / sc)
        if not np.isfinite(ek) or abs(ek - ke_M) > 1e-12 * sc:
            viol("kinetic-energy-differs-from-half-v-M-v", energy1=ek, half_vMv=float(ke_M))
        K = T.fk(q)
        arm, tarm = armature_terms(m)
        ke_ref = T.kinetic_energy(K, v) + 0.5 * float(arm @ (v * v))
        P.note_max("relerr_kinetic_vs_reference_model", abs(ek - ke_ref) / sc)
        if abs(ek - ke_ref) > 1e-9 * sc:
            viol("kinetic-energy-differs-from-rigid-body-reference", energy1=ek, reference=float(ke_ref))
        P.count("kinetic_energy_checked")
        # ---- potential gradient, total (gravity + springs)
        spring = np.array(d["qfrc_spring"])
        gvec = T.rne(K, np.zeros(nv), np.zeros(nv), grav)        # = grad of the gravitational potential
        want_tot = gvec - spring
        d2["qvel"][:] = 0
        g1 = fd_potential_gradient(L, m, d2, T, q, 1e-5)
        g2 = fd_potential_gradient(L, m, d2, T, q, 4e-5)
        scale = np.abs(want_tot).max() + np.abs(g1).max() + 1e-9 * abs(ep) / 1e-5 * 1e-6 + 1e-6
        if np.abs(g1 - g2).max() > 2e-7 * scale:
            P.count("skipped_gradient_nonsmooth_fd")
        else:
            err = np.abs(g1 - want_tot).max()
            P.note_max("relerr_potential_gradient_total", err / scale)
            if err > 1e-6 * scale:
                i = int(np.argmax(np.abs(g1 - want_tot)))
                # split the blame with the spring-only potential below
                viol("gradient-of-potential-energy-differs-from-gravity-force-minus-qfrc_spring" if np.any(grav) else
                     "qfrc_spring-differs-from-negative-gradient-of-spring-potential", dof=i, fd=float(g1[i]), want=float(want_tot[i]),
                     gravity_part=float(gvec[i]), spring_part=float(-spring[i]), jnt_type=int(m["jnt_type"][m["dof_jntid"][i]]))
            P.count("potential_gradient_checked")
        # ---- spring potential alone (statement: spring forces = -grad of the reported spring potential)
        if np.any(grav) and (np.any(spring) or True):
            dis0 = int(m.opt["disableflags"])
            m.opt["disableflags"] = dis0 | int(E.mjDSBL_GRAVITY)
            try:
                s1 = fd_potential_gradient(L, m, d2, T, q, 1e-5)
                s2 = fd_potential_gradient(L, m, d2, T, q, 4e-5)
            finally:
                m.opt["disableflags"] = dis0
            scale = np.abs(spring).max() + np.abs(s1).max() + 1e-6
            if np.abs(s1 - s2).max() > 2e-7 * scale:
                P.count("skipped_gradient_nonsmooth_fd")
            else:
                err = np.abs(s1 + spring).max()
                P.note_max("relerr_spring_gradient", err / scale)
                if err > 1e-6 * scale:
                    i = int(np.argmax(np.abs(s1 + spring)))
                    viol("qfrc_spring-differs-from-negative-gradient-of-spring-potential", dof=i, fd=float(s1[i]), qfrc_spring=float(spring[i]),
                         jnt_type=int(m["jnt_type"][m["dof_jntid"][i]]))
                P.count("spring_gradient_checked")
                if np.any(spring):
                    P.count("spring_gradient_checked_nonzero_spring_force")
    finally:
        d.free()
        d2.free()


# ---- dynamic study ------------------------------------------------------------------------------------------------------
def local_frequency(L, m, T, d, q, v):
    """largest local frequency estimate: sqrt(max |eig(M^-1 dF/dq)|) by finite differences of qfrc_smooth, plus joint rates"""
    nv = m.n("nv")
    M = np.zeros((nv, nv))
    d["qpos"][:] = q
    d["qvel"][:] = 0
    d.forward()
    L.call("mj_fullM", m, d, M, ret=None)
    eps = 1e-5
    Kq = np.zeros((nv, nv))
    for i in range(nv):
        e = np.zeros(nv)
        e[i] = 1
        fs = []
        for s in (+1, -1):
            d["qpos"][:] = T.integrate_pos(q, e, s * eps)
            d.forward()
            fs.append(np.array(d["qfrc_smooth"]))
        Kq[:, i] = (fs[0] - fs[1]) / (2 * eps)
    try:
        w = np.sqrt(np.abs(np.linalg.eigvals(np.linalg.solve(M, Kq))).max())
    except np.linalg.LinAlgError:
        w = 1e3
    return float(w + np.abs(v).max() * 2)


def simulate(L, m, T, q0, v0, h, nsteps, roots, momentum, P, witness):
    """run nsteps RK4 steps with NCHECK checkpoints; returns dict of drifts and scales"""
    m.opt["timestep"] = h
    d = m.make_data()
    out = {}
    try:
        d["qpos"][:] = q0
        d["qvel"][:] = v0
        per = nsteps // NCHECK
        # ball / free joints with a rotational spring: the potential 1/2 k |angle|^2 has a kink at the cut locus |angle| = pi
        springq = []
        spoly = m["jnt_stiffnesspoly"].reshape(T.njnt, -1)
        for j in range(T.njnt):
            if T.jnt_type[j] in (rbd.FREE, rbd.BALL) and (m["jnt_stiffness"][j] != 0 or spoly[j].any()):
                off = 3 if T.jnt_type[j] == rbd.FREE else 0
                pa = int(T.jnt_qposadr[j]) + off
                springq.append((pa, int(T.jnt_dofadr[j]) + off, rbd.qnorm(np.array(m["qpos_spring"][pa:pa + 4]))))
        Es, KEs, PEs, Ps, Ls = [], [], [], [], []
        psc = lsc = 0.0
        # angular-velocity dofs of ball / free joints (the quaternion coordinates RK4 treats at second order)
        quatw = [int(T.jnt_dofadr[j]) + (3 if T.jnt_type[j] == rbd.FREE else 0) for j in range(T.njnt) if T.jnt_type[j] in (rbd.FREE, rbd.BALL)]
        out["quat_rot_speed"] = 0.0
        for k in range(NCHECK + 1):
            if k:
                d.step(per)
            d.forward()
            q, v = np.array(d["qpos"]), np.array(d["qvel"])
            if not (np.isfinite(q).all() and np.isfinite(v).all()):
                out["diverged"] = True
                return out
            for va in quatw:
                out["quat_rot_speed"] = max(out["quat_rot_speed"], float(np.linalg.norm(v[va:va + 3])))
            for (pa, va, ps) in springq:
                ang = np.linalg.norm(rbd.q2rotvec(rbd.qmul(rbd.qconj(ps), rbd.qnorm(q[pa:pa + 4]))))
                if ang + 1.5 * np.linalg.norm(v[va:va + 3]) * (per * h) >= np.pi - 0.1:
                    out["cutlocus"] = True
            ep, ek = energies(d)
            Es.append(ep + ek)
            KEs.append(ek)
            PEs.append(ep)
            if momentum or (k % 5 == 0):
                Pm, Lo, sc, K = ref_momentum(T, q, v)
                if momentum:
                    Ps.append(Pm)
                    Ls.append(Lo)
                    psc = max(psc, sc[3:].max())
                    lsc = max(lsc, sc[:3].max())
                if k % 5 == 0 and P is not None:
                    # engine's subtree momenta of the tree roots against the reference
                    L.call("mj_subtreeVel", m, d, ret=None)
                    slv, sam = np.array(d["subtree_linvel"]).reshape(-1, 3), np.array(d["subtree_angmom"]).reshape(-1, 3)
                    for b in roots:
                        mass, com, vcom, Lc, scb = subtree_reference(T, K, q, v, b)
                        e1 = np.abs(slv[b] - vcom).max()
                        s1 = scb[3:].max() / mass + 1e-300
                        e2 = np.abs(sam[b] - Lc).max()
                        s2 = scb[:3].max() + np.abs(np.cross(np.abs(com), scb[3:])).max() + 1e-300
                        P.note_max("relerr_subtree_linvel", e1 / s1)
                        P.note_max("relerr_subtree_angmom", e2 / s2)
                        P.count("subtree_momenta_checked")
                        if e1 > 1e-9 * s1:
                            P.violation("subtree_linvel-differs-from-reference-com-velocity", dict(witness, body=int(b), engine=slv[b].tolist(),
                                                                                                    ref=vcom.tolist(), h=h, checkpoint=k))
                        if e2 > 1e-9 * s2:
                            P.violation("subtree_angmom-differs-from-reference-angular-momentum-about-subtree-com",
                                        dict(witness, body=int(b), engine=sam[b].tolist(), ref=Lc.tolist(), h=h, checkpoint=k))
        Es = np.array(Es)
        out["E"] = Es
        out["escale"] = float(max(np.max(KEs), np.max(PEs) - np.min(PEs), abs(KEs[0]), 1e-300))
        out["edrift"] = float(np.abs(Es - Es[0]).max())
        if momentum:
            Ps, Ls = np.array(Ps), np.array(Ls)
            out["pdrift"] = float(np.abs(Ps - Ps[0]).max())
            out["ldrift"] = float(np.abs(Ls - Ls[0]).max())
            out["pscale"], out["lscale"] = float(psc + 1e-300), float(lsc + 1e-300)
        return out
    finally:
        d.free()


SECOND_ORDER = (1.7, 2.4)      # observed-order window attributed to the known second-order RK4 behaviour on quaternion joints


def order_verdict(drifts, floor):
    """'roundoff' | 'order-ok' | 'bad' and the observed order over two halvings"""
    d0, d1, d2 = drifts
    if d2 <= floor and d1 <= 40 * floor:
        return "roundoff", None
    if d2 <= floor:
        p = np.log2(max(d0, 1e-300) / max(d1, 1e-300))
        return ("order-ok" if p >= ORDER_MIN or d1 <= 16 * floor else "bad"), float(p)
    p = 0.5 * np.log2(max(d0, 1e-300) / d2)
    return ("order-ok" if p >= ORDER_MIN else "bad"), float(p)


def check_dynamic(L, m, T, P, q0, v0, grav, momentum, roots, Tspan, witness):
    d = m.make_data()
    try:
        w = local_frequency(L, m, T, d, q0, v0)
    finally:
        d.free()
    h0 = min(4e-3, 0.05 / max(w, 1e-9))
    maxsteps = 6000
    n0 = int(np.ceil(Tspan / h0 / NCHECK)) * NCHECK
    if n0 > maxsteps:
        n0 = maxsteps
        Tspan = n0 * h0
        P.count("dynamic_time_span_shortened_for_stiff_model")
    h0 = Tspan / n0
    P.note_max("local_frequency", w)
    verdicts = {}
    has_quat = bool(((m["jnt_type"] == E.mjJNT_BALL) | (m["jnt_type"] == E.mjJNT_FREE)).any())
    rot_speed = 0.0
    for attempt in range(3):
        runs = []
        for k in range(3):
            r = simulate(L, m, T, q0, v0, h0 / 2 ** k, n0 * 2 ** k, roots, momentum, P if k == 0 and attempt == 0 else None, witness)
            if r.get("diverged"):
                P.count("skipped_dynamic_diverged")
                return None
            runs.append(r)
        rot_speed = max(r.get("quat_rot_speed", 0.0) for r in runs)
        if any(r.get("cutlocus") for r in runs):
            # the trajectory reaches the cut locus of a ball-joint spring, where the spring force is discontinuous: the study cannot
            # show any order (the error of the straddling step is O(h) with an erratic constant)
            P.count("skipped_dynamic_ball_spring_cut_locus")
            return None
        quantities = [("energy", "edrift", "escale")]
        if momentum:
            quantities += [("linear-momentum", "pdrift", "pscale"), ("angular-momentum", "ldrift", "lscale")]
        bad = []
        for name, dk, sk in quantities:
            scale = max(r[sk] for r in runs)
            floor = 1e-11 * scale
            verdict, p = order_verdict([r[dk] for r in runs], floor)
            verdicts[name] = (verdict, p, [r[dk] / scale for r in runs])
            if verdict == "bad":
                bad.append(name)
        if not bad:
            break
        # quaternion joints, two consistent halving ratios of about 4: already in the asymptotic regime of the known second-order
        # behaviour, a smaller base step would show the same order
        def consistent(name):
            r0, r1, r2 = [max(x, 1e-300) for x in verdicts[name][2]]
            return has_quat and SECOND_ORDER[0] <= verdicts[name][1] <= SECOND_ORDER[1] and abs(np.log2(r0 / r1) - np.log2(r1 / r2)) < 0.4 and r2 * max(r_[sk_[name]] for r_ in runs) > 1e3 * 1e-11 * max(r_[sk_[name]] for r_ in runs)
        sk_ = {n_: s_ for n_, _, s_ in quantities}
        if all(consistent(nm) for nm in bad):
            P.count("dynamic_study_asymptotic_at_first_base_step")
            break
        if attempt < 2:
            P.count("dynamic_study_repeated_with_smaller_step")
            h0, n0 = h0 / 4, n0 * 4
            if n0 * 4 > 120000:       # keep the cost bounded: shorten the span instead
                n0 = 30000 // NCHECK * NCHECK
                Tspan = n0 * h0
    # the known second-order mechanism needs a ball / free joint that actually ROTATES on this trajectory (angular speed seen at a
    # checkpoint); a model that merely contains a quaternion joint does not qualify
    rotating_quat = has_quat and rot_speed > 1e-6
    P.count("dynamic_studies_with_rotating_ball_or_free_joint", int(rotating_quat))
    for name, (verdict, p, rel) in verdicts.items():
        if verdict == "bad" and p is not None and 0.5 <= p < 1.7:
            # the drift still vanishes with h, at the rate of a trajectory that crosses a non-smooth point of the potential
            # (ball-joint spring at the cut locus |angle| = pi, zero-length tendon segment): not decidable here
            verdict = "skipped_nonsmooth_event"
        P.count("%s_%s" % (name, verdict))
        if p is not None and verdict == "order-ok":
            P.note_max("min_observed_order_neg_" + name, -p)
        if verdict == "bad":
            det = dict(witness, qpos=q0.tolist(), qvel=v0.tolist(), h_base=h0, steps_base=n0, relative_drift_h_h2_h4=[float(x) for x in rel],
                       observed_order=p, gravity=list(map(float, grav)), max_angular_speed_of_ball_or_free_joint=rot_speed)
            # only an observed order of about 2 (window SECOND_ORDER) on a rotating quaternion joint is the known mechanism; the
            # three invariants are separate explicit known-finding entries (no wildcard). Orders in (2.4, 3.46) are NOT attributed.
            if rotating_quat and p is not None and SECOND_ORDER[0] <= p <= SECOND_ORDER[1] and name in ("energy", "linear-momentum", "angular-momentum"):
                P.violation("rk4-converges-at-second-order-with-ball-or-free-joints:" + name, det)
            else:
                P.violation("%s-drift-under-RK4-does-not-vanish-at-fourth-order%s" % (name, ":gravity" if np.any(grav) and name == "energy" else ""), det)
    return True


# ---- worker -----------------------------------------------------------------------------------------------------------
def random_state(rng, m, T, speed):
    nv = m.n("nv")
    vq = rng.normal(size=nv)
    jt, da = m["jnt_type"], m["jnt_dofadr"]
    for j in range(m.n("njnt")):
        if jt[j] == E.mjJNT_SLIDE:
            vq[da[j]] *= 0.2
        elif jt[j] == E.mjJNT_FREE:
            vq[da[j]:da[j] + 3] *= 0.3
    q = T.integrate_pos(np.array(m["qpos0"]), vq * 0.7, 1.0)
    v = rng.normal(size=nv) * speed
    for j in range(m.n("njnt")):
        if jt[j] == E.mjJNT_SLIDE:
            v[da[j]] *= 0.3
    return q, v


def worker(c):
    P = core.Part()
    L = drv.Lib("rel")
    xml = c.get("xml") or gen_case_xml(c)
    try:
        m = L.load_xml_string(xml)
    except drv.MjError as e:
        P.count("model_rejected")
        P.count("model_rejected:" + str(e)[:50])
        return P.result()
    nv = m.n("nv")
    name = case_name(c)
    if nv == 0 or m.n("nflex") > 0:
        P.count("skipped_nv0_or_flex")
        P.case(nontrivial=False)
        m.free()
        return P.result()
    m.opt["enableflags"] = (int(m.opt["enableflags"]) & ~int(E.mjENBL_SLEEP)) | int(E.mjENBL_ENERGY)
    m.opt["integrator"] = E.mjINT_RK4
    rng = np.random.default_rng(c["seed"])
    floating = c["kind"] == "floating"
    if c["gravity"]:
        m.opt["gravity"][:] = rng.normal(size=3) * 5 if rng.random() < 0.5 else [0, 0, -9.81]
    else:
        m.opt["gravity"][:] = 0
    grav = np.array(m.opt["gravity"])
    T = make_tree(m)
    roots = [b for b in range(1, T.nbody) if T.parent[b] == 0 and T.body_mass[T.subtree[b]].sum() > 0 and T.chain[b]]
    momentum = bool(floating and not c["gravity"])
    if momentum:
        # eligibility re-derived from the compiled model
        ok = all(T.body_jntnum[b] == 1 and T.jnt_type[T.body_jntadr[b]] == rbd.FREE for b in range(1, T.nbody) if T.parent[b] == 0)
        fj = [j for j in range(T.njnt) if T.jnt_type[j] == rbd.FREE]
        ok = ok and not any(m["jnt_stiffness"][j] != 0 or m["jnt_stiffnesspoly"].reshape(T.njnt, -1)[j].any() for j in fj)
        ok = ok and not any(m["dof_armature"][T.jnt_dofadr[j]:T.jnt_dofadr[j] + 6].any() for j in fj)
        if m.n("nsite") and m.n("ntendon") and "wrap_type" in m:
            wt, wo = m["wrap_type"], m["wrap_objid"].reshape(len(m["wrap_type"]), -1)[:, 0]
            for k in range(len(wt)):
                if wt[k] == E.mjWRAP_SITE and m["site_bodyid"][wo[k]] == 0:
                    ok = False
        if not ok:
            momentum = False
            P.count("momentum_not_applicable_after_compile")
    P.count("models")
    P.count("models_" + c["kind"] + ("_gravity" if c["gravity"] else "_nogravity"))
    if (m["jnt_stiffness"] != 0).any():
        P.count("models_with_joint_springs")
    if (m["jnt_stiffnesspoly"] != 0).any() or (m.n("ntendon") and (m["tendon_stiffnesspoly"] != 0).any()):
        P.count("models_with_polynomial_stiffness")
    if m.n("ntendon") and (m["tendon_stiffness"] != 0).any():
        P.count("models_with_tendon_springs")
    if (np.array(m["qpos_spring"]) != np.array(m["qpos0"])).any():
        P.count("models_with_springref_different_from_qpos0")
    if (m["jnt_type"] == E.mjJNT_BALL).any():
        P.count("models_with_ball_joint")
    if momentum:
        P.count("models_momentum_monitored")
    witness = {"model": name, "xml": xml, "case": {k: v for k, v in c.items() if k != "xml"}}
    try:
        for k in range(c["nstatic"]):
            q, v = random_state(rng, m, T, rng.choice([0.5, 2.0]))
            check_static(L, m, T, P, q, v, grav, dict(witness, static_index=k))
        if c.get("dynamic", True):
            q0, v0 = random_state(rng, m, T, c["speed"])
            check_static(L, m, T, P, q0, v0, grav, dict(witness, static_index="initial"))
            r = check_dynamic(L, m, T, P, q0, v0, grav, momentum, roots, c["T"], witness)
            P.case(key=name + "|dyn", nontrivial=bool(r) and bool(np.any(v0)), sample={"model": name, "nv": nv, "kind": c["kind"],
                                                                                        "gravity": c["gravity"], "momentum": momentum})
        else:
            P.case(key=name + "|static", nontrivial=True, sample={"model": name, "nv": nv, "kind": c["kind"], "static_only": True})
    except drv.MjError as e:
        P.count("engine_error_skipped")
        P.count("engine_error:" + str(e).split(":")[0][:40])
        P.case(nontrivial=False)
    m.free()
    return P.result()


# ---- driver -------------------------------------------------------------------------------------------------------------
def cases(ctx):
    rng = ctx.rng
    cs = []
    n = ctx.pick(80, 1500)
    for i in range(n):
        kind = ["floating", "fixed"][i % 2]
        gravity = bool((i // 2) % 2) if kind == "floating" else bool((i // 2) % 4 != 0)
        cs.append({"kind": kind, "gravity": gravity, "mseed": int(rng.integers(0, 2 ** 31)), "seed": int(rng.integers(0, 2 ** 31)),
                   "nstatic": 1, "T": ctx.pick(0.5, 1.0), "speed": [0.5, 1.5, 3.0][i % 3], "deadband": False})
    # static-only models with tendon dead bands (C1 potential): gradient identities only
    for i in range(ctx.pick(20, 300)):
        cs.append({"kind": ["floating", "fixed"][i % 2], "gravity": bool(i % 3), "mseed": int(rng.integers(0, 2 ** 31)),
                   "seed": int(rng.integers(0, 2 ** 31)), "nstatic": 3, "dynamic": False, "deadband": True, "T": 0, "speed": 1.0})
    return cs


def _collect(ctx, cs, res):
    for c, r in zip(cs, res):
        if r is None:
            ctx.inconclusive("worker returned nothing")
        elif "crash" in r:
            ctx.count("worker_crash")
            ctx.inconclusive("worker crashed on %s: %s" % (case_name(c), r["crash"][-300:]))
        elif "exception" in r:
            ctx.count("harness_exception")
            ctx.inconclusive("harness exception in worker: " + r["exception"] + " " + r.get("trace", "")[-600:])
        else:
            ctx.merge(r)


def run(ctx):
    build.ensure("rel")
    ctx.extra["reference_self_test"] = {k: float(v) for k, v in list(ri.self_test().items()) + list(rbd.self_test().items())}
    cs = cases(ctx)
    cs = [cs[int(i)] for i in ctx.rng.permutation(len(cs))]      # every batch gets the full mix
    nbatch = 4
    for k in range(nbatch):
        part = cs[k::nbatch]
        res = par.run("vf.props.c08", "worker", part, nproc=16, timeout=ctx.pick(400, 1200))
        _collect(ctx, part, res)
        if ctx.violations:
            ctx.count("batches_not_run_after_violation", nbatch - 1 - k)
            return
    c = ctx.counters
    if c.get("skipped_dynamic_diverged", 0) + c.get("engine_error_skipped", 0) + c.get("skipped_dynamic_ball_spring_cut_locus", 0) > 0.2 * max(1, c.get("models", 0)):
        ctx.inconclusive("too many dynamic studies skipped")
    nsm = sum(v for k, v in c.items() if k.endswith("_skipped_nonsmooth_event"))
    if nsm > 0.15 * max(1, c.get("models", 0)):
        ctx.inconclusive("too many dynamic studies hit a non-smooth event (%d)" % nsm)
    if c.get("skipped_gradient_nonsmooth_fd", 0) > 0.3 * max(1, c.get("potential_gradient_checked", 0)):
        ctx.inconclusive("too many gradient checks skipped")
    if c.get("models_momentum_monitored", 0) < ctx.pick(12, 200):
        ctx.inconclusive("too few momentum-monitored models")
    ctx.min_nontrivial = ctx.pick(85, 1500)


def replay(ctx, path):
    rec = json.load(open(path))
    det = rec["detail"]
    c = dict(det["case"])
    c["xml"] = det["xml"]
    ctx.merge(worker(c))
    ctx.min_nontrivial = 1
