"""C37 Model loading never crashes and enforces the schema."""
import base64
import json
import os
import re
import shutil
import tempfile
import xml.etree.ElementTree as ET
from pathlib import Path

import numpy as np

from .. import build, core, nat, par

LEVEL = "exploration"
RULE = ("(1) robustness: seeded mutation fuzzer inside native/h_xmlfuzz.cc (byte: flip/set/insert/delete/duplicate/truncate "
        "spans; token: identifiers, attribute names/values and element names replaced or inserted from a dictionary of "
        "element/attribute/keyword names extracted from mjcf.schema and xml_urdf.cc; tree: duplicate/delete/move/swap/"
        "nest/splice elements; numeric: numbers replaced by nan/inf/1e308/-0/huge integers/empty), 1..6 stacked mutations "
        "over every XML/URDF file <= 24 kB under model/ and test/, generated models of vf/gen/model.py and hand-written URDF "
        "documents; each input goes through mj_parseXMLString+mj_compile (or mj_addBufferVFS+mj_loadXML) and, when it "
        "compiles and is small, mj_makeData+mj_step, under the ASan+UBSan and the release builds with exact-size heap "
        "buffers and error-buffer sizes 0/1/8/64/300/1000. (2) schema oracle: the reference language is mjcf.schema (parsed by "
        "doc/generate/mjcf_schema.py) TOGETHER WITH doc/XMLreference.rst (per attribute :at-val: type/arity/required, "
        "vf/gen/mjcf_docref.py): a document is conforming only if both sources accept it, a violation is labelled only if both "
        "reject it (numeric ranges only where XMLreference states them). Per element kind a valid host document = prelude of "
        "referents + chain of minimal elements; every element kind of the kinematic tree is additionally hosted below "
        "<frame>/<replicate> chains (directly and inside a nested <body>); conforming variants (optional attributes at min/max "
        "arity, every keyword, optional children, a nested recursive element with its own at-most-once child before the "
        "parent's) and single-violation mutants of 15 rule kinds (at-most-once children duplicated before/between/after a "
        "nested element of the same recursive kind); a reference validator written from the documented semantics confirms that "
        "each mutant breaks exactly the labelled rule. distinct = (mutation family x outcome class) for (1), (element kind x "
        "rule kind) for (2); non-trivial = input reached the reader behind the tokenizer / host accepted by the parser")
ASSUMPTIONS = [
    "the XML tokenizer of this build is a stand-in (native/shim/tinyxml2.cc): encodings, DTD, entities and other byte-level "
    "lexical decisions are outside reach; a sanitizer report whose innermost frame is shim code is reported as a shim bug, not as a violation",
    "resource exhaustion requested by the document itself (allocation-size-too-big / out-of-memory reports, std::bad_alloc, "
    "'could not allocate' errors, per-input wall-clock timeouts) is counted separately and is not a violation: size/memory "
    "attributes are documented as user-requested allocation sizes (XMLreference, size element). 'Requested' is decided on "
    "numeric tokens of attribute VALUES only (a number >= 1000, a size suffix on a memory attribute, inf/nan literals): an "
    "out-of-memory on a document of small numbers is reported as runaway-allocation",
    "where mjcf.schema and XMLreference.rst disagree about an attribute (required flag, value type, array length, keyword set) "
    "neither source alone decides: conforming documents satisfy both, violations break both; the 45 disagreements are listed "
    "once in the evidence (schema_file_vs_XMLreference) as a defect of the schema file / generated XSD, outside C37",
    "XMLreference '(N)' with a schema arity [lo..N] counts as agreement: 'the length of the array is enforced by the parser "
    "unless specified otherwise in the reference documentation' (XMLreference, Attribute types)",
    "numeric min=/max=/positive facets of mjcf.schema are labelled as violations only where the attribute's XMLreference "
    "paragraph states the range ('Must be strictly positive', 'Must be greater than 0'); conforming values respect all facets",
    "attributes of the meta-elements <frame>/<replicate> themselves are not used for unknown-attribute mutants (XMLreference: "
    "'include, frame, and replicate which are outside of the schema'; mjcf.schema: the validator admits the full body surface "
    "for the aliases) and a body-row child of worldbody/frame/replicate is never an unknown element; elements NESTED in them are "
    "inside the documented schema and are checked in full",
    "mju_error raised by mj_makeData/mj_step of a successfully loaded model is the engine's documented error channel "
    "(programming.rst, 'Error and memory'); only errors escaping from the load calls count",
    "a schema-violating document may be rejected by any stage of loading (parser or compiler); the stage is recorded",
    "zero values for an arity [1..N] attribute (empty string) are read as 'attribute absent' and are not used as too-few mutants",
    "in <default> context the admissible attributes are the schema's documented projection: attributes minus name/class minus (nodefault)",
    "leak reports (LeakSanitizer) are informational: leaks are not part of the statement",
    "UBSan 'applying zero offset to null pointer' (NULL+0 in C translation units, e.g. empty arrays of a model without actuators) "
    "is the same benign idiom class as memcpy(NULL,...,0), which the build already excludes (-fno-sanitize=nonnull-attribute); counted, not a violation",
    "sanitizer reports raised inside mj_makeData/mj_step of a model that loaded are outside the statement (which is about the "
    "load calls); they are listed in the evidence (run_phase_reports) for the engine properties and do not decide C37",
]

TOK_MSG = re.compile(r"^(XML parse error|XML root element not found)")
RESOURCE_RE = re.compile(r"allocation-size-too-big|out of memory|out-of-memory|requested allocation size|bad_alloc|"
                         r"[Cc]ould not allocate|failed to allocate|std::length_error|calloc-overflow|rss-limit", re.I)


# ================================================================================================ scratch & seeds

def _scratch():
    return Path(tempfile.mkdtemp(prefix="vf-c37-", dir="/tmp"))


URDF_SEEDS = [
    """<robot name="r1">
  <mujoco><compiler fusestatic="false" discardvisual="false" balanceinertia="true"/><option timestep="0.002"/></mujoco>
  <material name="blue"><color rgba="0 0 0.8 1"/></material>
  <link name="base"><inertial><origin xyz="0 0 0" rpy="0 0 0"/><mass value="1"/><inertia ixx="0.1" ixy="0" ixz="0" iyy="0.1" iyz="0" izz="0.1"/></inertial>
    <visual><origin xyz="0 0 0.1" rpy="0 0 0"/><geometry><box size="0.2 0.2 0.2"/></geometry><material name="blue"/></visual>
    <collision><geometry><cylinder radius="0.1" length="0.3"/></geometry></collision></link>
  <link name="arm"><inertial><mass value="0.5"/><inertia ixx="0.01" ixy="0" ixz="0" iyy="0.01" iyz="0" izz="0.01"/></inertial>
    <collision><origin xyz="0 0 0.2"/><geometry><sphere radius="0.05"/></geometry></collision></link>
  <link name="tip"><inertial><mass value="0.2"/><inertia ixx="0.01" ixy="0" ixz="0" iyy="0.01" iyz="0" izz="0.01"/></inertial>
    <collision><geometry><capsule radius="0.02" length="0.1"/></geometry></collision></link>
  <joint name="j1" type="revolute"><parent link="base"/><child link="arm"/><origin xyz="0 0 0.2" rpy="0 0.1 0"/><axis xyz="0 1 0"/>
    <limit lower="-1" upper="1" effort="10" velocity="1"/><dynamics damping="0.1" friction="0.01"/></joint>
  <joint name="j2" type="prismatic"><parent link="arm"/><child link="tip"/><origin xyz="0 0 0.4"/><axis xyz="0 0 1"/><limit lower="0" upper="0.1" effort="5"/></joint>
</robot>""",
    """<?xml version="1.0"?>
<robot name="r2">
  <link name="world"/>
  <link name="a"><inertial><origin xyz="0 0 0"/><mass value="2"/><inertia ixx="1" ixy="0" ixz="0" iyy="1" iyz="0" izz="1"/></inertial>
    <collision><geometry><box size="1 1 1"/></geometry></collision></link>
  <link name="b"><inertial><mass value="1"/><inertia ixx="1" ixy="0.1" ixz="0" iyy="1" iyz="0" izz="1"/></inertial></link>
  <link name="c"><inertial><mass value="1"/><inertia ixx="1" ixy="0" ixz="0" iyy="1" iyz="0" izz="1"/></inertial></link>
  <link name="d"><inertial><mass value="1"/><inertia ixx="1" ixy="0" ixz="0" iyy="1" iyz="0" izz="1"/></inertial></link>
  <joint name="f" type="floating"><parent link="world"/><child link="a"/></joint>
  <joint name="s" type="spherical"><parent link="a"/><child link="b"/><origin xyz="1 0 0"/></joint>
  <joint name="k" type="continuous"><parent link="b"/><child link="c"/><axis xyz="1 0 0"/></joint>
  <joint name="x" type="fixed"><parent link="c"/><child link="d"/><origin rpy="0 0 1.57"/></joint>
</robot>""",
    """<robot name="r3"><link name="l0"><visual><geometry><mesh filename="package://x/y.stl" scale="1 1 1"/></geometry></visual>
  <collision><geometry><sphere radius="1"/></geometry></collision></link>
  <link name="l1"><inertial><mass value="1"/><inertia ixx="1" ixy="0" ixz="0" iyy="1" iyz="0" izz="1"/></inertial></link>
  <joint name="p" type="planar"><parent link="l0"/><child link="l1"/><axis xyz="0 0 1"/></joint></robot>""",
]


def _dictionary(M):
    toks = set(M.all_tags) | set(M.all_attr_names)
    for ks in M.enums.values():
        toks |= set(ks)
    toks |= {"true", "false", "include", "mujoco", "robot", "worldbody", "file", "class", "childclass", "main"}
    try:
        toks |= set(re.findall(r'"([A-Za-z_][A-Za-z0-9_]*)"', (build.REPO / "src/xml/xml_urdf.cc").read_text()))
    except OSError:
        pass
    return sorted(t for t in toks if t)


def _prepare(scratch, M, L=None):
    """write seeds.txt ('weight path' lines) and dict.txt; returns counts.  Independent of VERIF_SEED (replayability)."""
    from ..gen import model
    docs = []
    for root in ("model", "test"):
        for p in sorted((build.REPO / root).rglob("*")):
            if p.suffix in (".xml", ".urdf") and p.is_file() and p.stat().st_size <= 24 * 1024:
                docs.append(p)
    p = build.REPO / "python/mujoco/testdata/model.urdf"
    if p.exists():
        docs.append(p)
    lines = []
    nload = 0
    for p in docs:
        w = 1
        if L is not None:
            try:
                txt = p.read_bytes()
                if b"<include" not in txt and b"file=" not in txt:
                    w = 2
                    nload += 1
            except OSError:
                continue
        lines.append("%d %s" % (w, p))
    rng = np.random.default_rng(20240537)
    ngen = 0
    for i, prof in enumerate(["rich", "contact", "smooth", "conservative", "kin", "rich", "rich", "contact", "rich", "smooth"]):
        xml, _ = model.gen_profile(rng, prof)
        if len(xml) <= 24 * 1024:
            fn = scratch / ("gen%d.xml" % i)
            fn.write_text(xml)
            lines.append("3 %s" % fn)
            ngen += 1
    for i, u in enumerate(URDF_SEEDS):
        fn = scratch / ("urdf%d.urdf" % i)
        fn.write_text(u)
        lines.append("6 %s" % fn)
    (scratch / "seeds.txt").write_text("\n".join(lines) + "\n")
    d = _dictionary(M)
    (scratch / "dict.txt").write_text("\n".join(d) + "\n")
    return dict(seed_files=len(docs), self_contained=nload, generated=ngen, urdf=len(URDF_SEEDS) + 1, dictionary=len(d))


# ================================================================================================ fuzz driver

ASAN_OPTS = ("detect_leaks=1:halt_on_error=1:abort_on_error=0:symbolize=1:allocator_may_return_null=1:exitcode=77:"
             "malloc_context_size=3:max_allocation_size_mb=256:detect_stack_use_after_return=0")

_UB_KINDS = [
    (r"is outside the range of representable values of type", "float-cast-overflow"),
    (r"signed integer overflow", "signed-integer-overflow"),
    (r"index -?\d+ out of bounds", "index-out-of-bounds"),
    (r"division by zero", "division-by-zero"),
    (r"shift exponent|left shift of", "shift"),
    (r"null pointer|nullptr", "null-pointer"),
    (r"load of value .* not a valid value", "invalid-load"),
    (r"misaligned address", "misaligned"),
    (r"negation of", "negation-overflow"),
    (r"applying (non-zero )?offset", "pointer-overflow"),
    (r"call to function .* through pointer to incorrect function type", "function-type"),
    (r"variable length array", "vla-bound"),
]


def _enclosing_function(path, line):
    """name of the function containing path:line, from the source text (independent of the symbolizer)"""
    try:
        src = open(path, errors="replace").read().splitlines()
    except OSError:
        return ""
    for i in range(min(line, len(src)) - 1, -1, -1):
        l = src[i]
        if l and not l[0].isspace() and not l.startswith(("//", "#", "}", "/*", "*")) and "(" in l and not l.rstrip().endswith(";"):
            m = re.search(r"([A-Za-z_][\w]*(?:::[A-Za-z_~][\w]*)*)\s*\(", l)
            if m and m.group(1) not in ("if", "for", "while", "switch"):
                return m.group(1)
    return ""


def san_signature(kind, text):
    """mechanism-level signature of a sanitizer report: sanitizer kind + error class + innermost frame in repo code.
    -> (signature, where) where `where` is 'repo' | 'shim' | 'harness' | 'unknown'"""
    head = text.splitlines()[0] if text else ""
    cls = None
    if "runtime error:" in head:
        for rx, name in _UB_KINDS:
            if re.search(rx, head):
                cls = "ubsan:" + name
                break
        cls = cls or "ubsan:other"
        m = re.search(r"(/\S+?):(\d+):\d+: runtime error", head)
        if m and ("/include/c++/" in m.group(1) or m.group(1).startswith("/usr/")):
            # the faulting line is inside a standard-library header (e.g. operator[] of an empty std::vector): the mechanism is the
            # innermost frame of the repository that called into it
            for line in text.splitlines():
                fm = re.match(r"\s*#(\d+) (?:0x[0-9a-f]+ in )?(.+?) (/\S+?):\d+", line)
                if fm and "/repo/" in fm.group(3):
                    fn = re.sub(r"\(.*", "", re.sub(r"<.*?>", "", fm.group(2)))
                    fn = "::".join([x for x in fn.split("::") if x and not x.startswith("$_") and "operator" not in x][-3:])[:70]
                    return "%s@%s:%s" % (cls, fm.group(3).split("/")[-1], fn), "repo"
        if m:          # UBSan names the faulting source line itself: no dependence on the (sometimes missing) stack trace
            where = "shim" if "/native/shim/" in m.group(1) else ("harness" if "/verif/native/" in m.group(1) else "repo")
            fn = _enclosing_function(m.group(1), int(m.group(2)))
            return "%s@%s%s" % (cls, m.group(1).split("/")[-1], (":" + fn) if fn else ""), where
    elif "LeakSanitizer" in head:
        cls = "lsan:leak"
    else:
        m = re.search(r"AddressSanitizer: ([A-Za-z0-9_-]+)", head)
        cls = "asan:" + (m.group(1) if m else "unknown")
    where, loc = "unknown", "?"
    first = True
    for line in text.splitlines():
        m = re.match(r"\s*#(\d+) (?:0x[0-9a-f]+ in )?(.+?) (/\S+?):\d+", line)
        if not m:
            continue
        fn, path = m.group(2), m.group(3)
        if "/compiler-rt/" in path or "/include/c++/" in path or "/sysdeps/" in path or path.startswith("/usr/"):
            continue
        fn = "::".join(re.sub(r"\(.*", "", re.sub(r"<.*?>", "", fn)).split("::")[-2:])[:60] if "lambda" not in fn and "$_" not in fn else "lambda"
        if "/native/shim/" in path:
            if first:
                where, loc = "shim", "shim/%s:%s" % (path.split("/")[-1], fn)
                break
            continue
        if "/verif/native/" in path:
            if first:
                where = "harness"
            first = False
            continue
        first = False
        if "/src/" in path or "/plugin/" in path:
            where, loc = "repo", "%s:%s" % (path.split("/")[-1], fn)
            break
    if cls == "ubsan:other" and where == "unknown":
        m = re.search(r"(/\S+?):\d+:\d+: runtime error", head)
        if m:
            loc = m.group(1).split("/")[-1]
            where = "shim" if "/native/shim/" in m.group(1) else "repo"
    elif where == "unknown":
        m = re.search(r"(/\S+?):\d+:\d+: runtime error", head)
        if m:
            loc = m.group(1).split("/")[-1]
            where = "shim" if "/native/shim/" in m.group(1) else "repo"
    return "%s@%s" % (cls, loc), where


def _dump_input(exe, flavour, lists, seed, index, scratch):
    out = scratch / ("in-%s-%d-%d.xml" % (flavour, seed, index))
    r = nat.run_exe(exe, ["dump", lists[0], lists[1], seed, index, out], "rel", timeout=120, leaks=False)
    m = re.search(r"DUMP api=(\d+) errsz=(\d+) mask=(\d+) bytes=(\d+)", r["out"])
    try:
        data = out.read_bytes()
    except OSError:
        data = b""
    return data, (int(m.group(1)), int(m.group(2))) if m else (0, 1000)


def _run_batch(job):
    """one (flavour, seed, start, count) batch with resume after every abnormal termination -> dict"""
    exe, flavour, lists, seed, start, count, scratch, per_input_timeout, exe_dump = job
    res = dict(job=[flavour, seed, start, count], summary={}, classes={}, msgs={}, events=[], resumes=0, unfinished=0)
    pos, end = start, start + count
    env = {"ASAN_OPTIONS": ASAN_OPTS} if flavour == "asan" else None
    while pos < end:
        r = nat.run_exe(exe, ["fuzz", lists[0], lists[1], seed, pos, end - pos, per_input_timeout], flavour,
                        timeout=max(900, (end - pos) * 6 + 600), env=env)
        lines = r["out"].splitlines()
        last_b = None
        in_run = False
        for l in lines:
            if l.startswith("B "):
                last_b = int(l[2:])
                in_run = False
            elif l.startswith("R "):
                in_run = True
            elif l.startswith("L "):
                in_run = False
            elif l.startswith("V "):
                kv = dict(re.findall(r"(\w+)=(\S+)", l))
                msg = l.split(" msg=", 1)[1] if " msg=" in l else (l.split(" type=", 1)[1] if " type=" in l else "")
                res["events"].append(dict(type="contract", kind=kv.get("kind"), index=int(kv.get("index", -1)), msg=msg))
            elif l.startswith("T "):
                res["events"].append(dict(type="timeout", index=int(l[2:])))
            elif l.startswith("CLASS "):
                _, k, n = l.split()
                res["classes"][k] = res["classes"].get(k, 0) + int(n)
            elif l.startswith("MSG "):
                _, n, m = l.split(" ", 2)
                res["msgs"][m] = res["msgs"].get(m, 0) + int(n)
            elif l.startswith("SUMMARY "):
                for k, v in re.findall(r"(\w+)=(-?\d+)", l):
                    res["summary"][k] = res["summary"].get(k, 0) + int(v)
        finished = any(l.startswith("SUMMARY ") for l in lines)
        leaks = [rp for rp in r["reports"] if "LeakSanitizer" in rp[0]]
        others = [rp for rp in r["reports"] if "LeakSanitizer" not in rp[0]]
        for rp in leaks:
            res["events"].append(dict(type="leak", text=rp[2][:3000]))
        if finished and not others:
            break
        if r["timed_out"]:
            res["events"].append(dict(type="batch-timeout", index=last_b))
            res["unfinished"] += end - (last_b if last_b is not None else pos)
            break
        # abnormal termination: attribute to the announced input
        idx = last_b if last_b is not None else pos
        already = any(e["type"] in ("contract", "timeout") and e.get("index") == idx for e in res["events"])
        if others:
            seen = set()
            for kind, _, text in others:
                if text.startswith("SUMMARY") or "SUMMARY: " in text.splitlines()[0]:
                    continue
                sig, where = san_signature(kind, text)
                if sig in seen:
                    continue
                seen.add(sig)
                res["events"].append(dict(type="sanitizer", index=idx, sig=sig, where=where, text=text[:9000], run_phase=in_run,
                                          site=_alloc_site(r["err"])))
        elif not already:
            res["events"].append(dict(type="died", index=idx, rc=r["rc"], stderr=r["err"][-1500:], run_phase=in_run))
        res["summary"]["execs"] = res["summary"].get("execs", 0) + (idx - pos + 1 if not finished else 0)
        res["resumes"] += 1
        pos = idx + 1
        if res["resumes"] > 60:
            res["unfinished"] += end - pos
            break
    # attach the input bytes to every attributable event
    for e in res["events"]:
        if e.get("index") is not None and e["type"] in ("contract", "sanitizer", "died", "timeout") and e.get("index", -1) >= 0:
            data, (api, errsz) = _dump_input(exe_dump, flavour, lists, seed, e["index"], scratch)
            e["input_b64"] = base64.b64encode(data[:262144]).decode()
            e["api"], e["errsz"] = api, errsz
    return res


_ATTR_VALUE = re.compile(rb"""([A-Za-z_][\w.:-]*)\s*=\s*(?:"([^"]*)"|'([^']*)')""")
_NUM_TOKEN = re.compile(rb"[-+]?(?:\d+\.?\d*|\.\d+)(?:[eE][-+]?\d+)?$")
_SIZE_TOKEN = re.compile(rb"\d+[kKmMgGtTpPeE]$")
_NONFINITE_TOKEN = re.compile(rb"[-+]?(?:inf|infinity|nan)$", re.I)
_MEMORY_ATTRS = (b"memory",)          # XMLreference size/memory: "a number ... followed by one of {K, M, G, T, P, E}"


def _requests_resources(data):
    """operational reading of 'resource exhaustion requested by the document itself': some attribute VALUE of the input
    contains, as a whole whitespace-separated token, (a) a number of magnitude >= 1000, (b) a size-suffixed number on a
    memory attribute, or (c) a non-finite numeric literal (inf / nan).  Only value tokens count: element or attribute names
    ("inflate", "nanometer"), keywords ("info") and digit runs inside names ("body1000", "mesh_2024.stl") do not.  A
    runaway loop on a document of small numbers is therefore NOT tolerated."""
    if isinstance(data, str):
        data = data.encode()
    for m in _ATTR_VALUE.finditer(data):
        name = m.group(1).lower()
        val = m.group(2) if m.group(2) is not None else m.group(3)
        for tok in val.split():
            if _NUM_TOKEN.match(tok):
                try:
                    if abs(float(tok)) >= 1000:
                        return True
                except (ValueError, OverflowError):
                    return True
            elif _NONFINITE_TOKEN.match(tok):
                return True
            elif name in _MEMORY_ATTRS and _SIZE_TOKEN.match(tok):
                return True
    return False


def _native_signature(data, scratch, flavour, rc, stderr, api=0, errsz=1000):
    """mechanism-level signatures for an input that killed a process without a sanitizer report: re-run the bytes in the
    ASan+UBSan harness; fall back to the exception type / exit status.  -> list of (signature, info)"""
    m = re.search(r"terminate called after throwing an instance of '([^']+)'", stderr or "")
    out = []
    try:
        exe = build.exe("asan", "h_xmlfuzz", ["h_xmlfuzz.cc"])
        f = Path(scratch) / ("crash-%d.xml" % (core.stable_hash(data) % 10**9))
        f.write_bytes(data)
        r = nat.run_exe(exe, ["file", f, api, errsz], "asan", timeout=300, env={"ASAN_OPTIONS": ASAN_OPTS})
        for l in r["out"].splitlines():
            if l.startswith("V "):
                kv = dict(re.findall(r"(\w+)=(\S+)", l))
                extra = l.split(" type=", 1)[1].split(" what=")[0] if " type=" in l else (l.split(" msg=", 1)[1][:60] if " msg=" in l else "")
                out.append(("contract:%s%s" % (kv.get("kind"), (":" + extra) if extra else ""), l))
        for kind, _, text in r["reports"]:
            if "LeakSanitizer" in kind or text.startswith("SUMMARY"):
                continue
            sig, where = san_signature(kind, text)
            if where != "shim" and "applying zero offset to null pointer" not in text.splitlines()[0]:
                out.append(("sanitizer:" + sig, text[:3000] + "\n...\n" + "\n".join(l for l in r["err"].splitlines() if "/src/" in l)[:4000]))
    except Exception as ex:          # noqa: BLE001  (attribution is best effort)
        out.append(("crash:exit-status(%s,%s)" % (rc, flavour), "native re-run failed: %r" % ex))
    if not out:
        out.append(("crash:uncaught-exception:" + m.group(1) if m else "crash:exit-status(%s,%s)" % (rc, flavour), stderr[-500:] if stderr else ""))
    return out[:2]


def _resource(ctx, sig, data, detail, prefix="fuzz"):
    """OOM-class event: tolerated when the document itself asks for large sizes, else a runaway allocation"""
    if _requests_resources(data):
        ctx.count(prefix + "_resource_exhaustion")
        ctx.extra.setdefault("resource_exhaustion_sites", {})
        ctx.extra["resource_exhaustion_sites"][sig] = ctx.extra["resource_exhaustion_sites"].get(sig, 0) + 1
        return
    # the batch runs keep 3 allocation frames (speed); re-run this one input with deep allocation stacks for the site
    site = "?"
    try:
        exe = build.exe("asan", "h_xmlfuzz", ["h_xmlfuzz.cc"])
        d = Path(tempfile.mkdtemp(prefix="vf-c37-oom-", dir="/tmp"))
        try:
            f = d / "in.xml"
            f.write_bytes(data if isinstance(data, bytes) else data.encode())
            r = nat.run_exe(exe, ["file", f, detail.get("api", 0) or 0, detail.get("errsz", 1000) or 1000], "asan", timeout=600,
                            env={"ASAN_OPTIONS": ASAN_OPTS.replace("malloc_context_size=3", "malloc_context_size=40")})
            site = _alloc_site(r["err"])
        finally:
            shutil.rmtree(d, ignore_errors=True)
    except Exception:          # noqa: BLE001
        pass
    ctx.violation("runaway-allocation:oom@" + site, detail)


_NOT_LOOP_OWNERS = re.compile(r"^(\?|main|run_one|_start|__libc_start|clone3?|start_thread|_?_?pthread|std::|__gnu_cxx::|execute_native_thread_routine|"
                              r".*ThreadPool.*|.*_Function_handler.*|.*_M_invoke.*)")


def _loop_owner(out):
    """'hang' mode output -> deepest function present in ALL stack samples of the busiest thread (a callee that is re-entered
    in every iteration is absent from the samples taken in its siblings; the loop owner is in all of them); innermost first
    in each 'S k thread f0 f1 ...' line; names are demangled"""
    import subprocess
    by_thread = {}
    for l in out.splitlines():
        if l.startswith("S "):
            f = l.split()
            by_thread.setdefault(f[2], []).append(f[3:])
    if not by_thread:
        return None
    stacks = max(by_thread.values(), key=len)     # the busiest thread (CPU-time signals go to the threads that burn it)
    if len(stacks) < 10:
        return None
    common = set(stacks[0])
    for st in stacks[1:]:
        common &= set(st)
    for fn in stacks[0]:                         # innermost first
        if fn in common and fn != "?":
            name = fn
            try:
                name = subprocess.run(["c++filt", fn], capture_output=True, text=True, timeout=10).stdout.strip() or fn
            except Exception:          # noqa: BLE001
                pass
            name = "::".join(re.sub(r"\(.*", "", re.sub(r"<.*?>", "", name)).split("::")[-2:])
            if not _NOT_LOOP_OWNERS.match(name):
                return name
    return None


def _confirm_runaway(ctx, data, detail):
    """a per-input watchdog timeout on a document that does NOT ask for large sizes: re-run the bytes alone in the release
    harness with a 6x larger CPU-time cap; if the load still does not return, it is reported, keyed by the function that owns
    the non-terminating loop (deepest frame common to three stack samples)"""
    try:
        exe = build.exe("rel", "h_xmlfuzz", ["h_xmlfuzz.cc"])
        d = Path(tempfile.mkdtemp(prefix="vf-c37-hang-", dir="/tmp"))
        try:
            f = d / "in.xml"
            f.write_bytes(data)
            r = nat.run_exe(exe, ["hang", f, detail.get("api", 0) or 0, detail.get("errsz", 1000) or 1000, 60], "rel", timeout=1500, leaks=False)
        finally:
            shutil.rmtree(d, ignore_errors=True)
    except Exception as ex:          # noqa: BLE001
        ctx.count("fuzz_input_timeouts_confirmation_failed")
        return
    if "\nT 0" in "\n" + r["out"] or r["timed_out"]:
        owner = _loop_owner(r["out"]) or "?"
        ctx.violation("runaway-loop:no-return@" + owner, dict(detail, samples=[l[:400] for l in r["out"].splitlines() if l.startswith("S ")][:6]))
    else:
        ctx.count("fuzz_input_timeouts_not_reproduced")       # slow under ASan / machine load only


def _alloc_site(text):
    """innermost repo frame of an out-of-memory report"""
    for line in text.splitlines():
        m = re.match(r"\s*#\d+ (?:0x[0-9a-f]+ in )?(.+?) (/\S+?):\d+", line)
        if m and ("/src/" in m.group(2) or "/plugin/" in m.group(2)) and "/include/c++/" not in m.group(2):
            fn = "::".join(re.sub(r"\(.*", "", re.sub(r"<.*?>", "", m.group(1))).split("::")[-2:])[:60]
            return "%s:%s" % (m.group(2).split("/")[-1], fn)
    return "?"


def _record_event(ctx, flavour, seed, e):
    detail = dict(flavour=flavour, fuzz_seed=seed, index=e.get("index"), api=e.get("api", 0), errsz=e.get("errsz", 1000),
                  input_b64=e.get("input_b64", ""), info={k: v for k, v in e.items() if k not in ("input_b64",)})
    data = base64.b64decode(e.get("input_b64", "") or "")
    t = e["type"]
    if e.get("run_phase") and t in ("sanitizer", "died"):
        # raised inside mj_makeData/mj_step of a model that loaded: outside the statement (loading); listed for the engine properties
        sig = e.get("sig") or "exit-status(%s)" % e.get("rc")
        ctx.count("fuzz_run_phase_reports")
        ctx.extra.setdefault("run_phase_reports", {})
        ent = ctx.extra["run_phase_reports"].setdefault(sig, dict(count=0, flavour=flavour, fuzz_seed=seed, index=e.get("index"),
                                                                   head=(e.get("text") or e.get("stderr") or "")[:300]))
        ent["count"] += 1
        return
    if t == "contract":
        msg = e.get("msg", "")
        if e["kind"] in ("ESCAPED-ERROR", "uncaught-exception") and RESOURCE_RE.search(msg):
            _resource(ctx, "%s:%s" % (e["kind"], re.sub(r"[#\d]+", "#", msg)[:50]), data, detail)
            return
        sig = "contract:%s" % e["kind"]
        if e["kind"] == "ESCAPED-ERROR":
            sig += ":" + re.sub(r"[#\d]+", "#", msg)[:60]
        elif e["kind"] == "uncaught-exception":
            sig += ":" + msg.split(" what=")[0][:60]
        ctx.violation(sig, detail)
    elif t == "sanitizer":
        if RESOURCE_RE.search(e["sig"]) or RESOURCE_RE.search(e["text"].splitlines()[0]):
            _resource(ctx, "oom@" + (e.get("site") or _alloc_site(e["text"])), data, detail)
        elif "applying zero offset to null pointer" in e["text"].splitlines()[0]:
            ctx.count("fuzz_benign_null_plus_zero")       # see ASSUMPTIONS
        elif e["where"] == "shim":
            ctx.count("fuzz_shim_reports")
            ctx.extra.setdefault("shim_reports", [])
            if len(ctx.extra["shim_reports"]) < 5:
                ctx.extra["shim_reports"].append(dict(sig=e["sig"], flavour=flavour, seed=seed, index=e["index"], text=e["text"][:1500]))
        else:
            ctx.violation("sanitizer:" + e["sig"], detail)
    elif t == "died":
        rc = e.get("rc")
        if RESOURCE_RE.search(e.get("stderr", "")):
            _resource(ctx, "died:" + (RESOURCE_RE.search(e["stderr"]).group(0)), data, detail)
        else:
            for sig, info in _native_signature(data, ctx.extra["_scratch"], flavour, rc,
                                               e.get("stderr", ""), e.get("api", 0), e.get("errsz", 1000)):
                if RESOURCE_RE.search(sig) or RESOURCE_RE.search(str(info)[:300]):
                    _resource(ctx, "oom@" + _alloc_site(str(info)), data, dict(detail, native=info))
                else:
                    ctx.violation(sig, dict(detail, native=info))
    elif t == "timeout":
        ctx.count("fuzz_input_timeouts")
        ctx.extra.setdefault("timeout_inputs", [])
        if len(ctx.extra["timeout_inputs"]) < 10:
            ctx.extra["timeout_inputs"].append(dict(flavour=flavour, fuzz_seed=seed, index=e.get("index")))
        if data and not _requests_resources(data):
            ctx.count("fuzz_input_timeouts_small_document")
            _confirm_runaway(ctx, data, detail)
    elif t == "leak":
        ctx.count("fuzz_leak_reports")
        sig, _ = san_signature("LeakSanitizer", e["text"])
        ctx.extra.setdefault("leak_signatures", {})
        ctx.extra["leak_signatures"][sig] = ctx.extra["leak_signatures"].get(sig, 0) + 1
    elif t == "batch-timeout":
        ctx.count("fuzz_batch_timeouts")


def _fuzz(ctx, scratch, M):
    rel_only = os.environ.get("VERIF_C37_FLAVOURS") == "rel"       # development aid (mutant triage without the ASan build)
    exe_r = build.exe("rel", "h_xmlfuzz", ["h_xmlfuzz.cc"])
    exe_a = exe_r if rel_only else build.exe("asan", "h_xmlfuzz", ["h_xmlfuzz.cc"])
    info = _prepare(scratch, M, L=True)
    ctx.extra["fuzz_corpus"] = info
    lists = (str(scratch / "seeds.txt"), str(scratch / "dict.txt"))
    n_asan, n_rel = ctx.pick((3000, 17000), (24000, 200000))
    b_asan, b_rel = ctx.pick((250, 2000), (1000, 10000))
    if rel_only:
        n_asan = 0
    fseed = ctx.seed + 1
    jobs = []
    pos = 0
    while pos < n_asan:
        jobs.append((exe_a, "asan", lists, fseed, pos, min(b_asan, n_asan - pos), scratch, 10, exe_r))
        pos += b_asan
    while pos < n_asan + n_rel:
        jobs.append((exe_r, "rel", lists, fseed, pos, min(b_rel, n_asan + n_rel - pos), scratch, 10, exe_r))
        pos += b_rel
    results = nat.pmap(_run_batch, jobs, nthreads=int(os.environ.get("VERIF_C37_THREADS", "8")))
    classes, msgs, unfinished = {}, {}, 0
    for res in results:
        flavour = res["job"][0]
        for k, v in res["summary"].items():
            ctx.count("fuzz_%s_%s" % (flavour, k) if k in ("execs",) else "fuzz_" + k, v)
        for k, v in res["classes"].items():
            classes[k] = classes.get(k, 0) + v
        for k, v in res["msgs"].items():
            msgs[k] = msgs.get(k, 0) + v
        unfinished += res["unfinished"]
        ctx.count("fuzz_process_restarts", res["resumes"])
        for e in res["events"]:
            _record_event(ctx, flavour, res["job"][1], e)
    for k, v in classes.items():
        fam, outcome = k.split(":", 1)
        ctx.case("fuzz:" + k, nontrivial=(outcome != "tokenizer-reject"), n=0)
    ctx.evaluations += sum(r["summary"].get("execs", 0) for r in results)
    ctx.extra["fuzz_outcome_classes"] = dict(sorted(classes.items()))
    ctx.extra["fuzz_distinct_error_templates"] = len(msgs)
    ctx.extra["fuzz_top_error_templates"] = dict(sorted(msgs.items(), key=lambda kv: -kv[1])[:40])
    ctx.count("fuzz_distinct_error_templates", len(msgs))
    ctx.samples.append({"fuzz": "seed %d, inputs 0..%d (asan) and ..%d (rel); input #i = f(seed lists, dictionary, seed, i)" % (fseed, n_asan - 1, n_asan + n_rel - 1),
                        "example_outcomes": dict(list(sorted(classes.items()))[:6])})
    total = n_asan + n_rel
    if unfinished > 0.02 * total:
        ctx.inconclusive("%d of %d fuzz inputs not executed (batch timeouts / restart limit)" % (unfinished, total))
    if ctx.counters.get("fuzz_input_timeouts", 0) > 0.01 * total:
        ctx.inconclusive("%d fuzz inputs hit the per-input wall-clock watchdog" % ctx.counters["fuzz_input_timeouts"])


# ================================================================================================ schema oracle

_SCHEMA_PHRASES = ("Schema violation", "unrecognized element", "unrecognized attribute", "unique element", "is required", "required attribute missing",
                   "invalid keyword", "duplicate keyword", "does not have enough data", "has too much data", "bad format in attribute",
                   "problem reading attribute", "must have exactly", "may have at most", "at most one of", "must be specified together",
                   "requires attribute", "must be specified", "repeated element", "missing element", "number is too large")


def schema_templates():
    """regexes for the schema-class messages, built from the string literals of xml_util.cc / xml_native_reader.cc"""
    lits = []
    for f in ("src/xml/xml_util.cc", "src/xml/xml_native_reader.cc"):
        txt = (build.REPO / f).read_text()
        txt = re.sub(r'"\s*\n\s*"', "", txt)                   # adjacent literal concatenation
        found = re.findall(r'"((?:[^"\\\n]|\\.)*)"', txt)
        if f.endswith("xml_native_reader.cc"):
            # the reader proper only contributes the schema-check wrapper and the generated-table (chars arity) messages;
            # its other messages are semantic (model validity) and are not schema-class
            found = [x for x in found if x.startswith("Schema violation") or "must have exactly %d" in x or "may have at most %d" in x]
        lits += found
    out = []
    for s in sorted(set(lits)):
        if len(s) < 8 or not s[0].isalpha() or not any(p in s for p in _SCHEMA_PHRASES):
            continue
        rx = re.escape(s.replace("\\n", "\n"))
        rx = re.sub(r"%[-0-9.]*[sdgfi]", ".*", rx.replace("\\%", "%"))
        out.append((s, re.compile(rx, re.S)))
    # (constraint messages assembled in CheckConstraints always arrive inside the 'Schema violation: %s' wrapper)
    return out


def classify_message(msg, templates):
    """-> ('tokenizer' | 'schema' | 'other', template)"""
    if TOK_MSG.match(msg):
        return "tokenizer", None
    body = msg
    for s, rx in templates:
        if rx.search(body):
            return "schema", s
    return "other", None


class _Reader:
    """the reader under test, through drv.Lib('rel'); an mju_error escaping from the load calls is a contract violation"""

    def __init__(self):
        from .. import drv
        self.drv = drv
        self.L = drv.Lib("rel")
        import ctypes as C
        self.C = C
        self.L.lib.mjs_getError.restype = C.c_char_p
        self.L.lib.mjs_getError.argtypes = [C.c_void_p]

    def load(self, xml, compile_=True):
        """-> dict(parse='ok'|'rej'|'escaped', pmsg, compile='ok'|'rej'|'escaped'|None, cmsg)"""
        L, C = self.L, self.C
        err = C.create_string_buffer(2000)
        out = dict(parse=None, pmsg="", compile=None, cmsg="")
        try:
            spec = L.call("mj_parseXMLString", xml.encode(), None, err, 2000, ret="ptr")
        except self.drv.MjError as e:
            out["parse"], out["pmsg"] = "escaped", str(e)
            return out
        msg = err.value.decode(errors="replace")
        if not spec:
            out["parse"], out["pmsg"] = "rej", msg
            if not msg:
                out["parse"] = "null-empty"
            return out
        out["parse"] = "ok"
        if msg:
            out["parse"], out["pmsg"] = "ok-with-error", msg
        if compile_:
            try:
                m = L.call("mj_compile", spec, None, ret="ptr")
                if not m:
                    out["compile"] = "rej"
                    out["cmsg"] = (L.lib.mjs_getError(spec) or b"").decode(errors="replace")
                    if not out["cmsg"]:
                        out["compile"] = "null-empty"
                else:
                    out["compile"] = "ok"
                    L.call("mj_deleteModel", m, ret=None)
            except self.drv.MjError as e:
                out["compile"], out["cmsg"] = "escaped", str(e)
                return out
        L.call("mj_deleteSpec", spec, ret=None)
        return out


META = ("frame", "replicate")


def _rejected(v):
    return v["parse"] != "ok" or v["compile"] != "ok"


def _classify_accepted(M, R, mjcf_doc, templates, hroot, r2, n2, decl, ctx, wrap, rule, detail):
    """mechanism class of a schema violation that was accepted by parser AND compiler (used in signatures; no random values).
    Every non-generic class is CONFIRMED on the case at hand by a counterfactual load; an unconfirmed case keeps the generic
    '<rule>:<element kind>' signature.  -> (signature, confirmation dict)"""
    generic = "schema-violation-accepted:%s:%s" % (rule, M.kind_name(decl, ctx, wrap))

    def verdict(vh, vm):
        """host vs mutant of a counterfactual pair -> 'rejected' | 'accepted' | 'undecided'"""
        if vh["parse"] == "ok" and vm["parse"] != "ok" and classify_message(vm["pmsg"], templates)[0] == "schema":
            return "rejected"                   # the schema stage itself refuses it there (the host passes that stage)
        if not _rejected(vh):
            return "rejected" if _rejected(vm) else "accepted"
        return "undecided"

    # (a) a <frame>/<replicate> child of <mujoco>: admitted by mjXSchema::NameMatch at level 1, never read -> subtree dropped.
    #     Confirmed by a probe: a geom placed inside that element does not reach the model.  Any OTHER unknown element
    #     accepted under <mujoco> stays generic.
    if rule == "unknown-element" and decl == "mujoco" and wrap is None and detail in META:
        try:
            probe = ET.fromstring(mjcf_doc.serialize(r2))
            tgt = [c for c in probe if c.tag == detail][-1]
            tgt.append(ET.fromstring('<geom name="vf_probe_geom" size="0.1"/>'))
            m0 = R.L.load_xml_string(mjcf_doc.serialize(hroot))
            m1 = R.L.load_xml_string(mjcf_doc.serialize(probe))
            g0, g1 = m0.n("ngeom"), m1.n("ngeom")
            m0.free()
            m1.free()
            if g0 == g1:
                return "schema-violation-accepted:unknown-element:frame-or-replicate-under-mujoco", dict(probe="geom inside is dropped", ngeom=[g0, g1])
        except Exception as ex:          # noqa: BLE001  (unconfirmed -> generic)
            return generic, dict(probe_failed=repr(ex)[:200])
        return generic, dict(probe="geom inside reaches the model")
    # (b) the at-most-once cardinality of the body row is not applied to a frame/replicate element's own children.
    #     Confirmed by re-tagging that element as <body> (attributes a body does not have removed; enclosing meta-elements
    #     dissolved): the same children are then rejected.
    if rule == "repeated-child" and decl in META:
        def as_body(root, node):
            alt = ET.fromstring(mjcf_doc.serialize(root))
            a2 = _locate(M, alt, root, node)
            a2.tag = "body"
            for k in list(a2.attrib):
                if k not in M.el["body"].attrs or k == "name":
                    del a2.attrib[k]
            return mjcf_doc.unwrap_meta(alt, a2)[0]
        vh = R.load(mjcf_doc.serialize(as_body(hroot, _locate(M, hroot, r2, n2))))
        vm = R.load(mjcf_doc.serialize(as_body(r2, n2)))
        vd = verdict(vh, vm)
        if vd == "rejected":
            return "schema-violation-accepted:repeated-child:alias-of-body-row", dict(as_body=(vm["pmsg"] or vm["cmsg"])[:200])
        return generic, dict(as_body=vd)
    # (c) an element below <frame>/<replicate>: mjXSchema::Check never descends into the meta-element.  Confirmed by dissolving
    #     the enclosing meta-elements (children hoisted into the (world)body): same host passes, same mutant is rejected.
    if wrap is not None:
        uh, nh = mjcf_doc.unwrap_meta(hroot, _locate(M, hroot, r2, n2))
        um, nm = mjcf_doc.unwrap_meta(r2, n2)
        if nm:
            vh = R.load(mjcf_doc.serialize(uh))
            vm = R.load(mjcf_doc.serialize(um))
            vd = verdict(vh, vm)
            if vd == "rejected":
                return ("schema-not-enforced-inside-frame-or-replicate:%s" % rule,
                        dict(outside=(vm["pmsg"] or vm["cmsg"])[:200], element=M.kind_name(decl, ctx)))
            if vd == "accepted":
                return "schema-violation-accepted:%s:%s" % (rule, M.kind_name(decl, ctx)), dict(outside="accepted as well")
            return generic, dict(outside_host=(vh["pmsg"] or vh["cmsg"])[:200])
    return generic, {}


def _apply_rule(G, M, root, node, decl, ctx, rule):
    """edit `node` (inside `root`) so that exactly `rule` is broken; -> detail string or None when not applicable"""
    rng = G.rng
    attrs = M.attrs(decl, ctx)
    if rule == "unknown-attribute":
        if decl in META:
            # XMLreference (Meta elements): "include, frame, and replicate which are outside of the schema"; mjcf.schema: the
            # validator admits the body surface for them.  Attributes of the two meta-elements THEMSELVES are therefore not
            # promised to be validated (audit B7); elements nested in them are (wrapped kinds).
            return None
        pool = ["vfunknown"] + [a for a in M.all_attr_names if a not in attrs and a not in M.el[decl].attrs]
        name = pool[0] if rng.random() < 0.4 else pool[int(rng.integers(len(pool)))]
        if ctx == "default" and rng.random() < 0.4:
            proj = [a for a in M.el[decl].attrs if a not in attrs]
            if proj:
                name = proj[int(rng.integers(len(proj)))]
                a = M.el[decl].attrs[name]
                node.set(name, G.valid_value(decl, a))
                return name
        node.set(name, "1")
        return name
    if rule == "unknown-element":
        allowed = {t for _, _, t, _ in M.children(decl, ctx)}
        pool = [t for t in M.all_tags if t not in allowed and t != "include"]
        if M.el[decl].alias or decl in ("body", "mujoco"):
            pool = [t for t in pool if t not in ("worldbody",)] or pool
        tag = "vfunknown" if rng.random() < 0.3 else pool[int(rng.integers(len(pool)))]
        if decl == "mujoco" and rng.random() < 0.35:
            tag = META[int(rng.integers(2))]          # the two tags mjXSchema::NameMatch admits for the body row at every level
        ch = ET.Element(tag)
        node.append(ch)
        return tag
    if rule in ("bad-keyword", "too-many", "too-few", "non-numeric", "range", "pattern"):
        cands = []
        for n, a in attrs.items():
            if G.invalid_value(decl, a, rule) is not None:
                cands.append(n)
        if not cands:
            return None
        present = [n for n in cands if n in node.attrib]
        n = present[int(rng.integers(len(present)))] if present and rng.random() < 0.5 else cands[int(rng.integers(len(cands)))]
        if n not in node.attrib and not _can_add(M, node, decl, ctx, n):
            if not present:
                return None
            n = present[0]
        node.set(n, G.invalid_value(decl, attrs[n], rule))
        return n
    if rule == "missing-required":
        req = [n for n, a in attrs.items() if M.is_required(decl, a, ctx, "both") and n in node.attrib]
        if not req:
            return None
        n = req[int(rng.integers(len(req)))]
        del node.attrib[n]
        return n
    if rule == "repeated-child":
        kids = M.children(decl, ctx, surface="compilable")
        opts = [(cd, tag, cctx) for cd, card, tag, cctx in kids if card == "?"]
        if not opts:
            return None
        cd, tag, cctx = opts[int(rng.integers(len(opts)))]
        have = [c for c in node if c.tag == tag]
        for _ in range(2 - len(have)):
            node.append(G.minimal(cd, cctx, tag))
        # recursive element kinds (body in body, default in default, frame in frame): a NESTED element of the same kind --
        # carrying its own single `?` child -- before, between or after the duplicates (the validator object of a recursive
        # row is shared between the levels, so are its at-most-once counters)
        rec = [(c2, t2, x2) for c2, card, t2, x2 in kids if card == "R" and c2 == decl]
        if rec and rng.random() < 0.7:
            nested = _nested_with_child(G, M, rec[0], (cd, tag, cctx))
            dups = [i for i, c in enumerate(node) if c.tag == tag]
            where = int(rng.integers(3))
            node.insert([dups[0], dups[-1], len(node)][where], nested)
            return tag + ["+nested-before", "+nested-between", "+nested-after"][where]
        return tag
    if rule in ("exclusive", "together", "oneof", "requires"):
        cons = [(k, b) for k, b in M.cons(decl, ctx) if k == rule]
        if not cons:
            return None
        k, bundles = cons[int(rng.integers(len(cons)))]
        flat = [n for b in bundles for n in b]
        if rule == "exclusive":
            i, j = rng.permutation(len(bundles))[:2]
            for n in bundles[i] + bundles[j]:
                if n not in node.attrib:
                    if not _set(node, n, G.valid_value(decl, attrs[n])):
                        return None
        elif rule == "together":
            for n in flat:
                node.attrib.pop(n, None)
            n = flat[int(rng.integers(len(flat)))]
            if not _set(node, n, G.valid_value(decl, attrs[n])):
                return None
        elif rule == "requires":
            if not _set(node, bundles[0][0], G.valid_value(decl, attrs[bundles[0][0]])):
                return None
            node.attrib.pop(bundles[1][0], None)
        else:
            for b in bundles:
                drop = b[int(rng.integers(len(b)))]
                node.attrib.pop(drop, None)
        return "|".join(" ".join(b) for b in bundles)
    if rule == "variant":
        vs = [v for v in M.variants(decl, ctx) if len(v) >= 2]
        if not vs:
            return None
        v = vs[int(rng.integers(len(vs)))]
        i, j = rng.permutation(len(v))[:2]
        for n in (v[i], v[j]):
            if n not in node.attrib:
                if not _set(node, n, "1 0 0 0" if attrs[n].lo == 4 else G.valid_value(decl, attrs[n], "min")):
                    return None
        return v[i] + " " + v[j]
    return None


def _set(node, name, value):
    """set an attribute unless the two sources leave no common conforming value (value is None)"""
    if value is None:
        return False
    node.set(name, value)
    return True


def _nested_with_child(G, M, rec, opt):
    """a minimal nested element of a recursive kind that carries one instance of the at-most-once child `opt`"""
    (c2, t2, x2), (cd, tag, cctx) = rec, opt
    nested = G.minimal(c2, x2, t2)
    if c2 == "default":
        nested.set("class", G.fresh("cls"))
    if not any(c.tag == tag for c in nested):
        nested.insert(0, G.minimal(cd, cctx, tag))
    return nested


def _can_add(M, node, decl, ctx, name):
    """adding attribute `name` must not break a presence constraint or a variant group"""
    present = set(node.attrib) | {name}
    for kind, bundles in M.cons(decl, ctx):
        anyp = sum(any(n in present for n in b) for b in bundles)
        flat = [n for b in bundles for n in b]
        if kind == "exclusive" and anyp > 1:
            return False
        if kind == "together" and 0 < sum(n in present for n in flat) < len(flat):
            return False
        if kind == "requires" and bundles[0][0] in present and bundles[1][0] not in present:
            return False
    for v in M.variants(decl, ctx):
        if sum(n in present for n in v) > 1:
            return False
    return True


def _conforming_edit(G, M, node, decl, ctx):
    """random conforming enrichment of the element: optional attributes (min/max arity, any keyword), optional children"""
    rng = G.rng
    attrs = M.attrs(decl, ctx)
    names = list(attrs)
    what = []
    for n in rng.permutation(names)[:int(rng.integers(1, 5))]:
        a = attrs[n]
        if a.type in ("file", "ref", "id") or a.facets.get("reading") == "custom":
            continue
        if n not in node.attrib and not _can_add(M, node, decl, ctx, n):
            continue
        if n in node.attrib and a.required:
            continue
        if _set(node, n, G.valid_value(decl, a, ["min", "max", "any"][int(rng.integers(3))], avoid="")):
            what.append(n)
    kids = M.children(decl, ctx, surface="compilable")
    if kids and rng.random() < 0.4:
        cd, card, tag, cctx = kids[int(rng.integers(len(kids)))]
        if cd not in ("default",) and not (card == "?" and any(c.tag == tag for c in node)):
            node.append(G.minimal(cd, cctx, tag))
            what.append("<%s>" % tag)
    # recursive kinds: a nested element with its own at-most-once child placed BEFORE the parent's own instance of that child
    # (one of each per level is conforming; the levels must be counted separately)
    rec = [(c2, t2, x2) for c2, card, t2, x2 in kids if card == "R" and c2 == decl]
    opts = [(cd, tag, cctx) for cd, card, tag, cctx in kids if card == "?"]
    if rec and opts and rng.random() < 0.5:
        cd, tag, cctx = opts[int(rng.integers(len(opts)))]
        own = [i for i, c in enumerate(node) if c.tag == tag]
        if not own:
            node.append(G.minimal(cd, cctx, tag))
            own = [len(node) - 1]
        node.insert(own[0], _nested_with_child(G, M, rec[0], (cd, tag, cctx)))
        what.append("<%s><%s/></%s> before <%s>" % (rec[0][1], tag, rec[0][1], tag))
    return what


_CACHE = {}


def _setup():
    if not _CACHE:
        from ..gen import mjcf_doc
        _CACHE["M"] = _model()
        _CACHE["R"] = _Reader()
        _CACHE["T"] = schema_templates()
    return _CACHE["M"], _CACHE["R"], _CACHE["T"]


def worker(case):
    """schema-oracle worker: case = dict(kinds=[(decl, ctx), ...], seed, rep0, reps, nconf, log=path or None)"""
    from ..gen import mjcf_doc
    P = core.Part()
    M, R0, templates = _setup()
    cover = {}
    matrix = {}
    logf = open(case["log"], "w") if case.get("log") else None

    class R:                     # announce every document before it is loaded (crash attribution)
        @staticmethod
        def load(x):
            if logf:
                logf.seek(0)
                logf.truncate()
                logf.write(x)
                logf.flush()
            return R0.load(x)

    def cov(kind, rule, what):
        cover.setdefault(kind + "|" + rule, {}).setdefault(what, 0)
        cover[kind + "|" + rule][what] += 1

    for kd in case["kinds"]:
        decl, ctx = kd[0], kd[1]
        wrap = kd[2] if len(kd) > 2 else None            # 'frame+replicate:direct' ...: hosted below <frame>/<replicate>
        kind = M.kind_name(decl, ctx, wrap)
        hk = (decl, ctx, wrap) if wrap else (decl, ctx)
        for rep in range(case.get("rep0", 0), case.get("rep0", 0) + case["reps"]):
            rng = np.random.Generator(np.random.PCG64(core.stable_hash("C37", case["seed"], kind, rep)))
            G = mjcf_doc.DocGen(M, rng)
            root, node = G.host(hk)
            if M.validate(root):
                P.count("schema_host_rejected_by_reference")
                continue
            hx = mjcf_doc.serialize(root)
            h = R.load(hx)
            P.case(None, nontrivial=False)
            P.count("schema_documents")
            if _contract(P, h, hx, kind, "host"):
                continue
            if h["parse"] != "ok":
                cls, tpl = classify_message(h["pmsg"], templates)
                if cls == "schema":
                    P.violation("conforming-rejected:%s" % _rejkey(h["pmsg"], tpl), dict(kind=kind, what="host", xml=hx, message=h["pmsg"]))
                    cov(kind, "conforming", "REJECTED-schema")
                else:
                    P.count("schema_host_rejected_nonschema")
                    cov(kind, "conforming", "rejected-other")
                # second chance: the same chain with the attributes the hand-written reader insists on (coverage of the other rules)
                root, node = G.host(hk, enrich=True)
                if M.validate(root):
                    continue
                hx = mjcf_doc.serialize(root)
                h = R.load(hx)
                P.count("schema_documents")
                if h["parse"] != "ok" or _contract(P, h, hx, kind, "host"):
                    P.count("schema_enriched_host_rejected")
                    continue
                P.count("schema_hosts_enriched")
            cov(kind, "conforming", "accepted" if h["compile"] == "ok" else "accepted-parse")
            P.count("schema_hosts_compiled" if h["compile"] == "ok" else "schema_hosts_parse_only")
            # conforming variants
            for _ in range(case["nconf"]):
                r2 = ET.fromstring(hx)
                n2 = _locate(M, r2, root, node)
                what = _conforming_edit(G, M, n2, decl, ctx)
                if not what or M.validate(r2):
                    P.count("schema_variant_discarded")
                    continue
                x = mjcf_doc.serialize(r2)
                v = R.load(x)
                P.case(None, nontrivial=False)
                P.count("schema_documents")
                if _contract(P, v, x, kind, "conforming"):
                    continue
                if v["parse"] != "ok":
                    cls, tpl = classify_message(v["pmsg"], templates)
                    if cls == "schema":
                        P.violation("conforming-rejected:%s" % _rejkey(v["pmsg"], tpl),
                                    dict(kind=kind, what=what, xml=x, message=v["pmsg"]))
                        cov(kind, "conforming", "REJECTED-schema")
                    else:
                        P.count("schema_conforming_rejected_nonschema")
                        cov(kind, "conforming", "rejected-other")
                else:
                    P.count("schema_conforming_accepted")
                    cov(kind, "conforming", "accepted" if v["compile"] == "ok" else "accepted-parse")
                    if v["compile"] != "ok":
                        P.count("schema_conforming_compile_rejected_nonschema")
            # single-violation mutants
            for rule in mjcf_doc.RULES:
                r2 = ET.fromstring(hx)
                n2 = _locate(M, r2, root, node)
                detail = _apply_rule(G, M, r2, n2, decl, ctx, rule)
                if detail is None:
                    continue
                viols = M.validate(r2)                      # rejected by the schema file OR by XMLreference
                if len(viols) != 1 or viols[0][0] != rule:
                    P.count("schema_mutant_discarded")
                    continue
                if M.validate(r2, "both") != viols:         # ... and by both of them: otherwise no label
                    P.count("schema_mutant_discarded_sources_disagree")
                    continue
                x = mjcf_doc.serialize(r2)
                v = R.load(x)
                P.count("schema_documents")
                P.count("schema_mutants")
                if _contract(P, v, x, kind, rule):
                    continue
                if v["parse"] != "ok":
                    cls, tpl = classify_message(v["pmsg"], templates)
                    P.case("schema:%s|%s" % (kind, rule))
                    cov(kind, rule, "rejected-parse")
                    matrix.setdefault(rule, {}).setdefault(_tplkey(tpl) if tpl else cls, 0)
                    matrix[rule][_tplkey(tpl) if tpl else cls] += 1
                    P.count("schema_mutants_rejected_by_parser")
                elif h["compile"] == "ok":
                    P.case("schema:%s|%s" % (kind, rule))
                    if v["compile"] == "ok":
                        cov(kind, rule, "ACCEPTED")
                        sig, conf = _classify_accepted(M, R0, mjcf_doc, templates, ET.fromstring(hx), r2, n2, decl, ctx, wrap, rule,
                                                       detail.split("+")[0] if rule == "repeated-child" else detail)
                        P.violation(sig, dict(kind=kind, rule=rule, detail=detail, xml=x, host=hx, confirmation=conf))
                    else:
                        cov(kind, rule, "rejected-compile")
                        P.count("schema_mutants_rejected_by_compiler")
                else:
                    cov(kind, rule, "undecided")
                    P.count("schema_mutants_undecided_host_not_compilable")
    res = P.result()
    res["cover"] = cover
    res["matrix"] = matrix
    return res


def replay_worker(case):
    return _Reader().load(case["xml"])


def _rejkey(msg, tpl):
    """mechanism key of a schema-class rejection: message template + the element/attribute the message names"""
    el = re.search(r"Element '([^']*)'", msg)
    at = re.search(r"(?:attribute|missing): '([^']*)'|attribute '([^']*)'|element '([^']*)'", msg.split("\nElement")[0])
    name = next((g for g in (at.groups() if at else ()) if g), "")
    return "%s%s:%s" % (el.group(1) if el else "?", ("." + name) if name else "", _tplkey(tpl))


def _tplkey(tpl):
    return re.sub(r"[^A-Za-z%' ]", "", tpl or "?").strip()[:40]


def _contract(P, v, xml, kind, what):
    """load-contract violations seen through the Python driver"""
    for stage in ("parse", "compile"):
        s = v[stage]
        if s in ("escaped", "null-empty", "ok-with-error"):
            msg = v["pmsg"] if stage == "parse" else v["cmsg"]
            if s == "escaped":       # same mechanism, same key as the native harness (h_xmlfuzz 'V kind=ESCAPED-ERROR')
                P.violation("contract:ESCAPED-ERROR:" + re.sub(r"[#\d]+", "#", msg)[:60], dict(kind=kind, what=what, stage=stage, xml=xml, message=msg))
                return True
            P.violation("contract:%s-%s:%s" % (stage, s, re.sub(r"[\d']+", "#", msg)[:50]), dict(kind=kind, what=what, xml=xml, message=msg))
            return True
    return False


def _locate(M, new_root, old_root, old_node):
    """the element of new_root at the same tree position as old_node in old_root"""
    path = []

    def find(n, trail):
        if n is old_node:
            path.extend(trail)
            return True
        for i, c in enumerate(n):
            if find(c, trail + [i]):
                return True
        return False
    find(old_root, [])
    n = new_root
    for i in path:
        n = n[i]
    return n


def _schema(ctx, M, scratch):
    kinds = sorted(M.kinds)
    reps, nconf = ctx.pick((2, 2), (16, 4))
    nproc = int(os.environ.get("VERIF_C37_THREADS", "8"))
    cases = []
    for rep in range(reps):
        for k in kinds:
            cases.append(dict(kinds=[list(k)], seed=ctx.seed, rep0=rep, reps=1, nconf=nconf,
                              log=str(scratch / ("doc-%s-%s-%d.xml" % (k[0], k[1], rep)))))
    # element kinds of the kinematic tree hosted below <frame>/<replicate> chains (where mjXSchema::Check does not descend by itself).
    # quick: per kind and rep one <frame> host, one <replicate> host (direct / in-a-nested-body alternating) and one nested chain;
    # thorough: every (chain, form) with a quarter of the repetitions
    wrapped = sorted(M.wrapped)
    chains = ["+".join(c) for c in M.WRAP_CHAINS]
    nwrap = 0
    for rep in range(reps if ctx.quick else max(1, reps // 4)):
        for k in wrapped:
            chain, form = k[2].split(":")
            if ctx.quick:
                nested = chains[2 + core.stable_hash("C37wrap", ctx.seed, k[0], rep) % (len(chains) - 2)]
                want = {"frame": ("direct", "inbody")[rep % 2], "replicate": ("inbody", "direct")[rep % 2],
                        nested: ("direct", "inbody")[core.stable_hash("C37form", ctx.seed, k[0], rep) % 2]}
                if want.get(chain) != form:
                    continue
            nwrap += 1
            cases.append(dict(kinds=[list(k)], seed=ctx.seed, rep0=rep, reps=1, nconf=nconf,
                              log=str(scratch / ("doc-%s-%s-%s-%d.xml" % (k[0], k[1], k[2].replace(":", "_"), rep)))))
    ctx.count("schema_wrapped_hosts_planned", nwrap)
    results = par.run("vf.props.c37", "worker", cases, nproc=nproc, timeout=ctx.pick(300, 600))
    cover, matrix = {}, {}
    for c, r in zip(cases, results):
        if r is None or "crash" in r or "exception" in r:
            if r and "exception" in r:
                ctx.inconclusive("schema worker exception: %s" % str(r.get("trace", r.get("exception")))[-800:])
                continue
            try:
                xml = open(c["log"]).read()
            except OSError:
                xml = ""
            tail = str((r or {}).get("crash", ""))
            ctx.count("schema_worker_crashes")
            for sig, info in _native_signature(xml.encode(), scratch, "rel", (r or {}).get("rc"), tail):
                det = dict(kind=c["kinds"][0], xml=xml, stderr=tail[-1500:], native=info)
                if RESOURCE_RE.search(sig) or RESOURCE_RE.search(str(info)[:300]):
                    _resource(ctx, "oom@" + _alloc_site(str(info)), xml, det, prefix="schema")
                else:
                    ctx.violation(sig, det)
            continue
        ctx.merge(r)
        for k, d in r.get("cover", {}).items():
            for w, n in d.items():
                cover.setdefault(k, {}).setdefault(w, 0)
                cover[k][w] += n
        for k, d in r.get("matrix", {}).items():
            for w, n in d.items():
                matrix.setdefault(k, {}).setdefault(w, 0)
                matrix[k][w] += n
    # coverage table: element kinds x rule kinds
    from ..gen import mjcf_doc
    table = {}
    for k, d in cover.items():
        kind, rule = k.split("|")
        table.setdefault(kind, {})[rule] = "/".join("%s:%d" % (w, n) for w, n in sorted(d.items()))
    ctx.extra["schema_coverage_table"] = dict(sorted(table.items()))
    rules_hit = sorted({k.split("|")[1] for k in cover})
    ctx.extra["schema_rule_kinds_hit"] = rules_hit
    ctx.extra["schema_rule_vs_message_template"] = matrix
    ctx.extra["schema_element_kinds"] = dict(total=len(kinds), with_host_accepted=sum(1 for k, d in table.items() if "accepted" in d.get("conforming", "")),
                                             never_accepted=[k for k in sorted(table) if "accepted" not in table[k].get("conforming", "")])
    ctx.count("schema_element_kinds", len(kinds))
    ctx.count("schema_wrapped_kinds", len(M.wrapped))
    # where the schema file and XMLreference.rst differ (outside C37: a defect of mjcf.schema / the generated XSD, reported once)
    ctx.extra["schema_file_vs_XMLreference"] = ["%s.%s: %s" % d for d in M.doc_disagreements]
    ctx.count("schema_file_vs_XMLreference_disagreements", len(M.doc_disagreements))
    ctx.count("schema_cells_hit", len(cover))
    ctx.samples.append({"schema": "element kinds %d (incl. default-context projections); per kind %d hosts x (%d conforming variants + every applicable rule)" % (len(kinds), reps, nconf),
                        "example_cell": next(iter(sorted(table.items())), None)})


# ================================================================================================ entry points

def _model():
    from ..gen import mjcf_doc
    from ..mjconst import E
    dims = {k: int(getattr(E, k)) for k in ("mjNREF", "mjNIMP", "mjNEQDATA", "mjNFLUID", "mjNBIAS", "mjNGAIN", "mjNDYN")}
    return mjcf_doc.SchemaModel(build.REPO, dims)


def run(ctx):
    M = _model()
    scratch = _scratch()
    ctx.extra["_scratch"] = str(scratch)
    try:
        part = os.environ.get("VERIF_C37_PART", "both")
        if part in ("both", "schema"):
            _schema(ctx, M, scratch)
        if part in ("both", "fuzz"):
            _fuzz(ctx, scratch, M)
    finally:
        shutil.rmtree(scratch, ignore_errors=True)
        ctx.extra.pop("_scratch", None)
    ctx.min_nontrivial = ctx.pick(150, 400)
    if os.environ.get("VERIF_C37_DEBUG"):
        Path(os.environ["VERIF_C37_DEBUG"]).write_text(json.dumps(core._jsonable(ctx.extra), indent=1))


def replay(ctx, path):
    rec = json.load(open(path))
    d = rec["detail"]
    if "input_b64" in d:
        scratch = _scratch()
        try:
            fl = d.get("flavour", "asan")
            exe = build.exe(fl, "h_xmlfuzz", ["h_xmlfuzz.cc"])
            f = scratch / "input.xml"
            f.write_bytes(base64.b64decode(d["input_b64"]))
            r = nat.run_exe(exe, ["file", f, d.get("api", 0), d.get("errsz", 1000)], fl, timeout=300,
                            env={"ASAN_OPTIONS": ASAN_OPTS} if fl == "asan" else None)
            print(r["out"][-1500:], r["err"][-3000:])
            for l in r["out"].splitlines():
                if l.startswith("V "):
                    kv = dict(re.findall(r"(\w+)=(\S+)", l))
                    ctx.violation("contract:%s" % kv.get("kind"), dict(line=l))
            for kind, _, text in r["reports"]:
                if "LeakSanitizer" in kind or text.startswith("SUMMARY"):
                    continue
                sig, where = san_signature(kind, text)
                ctx.violation("sanitizer:" + sig, dict(report=text[:3000]))
            if r["rc"] not in (0, 1) and not r["reports"] and "V " not in r["out"]:
                for sig, info in _native_signature(base64.b64decode(d["input_b64"]), scratch, fl, r["rc"], r["err"],
                                                   d.get("api", 0), d.get("errsz", 1000)):
                    print(sig, str(info)[:1500])
                    ctx.violation(sig, dict(native=info))
            ctx.case("replay-fuzz", sample={"bytes": len(base64.b64decode(d["input_b64"]))})
        finally:
            shutil.rmtree(scratch, ignore_errors=True)
    else:
        res = par.run("vf.props.c37", "replay_worker", [dict(xml=d["xml"])], nproc=1, timeout=300)[0]
        print(json.dumps(res, indent=1)[:3000])
        if res is None or "crash" in res or "exception" in res:
            scratch = _scratch()
            try:
                for sig, info in _native_signature(d["xml"].encode(), scratch, "rel", (res or {}).get("rc"), str((res or {}).get("crash", ""))):
                    print(sig, str(info)[:1500])
                    if RESOURCE_RE.search(sig) or RESOURCE_RE.search(str(info)[:300]):
                        _resource(ctx, "oom@" + _alloc_site(str(info)), d["xml"], dict(xml=d["xml"]), prefix="schema")
                    else:
                        ctx.violation(sig, dict(xml=d["xml"], native=info))
            finally:
                shutil.rmtree(scratch, ignore_errors=True)
            ctx.case("replay-schema-crash", sample={"kind": d.get("kind")})
            ctx.min_nontrivial = 1
            return
        v = res
        templates = schema_templates()
        if rec["signature"].startswith(("schema-violation-accepted", "schema-not-enforced-inside-frame-or-replicate")) and v["parse"] == "ok" and v["compile"] == "ok":
            ctx.violation(rec["signature"], d)
        elif rec["signature"].startswith("conforming-rejected") and v["parse"] != "ok" and classify_message(v["pmsg"], templates)[0] == "schema":
            ctx.violation(rec["signature"], d)
        elif rec["signature"].startswith("contract:") and (v["parse"] in ("escaped", "null-empty", "ok-with-error") or v["compile"] in ("escaped", "null-empty")):
            ctx.violation(rec["signature"], d)
        ctx.case("replay-schema", sample={"kind": d.get("kind"), "rule": d.get("rule")})
    ctx.min_nontrivial = 1
