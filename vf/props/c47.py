"""C47 System-identification inertia parameters are always physical (python/mujoco/sysid/_src/model_modifier.py)."""
import json

import numpy as np

from .. import core, par
from ..ref import inertia as ref

LEVEL = "exploration"
RULE = ("hypothesis-generated 10-vectors theta in the box [-B, B]^10 (B = 3; thorough: half of the vectors with B = 6), "
        "kinds {interior floats, corners, faces (some coordinates pinned to +-B), axes (one non-zero coordinate), near "
        "zero}; deal post-conditions on pi_from_theta, pseudoinertia_from_pi, theta_from_pseudoinertia, on their "
        "composition (round trip) and on apply_body_theta_inertia (three body fixtures; fresh spec or a second "
        "application on an already modified spec), the last one compiling the returned spec with the installed "
        "wheel's MjSpec and comparing body_mass / body_ipos / R(body_iquat) diag(body_inertia) R^T with a closed-form "
        "reference. distinct = (kind, set of coordinates at +-B, fixture, fresh|chained); non-trivial = theta != 0")
ASSUMPTIONS = [
    "the installed wheel's MjSpec compiler (3.13.0 binary) is a dependency of model_modifier.py, not the code under test",
    "reference = closed-form expansion of J = U U^T from the pi_from_theta docstring (vf/ref/inertia.py), no cancellation",
    "positive definiteness is decided on the Jacobi-scaled matrix D^-1/2 J D^-1/2 (a congruence, so equivalent) because the "
    "raw matrix has row scales e^{2(alpha+d)} spanning up to e^24; cases whose scaled condition number exceeds 1e12 "
    "are counted as skipped",
    "round-trip tolerance 256*eps*cond2(J) on |theta' - theta|_inf; vectors with cond2(J) > 1e12 are skipped for this "
    "clause only (DESIGN: tolerance scaled by cond(J))",
    "triangle inequalities and compiled tensors are compared with an absolute tolerance 256*eps*(|I_origin|_max + m|com|^2): "
    "the parallel-axis subtraction the module performs cancels that many digits by construction",
    "the compiled tensor additionally tolerates 1e-5*|I_com|_max: the compiler's 3x3 Jacobi eigen-solver (mjuu_eig3, kEigEPS = "
    "1e-12 on the rotation cosine) leaves rotations below 1.5e-6 rad unresolved",
    "mjuu_eig3 also stops on an absolute off-diagonal threshold of 1e-12 (tolerated as +2e-12), and a compile error 'A + B >= C' / "
    "'positive eigenvalues' is tolerated (counted) only when the exact body's relative triangle margin is below 1e-9, i.e. "
    "the body is flat to within the accuracy of the compiler's own eigenvalues",
    "box B <= 6 keeps every principal moment above the compiler's absolute threshold mjEPS = 1e-14 and exp() far from overflow",
]

EPS = float(np.finfo(float).eps)
B_QUICK, B_WIDE = 3.0, 6.0

FIXTURES = {
    "free_box": """<mujoco><worldbody><body name="b" pos="0.1 0.2 0.3" quat="0.9 0.1 0.2 0.3"><freejoint/>
        <geom type="box" size="0.1 0.2 0.3" pos="0.05 0 0"/></body></worldbody></mujoco>""",
    "hinge_child": """<mujoco><worldbody><body name="a" pos="0 0 1"><joint type="hinge" axis="0 1 0"/><geom size="0.1"/>
        <body name="b" pos="0.3 0 0" euler="10 20 30"><joint type="hinge" axis="1 0 0"/>
        <geom type="capsule" size="0.05" fromto="0 0 0 0.2 0.1 0"/><geom type="sphere" size="0.07" pos="0 0 0.2"/>
        <body name="c" pos="0 0 0.4"><joint type="slide"/><geom size="0.05"/></body></body></body></worldbody></mujoco>""",
    "explicit_inertial": """<mujoco><worldbody><body name="b" pos="1 0 0"><joint type="ball"/>
        <inertial pos="0.01 0.02 0.03" mass="2" fullinertia="0.3 0.2 0.25 0.01 -0.02 0.03"/>
        <geom type="ellipsoid" size="0.1 0.2 0.15"/></body></worldbody></mujoco>""",
}


class ContractViolation(AssertionError):
    signature = "contract"


class NonPhysicalInertia(ContractViolation):
    signature = "pi-not-physical"


class WrongInertialParameters(ContractViolation):
    signature = "pi-differs-from-closed-form"


class PseudoInertiaNotSPD(ContractViolation):
    signature = "pseudoinertia-not-spd"


class ThetaDoesNotReproduceJ(ContractViolation):
    signature = "theta-from-pseudoinertia-wrong"


class RoundTripMismatch(ContractViolation):
    signature = "round-trip-mismatch"


class CompiledMassPropertiesDiffer(ContractViolation):
    signature = "compiled-mass-properties"


class Monitor:
    def __init__(self):
        self.evals = {}
        self.why = None
        self.notes = {}

    def hit(self, n):
        self.evals[n] = self.evals.get(n, 0) + 1

    def fail(self, why, **kw):
        self.why = why
        self.notes.update(kw)
        return False


MON = Monitor()


def _split_pi(pi):
    pi = np.asarray(pi, float).ravel()
    if pi.size == 13:                       # [m, h(3), I flattened row-major (9)] -- what this tree returns
        I = pi[4:].reshape(3, 3)
    elif pi.size == 10:                     # [m, h, Ixx, Iyy, Izz, Ixy, Iyz, Ixz] -- what the docstring promises
        xx, yy, zz, xy, yz, xz = pi[4:]
        I = np.array([[xx, xy, xz], [xy, yy, yz], [xz, yz, zz]])
    else:
        return None
    return float(pi[0]), pi[1:4].copy(), I


# ---- named conditions ---------------------------------------------------------------------------------------------
def pi_is_physical(theta, result):
    MON.hit("pi_is_physical")
    sp = _split_pi(result)
    if sp is None or not np.all(np.isfinite(result)):
        return MON.fail("shape-or-nonfinite")
    m, h, I = sp
    if not m > 0:
        return MON.fail("mass-not-positive", mass=m)
    if not np.array_equal(I, I.T):
        return MON.fail("inertia-not-symmetric")
    sig = 0.5 * np.trace(I) * np.eye(3) - I
    J = np.zeros((4, 4))
    J[:3, :3], J[:3, 3], J[3, :3], J[3, 3] = sig, h, h, m
    ok, cond = ref.scaled_spd(J)
    if cond > 1e12:
        MON.notes["skipped_spd_illconditioned"] = True
    elif not ok:
        return MON.fail("pseudo-inertia-not-positive-definite", scaled_cond=cond)
    c = h / m
    Icom = I - m * (c @ c * np.eye(3) - np.outer(c, c))
    margin, w = ref.triangle_margin(Icom)
    tol = 256 * EPS * (np.abs(I).max() + m * float(c @ c))
    MON.notes["triangle_margin_rel"] = margin / (w[-1] if w[-1] > 0 else 1.0)
    if margin < -tol or w[0] < -tol:
        return MON.fail("triangle-inequality", margin=margin, moments=w.tolist(), tol=tol)
    return True


def pi_matches_closed_form(theta, result):
    MON.hit("pi_matches_closed_form")
    sp = _split_pi(result)
    if sp is None:
        return MON.fail("shape")
    m, h, I = sp
    r = ref.from_theta(theta)
    absJ = _abs_product(theta)
    t = 64 * EPS
    if abs(m - r["m"]) > t * absJ[3, 3]:
        return MON.fail("mass", got=m, want=r["m"])
    if np.any(np.abs(h - r["h"]) > t * absJ[:3, 3]):
        return MON.fail("first-moment", got=h.tolist(), want=r["h"].tolist())
    tolI = t * (np.trace(absJ[:3, :3]) + absJ[:3, :3])
    if np.any(np.abs(I - r["I_origin"]) > tolI):
        return MON.fail("inertia-about-origin", got=I.tolist(), want=r["I_origin"].tolist())
    return True


def _abs_product(theta):
    th = np.asarray(theta, float)
    U = np.zeros((4, 4))
    U[0] = [np.exp(th[1]), abs(th[4]), abs(th[6]), abs(th[7])]
    U[1] = [0, np.exp(th[2]), abs(th[5]), abs(th[8])]
    U[2] = [0, 0, np.exp(th[3]), abs(th[9])]
    U[3, 3] = 1
    U *= np.exp(th[0])
    return U @ U.T + 1e-290         # floor: products of denormal inputs are not relatively accurate


def pseudoinertia_is_spd(pi, result):
    MON.hit("pseudoinertia_is_spd")
    J = np.asarray(result, float)
    if J.shape != (4, 4) or not np.all(np.isfinite(J)):
        return MON.fail("shape-or-nonfinite")
    if not np.array_equal(J, J.T):
        return MON.fail("not-symmetric", J=J.tolist())
    sp = _split_pi(pi)
    if sp is None:
        return MON.fail("pi-shape")
    m, h, I = sp
    if J[3, 3] != m or not np.array_equal(J[:3, 3], h):
        return MON.fail("mass-or-first-moment-block")
    sig = 0.5 * np.trace(I) * np.eye(3) - I
    if np.any(np.abs(J[:3, :3] - sig) > 8 * EPS * np.abs(np.trace(I))):
        return MON.fail("second-moment-block", got=J[:3, :3].tolist(), want=sig.tolist())
    ok, cond = ref.scaled_spd(J)
    if cond > 1e12:
        MON.notes["skipped_spd_illconditioned"] = True
        return True
    if not ok:
        return MON.fail("not-positive-definite", scaled_cond=cond)
    return True


def theta_reproduces_J(J, result):
    MON.hit("theta_reproduces_J")
    th = np.asarray(result, float)
    if th.shape != (10,) or not np.all(np.isfinite(th)):
        return MON.fail("shape-or-nonfinite")
    J = np.asarray(J, float)
    r = ref.from_theta(th)
    # Cholesky is backward stable componentwise: U'U'^T = J + dJ with |dJ| <= c*eps*|U'||U'|^T, whatever cond(J) is
    absJ = _abs_product(th)
    err = np.abs(r["J"] - J)
    MON.notes["reproduce_err_over_eps"] = float(np.max(err / (EPS * absJ)))
    if np.any(err > 256 * EPS * absJ):
        return MON.fail("J-not-reproduced", got=r["J"].tolist(), want=J.tolist())
    return True


def round_trip_recovers_theta(theta, result):
    MON.hit("round_trip_recovers_theta")
    cond = np.linalg.cond(ref.from_theta(theta)["J"])
    MON.notes["cond"] = float(cond)
    if not cond < 1e12:
        MON.notes["skipped_roundtrip_illconditioned"] = True
        return True
    err = float(np.max(np.abs(np.asarray(result, float) - np.asarray(theta, float)))) if np.shape(result) == (10,) else float("inf")
    MON.notes["roundtrip_err_over_eps_cond"] = err / (EPS * cond)
    if not err <= 256 * EPS * cond:
        return MON.fail("theta-not-recovered", err=err, cond=float(cond), got=np.asarray(result).tolist())
    return True


def spec_compiles_with_same_mass_properties(spec, body_name, theta, result):
    MON.hit("spec_compiles_with_same_mass_properties")
    r = ref.from_theta(theta)
    sw = np.linalg.eigvalsh(r["Sigma_com"])
    margin_rel = 2.0 * sw[0] / (sw[1] + sw[2])      # (A + B - C) / C of the exact body, from the cancellation-free form
    try:
        model = result.compile()
    except Exception as e:  # mujoco raises ValueError / FatalError with the compiler message
        if margin_rel < 1e-9 and ("A + B >= C" in str(e) or "positive eigenvalues" in str(e)):
            # numerically flat body: the compiler's exact comparison of eigenvalues it computed to ~1e-12 cannot decide
            MON.notes["skipped_compile_degenerate"] = True
            return True
        return MON.fail("compile-failed", message=str(e)[:300], margin_rel=float(margin_rel))
    b = model.body(body_name)
    mass = float(model.body_mass[b.id])
    ipos = np.array(model.body_ipos[b.id])
    R = ref.quat_to_mat(model.body_iquat[b.id])
    full = R @ np.diag(model.body_inertia[b.id]) @ R.T
    if abs(mass - r["m"]) > 64 * EPS * r["m"]:
        return MON.fail("mass", got=mass, want=r["m"])
    if np.any(np.abs(ipos - r["com"]) > 64 * EPS * np.maximum(1.0, np.abs(r["com"]))):
        return MON.fail("ipos", got=ipos.tolist(), want=r["com"].tolist())
    c = r["com"]
    scale = np.abs(r["I_origin"]).max() + r["m"] * float(c @ c)
    err = float(np.abs(full - r["I_com"]).max())
    MON.notes["tensor_err_rel"] = err / np.abs(r["I_com"]).max()
    # the compiler's Jacobi eigen-solver (user_util.cc mjuu_eig3) stops once the remaining rotation has
    # cos > 1 - kEigEPS (1e-12), i.e. an angle < 1.5e-6 rad: off-diagonals up to 1.5e-6*(spread of moments) survive
    if err > 256 * EPS * scale + 1e-5 * np.abs(r["I_com"]).max() + 2e-12:
        return MON.fail("inertia-tensor", got=full.tolist(), want=r["I_com"].tolist(), err=err, scale=scale)
    if np.any(np.asarray(model.body_inertia[b.id]) <= 0):
        return MON.fail("principal-moment-not-positive", got=np.asarray(model.body_inertia[b.id]).tolist())
    return True


_INSTR = {}


def _instrument():
    if _INSTR:
        return _INSTR
    import deal
    from .. import pyrepo
    mm = pyrepo.load("mujoco.sysid._src.model_modifier")
    import mujoco
    f = deal.ensure(pi_matches_closed_form, exception=WrongInertialParameters)(mm.pi_from_theta)
    mm.pi_from_theta = deal.ensure(pi_is_physical, exception=NonPhysicalInertia)(f)
    mm.pseudoinertia_from_pi = deal.ensure(pseudoinertia_is_spd, exception=PseudoInertiaNotSPD)(mm.pseudoinertia_from_pi)
    mm.theta_from_pseudoinertia = deal.ensure(theta_reproduces_J, exception=ThetaDoesNotReproduceJ)(mm.theta_from_pseudoinertia)
    mm.apply_body_theta_inertia = deal.ensure(spec_compiles_with_same_mass_properties,
                                              exception=CompiledMassPropertiesDiffer)(mm.apply_body_theta_inertia)

    def round_trip(theta):
        return mm.theta_from_pseudoinertia(mm.pseudoinertia_from_pi(mm.pi_from_theta(theta)))

    _INSTR.update(mm=mm, mujoco=mujoco, round_trip=deal.ensure(round_trip_recovers_theta, exception=RoundTripMismatch)(round_trip))
    return _INSTR


# ---- cases ---------------------------------------------------------------------------------------------------------
def theta_cases(wide):
    from hypothesis import strategies as st

    @st.composite
    def case(draw):
        B = B_WIDE if (wide and draw(st.booleans())) else B_QUICK
        kind = draw(st.sampled_from(["interior", "interior", "interior", "corner", "face", "axis", "near_zero"]))
        fl = st.floats(min_value=-B, max_value=B, allow_nan=False, allow_infinity=False)
        if kind == "interior":
            th = [draw(fl) for _ in range(10)]
        elif kind == "corner":
            th = [draw(st.sampled_from([-B, B, -B, B, 0.0])) for _ in range(10)]
        elif kind == "face":
            th = [draw(st.sampled_from([-B, B])) if draw(st.booleans()) else draw(fl) for _ in range(10)]
        elif kind == "axis":
            i = draw(st.integers(0, 9))
            th = [0.0] * 10
            th[i] = draw(st.one_of(fl, st.sampled_from([-B, B])))
        else:
            th = [draw(st.floats(min_value=-1e-3, max_value=1e-3)) for _ in range(10)]
        chain = draw(st.sampled_from([False, False, False, True]))
        prev = [draw(st.floats(min_value=-2, max_value=2)) for _ in range(10)] if chain else None
        return {"theta": th, "B": B, "kind": kind, "fixture": draw(st.sampled_from(sorted(FIXTURES))), "prev": prev}

    return case()


def _viol(P, sig, det):
    P.count("violations:" + sig)
    if P.counters["violations:" + sig] <= 2:
        P.violation(sig, det)


def _guard(P, c, stage, fn):
    """Run one contracted call; map a contract failure / unexpected exception to a mechanism-level signature."""
    MON.why = None
    MON.notes = {}
    try:
        out = fn()
    except ContractViolation as e:
        _viol(P, "%s:%s" % (e.signature, MON.why), {"case": c, "stage": stage, "notes": MON.notes})
        return None, False
    except np.linalg.LinAlgError as e:
        cond = np.linalg.cond(ref.from_theta(c["theta"])["J"])
        if cond < 1e12:
            _viol(P, "raised:LinAlgError:" + stage, {"case": c, "stage": stage, "message": str(e), "cond": float(cond)})
            return None, False
        P.count("skipped_roundtrip_illconditioned")
        return None, True
    except Exception as e:
        _viol(P, "raised:%s:%s" % (type(e).__name__, stage), {"case": c, "stage": stage, "message": str(e)[:300]})
        return None, False
    for k in ("skipped_spd_illconditioned", "skipped_roundtrip_illconditioned", "skipped_compile_degenerate"):
        if MON.notes.get(k):
            P.count(k)
    for k in ("roundtrip_err_over_eps_cond", "tensor_err_rel", "cond", "reproduce_err_over_eps"):
        if k in MON.notes:
            P.note_max(k, MON.notes[k])
    if "triangle_margin_rel" in MON.notes:
        P.note_max("neg_min_triangle_margin_rel", -MON.notes["triangle_margin_rel"])
    return out, True


def check_case(c, P):
    ins = _instrument()
    mm, mujoco = ins["mm"], ins["mujoco"]
    th = np.array(c["theta"], dtype=np.float64)
    th_in = th.copy()
    ok_all = True
    # clauses 1-3 through the contracted functions, and the composed round trip
    _, ok = _guard(P, c, "round_trip", lambda: ins["round_trip"](th))
    ok_all &= ok
    # clause 4: apply to a body, compile through the wheel's MjSpec
    spec = mujoco.MjSpec.from_string(FIXTURES[c["fixture"]])
    if c["prev"] is not None:
        _, ok = _guard(P, c, "apply_prev", lambda: mm.apply_body_theta_inertia(spec, "b", np.array(c["prev"], dtype=np.float64)))
        ok_all &= ok
    _, ok = _guard(P, c, "apply", lambda: mm.apply_body_theta_inertia(spec, "b", th))
    ok_all &= ok
    if not np.array_equal(th, th_in):
        _viol(P, "theta-argument-mutated", {"case": c})
    pinned = "".join("+" if v == c["B"] else "-" if v == -c["B"] else "." for v in c["theta"])
    key = "%s|B%g|%s|%s|%s" % (c["kind"], c["B"], pinned, c["fixture"], "chained" if c["prev"] is not None else "fresh")
    P.case(key, nontrivial=bool(np.any(th != 0)), sample={"case": c})
    P.count("kind:" + c["kind"])
    if c["prev"] is not None:
        P.count("chained_applications")
    return ok_all


def worker(case):
    import hypothesis
    from hypothesis import HealthCheck, Phase, given, settings
    P = core.Part()
    MON.evals = {}
    seen = set()

    @hypothesis.seed(case["hseed"])
    @settings(max_examples=case["n"], database=None, deadline=None, derandomize=False,
              phases=[Phase.generate], suppress_health_check=list(HealthCheck))
    @given(theta_cases(case["wide"]))
    def drive(c):
        h = json.dumps(c, sort_keys=True)
        if h in seen:
            P.count("duplicate_examples")
            return
        seen.add(h)
        with np.errstate(all="ignore"):
            check_case(c, P)

    drive()
    for k, v in MON.evals.items():
        P.count("contract_evals:" + k, v)
    return P.result()


CONDITIONS = [pi_is_physical, pi_matches_closed_form, pseudoinertia_is_spd, theta_reproduces_J, round_trip_recovers_theta,
              spec_compiles_with_same_mass_properties]


def run(ctx):
    ref.selftest()
    total = ctx.pick(5000, 200000)
    per = ctx.pick(320, 2500)
    cases = [{"hseed": core.stable_hash("C47", ctx.seed, i) % (2 ** 63), "n": per, "wide": not ctx.quick}
             for i in range((total + per - 1) // per)]
    results = par.run("vf.props.c47", "worker", cases, nproc=16, timeout=ctx.pick(600, 3000), chunk=1)
    viols = []
    for r in results:
        if r is None or "crash" in r or "exception" in r:
            ctx.inconclusive("worker failed: %s" % json.dumps(r)[:600])
            continue
        viols += r.pop("violations", [])
        ctx.merge(r)
    first, rest, seen = [], [], set()     # one witness of every signature before the repeats (20 replay files max)
    for v in viols:
        (rest if v["signature"] in seen else first).append(v)
        seen.add(v["signature"])
    for v in first + rest:
        ctx.violation(v["signature"], v["detail"])
    for cond in CONDITIONS:
        if ctx.counters.get("contract_evals:" + cond.__name__, 0) == 0:
            ctx.inconclusive("contract %s never evaluated" % cond.__name__)
    n = max(1, ctx.evaluations)
    if ctx.counters.get("skipped_roundtrip_illconditioned", 0) > 0.5 * n:
        ctx.inconclusive("more than half of the vectors too ill-conditioned for the round-trip clause")
    if ctx.counters.get("skipped_compile_degenerate", 0) > 0.05 * n:
        ctx.inconclusive("too many numerically flat bodies for the compile clause")
    if ctx.counters.get("skipped_spd_illconditioned", 0) > 0.2 * n:
        ctx.inconclusive("too many vectors too ill-conditioned for the definiteness clause")
    ctx.min_nontrivial = ctx.pick(1000, 20000)


def replay(ctx, path):
    rec = json.load(open(path))
    c = rec["detail"]["case"]
    MON.evals = {}
    with np.errstate(all="ignore"):
        ok = check_case(c, ctx)
    print("replayed case:", json.dumps(c), "-> all clauses held" if ok else "-> violated")
    print("contract evaluations:", MON.evals)
    ctx.min_nontrivial = 0
